(* C10 proofs, part 3: the wire format.  Header bytes, trigger lists (NUL-terminated names), std::set
   normal form, the store RPC and the fetch RPC carry value, deadline and trigger set unchanged on the
   exact domain: key non-empty, every trigger name non-empty and NUL-free, deadline in int64, frame
   shorter than 2^32.  Outside that domain the faithful model refutes the round trip (witnesses below). *)
From CppcmsV Require Import Base.Tac C10.Defs C10.Proofs.
Local Open Scope N_scope.

Definition nul_free (x : bytes) : Prop := ~ In 0 x.
Definition good_name (x : bytes) : Prop := x <> [] /\ nul_free x.

(* ---------- header: 40 bytes, ten little-endian words ---------- *)
Definition hdr_ok (h : hdr) : Prop :=
  h_op h < W32 /\ h_size h < W32 /\ h_f0 h < W32 /\ h_f1 h < W32 /\ h_u0 h < W32 /\ h_u1 h < W32 /\
  h_u2 h < W32 /\ h_u3 h < W32 /\ h_u4 h < W32 /\ h_u5 h < W32.

Lemma de32_le32 v : v < W32 ->
  de32 (v mod 256) ((v / 256) mod 256) ((v / 65536) mod 256) ((v / 16777216) mod 256) = v.
Proof. unfold W32, de32. intros H. lia. Qed.

Lemma hdr_bytes_length h : length (hdr_bytes h) = 40%nat.
Proof. reflexivity. Qed.

Lemma hdr_roundtrip h : hdr_ok h -> hdr_parse (hdr_bytes h) = Some h.
Proof.
  destruct h as [a b c d e f g i j k]. unfold hdr_ok. cbn [h_op h_size h_f0 h_f1 h_u0 h_u1 h_u2 h_u3 h_u4 h_u5].
  intros (Ha & Hb & Hc & Hd & He & Hf & Hg & Hi & Hj & Hk).
  unfold hdr_parse, hdr_bytes, le32. cbn [h_op h_size h_f0 h_f1 h_u0 h_u1 h_u2 h_u3 h_u4 h_u5 app length Nat.eqb words].
  rewrite !de32_le32 by assumption. reflexivity.
Qed.

(* ---------- trigger list on the wire ---------- *)
Lemma enc_trigs_cons x t : enc_trigs (x :: t) = x ++ 0 :: enc_trigs t.
Proof. unfold enc_trigs. cbn [flat_map]. rewrite <- app_assoc. reflexivity. Qed.

Lemma load_one cur x r :
  nul_free x -> rev cur ++ x <> [] ->
  load_triggers cur (x ++ 0 :: r) =
    match load_triggers [] r with Some t => Some ((rev cur ++ x) :: t) | None => None end.
Proof.
  revert cur. induction x as [|a x IH]; intros cur NF NE.
  - cbn [app load_triggers]. change (0 =? 0) with true. cbv iota.
    rewrite app_nil_r in *. destruct cur as [|b cur]; [contradiction NE; reflexivity|]. reflexivity.
  - cbn [app load_triggers].
    assert (a <> 0) as Ha by (intros E; apply NF; left; exact E).
    apply N.eqb_neq in Ha. rewrite Ha.
    rewrite IH.
    + cbn [rev]. rewrite <- app_assoc. reflexivity.
    + intros H. apply NF. right. exact H.
    + cbn [rev]. rewrite <- app_assoc. cbn [app]. intros E. apply app_eq_nil in E. destruct E as [_ E]. discriminate.
Qed.

Lemma load_enc_trigs t : Forall good_name t -> load_triggers [] (enc_trigs t) = Some t.
Proof.
  induction 1 as [|x t [NE NF] _ IH].
  - reflexivity.
  - rewrite enc_trigs_cons, load_one; [rewrite IH; reflexivity|exact NF|exact NE].
Qed.

Lemma walk_one cur x r :
  nul_free x -> walk_triggers cur (x ++ 0 :: r) = (rev cur ++ x) :: walk_triggers [] r.
Proof.
  revert cur. induction x as [|a x IH]; intros cur NF.
  - cbn [app walk_triggers]. change (0 =? 0) with true. cbv iota. rewrite app_nil_r. reflexivity.
  - cbn [app walk_triggers].
    assert (a <> 0) as Ha by (intros E; apply NF; left; exact E).
    apply N.eqb_neq in Ha. rewrite Ha. rewrite IH.
    + cbn [rev]. rewrite <- app_assoc. reflexivity.
    + intros H. apply NF. right. exact H.
Qed.

Lemma walk_enc_trigs t : Forall nul_free t -> walk_triggers [] (enc_trigs t) = t.
Proof.
  induction 1 as [|x t NF _ IH].
  - reflexivity.
  - rewrite enc_trigs_cons, walk_one by exact NF. rewrite IH. reflexivity.
Qed.

(* ---------- std::set<std::string> normal form ---------- *)
Definition hd_lt (x : bytes) (s : list bytes) : Prop :=
  match s with [] => True | y :: _ => bltb x y = true end.
Fixpoint ssorted (s : list bytes) : Prop :=
  match s with [] => True | x :: r => hd_lt x r /\ ssorted r end.

Lemma sins_sorted x s : ssorted s -> ssorted (sins x s).
Proof.
  induction s as [|y r IH]; intros S.
  - cbn. tauto.
  - destruct S as [H1 H2]. cbn [sins].
    destruct (bltb x y) eqn:E1.
    + cbn [ssorted hd_lt]. tauto.
    + destruct (bltb y x) eqn:E2.
      * cbn [ssorted]. split; [|apply IH; exact H2].
        destruct r as [|z r1]; [cbn; exact E2|].
        cbn [sins]. cbn [hd_lt] in H1.
        destruct (bltb x z); [cbn; exact E2|]. destruct (bltb z x); cbn; exact H1.
      * cbn [ssorted]. tauto.
Qed.
Lemma mkset_sorted l : ssorted (mkset l).
Proof. induction l as [|x l IH]; [exact I|]. cbn [mkset fold_right]. apply sins_sorted. exact IH. Qed.
Lemma mkset_id s : ssorted s -> mkset s = s.
Proof.
  induction s as [|x r IH]; intros S; [reflexivity|]. destruct S as [H1 H2].
  cbn [mkset fold_right]. fold (mkset r). rewrite IH by exact H2.
  destruct r as [|y r1]; [reflexivity|]. cbn [hd_lt] in H1. cbn [sins]. rewrite H1. reflexivity.
Qed.
Lemma mkset_idem l : mkset (mkset l) = mkset l.
Proof. apply mkset_id, mkset_sorted. Qed.

(* membership: sins / mkset do not invent or lose names *)
Lemma bltb_irrefl a : bltb a a = false.
Proof. induction a as [|x a IH]; [reflexivity|]. cbn [bltb]. rewrite N.ltb_irrefl. exact IH. Qed.
Lemma bltb_total a b : bltb a b = false -> bltb b a = false -> a = b.
Proof.
  revert b. induction a as [|x a IH]; intros [|y b]; cbn [bltb]; intros H1 H2; try reflexivity; try discriminate.
  destruct (x <? y) eqn:E1; [discriminate|]. destruct (y <? x) eqn:E2; [discriminate|].
  apply N.ltb_ge in E1. apply N.ltb_ge in E2. assert (x = y) by lia. subst. f_equal. apply IH; assumption.
Qed.
Lemma sins_In x s y : In y (sins x s) <-> y = x \/ In y s.
Proof.
  induction s as [|z r IH]; cbn [sins].
  - cbn. intuition congruence.
  - destruct (bltb x z) eqn:E1; [cbn; intuition congruence|].
    destruct (bltb z x) eqn:E2.
    + cbn [In]. rewrite IH. intuition congruence.
    + assert (x = z) by (apply bltb_total; assumption). subst. cbn [In]. intuition congruence.
Qed.
Lemma mkset_In l y : In y (mkset l) <-> In y l.
Proof.
  induction l as [|x l IH]; [reflexivity|]. cbn [mkset fold_right]. fold (mkset l).
  rewrite sins_In, IH. cbn [In]. intuition congruence.
Qed.
Lemma mkset_Forall (P : bytes -> Prop) l : Forall P l -> Forall P (mkset l).
Proof. rewrite !Forall_forall. intros H y Hy. apply H. apply mkset_In. exact Hy. Qed.

(* ---------- the store RPC ---------- *)
Lemma lenN_app (a b : bytes) : lenN (a ++ b) = lenN a + lenN b.
Proof. unfold lenN. rewrite app_length. lia. Qed.
Lemma lenN_nonempty (a : bytes) : a <> [] -> (lenN a =? 0) = false.
Proof. destruct a; [congruence|]. intros _. apply N.eqb_neq. unfold lenN. cbn [length]. lia. Qed.

(* the frame tcp_cache::store builds for a (sorted) trigger set, handled by the server: done, and the cache
   has stored exactly key, value, trigger set, deadline *)
Lemma store_rpc now k v trg dl c :
  k <> [] -> Forall good_name trg -> ssorted trg -> int64 dl ->
  lenN (k ++ v ++ enc_trigs trg) < W32 ->
  srv_handle now (fst (enc_store k v trg dl)) (snd (enc_store k v trg dl)) c =
    (hdr0 op_done, [], c_store k v trg dl None c).
Proof.
  intros NE G S I64 LEN.
  unfold srv_handle, enc_store. cbn [fst snd h_op].
  change (op_store =? op_fetch) with false. change (op_store =? op_rise) with false.
  change (op_store =? op_clear) with false. change (op_store =? op_store) with true. cbv iota.
  unfold srv_store. cbn [h_u0 h_u1 h_u2 h_u3 h_u4 h_size].
  rewrite !lenN_app in *.
  rewrite N.add_assoc in *. rewrite N.eqb_refl, (lenN_nonempty k NE). cbn [negb orb].
  rewrite <- lenN_app, app_assoc, drop_app, take_all, (load_enc_trigs trg G).
  rewrite <- app_assoc, take_app, drop_app, take_app.
  rewrite (mkset_id trg S), (z64_roundtrip dl I64). reflexivity.
Qed.

(* the answer to a fetch that transfers data: value, trigger set, deadline and generation as the server holds them *)
Lemma fetch_data_roundtrip now k g want tif c e :
  c_fetch now k c = Some e -> (tif && (e_gen e =? g)) = false ->
  int64 (e_dl e) -> Forall nul_free (e_trg e) ->
  fetch_answer now k g want tif c = FData (e_val e) (if want then e_trg e else []) (e_dl e) (e_gen e).
Proof.
  intros F U I64 NF. unfold fetch_answer. rewrite F, U.
  rewrite (z64_roundtrip _ I64), (walk_enc_trigs _ NF). reflexivity.
Qed.

(* ---------- outside the exact domain the round trip fails (faithful to the code) ---------- *)
(* the empty trigger name: the server refuses the whole store *)
Lemma store_empty_name_refused :
  exists k v trg dl c now,
    fst (fst (srv_handle now (fst (enc_store k v trg dl)) (snd (enc_store k v trg dl)) c)) = hdr0 op_error /\
    snd (srv_handle now (fst (enc_store k v trg dl)) (snd (enc_store k v trg dl)) c) = c.
Proof. exists [107], [118], [[]], 2000%Z, c_empty, 1000%Z. vm_compute. split; reflexivity. Qed.
(* a name containing NUL is stored as two names *)
Lemma store_nul_name_split :
  exists k v trg dl now,
    snd (srv_handle now (fst (enc_store k v trg dl)) (snd (enc_store k v trg dl)) c_empty) <>
    c_store k v trg dl None c_empty.
Proof. exists [107], [118], [[97; 0; 98]], 2000%Z, 1000%Z. vm_compute. intros H. discriminate H. Qed.
(* the empty key is refused *)
Lemma store_empty_key_refused :
  exists v dl now,
    fst (fst (srv_handle now (fst (enc_store [] v [] dl)) (snd (enc_store [] v [] dl)) c_empty)) = hdr0 op_error.
Proof. exists [118], 2000%Z, 1000%Z. vm_compute. reflexivity. Qed.
