(* C10 proofs, part 16: the atomic RPC of the world model (Defs.rpc) IS messenger::transmit over any schedules of short
   transfers, for the frames the client encoders build: this is what "every RPC is one atomic server step" stands on. *)
From CppcmsV Require Import Base.Tac C10.Defs C10.Proofs C10.Codec C10.NetDefs C10.NetProofs.
Local Open Scope N_scope.

Lemma rpc_is_transmit w i c h data pad ws1 rs1 up ws2 rs2 rh rp w1 :
  nth_error (w_srv w) i = Some c ->
  positive_sched ws1 -> positive_sched rs1 -> hdr_ok h -> h_size h = lenN data ->
  rpc w i (h, data) = (rh, rp, w1) -> hdr_ok rh ->
  exists c1, transmit ws1 rs1 up ws2 rs2 h (data ++ pad) (w_now w) c = (TxReply rh rp, c1) /\
             w1 = mkW (upd i c1 (w_srv w)) (w_cli w) (w_now w).
Proof.
  intros Ei P1 P2 OK SZ R OKR. unfold rpc in R. rewrite Ei in R. cbn [fst snd] in R.
  destruct (srv_handle (w_now w) h data c) as [[h2 p2] c1] eqn:S. inversion R; subst h2 p2 w1; clear R.
  exists c1. split; [|reflexivity].
  apply transmit_schedule_independent; assumption.
Qed.

(* the request frames of the client encoders satisfy the hypotheses (sizes below 2^32) *)
Lemma enc_fetch_frame k g want tif :
  lenN k < W32 -> g < W64 ->
  hdr_ok (fst (enc_fetch k g want tif)) /\ h_size (fst (enc_fetch k g want tif)) = lenN (snd (enc_fetch k g want tif)) /\
  request_op (h_op (fst (enc_fetch k g want tif))).
Proof.
  intros L G. unfold enc_fetch, hdr_ok, request_op. cbn [fst snd h_op h_size h_f0 h_f1 h_u0 h_u1 h_u2 h_u3 h_u4 h_u5].
  unfold op_fetch, W32, W64 in *. destruct tif, want; repeat split; try lia.
Qed.
Lemma enc_rise_frame t :
  lenN t < W32 ->
  hdr_ok (fst (enc_rise t)) /\ h_size (fst (enc_rise t)) = lenN (snd (enc_rise t)) /\ request_op (h_op (fst (enc_rise t))).
Proof.
  intros L. unfold enc_rise, hdr_ok, request_op. cbn [fst snd h_op h_size h_f0 h_f1 h_u0 h_u1 h_u2 h_u3 h_u4 h_u5].
  unfold op_rise, W32 in *. repeat split; try lia.
Qed.
Lemma enc_clear_stats_frame :
  (hdr_ok (fst enc_clear) /\ h_size (fst enc_clear) = lenN (snd enc_clear) /\ request_op (h_op (fst enc_clear))) /\
  (hdr_ok (fst enc_stats) /\ h_size (fst enc_stats) = lenN (snd enc_stats) /\ request_op (h_op (fst enc_stats))).
Proof. vm_compute. repeat split; try reflexivity; discriminate. Qed.
