(* C10 proofs, part 4: completed operations take effect on the responsible server(s), so that, with
   fetch_current, a later fetch by ANY node (whatever its L1 holds) sees them: store, rise, clear.
   Also: server_of is below the number of servers. *)
From CppcmsV Require Import Base.Tac C10.Defs C10.Proofs C10.Coherence C10.Codec.
Local Open Scope N_scope.

(* ---------- key spread ---------- *)
Lemma server_of_lt n k : (0 < n)%nat -> (server_of n k < n)%nat.
Proof.
  intros H. unfold server_of. destruct (Nat.eqb_spec n 1) as [E|E]; [lia|].
  assert (hash_raw k mod N.of_nat n < N.of_nat n) by (apply N.mod_lt; lia). lia.
Qed.
Lemma server_of_one k : server_of 1 k = 0%nat.
Proof. reflexivity. Qed.

(* ---------- frames of on_l1 and rpc ---------- *)
Lemma on_l1_frame w c f w0 : on_l1 w c f = Some w0 -> w_srv w0 = w_srv w /\ w_now w0 = w_now w.
Proof.
  unfold on_l1. destruct (nth_error (w_cli w) c) as [[l|]|]; intros H; inversion H; subst; split; reflexivity.
Qed.

Lemma rpc_at w i rq c :
  nth_error (w_srv w) i = Some c ->
  rpc w i rq = (fst (fst (srv_handle (w_now w) (fst rq) (snd rq) c)),
                snd (fst (srv_handle (w_now w) (fst rq) (snd rq) c)),
                mkW (upd i (snd (srv_handle (w_now w) (fst rq) (snd rq) c)) (w_srv w)) (w_cli w) (w_now w)).
Proof. intros E. unfold rpc. rewrite E. destruct (srv_handle _ _ _ c) as [[h p] c1]. reflexivity. Qed.

(* ---------- store ---------- *)
Definition store_ok (k v : bytes) (trg : list bytes) (dl : Z) : Prop :=
  k <> [] /\ Forall good_name trg /\ int64 dl /\ lenN (k ++ v ++ enc_trigs (mkset trg)) < W32.

Lemma store_takes_effect w c k v trg dl w1 s :
  store_ok k v trg dl ->
  step w (OStore c k v trg dl) = (ObsNone, w1) ->
  nth_error (w_srv w) (server_of (nsrv w) k) = Some s ->
  nsrv w1 = nsrv w /\ w_now w1 = w_now w /\
  nth_error (w_srv w1) (server_of (nsrv w) k) = Some (c_store k v (mkset trg) dl None s).
Proof.
  intros (NE & G & I64 & LEN) H Es. cbn [step] in H.
  destruct (on_l1 w c (c_remove k)) as [w0|] eqn:E0; [|discriminate].
  destruct (on_l1_frame _ _ _ _ E0) as [S0 N0].
  assert (nsrv w0 = nsrv w) as NS by (unfold nsrv; rewrite S0; reflexivity).
  rewrite NS in H. rewrite <- S0 in Es.
  rewrite (rpc_at w0 _ _ s Es) in H.
  rewrite (store_rpc (w_now w0) k v (mkset trg) dl s NE (mkset_Forall _ _ G) (mkset_sorted trg) I64 LEN) in H.
  cbn [fst snd] in H. inversion H; subst w1; clear H.
  unfold nsrv. cbn [w_srv w_now]. rewrite upd_length. split; [rewrite S0; reflexivity|]. split; [exact N0|].
  apply nth_upd_eq. apply nth_error_Some. unfold nsrv in Es. congruence.
Qed.

Lemma c_fetch_store now k v trg dl s :
  c_fetch now k (c_store k v trg dl None s) =
  if (dl <? now)%Z then None else Some (mkE v (sins k trg) dl (c_gen s)).
Proof. unfold c_fetch, c_store. cbn [c_items a_find]. rewrite beq_refl. reflexivity. Qed.

(* operations that only read the servers *)
Definition quiet (o : op) : Prop :=
  match o with OFetch _ _ _ | OEvict _ _ | OStats _ => True | _ => False end.

Lemma srv_stats now c : snd (srv_handle now (fst enc_stats) (snd enc_stats) c) = c.
Proof. unfold srv_handle, enc_stats. cbn [fst snd h_op hdr0]. change (op_stats =? op_fetch) with false.
  change (op_stats =? op_rise) with false. change (op_stats =? op_clear) with false.
  change (op_stats =? op_store) with false. change (op_stats =? op_stats) with true. cbv iota.
  destruct (c_stats c). reflexivity. Qed.

Lemma rpc_stats_keeps w i h p w1 : rpc w i enc_stats = (h, p, w1) -> w1 = w.
Proof.
  intros H. destruct (nth_error (w_srv w) i) as [c|] eqn:E.
  - rewrite (rpc_at w i _ c E) in H. rewrite srv_stats in H. inversion H. rewrite upd_same by exact E.
    destruct w. reflexivity.
  - unfold rpc in H. rewrite E in H. inversion H. reflexivity.
Qed.
Lemma stats_sum_keeps n w k t w1 : stats_sum n w = (k, t, w1) -> w1 = w.
Proof.
  revert k t w1. induction n as [|m IH]; intros k t w1 H; cbn [stats_sum] in H.
  - inversion H. reflexivity.
  - destruct (stats_sum m w) as [[k0 t0] w0] eqn:E0. specialize (IH _ _ _ eq_refl). subst w0.
    destruct (rpc w m enc_stats) as [[h p] w2] eqn:E. apply rpc_stats_keeps in E. subst w2.
    destruct (h_op h =? op_out_stats); inversion H; reflexivity.
Qed.

Lemma quiet_keeps_servers w o x w1 :
  reachable w -> quiet o -> step w o = (x, w1) -> w_srv w1 = w_srv w /\ w_now w1 = w_now w.
Proof.
  intros R Q H. destruct o as [c k v trg dl|c k tags|c t|c|c k|c|d|s h p]; try contradiction.
  - eapply fetch_keeps_servers; eassumption.
  - cbn [step] in H. destruct (on_l1 w c (c_remove k)) as [w0|] eqn:E0.
    + inversion H; subst. eapply on_l1_frame. exact E0.
    + inversion H; subst. split; reflexivity.
  - cbn [step] in H. destruct (nth_error (w_cli w) c).
    + destruct (stats_sum (nsrv w) w) as [[k t] w0] eqn:E. apply stats_sum_keeps in E. inversion H; subst. split; reflexivity.
    + inversion H; subst. split; reflexivity.
Qed.

Lemma quiet_run_keeps w h :
  reachable w -> Forall quiet h -> w_srv (snd (run w h)) = w_srv w /\ w_now (snd (run w h)) = w_now w.
Proof.
  revert w. induction h as [|o r IH]; intros w R Q; cbn [run]; [split; reflexivity|].
  inversion Q as [|? ? Qo Qr]; subst.
  destruct (step w o) as [x w1] eqn:E.
  destruct (quiet_keeps_servers w o x w1 R Qo E) as [S1 N1].
  assert (reachable w1) as R1 by (replace w1 with (snd (step w o)) by (rewrite E; reflexivity); constructor; exact R).
  specialize (IH w1 R1 Qr). destruct (run w1 r) as [xs w2]. cbn [snd] in *. destruct IH. split; congruence.
Qed.

(* after any node completed a store of (k,v,dl), and any number of reads by any nodes, a fetch of k by any
   node returns v with deadline dl (or nothing if dl is already in the past): never an older value *)
Lemma store_then_fetch w c k v trg dl w1 h c2 tags r w3 :
  reachable w -> (0 < nsrv w)%nat -> store_ok k v trg dl ->
  step w (OStore c k v trg dl) = (ObsNone, w1) ->
  Forall quiet h ->
  step (snd (run w1 h)) (OFetch c2 k tags) = (ObsFetch r, w3) ->
  if (dl <? w_now w)%Z then r = None else exists t, r = Some (v, t, dl).
Proof.
  intros R NZ OK HS Q HF.
  assert (exists s, nth_error (w_srv w) (server_of (nsrv w) k) = Some s) as [s Es].
  { destruct (nth_error (w_srv w) (server_of (nsrv w) k)) eqn:E; [eexists; reflexivity|].
    apply nth_error_None in E. pose proof (server_of_lt (nsrv w) k NZ). unfold nsrv in *. lia. }
  destruct (store_takes_effect w c k v trg dl w1 s OK HS Es) as (NS & NW & E1).
  assert (reachable w1) as R1 by (replace w1 with (snd (step w (OStore c k v trg dl))) by (rewrite HS; reflexivity); constructor; exact R).
  destruct (quiet_run_keeps w1 h R1 Q) as [S2 N2].
  pose proof (run_reachable w1 h R1) as R2.
  pose proof (fetch_current_reachable _ _ _ _ _ _ R2 HF) as C. unfold current in C.
  unfold nsrv in *. rewrite S2, N2, NS, E1, NW, c_fetch_store in C.
  destruct (dl <? w_now w)%Z.
  - destruct r as [[[v1 t1] d1]|]; [contradiction|reflexivity].
  - destruct r as [[[v1 t1] d1]|]; [|contradiction]. cbn [e_val e_dl] in C. destruct C; subst. eexists. reflexivity.
Qed.

(* ---------- rise and clear: broadcast ---------- *)
Lemma broadcast_char n w rq f :
  (forall now c, snd (srv_handle now (fst rq) (snd rq) c) = f c) -> (n <= nsrv w)%nat ->
  w_cli (broadcast n w rq) = w_cli w /\ w_now (broadcast n w rq) = w_now w /\
  length (w_srv (broadcast n w rq)) = length (w_srv w) /\
  forall i, nth_error (w_srv (broadcast n w rq)) i =
            if (i <? n)%nat then option_map f (nth_error (w_srv w) i) else nth_error (w_srv w) i.
Proof.
  intros F. induction n as [|m IH]; intros L; cbn [broadcast].
  - repeat split.
  - destruct (IH ltac:(lia)) as (C1 & N1 & L1 & A1).
    set (w0 := broadcast m w rq) in *.
    assert (exists c, nth_error (w_srv w) m = Some c) as [c Ec].
    { destruct (nth_error (w_srv w) m) eqn:E; [eexists; reflexivity|]. apply nth_error_None in E. unfold nsrv in L. lia. }
    assert (nth_error (w_srv w0) m = Some c) as Ec0.
    { rewrite A1. destruct (Nat.ltb_spec m m); [lia|exact Ec]. }
    rewrite (rpc_at w0 m rq c Ec0). rewrite F. cbn [w_cli w_now w_srv]. rewrite upd_length.
    split; [exact C1|]. split; [exact N1|]. split; [exact L1|].
    intros i. destruct (Nat.eq_dec m i) as [E|E].
    + subst i. rewrite nth_upd_eq by (apply nth_error_Some; congruence).
      destruct (Nat.ltb_spec m (S m)); [|lia]. rewrite Ec. reflexivity.
    + rewrite nth_upd_neq by exact E. rewrite A1.
      destruct (Nat.ltb_spec i m), (Nat.ltb_spec i (S m)); try lia; reflexivity.
Qed.

Lemma srv_rise now t c : snd (srv_handle now (fst (enc_rise t)) (snd (enc_rise t)) c) = c_rise t c.
Proof. reflexivity. Qed.
Lemma srv_clear now c : snd (srv_handle now (fst enc_clear) (snd enc_clear) c) = c_clear c.
Proof. reflexivity. Qed.

(* after a completed rise of t no server holds a record depending on t *)
Lemma rise_takes_effect w c t w1 :
  step w (ORise c t) = (ObsNone, w1) ->
  nsrv w1 = nsrv w /\ w_now w1 = w_now w /\
  forall i s1 k e, nth_error (w_srv w1) i = Some s1 -> In (k, e) (c_items s1) -> smem t (e_trg e) = false.
Proof.
  intros H. cbn [step] in H.
  destruct (on_l1 w c (c_rise t)) as [w0|] eqn:E0; [|discriminate].
  destruct (on_l1_frame _ _ _ _ E0) as [S0 N0].
  inversion H; subst w1; clear H.
  destruct (broadcast_char (nsrv w0) w0 (enc_rise t) (c_rise t) (fun now c => srv_rise now t c) (le_n _)) as (C1 & N1 & L1 & A1).
  unfold nsrv in *. split; [congruence|]. split; [congruence|].
  intros i s1 k e Hi Hin. rewrite A1 in Hi.
  assert (i < length (w_srv w0))%nat as Li.
  { rewrite <- L1. apply nth_error_Some. rewrite A1. congruence. }
  destruct (Nat.ltb_spec i (length (w_srv w0))); [|lia].
  destruct (nth_error (w_srv w0) i) as [s|]; [|discriminate]. cbn [option_map] in Hi. inversion Hi; subst s1.
  cbn [c_rise c_items] in Hin. apply filter_In in Hin. destruct Hin as [_ Hn]. cbn [snd] in Hn.
  apply negb_true_iff in Hn. exact Hn.
Qed.

(* after a completed rise of t (and any reads), whatever a fetch by any node returns is a record that the
   responsible server holds and that does not depend on t *)
Lemma rise_then_fetch w c t w1 h c2 k tags v tt dl w3 :
  reachable w -> step w (ORise c t) = (ObsNone, w1) -> Forall quiet h ->
  step (snd (run w1 h)) (OFetch c2 k tags) = (ObsFetch (Some (v, tt, dl)), w3) ->
  exists s e, nth_error (w_srv w1) (server_of (nsrv w1) k) = Some s /\ In (k, e) (c_items s) /\
              smem t (e_trg e) = false /\ v = e_val e /\ dl = e_dl e.
Proof.
  intros R HR Q HF.
  destruct (rise_takes_effect w c t w1 HR) as (NS & NW & A).
  assert (reachable w1) as R1 by (replace w1 with (snd (step w (ORise c t))) by (rewrite HR; reflexivity); constructor; exact R).
  destruct (quiet_run_keeps w1 h R1 Q) as [S2 N2].
  pose proof (run_reachable w1 h R1) as R2.
  pose proof (fetch_current_reachable _ _ _ _ _ _ R2 HF) as C. unfold current in C.
  unfold nsrv in *. rewrite S2, N2 in C.
  destruct (nth_error (w_srv w1) (server_of (length (w_srv w1)) k)) as [s|] eqn:Es; [|discriminate].
  destruct (c_fetch (w_now w1) k s) as [e|] eqn:Ef; [|contradiction].
  exists s, e. split; [reflexivity|]. pose proof (c_fetch_In _ _ _ _ Ef) as Hin.
  split; [exact Hin|]. split; [eapply A; eassumption|]. exact C.
Qed.

(* after a completed clear every server is empty, and (after any reads) every fetch by any node finds nothing *)
Lemma clear_takes_effect w c w1 :
  step w (OClear c) = (ObsNone, w1) ->
  nsrv w1 = nsrv w /\ w_now w1 = w_now w /\
  forall i s1, nth_error (w_srv w1) i = Some s1 -> c_items s1 = [].
Proof.
  intros H. cbn [step] in H.
  destruct (on_l1 w c c_clear) as [w0|] eqn:E0; [|discriminate].
  destruct (on_l1_frame _ _ _ _ E0) as [S0 N0].
  inversion H; subst w1; clear H.
  destruct (broadcast_char (nsrv w0) w0 enc_clear c_clear srv_clear (le_n _)) as (C1 & N1 & L1 & A1).
  unfold nsrv in *. split; [congruence|]. split; [congruence|].
  intros i s1 Hi. rewrite A1 in Hi.
  assert (i < length (w_srv w0))%nat as Li.
  { rewrite <- L1. apply nth_error_Some. rewrite A1. congruence. }
  destruct (Nat.ltb_spec i (length (w_srv w0))); [|lia].
  destruct (nth_error (w_srv w0) i) as [s|]; [|discriminate]. cbn [option_map] in Hi. inversion Hi. reflexivity.
Qed.

Lemma clear_then_fetch w c w1 h c2 k tags r w3 :
  reachable w -> step w (OClear c) = (ObsNone, w1) -> Forall quiet h ->
  step (snd (run w1 h)) (OFetch c2 k tags) = (ObsFetch r, w3) -> r = None.
Proof.
  intros R HC Q HF.
  destruct (clear_takes_effect w c w1 HC) as (NS & NW & A).
  assert (reachable w1) as R1 by (replace w1 with (snd (step w (OClear c))) by (rewrite HC; reflexivity); constructor; exact R).
  destruct (quiet_run_keeps w1 h R1 Q) as [S2 N2].
  pose proof (run_reachable w1 h R1) as R2.
  pose proof (fetch_current_reachable _ _ _ _ _ _ R2 HF) as C. unfold current in C.
  unfold nsrv in *. rewrite S2, N2 in C.
  destruct (nth_error (w_srv w1) (server_of (length (w_srv w1)) k)) as [s|] eqn:Es; [|exact C].
  unfold c_fetch in C. rewrite (A _ _ Es) in C. cbn [a_find] in C.
  destruct r as [[[v1 t1] d1]|]; [contradiction|reflexivity].
Qed.

(* ---------- the generation handshake is sound: an L1 record whose generation is the generation of the
   responsible server's current record for that key carries that record's value and deadline ---------- *)
Lemma l1_coherent_reachable w j l k e s e1 :
  reachable w ->
  nth_error (w_cli w) j = Some (Some l) -> In (k, e) (c_items l) ->
  nth_error (w_srv w) (server_of (nsrv w) k) = Some s -> In (k, e1) (c_items s) ->
  e_gen e = e_gen e1 -> e_val e = e_val e1 /\ e_dl e = e_dl e1.
Proof.
  intros R Hj Hl Hs Hs1 G.
  destruct (gen_injective_reachable w [] (server_of (nsrv w) k) k e k e1 R) as (_ & A & B).
  - right. exists j, l. repeat split; assumption.
  - cbn [run snd]. left. exists s. split; assumption.
  - exact G.
  - split; assumption.
Qed.
