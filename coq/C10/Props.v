(* C10 -- networked cache with local L1 never serves data another node replaced.
   This file holds only the property theorems, each closed by `exact <lemma>`; the proofs are in
   Proofs.v (cache, server step, fetch RPC), Coherence.v (world invariant over all histories), Codec.v (wire
   format), Effects.v (completed operations take effect), Refine.v (refinement of one shared cache), Link.v (hash
   step regenerated from the source).
   Model: coq/C10/Defs.v (cache_over_ip + tcp_cache codec + tcp_cache_service::session + mem_cache(limit 0)
   + tcp_connector::hash).  `reachable w` = w is obtained from an initial world (any number of servers, any
   number of clients each with or without L1) by ANY finite sequence of store / fetch / rise / clear /
   evict / stats / clock tick / raw foreign frame operations by any clients in any order.
   `quiet o` = o is a fetch, an L1 eviction or a stats call (operations that only read the servers). *)
From CppcmsV Require Import Base.Tac Base.CSem C10.Defs C10.Proofs C10.Coherence C10.Codec C10.Effects C10.Refine C10.Placement C10.Triggers C10.L1Triggers C10.Link C10.Wrap C10.Restart C10.NetDefs C10.NetProofs C10.NetDown C10.Order C10.TrigExact C10.NetRpc C10.SchedDefs C10.SchedProofs
  gen.Gen_tcphash gen.Gen_tcpproto.
Local Open Scope N_scope.

(* ---------------------------------------------------------------------------------------------------------
   1. fetch_current: in every reachable world a fetch of key k by any client c (with or without L1, with or
      without trigger set requested) answers exactly what the responsible server holds unexpired at that
      moment: found iff the server finds it, with the server's value and deadline - whatever the L1 of the
      fetching node holds. *)
Theorem fetch_current : forall w c k tags r w1,
  reachable w -> step w (OFetch c k tags) = (ObsFetch r, w1) -> current w k r.
Proof. exact fetch_current_reachable. Qed.
Print Assumptions fetch_current.

(* a fetch changes no server and not the clock (so `current w k r` is also about the world after the fetch) *)
Theorem fetch_changes_no_server : forall w c k tags x w1,
  reachable w -> step w (OFetch c k tags) = (x, w1) -> w_srv w1 = w_srv w /\ w_now w1 = w_now w.
Proof. exact fetch_keeps_servers. Qed.
Print Assumptions fetch_changes_no_server.

(* after ANY node completed a store of (k,v,dl) - on the exact domain of the wire format, store_ok - and any
   number of reads by any nodes, a fetch of k by ANY node returns v with deadline dl (nothing if dl is
   already past): never the older value, even if it still sits in that node's L1 *)
Theorem no_older_value_after_store : forall w c k v trg dl w1 h c2 tags r w3,
  reachable w -> (0 < nsrv w)%nat -> store_ok k v trg dl ->
  step w (OStore c k v trg dl) = (ObsNone, w1) ->
  Forall quiet h ->
  step (snd (run w1 h)) (OFetch c2 k tags) = (ObsFetch r, w3) ->
  if (dl <? w_now w)%Z then r = None else exists t, r = Some (v, t, dl).
Proof. exact store_then_fetch. Qed.
Print Assumptions no_older_value_after_store.

(* after any node completed a rise of trigger t no server holds a record depending on t, and whatever a later
   fetch by any node returns is a record of the responsible server that does not depend on t *)
Theorem rise_reaches_every_server : forall w c t w1,
  step w (ORise c t) = (ObsNone, w1) ->
  nsrv w1 = nsrv w /\ w_now w1 = w_now w /\
  forall i s1 k e, nth_error (w_srv w1) i = Some s1 -> In (k, e) (c_items s1) -> smem t (e_trg e) = false.
Proof. exact rise_takes_effect. Qed.
Print Assumptions rise_reaches_every_server.
Theorem no_raised_value_after_rise : forall w c t w1 h c2 k tags v tt dl w3,
  reachable w -> step w (ORise c t) = (ObsNone, w1) -> Forall quiet h ->
  step (snd (run w1 h)) (OFetch c2 k tags) = (ObsFetch (Some (v, tt, dl)), w3) ->
  exists s e, nth_error (w_srv w1) (server_of (nsrv w1) k) = Some s /\ In (k, e) (c_items s) /\
              smem t (e_trg e) = false /\ v = e_val e /\ dl = e_dl e.
Proof. exact rise_then_fetch. Qed.
Print Assumptions no_raised_value_after_rise.

(* after any node completed a clear (and any reads) every fetch by any node finds nothing *)
Theorem nothing_after_clear : forall w c w1 h c2 k tags r w3,
  reachable w -> step w (OClear c) = (ObsNone, w1) -> Forall quiet h ->
  step (snd (run w1 h)) (OFetch c2 k tags) = (ObsFetch r, w3) -> r = None.
Proof. exact clear_then_fetch. Qed.
Print Assumptions nothing_after_clear.

(* non-vacuity: two servers, two nodes with L1; node 1 caches v1 in its L1, node 0 replaces it by v2, node 1's
   L1 still holds v1 and its fetch answers v2 (107 = k, 49/50 = the two values) *)
Example fetch_current_nonvacuous :
  let h := [OStore 0 [107] [49] [] 2000; OFetch 1 [107] true; OStore 0 [107] [50] [[116]] 2000] in
  let w := snd (run (init_world 2 [true; true]) h) in
  reachable w /\ (0 < nsrv w)%nat /\ store_ok [107] [50] [[116]] 2000 /\
  (exists l e, nth_error (w_cli w) 1 = Some (Some l) /\ a_find [107] (c_items l) = Some e /\ e_val e = [49]) /\
  fst (step w (OFetch 1 [107] true)) = ObsFetch (Some ([50], [[107]; [116]], 2000%Z)).
Proof.
  cbv zeta. split; [apply run_reachable; constructor|]. split; [vm_compute; lia|]. split.
  - split; [discriminate|]. split; [|split; [unfold int64; lia|vm_compute; reflexivity]].
    constructor; [|constructor]. split; [discriminate|]. intros [H|[]]. discriminate H.
  - split; [|vm_compute; reflexivity]. vm_compute. eexists. eexists. split; [reflexivity|]. split; reflexivity.
Qed.
(* non-vacuity for rise and clear: a raised trigger and a clear by node 1 remove what node 0 has in its L1 *)
Example rise_clear_nonvacuous :
  let w := snd (run (init_world 2 [true; false]) [OStore 1 [107] [49] [[116]] 2000; OFetch 0 [107] true]) in
  fst (step w (OFetch 0 [107] true)) = ObsFetch (Some ([49], [[107]; [116]], 2000%Z)) /\
  fst (step (snd (step w (ORise 1 [116]))) (OFetch 0 [107] true)) = ObsFetch None /\
  fst (step (snd (step w (OClear 1))) (OFetch 0 [107] true)) = ObsFetch None.
Proof. vm_compute. repeat split. Qed.

(* ---------------------------------------------------------------------------------------------------------
   1b. The statement as a refinement.  For every number of servers > 0, every assignment of L1s to any number of
      nodes, and EVERY history of node operations (client_ok: valid node numbers, no foreign raw frames, every
      store in the exact domain store_ok of the wire format) - stores, fetches, rises, clears, L1 evictions,
      stats calls and clock ticks by any nodes in any order - the values and deadlines returned by all fetches
      are exactly those of ONE mem_cache shared by all nodes executing the same operations (spec_run: no
      network, no L1).  In particular a fetch never returns a value that a completed store, rise or clear of
      any node has replaced or removed. *)
Theorem network_cache_is_one_cache : forall ns l1 h,
  (0 < ns)%nat -> Forall (client_ok (length l1)) h ->
  map view_of (fst (run (init_world ns l1) h)) = fst (spec_run (mkS c_empty 1000) h).
Proof. exact refines. Qed.
Print Assumptions network_cache_is_one_cache.
Example one_cache_nonvacuous :
  let h := [OStore 0 [107] [49] [[116]] 2000; OFetch 1 [107] true; OStore 2 [107] [50] [] 1001; OFetch 1 [107] false;
            OTick 2; OFetch 1 [107] true; OStore 0 [108] [51] [[116]] 2000; OFetch 2 [108] true; ORise 1 [116];
            OFetch 0 [108] true] in
  Forall (client_ok 3) h /\
  (fst (spec_run (mkS c_empty 1000) h) =
    [VOther; VFetch (Some ([49], 2000%Z)); VOther; VFetch (Some ([50], 1001%Z)); VOther; VFetch None; VOther;
     VFetch (Some ([51], 2000%Z)); VOther; VFetch None]) /\
  (map view_of (fst (run (init_world 2 [true; true; false]) h)) = fst (spec_run (mkS c_empty 1000) h)).
Proof.
  cbv zeta. split; [|split; vm_compute; reflexivity].
  assert (good_name [116]) as G by (split; [discriminate|intros [H|[]]; discriminate H]).
  repeat constructor; try discriminate; try exact G; try apply G; try (unfold int64; lia); try (vm_compute; reflexivity).
Qed.

(* ---------------------------------------------------------------------------------------------------------
   2. gen_injective: over the whole history, on one server a generation number identifies one store event:
      two records with the same generation, the first held (by server i or by any L1 for a key of server i)
      in a reachable world and the second held after any further history h, have the same key, value and
      deadline.  l1_coherent: hence the handshake "still generation g?" is sound - an L1 record whose
      generation equals that of the responsible server's current record carries its value and deadline. *)
Theorem gen_injective : forall w h i k1 e1 k2 e2,
  reachable w ->
  holds w i k1 e1 -> holds (snd (run w h)) i k2 e2 -> e_gen e1 = e_gen e2 ->
  k1 = k2 /\ e_val e1 = e_val e2 /\ e_dl e1 = e_dl e2.
Proof. exact gen_injective_reachable. Qed.
Print Assumptions gen_injective.
Theorem l1_coherent : forall w j l k e s e1,
  reachable w ->
  nth_error (w_cli w) j = Some (Some l) -> In (k, e) (c_items l) ->
  nth_error (w_srv w) (server_of (nsrv w) k) = Some s -> In (k, e1) (c_items s) ->
  e_gen e = e_gen e1 -> e_val e = e_val e1 /\ e_dl e = e_dl e1.
Proof. exact l1_coherent_reachable. Qed.
Print Assumptions l1_coherent.
Example gen_nonvacuous :
  let w := snd (run (init_world 1 [true]) [OStore 0 [107] [49] [] 2000; OFetch 0 [107] true; OStore 0 [108] [50] [] 2000]) in
  exists e1 e2, holds w 0 [107] e1 /\ holds w 0 [108] e2 /\ e_gen e1 = 0 /\ e_gen e2 = 1.
Proof.
  cbv zeta. eexists. eexists. split; [|split].
  - right. exists 0%nat. eexists. split; [vm_compute; reflexivity|]. split; [left; reflexivity|reflexivity].
  - left. eexists. split; [vm_compute; reflexivity|]. left. reflexivity.
  - split; reflexivity.
Qed.

(* the assumption "no cache server restart" (reachable has no such event) is necessary: a restarted server (empty, generation
   counter back at 0; Defs.restart) makes the handshake confirm a record of the previous incarnation - witness replayed on the
   implementation (docs/C10_restart.case) *)
Theorem restart_breaks_handshake :
  let w := snd (run (init_world 1 [true; false]) [OStore 1 [107] [49] [] 2000; OFetch 0 [107] true]) in
  let w1 := snd (step (restart w 0) (OStore 1 [107] [50] [] 2000)) in
  fst (step w1 (OFetch 0 [107] true)) = ObsFetch (Some ([49], [[107]], 2000%Z)) /\
  fst (step w1 (OFetch 1 [107] true)) = ObsFetch (Some ([50], [[107]], 2000%Z)).
Proof. vm_compute. split; reflexivity. Qed.
Print Assumptions restart_breaks_handshake.

(* ---------------------------------------------------------------------------------------------------------
   3. codec_roundtrip, on the exact domain.  Header: 40 bytes <-> ten 32-bit fields.  Store: the frame
      built by tcp_cache::store for key k (non-empty), value v (any bytes, also empty or with NULs), a sorted
      trigger set of non-empty NUL-free names, deadline in int64, frame shorter than 2^32, is answered `done`
      and the server's cache stores exactly (k, v, trg, dl).  Fetch: a data answer decodes to the value,
      trigger set, deadline and generation the server holds (names NUL-free).  Trigger lists: parse(serialise)
      is the identity; std::set normal form is idempotent.  Outside the domain the faithful model refutes
      the round trip: the empty name and the empty key are refused, a name containing NUL is split (these
      are the known finding name-with-nul-or-empty-not-carried, replayed on the implementation). *)
Theorem header_roundtrip : forall h, hdr_ok h -> hdr_parse (hdr_bytes h) = Some h.
Proof. exact hdr_roundtrip. Qed.
Print Assumptions header_roundtrip.
Theorem store_codec_roundtrip : forall now k v trg dl c,
  k <> [] -> Forall good_name trg -> ssorted trg -> int64 dl ->
  lenN (k ++ v ++ enc_trigs trg) < W32 ->
  srv_handle now (fst (enc_store k v trg dl)) (snd (enc_store k v trg dl)) c =
    (hdr0 op_done, [], c_store k v trg dl None c).
Proof. exact store_rpc. Qed.
Print Assumptions store_codec_roundtrip.
Theorem fetch_codec_roundtrip : forall now k g want tif c,
  let rq := enc_fetch k g want tif in
  let rp := srv_fetch now (fst rq) (snd rq) c in
  srv_handle now (fst rq) (snd rq) c = (fst rp, snd rp, c) /\
  dec_fetch tif want (fst rp) (snd rp) = fetch_answer now k g want tif c.
Proof. exact fetch_rpc. Qed.
Print Assumptions fetch_codec_roundtrip.
Theorem fetch_data_unchanged : forall now k g want tif c e,
  c_fetch now k c = Some e -> (tif && (e_gen e =? g)) = false ->
  int64 (e_dl e) -> Forall nul_free (e_trg e) ->
  fetch_answer now k g want tif c = FData (e_val e) (if want then e_trg e else []) (e_dl e) (e_gen e).
Proof. exact fetch_data_roundtrip. Qed.
Print Assumptions fetch_data_unchanged.
Theorem trigger_list_roundtrip : forall t,
  (Forall good_name t -> load_triggers [] (enc_trigs t) = Some t) /\
  (Forall nul_free t -> walk_triggers [] (enc_trigs t) = t).
Proof. intros t. split; [exact (load_enc_trigs t)|exact (walk_enc_trigs t)]. Qed.
Print Assumptions trigger_list_roundtrip.
Theorem trigger_set_normal_form : forall l,
  ssorted (mkset l) /\ mkset (mkset l) = mkset l /\ forall y, In y (mkset l) <-> In y l.
Proof. intros l. split; [exact (mkset_sorted l)|]. split; [exact (mkset_idem l)|exact (mkset_In l)]. Qed.
Print Assumptions trigger_set_normal_form.
Theorem deadline_roundtrip : forall z, int64 z -> z64_of (z64_lo z) (z64_hi z) = z.
Proof. exact z64_roundtrip. Qed.
Print Assumptions deadline_roundtrip.
(* at system level: every record on every server of every reachable world (also after foreign raw frames) has its trigger
   set in std::set normal form, and a fetch-with-triggers by a node without L1 returns the value, the deadline and the
   trigger set of the responsible server's record unchanged when the names are NUL-free (for nodes with an L1 the value and
   deadline are covered by fetch_current; their trigger set may in addition contain the names of the L1 copy) *)
Theorem server_trigger_sets_normal : forall w i s k e,
  reachable w -> nth_error (w_srv w) i = Some s -> In (k, e) (c_items s) -> ssorted (e_trg e).
Proof. exact reachable_sorted. Qed.
Print Assumptions server_trigger_sets_normal.
Theorem fetch_returns_trigger_set_unchanged : forall w c k r w1 s e,
  reachable w -> nth_error (w_cli w) c = Some None ->
  nth_error (w_srv w) (server_of (nsrv w) k) = Some s -> c_fetch (w_now w) k s = Some e ->
  Forall nul_free (e_trg e) ->
  step w (OFetch c k true) = (ObsFetch r, w1) -> r = Some (e_val e, e_trg e, e_dl e).
Proof. exact fetch_triggers_no_l1. Qed.
Print Assumptions fetch_returns_trigger_set_unchanged.
(* for ANY node, with or without L1, in every reachable world (also after foreign raw frames): the trigger set returned by a
   fetch-with-triggers contains every name of the responsible server's record (NUL-free names).  Invariant behind it: an L1
   record whose generation is that of the server's record contains that record's names.  (A node with an L1 may return more
   names - those of older copies it held: cache_over_ip::fetch merges; see docs.) *)
Theorem fetch_returns_at_least_the_trigger_set : forall w c k v tt dl w1 s e,
  reachable w -> step w (OFetch c k true) = (ObsFetch (Some (v, tt, dl)), w1) ->
  nth_error (w_srv w) (server_of (nsrv w) k) = Some s -> c_fetch (w_now w) k s = Some e ->
  Forall nul_free (e_trg e) -> incl (e_trg e) tt.
Proof. exact fetch_triggers_superset. Qed.
Print Assumptions fetch_returns_at_least_the_trigger_set.
(* the superset can be strict: node 0 keeps the name t of the copy it held before node 1 replaced the record *)
Example trigger_superset_strict :
  let h := [OStore 1 [107] [49] [[116]] 2000; OFetch 0 [107] true; OStore 1 [107] [50] [[117]] 2000] in
  let w := snd (run (init_world 1 [true; false]) h) in
  fst (step w (OFetch 0 [107] true)) = ObsFetch (Some ([50], [[107]; [116]; [117]], 2000%Z)) /\
  fst (step w (OFetch 1 [107] true)) = ObsFetch (Some ([50], [[107]; [117]], 2000%Z)).
Proof. vm_compute. split; reflexivity. Qed.
Example fetch_triggers_nonvacuous :
  let w := snd (run (init_world 2 [true; false]) [OStore 0 [107] [0; 49] [[117]; [116]; [116]] 2000]) in
  nth_error (w_cli w) 1 = Some None /\
  fst (step w (OFetch 1 [107] true)) = ObsFetch (Some ([0; 49], [[107]; [116]; [117]], 2000%Z)).
Proof. vm_compute. split; reflexivity. Qed.
Theorem codec_roundtrip_refuted_outside_domain :
  (exists k v trg dl c now,
     fst (fst (srv_handle now (fst (enc_store k v trg dl)) (snd (enc_store k v trg dl)) c)) = hdr0 op_error /\
     snd (srv_handle now (fst (enc_store k v trg dl)) (snd (enc_store k v trg dl)) c) = c) /\
  (exists k v trg dl now,
     snd (srv_handle now (fst (enc_store k v trg dl)) (snd (enc_store k v trg dl)) c_empty) <>
     c_store k v trg dl None c_empty) /\
  (exists v dl now,
     fst (fst (srv_handle now (fst (enc_store [] v [] dl)) (snd (enc_store [] v [] dl)) c_empty)) = hdr0 op_error).
Proof. split; [exact store_empty_name_refused|]. split; [exact store_nul_name_split|exact store_empty_key_refused]. Qed.
Print Assumptions codec_roundtrip_refuted_outside_domain.
Example codec_nonvacuous :
  let k := [107; 0; 255] in let v := [0; 0; 118] in let trg := [[116]; [116; 116]; [255; 128]] in
  k <> [] /\ Forall good_name trg /\ ssorted trg /\ int64 (-5) /\ lenN (k ++ v ++ enc_trigs trg) < W32 /\
  c_fetch (-10) k (snd (srv_handle 0 (fst (enc_store k v trg (-5))) (snd (enc_store k v trg (-5))) c_empty)) =
    Some (mkE v (sins k trg) (-5) 0) /\
  hdr_ok (fst (enc_store k v trg (-5))).
Proof.
  cbv zeta. split; [discriminate|]. split.
  - repeat constructor; try discriminate; intros H; cbn in H; intuition discriminate.
  - split; [vm_compute; tauto|]. split; [unfold int64; lia|]. split; [vm_compute; reflexivity|].
    split; [vm_compute; reflexivity|]. vm_compute. repeat split.
Qed.

(* ---------------------------------------------------------------------------------------------------------
   4. key_spread_consistent: the server responsible for a key is a function of the key bytes and the number of
      servers only (server_of is a Gallina function: the same on every node by construction), it is total and
      below the number of servers; and it is the function the source computes: the loop body of
      tcp_connector::hash regenerated from the current source equals the model's hash_step on every state and
      byte, hence the whole fold over the key. *)
Theorem key_spread_consistent : forall n k, (0 < n)%nat -> (server_of n k < n)%nat.
Proof. exact server_of_lt. Qed.
Print Assumptions key_spread_consistent.
(* in every world reached by operations of the nodes themselves (any nodes, any arguments, also stores the server
   refuses; no foreign raw frames) a record for key k sits only on server server_of n k *)
Theorem key_only_on_responsible_server : forall ns l1 h,
  Forall node_op h ->
  forall i s k e, nth_error (w_srv (snd (run (init_world ns l1) h))) i = Some s -> In (k, e) (c_items s) ->
                  i = server_of (length (w_srv (snd (run (init_world ns l1) h)))) k.
Proof. exact placement. Qed.
Print Assumptions key_only_on_responsible_server.
Example placement_nonvacuous :
  let w := snd (run (init_world 2 [true; false]) [OStore 0 [107] [49] [] 2000; OStore 1 [108] [50] [] 2000]) in
  map (fun s => map fst (c_items s)) (w_srv w) = [[[108]]; [[107]]].
Proof. vm_compute. reflexivity. Qed.
Theorem hash_step_is_source : forall h c, g_hash_step (Z.of_N h) (Z.of_N c) = Z.of_N (hash_step h c).
Proof. exact link_hash_step. Qed.
Print Assumptions hash_step_is_source.
Theorem hash_is_source : forall key, fold_left g_hash_step (map Z.of_N key) g_hash_init = Z.of_N (hash_raw key).
Proof. exact link_hash_raw. Qed.
Print Assumptions hash_is_source.
(* the opcode numbers and the header layout of the model are those of private/tcp_cache_protocol.h as it is now
   (enumerators and sizeof/offsetof evaluated by clang, coq/gen/Gen_tcpproto.v): every accessor of the model reads
   the header word at the offset the source declares for that field *)
Theorem opcodes_are_source :
  g_op_fetch = Z.of_N op_fetch /\ g_op_rise = Z.of_N op_rise /\ g_op_clear = Z.of_N op_clear /\
  g_op_store = Z.of_N op_store /\ g_op_stats = Z.of_N op_stats /\ g_op_error = Z.of_N op_error /\
  g_op_done = Z.of_N op_done /\ g_op_data = Z.of_N op_data /\ g_op_no_data = Z.of_N op_no_data /\
  g_op_uptodate = Z.of_N op_uptodate /\ g_op_out_stats = Z.of_N op_out_stats /\
  NoDup g_opcodes.
Proof. exact link_opcodes. Qed.
Print Assumptions opcodes_are_source.
Theorem header_layout_is_source : forall h, hdr_ok h ->
  Z.of_nat (length (hdr_bytes h)) = g_size_of_header /\ g_size_of_time_t = 8%Z /\
  word_at h g_off_opcode = h_op h /\ word_at h g_off_size = h_size h /\
  word_at h g_off_filler = h_f0 h /\ word_at h (g_off_filler + 4) = h_f1 h /\
  word_at h g_off_fetch_current_gen = h_u0 h /\ word_at h (g_off_fetch_current_gen + 4) = h_u1 h /\
  word_at h g_off_fetch_key_len = h_u2 h /\ word_at h (g_off_fetch_key_len + 4) = h_u3 h /\
  word_at h g_off_rise_trigger_len = h_u0 h /\
  word_at h g_off_store_timeout = h_u0 h /\ word_at h (g_off_store_timeout + 4) = h_u1 h /\
  word_at h g_off_store_key_len = h_u2 h /\ word_at h g_off_store_data_len = h_u3 h /\
  word_at h g_off_store_triggers_len = h_u4 h /\
  word_at h g_off_data_generation = h_u0 h /\ word_at h (g_off_data_generation + 4) = h_u1 h /\
  word_at h g_off_data_timeout = h_u2 h /\ word_at h (g_off_data_timeout + 4) = h_u3 h /\
  word_at h g_off_data_data_len = h_u4 h /\ word_at h g_off_data_triggers_len = h_u5 h /\
  word_at h g_off_out_stats_keys = h_u0 h /\ word_at h g_off_out_stats_triggers = h_u1 h.
Proof. exact link_layout. Qed.
Print Assumptions header_layout_is_source.
Example key_spread_nonvacuous :
  server_of 2 [107] = 1%nat /\ server_of 2 [108] = 0%nat /\ server_of 3 [107] = 2%nat /\
  hash_raw [255; 255; 255; 255; 255; 255; 255; 255; 255] = 831298521.
Proof. vm_compute. repeat split. Qed.

(* ---------------------------------------------------------------------------------------------------------
   5. The length check of tcp_cache_service::session::store (MECHANISM: "server validates key/data/trigger lengths against
      the frame size").  Since /repo b527961 the sum key_len+data_len+triggers_len is taken in 64 bits, i.e. it is the integer
      sum (model: srv_store compares the integers).  store_check h: the check passes.  For EVERY frame whose payload has the
      h_size bytes that session::on_header_in has read - no hypothesis on sizes:
      - the check is exact: when it passes, the three regions the code reads afterwards partition the payload and the key is
        non-empty; and it is complete: a frame whose lengths add up to its payload, with a non-empty key, passes;
      - a store frame whose sum exceeds its payload is answered `error` and changes nothing, whatever the sum is modulo 2^32;
      - regression Example: the 41-byte frame (key_len=1, data_len=2^32-1, triggers_len=1, size=1) that passed the uint32 check
        and crashed the server before the repair (was finding store-length-sum-wraps) is refused on every server state
        (corpus/C10/wrap_regress.case: answered `error`, server alive);
      - the frames tcp_cache::store builds for contents shorter than 2^32 bytes are well-formed and pass. *)
Theorem store_length_check_exact : forall h p,
  lenN p = h_size h -> store_check h = true ->
  store_sum h = lenN p /\
  p = take (h_u2 h) p ++ take (h_u3 h) (drop (h_u2 h) p) ++ take (h_u4 h) (drop (h_u2 h + h_u3 h) p) /\
  take (h_u2 h) p <> [].
Proof. exact store_check_exact. Qed.
Print Assumptions store_length_check_exact.
Theorem store_length_check_complete : forall h, store_sum h = h_size h -> h_u2 h <> 0 -> store_check h = true.
Proof. exact store_check_complete. Qed.
Print Assumptions store_length_check_complete.
Theorem store_frame_with_oversized_sum_is_refused : forall now h p c,
  h_op h = op_store -> lenN p = h_size h -> lenN p < store_sum h -> srv_handle now h p c = (hdr0 op_error, [], c).
Proof. exact oversized_sum_refused. Qed.
Print Assumptions store_frame_with_oversized_sum_is_refused.
Example wrapping_frame_regression :
  frame_ok wrap_hdr [107] /\ (store_sum wrap_hdr) mod W32 = h_size wrap_hdr /\ lenN [107] < h_u2 wrap_hdr + h_u3 wrap_hdr /\
  forall now c, srv_handle now wrap_hdr [107] c = (hdr0 op_error, [], c).
Proof.
  split; [split; [vm_compute; repeat split; reflexivity|reflexivity]|]. split; [vm_compute; reflexivity|].
  split; [vm_compute; reflexivity|]. exact wrapping_frame_refused.
Qed.
Theorem client_store_frames_never_wrap : forall k v trg dl,
  lenN (k ++ v ++ enc_trigs trg) < W32 ->
  let h := fst (enc_store k v trg dl) in let p := snd (enc_store k v trg dl) in
  frame_ok h p /\ store_sum h = lenN p /\ store_sum h < W32.
Proof. exact client_store_frame_exact. Qed.
Print Assumptions client_store_frames_never_wrap.
(* the model's srv_store is the check followed by the region reads (so the theorems above are about the modelled server) *)
Theorem store_check_is_the_server_check : forall h p c,
  (store_check h = false -> srv_store h p c = (hdr0 op_error, [], c)) /\
  (store_check h = true -> srv_store h p c =
     match load_triggers [] (take (h_u4 h) (drop (h_u2 h + h_u3 h) p)) with
     | None => (hdr0 op_error, [], c)
     | Some trg => (hdr0 op_done, [],
                    c_store (take (h_u2 h) p) (take (h_u3 h) (drop (h_u2 h) p)) (mkset trg) (z64_of (h_u0 h) (h_u1 h)) None c)
     end).
Proof. intros h p c. split; [apply srv_store_refuses|apply srv_store_accepts]. Qed.
Print Assumptions store_check_is_the_server_check.
Example store_check_nonvacuous :
  let h := fst (enc_store [107] [118; 0] [[116]] 2000) in let p := snd (enc_store [107] [118; 0] [[116]] 2000) in
  frame_ok h p /\ store_check h = true /\ store_sum h = 5 /\
  store_check (mkH op_store 6 0 0 2000 0 1 3 1 0) = false /\ store_check (mkH op_store 5 0 0 2000 0 0 3 2 0) = false.
Proof. cbv zeta. split; [|vm_compute; repeat split]. split; [vm_compute; repeat split|reflexivity]. Qed.

(* ---------------------------------------------------------------------------------------------------------
   6. Cache server restarts (NOT in the quantifier of the property, which lists store/fetch/rise/clear only; all theorems
      above are about `reachable`, which has no restart).  What holds across restarts, precisely.  reachable_r = reachable
      plus any number of restarts of any servers at any time (Defs.restart: empty cache, generation counter 0).
      - In every such world a fetch by any node answers EITHER what the responsible server holds now OR - only on a node
        with an L1 - the node's own L1 record, and then the server's current record for the key has the same generation
        number as that L1 copy (`fooled`: the handshake compared generations of two incarnations).
      - Nodes without an L1 are never affected.
      - A restart of server s in a reachable world in which no L1 holds a record for a key of s is harmless: every later
        fetch after any further history is current again.
      - The remaining case is real: restart_breaks_handshake above (replayed, docs/C10_restart.case). *)
Theorem fetch_across_restarts_is_current_or_own_l1 : forall w c k tags r w1,
  reachable_r w -> step w (OFetch c k tags) = (ObsFetch r, w1) -> current w k r \/ fooled w c k r.
Proof. exact fetch_across_restarts. Qed.
Print Assumptions fetch_across_restarts_is_current_or_own_l1.
Theorem fetch_without_l1_unaffected_by_restarts : forall w c k tags r w1,
  reachable_r w -> nth_error (w_cli w) c = Some None ->
  step w (OFetch c k tags) = (ObsFetch r, w1) -> current w k r.
Proof. exact fetch_without_l1_across_restarts. Qed.
Print Assumptions fetch_without_l1_unaffected_by_restarts.
Theorem restart_harmless_when_no_l1_holds_its_keys : forall w s h c k tags r w1,
  reachable w -> l1s_hold_nothing_of w s ->
  step (snd (run (restart w s) h)) (OFetch c k tags) = (ObsFetch r, w1) -> current (snd (run (restart w s) h)) k r.
Proof. exact restart_harmless. Qed.
Print Assumptions restart_harmless_when_no_l1_holds_its_keys.
(* non-vacuity: the world of restart_breaks_handshake is reachable_r, node 0 is fooled, node 1 (no L1) is not; and after
   an eviction of the key from the L1 of node 0 the hypothesis of restart_harmless holds and node 0 answers v2 *)
Example restart_nonvacuous :
  let w := snd (run (init_world 1 [true; false]) [OStore 1 [107] [49] [] 2000; OFetch 0 [107] true]) in
  let w1 := snd (step (restart w 0) (OStore 1 [107] [50] [] 2000)) in
  reachable_r w1 /\ fooled w1 0 [107] (Some ([49], [[107]], 2000%Z)) /\ ~ current w1 [107] (Some ([49], [[107]], 2000%Z)) /\
  (let w2 := snd (step w (OEvict 0 [107])) in
   reachable w2 /\ l1s_hold_nothing_of w2 0 /\
   fst (step (snd (run (restart w2 0) [OStore 1 [107] [50] [] 2000])) (OFetch 0 [107] true)) =
     ObsFetch (Some ([50], [[107]], 2000%Z))).
Proof.
  cbv zeta. split; [|split; [|split; [|split; [|split]]]].
  - apply rr_step. apply rr_restart. apply reachable_is_reachable_r. apply run_reachable. constructor.
  - vm_compute. do 4 eexists. repeat split; try reflexivity. eexists. reflexivity.
  - vm_compute. intros [H _]. discriminate H.
  - apply (reach_step _ (OEvict 0 [107])). apply run_reachable. constructor.
  - intros j l k e Hj Hin. vm_compute in Hj. destruct j as [|[|j]]; [|discriminate Hj|destruct j; discriminate Hj].
    inversion Hj; subst l. destruct Hin.
  - vm_compute. reflexivity.
Qed.

(* ---------------------------------------------------------------------------------------------------------
   7. The transport under the RPCs (src/tcp_messenger.cpp messenger::transmit over booster::aio::stream_socket::read/write;
      model coq/C10/NetDefs.v).  A transfer schedule says how many bytes each readv / writev call moves (entry 0 = the call
      fails; exhausted = everything).
      - short transfers: whenever the read (write) loop completes, exactly the bytes asked for have been moved, whatever
        the schedule; with positive entries and enough bytes in the stream it completes;
      - transmit over ANY schedules of positive chunk sizes is the atomic RPC of Defs.v (srv_handle): the answer and the
        server's new state do not depend on the schedules - this is what justifies "every RPC is one atomic server step";
      - the second attempt of transmit sends exactly the original request bytes, whatever the failed first attempt left in the
        header object and whatever lies behind the request string in memory (since /repo d350cd9: `h=request;` before each
        attempt; was finding retry-sends-overwritten-header);
      - with failures anywhere (ANY schedules, reconnect refused or not) transmit returns the genuine answer to the first or
        to a second execution of the genuine request, or throws - nothing else; the server has executed the genuine request
        zero, one or two times and nothing else;
      - ONE failure anywhere followed by a working reconnect and an undisturbed second attempt is masked: the caller gets the
        genuine answer.  (An `error` answer - unknown opcode, refused frame - is a miss for tcp_cache::fetch: never a value.) *)
Theorem short_transfers_move_exactly_the_bytes_asked_for : forall sched stream need,
  (forall got s2 rest, sock_xfer sched stream need = (true, got, s2, rest) ->
     got = take need stream /\ rest = drop need stream /\ need <= lenN stream) /\
  (forall got s2 rest, sock_xfer sched stream need = (false, got, s2, rest) ->
     exists j, j < need /\ got = take j stream /\ j <= lenN stream) /\
  (positive_sched sched -> need <= lenN stream ->
     exists s2, sock_xfer sched stream need = (true, take need stream, s2, drop need stream) /\ positive_sched s2).
Proof.
  intros sched stream need. split; [|split].
  - intros got s2 rest. apply xfer_true.
  - intros got s2 rest. apply xfer_false.
  - apply sock_xfer_ok.
Qed.
Print Assumptions short_transfers_move_exactly_the_bytes_asked_for.
Theorem transmit_is_the_atomic_rpc_for_every_transfer_schedule : forall ws1 rs1 up ws2 rs2 h data pad now c rh rp c1,
  positive_sched ws1 -> positive_sched rs1 -> hdr_ok h -> h_size h = lenN data ->
  srv_handle now h data c = (rh, rp, c1) -> hdr_ok rh ->
  transmit ws1 rs1 up ws2 rs2 h (data ++ pad) now c = (TxReply rh rp, c1).
Proof. exact transmit_schedule_independent. Qed.
Print Assumptions transmit_is_the_atomic_rpc_for_every_transfer_schedule.
Theorem retry_sends_exactly_the_original_request : forall h data pad hb,
  hdr_ok h -> h_size h = lenN data -> second_request h hb (data ++ pad) = Some (h, data).
Proof. exact retry_sends_exactly_the_request. Qed.
Print Assumptions retry_sends_exactly_the_original_request.
Theorem transmit_under_failures_never_invents_an_answer :
  forall ws1 rs1 up ws2 rs2 h data pad now c rh rp c1 rh2 rp2 c2,
  hdr_ok h -> h_size h = lenN data ->
  srv_handle now h data c = (rh, rp, c1) -> hdr_ok rh ->
  srv_handle now h data c1 = (rh2, rp2, c2) -> hdr_ok rh2 ->
  match transmit ws1 rs1 up ws2 rs2 h (data ++ pad) now c with
  | (TxReply a b, c') => (a = rh /\ b = rp /\ c' = c1) \/ (a = rh2 /\ b = rp2 /\ c' = c2)
  | (TxExn, c') => c' = c \/ c' = c1 \/ c' = c2
  end.
Proof. exact transmit_any_schedule. Qed.
Print Assumptions transmit_under_failures_never_invents_an_answer.
Theorem one_failure_and_a_working_reconnect_are_masked : forall ws1 rs1 ws2 rs2 h data pad now c rh rp c1 rh2 rp2 c2,
  positive_sched ws2 -> positive_sched rs2 -> hdr_ok h -> h_size h = lenN data ->
  srv_handle now h data c = (rh, rp, c1) -> hdr_ok rh ->
  srv_handle now h data c1 = (rh2, rp2, c2) -> hdr_ok rh2 ->
  transmit ws1 rs1 true ws2 rs2 h (data ++ pad) now c = (TxReply rh rp, c1) \/
  transmit ws1 rs1 true ws2 rs2 h (data ++ pad) now c = (TxReply rh2 rp2, c2).
Proof. exact one_failure_is_masked. Qed.
Print Assumptions one_failure_and_a_working_reconnect_are_masked.
Theorem error_answer_is_never_a_value : forall tif want, dec_fetch tif want (hdr0 op_error) [] = FNotFound.
Proof. exact error_answer_is_a_miss. Qed.
Print Assumptions error_answer_is_never_a_value.
(* the request opcodes are the source's request opcodes, the answer opcodes its answer opcodes (Gen_tcpproto) *)
Theorem request_and_answer_opcodes_are_source :
  (forall o, request_op o <-> In (Z.of_N o) [g_op_fetch; g_op_rise; g_op_clear; g_op_store; g_op_stats]) /\
  (forall o, reply_op o <-> In (Z.of_N o) [g_op_error; g_op_done; g_op_data; g_op_no_data; g_op_uptodate; g_op_out_stats]).
Proof.
  destruct link_opcodes as (A0 & A1 & A2 & A3 & A4 & A5 & A6 & A7 & A8 & A9 & A10 & _).
  rewrite A0, A1, A2, A3, A4, A5, A6, A7, A8, A9, A10.
  unfold request_op, reply_op, op_fetch, op_rise, op_clear, op_store, op_stats, op_error, op_done, op_data, op_no_data,
    op_uptodate, op_out_stats. cbn [In]. split; intros o; lia.
Qed.
Print Assumptions request_and_answer_opcodes_are_source.
Example transport_nonvacuous :
  let rq := enc_fetch [107] 0 true false in
  let c := snd (srv_handle 1000 (fst (enc_store [107] [118; 0; 119] [[116]] 2000)) (snd (enc_store [107] [118; 0; 119] [[116]] 2000)) c_empty) in
  let genuine := srv_handle 1000 (fst rq) (snd rq) c in
  (* one byte per call in both directions = everything at once *)
  transmit (repeat 1 41) (repeat 1 50) false [] [] (fst rq) (snd rq ++ [1; 2; 3; 4; 5; 6; 7; 8]) 1000 c = (TxReply (fst (fst genuine)) (snd (fst genuine)), c) /\
  transmit [] [] false [] [] (fst rq) (snd rq ++ [1; 2; 3; 4; 5; 6; 7; 8]) 1000 c = (TxReply (fst (fst genuine)) (snd (fst genuine)), c) /\
  h_op (fst (fst genuine)) = op_data /\ snd (fst genuine) = [118; 0; 119; 107; 0; 116; 0] /\
  (* regression (was finding retry-sends-overwritten-header): the connection fails 8 bytes into the answer - the retry sends the
     request again and gets the genuine answer; the request it sends is the original one *)
  transmit [] [8; 0] true [] [] (fst rq) (snd rq ++ [1; 2; 3; 4; 5; 6; 7; 8]) 1000 c = (TxReply (fst (fst genuine)) (snd (fst genuine)), c) /\
  second_request (fst rq) (overlay (take 8 (hdr_bytes (fst (fst genuine)))) (hdr_bytes (fst rq))) (snd rq ++ [1; 2; 3; 4; 5; 6; 7; 8]) = Some rq /\
  (* fails before the request is out, reconnect refused: exception *)
  transmit [3; 0] [] false [] [] (fst rq) (snd rq ++ [1; 2; 3; 4; 5; 6; 7; 8]) 1000 c = (TxExn, c) /\
  (* fails before the request is out, reconnect works: genuine answer *)
  transmit [3; 0] [] true [7] [2; 2] (fst rq) (snd rq ++ [1; 2; 3; 4; 5; 6; 7; 8]) 1000 c = (TxReply (fst (fst genuine)) (snd (fst genuine)), c).
Proof. vm_compute. repeat split. Qed.

(* ---------------------------------------------------------------------------------------------------------
   8. Cache servers that are down (connection refused on reconnect: messenger::transmit throws cppcms_error).  nstep = step
      plus servers going down / coming up (same process, cache kept); an RPC to a server that is down throws in the node.
      - with all servers up nstep is step (so every theorem above is about nstep too);
      - in every world reachable with such events - operations that fail half-way included (a rise / clear that threw has
        reached the servers before the first one that is down) - a fetch that returns returns what the responsible server
        holds now; a fetch that throws changes nothing; a store that throws changes no server. *)
Theorem all_servers_up_is_the_plain_model : forall x o,
  all_up x -> (0 < nsrv (nw x))%nat ->
  nstep x (NOp o) = let (r, w2) := step (nw x) o in (NObs r, mkNW w2 (nw_up x)).
Proof. exact nstep_all_up. Qed.
Print Assumptions all_servers_up_is_the_plain_model.
Theorem fetch_current_with_servers_down : forall x c k tags r x1,
  nreachable x -> nstep x (NOp (OFetch c k tags)) = (NObs (ObsFetch r), x1) -> current (nw x) k r.
Proof. exact nfetch_current. Qed.
Print Assumptions fetch_current_with_servers_down.
Theorem failed_fetch_changes_nothing : forall x c k tags x1, nstep x (NOp (OFetch c k tags)) = (NExn, x1) -> x1 = x.
Proof. exact nfetch_exn. Qed.
Print Assumptions failed_fetch_changes_nothing.
Theorem failed_store_changes_no_server : forall x c k v trg dl x1,
  nstep x (NOp (OStore c k v trg dl)) = (NExn, x1) -> w_srv (nw x1) = w_srv (nw x) /\ nw_up x1 = nw_up x.
Proof. exact nstore_exn. Qed.
Print Assumptions failed_store_changes_no_server.
Theorem failed_rise_reached_the_servers_before_the_first_down : forall x c t x1,
  nstep x (NOp (ORise c t)) = (NExn, x1) ->
  exists w1, on_l1 (nw x) c (c_rise t) = Some w1 /\ (first_down (nw_up x) (nsrv w1) < nsrv w1)%nat /\
             nw x1 = broadcast (first_down (nw_up x) (nsrv w1)) w1 (enc_rise t).
Proof. exact nrise_exn. Qed.
Print Assumptions failed_rise_reached_the_servers_before_the_first_down.
Example servers_down_nonvacuous :
  let h := [NOp (OStore 0 [107] [49] [[116]] 2000); NOp (OStore 0 [108] [50] [[116]] 2000); NOp (OFetch 1 [107] true); NDown 1;
            NOp (OFetch 1 [107] true); NOp (OStore 0 [107] [51] [] 2000); NOp (ORise 0 [116]); NUp 1;
            NOp (OFetch 1 [107] true); NOp (OFetch 1 [108] true)] in
  nreachable (snd (nrun (ninit 2 [false; true]) h)) /\
  fst (nrun (ninit 2 [false; true]) h) =
    [NObs ObsNone; NObs ObsNone; NObs (ObsFetch (Some ([49], [[107]; [116]], 2000%Z))); NObs ObsNone;
     NExn; NExn; NExn; NObs ObsNone;
     NObs (ObsFetch (Some ([49], [[107]; [116]], 2000%Z))); NObs (ObsFetch None)].
Proof.
  cbv zeta. split; [|vm_compute; reflexivity].
  assert (forall h x, nreachable x -> nreachable (snd (nrun x h))) as R.
  { induction h as [|o r IH]; intros x Hx; cbn [nrun]; [exact Hx|].
    destruct (nstep x o) as [a x1] eqn:E. specialize (IH x1).
    destruct (nrun x1 r) as [l x2]. cbn [snd] in *. apply IH.
    replace x1 with (snd (nstep x o)) by (rewrite E; reflexivity). constructor. exact Hx. }
  apply R. constructor.
Qed.

(* ---------------------------------------------------------------------------------------------------------
   9. The key -> server distribution and the ORDER of the server list.  tcp_connector::hash returns an index into the
      node's own list, so "keys are spread consistently" holds exactly when all nodes have the same list in the same order
      (assumption of all theorems above; `phys order k` = the physical server a node with list `order` uses):
      - two different orderings of equally many (up to 256) servers disagree on the server of some key;
      - REFUTED without the assumption: with a node whose list is reversed (NetDefs.rstep) a completed store by that node is
        not seen by the others, which keep answering the older value (witness; replayed, docs/C10_order.case);
      - with one server the reversed world is the world; adding a server moves keys (hash mod n, witness). *)
Theorem different_server_orders_disagree_on_some_key : forall o1 o2 : list nat,
  length o1 = length o2 -> (length o1 <= 256)%nat -> o1 <> o2 -> exists k, phys o1 k <> phys o2 k.
Proof. exact order_matters. Qed.
Print Assumptions different_server_orders_disagree_on_some_key.
Theorem reversed_server_order_refutes_the_property :
  let w0 := init_world 2 [false; false] in
  let w1 := snd (step w0 (OStore 0 [107] [49] [] 2000)) in
  let w2 := snd (rstep w1 (OStore 1 [107] [50] [] 2000)) in
  fst (step w2 (OFetch 0 [107] true)) = ObsFetch (Some ([49], [[107]], 2000%Z)) /\
  fst (rstep w2 (OFetch 1 [107] true)) = ObsFetch (Some ([50], [[107]], 2000%Z)) /\
  map (fun s => map (fun p => (fst p, e_val (snd p))) (c_items s)) (w_srv w2) = [[([107], [50])]; [([107], [49])]].
Proof. exact reversed_order_breaks_the_property. Qed.
Print Assumptions reversed_server_order_refutes_the_property.
Theorem one_server_order_irrelevant : forall w, nsrv w = 1%nat -> rev_srv w = w.
Proof. exact rev_srv_one. Qed.
Print Assumptions one_server_order_irrelevant.
Theorem single_byte_keys_reach_every_server : forall n i,
  (1 < n)%nat -> (i < n)%nat -> (n <= 256)%nat -> server_of n [N.of_nat i] = i.
Proof. exact server_of_single. Qed.
Print Assumptions single_byte_keys_reach_every_server.
Example order_nonvacuous :
  phys [5; 9]%nat [107] = 9%nat /\ phys [9; 5]%nat [107] = 5%nat /\
  (exists k, server_of 2 k <> server_of 3 k /\ server_of 2 k = 1%nat /\ server_of 3 k = 2%nat).
Proof. split; [reflexivity|]. split; [reflexivity|]. exact adding_a_server_moves_keys. Qed.

(* ---------------------------------------------------------------------------------------------------------
   10. More of the wire format from the source: the SIZE of every field of tcp_operation_header as declared now (sizeof
       evaluated by clang), adjacency of the fields of each union member, the union between filler and end of header. *)
Theorem header_field_sizes_are_source :
  (g_size_of_opcode = 4 /\ g_size_of_size = 4 /\ g_size_of_filler = 8 /\ g_size_of_operations = 24 /\
  g_size_of_fetch_current_gen = 8 /\ g_size_of_fetch_key_len = 4 /\ g_size_of_rise_trigger_len = 4 /\
  g_size_of_store_timeout = 8 /\ g_size_of_store_key_len = 4 /\ g_size_of_store_data_len = 4 /\ g_size_of_store_triggers_len = 4 /\
  g_size_of_data_generation = 8 /\ g_size_of_data_timeout = 8 /\ g_size_of_data_data_len = 4 /\ g_size_of_data_triggers_len = 4 /\
  g_size_of_out_stats_keys = 4 /\ g_size_of_out_stats_triggers = 4 /\
  g_off_size = g_off_opcode + g_size_of_opcode /\ g_off_filler = g_off_size + g_size_of_size /\
  g_off_operations = g_off_filler + g_size_of_filler /\ g_size_of_header = g_off_operations + g_size_of_operations /\
  g_off_fetch_current_gen = g_off_operations /\ g_off_fetch_key_len = g_off_fetch_current_gen + g_size_of_fetch_current_gen /\
  g_size_of_fetch_struct = g_size_of_fetch_current_gen + g_size_of_fetch_key_len + 4 /\
  g_off_rise_trigger_len = g_off_operations /\
  g_off_store_timeout = g_off_operations /\ g_off_store_key_len = g_off_store_timeout + g_size_of_store_timeout /\
  g_off_store_data_len = g_off_store_key_len + g_size_of_store_key_len /\
  g_off_store_triggers_len = g_off_store_data_len + g_size_of_store_data_len /\
  g_off_store_triggers_len + g_size_of_store_triggers_len + 4 = g_off_operations + g_size_of_store_struct /\
  g_off_data_generation = g_off_operations /\ g_off_data_timeout = g_off_data_generation + g_size_of_data_generation /\
  g_off_data_data_len = g_off_data_timeout + g_size_of_data_timeout /\
  g_off_data_triggers_len = g_off_data_data_len + g_size_of_data_data_len /\
  g_off_data_triggers_len + g_size_of_data_triggers_len = g_off_operations + g_size_of_data_struct /\
  g_off_out_stats_keys = g_off_operations /\ g_off_out_stats_triggers = g_off_out_stats_keys + g_size_of_out_stats_keys)%Z.
Proof. exact link_field_sizes. Qed.
Print Assumptions header_field_sizes_are_source.

(* ---------------------------------------------------------------------------------------------------------
   11. The trigger set a fetch returns, EXACTLY (decision on the observation "cache_over_ip::fetch returns the union of stale L1
       triggers and the server's triggers").  In every reachable world, NUL-free names: a node without L1 and an L1 miss return the
       server record's set; an L1 hit confirmed by the server returns the L1 copy's set (which contains the server record's:
       fetch_returns_at_least_the_trigger_set); an L1 hit answered with newer data returns the union of both.  So a name of the
       current record is never missing (the property's concern: invalidation of the enclosing page) and a name that is returned is
       a name of the current record or of the node's own L1 copy - over-invalidation only: not a violation. *)
Theorem fetch_returns_exactly_this_trigger_set : forall w c k v tt dl w1 s e,
  reachable w -> step w (OFetch c k true) = (ObsFetch (Some (v, tt, dl)), w1) ->
  nth_error (w_srv w) (server_of (nsrv w) k) = Some s -> c_fetch (w_now w) k s = Some e ->
  Forall nul_free (e_trg e) -> trig_answer w c k e tt.
Proof. exact fetch_trigger_set_exact. Qed.
Print Assumptions fetch_returns_exactly_this_trigger_set.
Theorem fetch_returns_no_invented_trigger : forall w c k v tt dl w1 s e y,
  reachable w -> step w (OFetch c k true) = (ObsFetch (Some (v, tt, dl)), w1) ->
  nth_error (w_srv w) (server_of (nsrv w) k) = Some s -> c_fetch (w_now w) k s = Some e ->
  Forall nul_free (e_trg e) -> In y tt ->
  In y (e_trg e) \/ exists l1 e1, nth_error (w_cli w) c = Some (Some l1) /\ c_fetch (w_now w) k l1 = Some e1 /\ In y (e_trg e1).
Proof. exact fetch_trigger_set_upper_bound. Qed.
Print Assumptions fetch_returns_no_invented_trigger.
(* non-vacuity: the three cases of trig_answer on the world of trigger_superset_strict (node 0 has L1, node 1 has none) *)
Example trigger_exact_nonvacuous :
  let h := [OStore 1 [107] [49] [[116]] 2000; OFetch 0 [107] true; OStore 1 [107] [50] [[117]] 2000] in
  let w := snd (run (init_world 1 [true; false]) h) in
  let w2 := snd (step w (OFetch 0 [107] true)) in
  reachable w /\
  fst (step w (OFetch 0 [107] true)) = ObsFetch (Some ([50], sunion [[107]; [117]] [[107]; [116]], 2000%Z)) /\
  fst (step w (OFetch 1 [107] true)) = ObsFetch (Some ([50], [[107]; [117]], 2000%Z)) /\
  fst (step w2 (OFetch 0 [107] true)) = ObsFetch (Some ([50], [[107]; [116]; [117]], 2000%Z)).
Proof. cbv zeta. split; [apply run_reachable; constructor|vm_compute; repeat split]. Qed.

(* ---------------------------------------------------------------------------------------------------------
   12. The atomic RPC of the world model (Defs.rpc, used by every theorem about histories) IS messenger::transmit over ANY
       schedules of short transfers in both directions (section 7), for frames with 32-bit fields whose size field is the payload
       length - which the frames of the client encoders are. *)
Theorem world_rpc_is_transmit_for_every_transfer_schedule : forall w i c h data pad ws1 rs1 up ws2 rs2 rh rp w1,
  nth_error (w_srv w) i = Some c ->
  positive_sched ws1 -> positive_sched rs1 -> hdr_ok h -> h_size h = lenN data ->
  rpc w i (h, data) = (rh, rp, w1) -> hdr_ok rh ->
  exists c1, transmit ws1 rs1 up ws2 rs2 h (data ++ pad) (w_now w) c = (TxReply rh rp, c1) /\
             w1 = mkW (upd i c1 (w_srv w)) (w_cli w) (w_now w).
Proof. exact rpc_is_transmit. Qed.
Print Assumptions world_rpc_is_transmit_for_every_transfer_schedule.
Theorem client_request_frames_are_well_formed :
  (forall k g want tif, lenN k < W32 -> g < W64 ->
     hdr_ok (fst (enc_fetch k g want tif)) /\ h_size (fst (enc_fetch k g want tif)) = lenN (snd (enc_fetch k g want tif)) /\
     request_op (h_op (fst (enc_fetch k g want tif)))) /\
  (forall t, lenN t < W32 ->
     hdr_ok (fst (enc_rise t)) /\ h_size (fst (enc_rise t)) = lenN (snd (enc_rise t)) /\ request_op (h_op (fst (enc_rise t)))) /\
  (forall k v trg dl, lenN (k ++ v ++ enc_trigs trg) < W32 ->
     frame_ok (fst (enc_store k v trg dl)) (snd (enc_store k v trg dl)) /\ request_op (h_op (fst (enc_store k v trg dl)))) /\
  (hdr_ok (fst enc_clear) /\ h_size (fst enc_clear) = lenN (snd enc_clear) /\ request_op (h_op (fst enc_clear))) /\
  (hdr_ok (fst enc_stats) /\ h_size (fst enc_stats) = lenN (snd enc_stats) /\ request_op (h_op (fst enc_stats))).
Proof.
  split; [exact enc_fetch_frame|]. split; [exact enc_rise_frame|]. split; [|exact enc_clear_stats_frame].
  intros k v trg dl L. split; [apply (client_store_frame_exact k v trg dl L)|]. vm_compute. reflexivity.
Qed.
Print Assumptions client_request_frames_are_well_formed.

(* ---------------------------------------------------------------------------------------------------------
   13. The quantification over transfer schedules, lifted into the world histories (coq/C10/SchedDefs.v: gstep R / grun R = step /
       run with every client RPC made by R; sched_rpc pick = the RPC made by messenger::transmit over the schedules an adversary
       `pick` chooses for each call - chunk sizes of the request's writev calls, of the answer's readv calls, memory behind the
       request string - as a function of the whole state, the target server and the frame).  For EVERY such adversary with positive
       chunk sizes, every start world and EVERY history: the history executed over those schedules is the atomic history -
       same observations, same final world - provided every frame the atomic execution exchanges fits the 32-bit header fields
       (call_fits on calls_run: requests well-formed, answer headers representable, i.e. no record of 4 GiB and no generation of
       2^64; an executable side condition, not discharged by an invariant: PARTIAL in that respect).  Hence every theorem above
       about run / step / reachable holds for histories executed over arbitrary short transfers.  The general principle behind it:
       a history run with any RPC function that agrees with the atomic rpc on the calls made is the atomic history. *)
Theorem history_over_any_transfer_schedules_is_the_atomic_history : forall pick w h,
  positive_pick pick -> forallb call_fits (calls_run w h) = true -> grun (sched_rpc pick) w h = run w h.
Proof. exact scheduled_history_is_atomic. Qed.
Print Assumptions history_over_any_transfer_schedules_is_the_atomic_history.
Theorem history_with_an_agreeing_rpc_is_the_atomic_history : forall R h w,
  Forall (agrees R) (calls_run w h) -> grun R w h = run w h.
Proof. exact grun_eq. Qed.
Print Assumptions history_with_an_agreeing_rpc_is_the_atomic_history.
(* non-vacuity: two servers, two nodes (one with L1); an adversary that cuts requests into 1,2,3,.. byte writes when the key starts
   with k and into single bytes otherwise, answers into 7-byte reads, with junk behind the request string; 9 operations, 11 RPCs *)
Example scheduled_history_nonvacuous :
  let pick : pick_t := fun w i rq => (match snd rq with 107 :: _ => [1; 2; 3; 4; 5] | _ => repeat 1 100 end, repeat 7 3, [255; 254; 253]) in
  let h := [OStore 1 [107] [49; 0; 50] [[116]] 2000; OFetch 0 [107] true; OStore 1 [108] [51] [] 2000; OFetch 0 [107] true;
            OStore 1 [107] [52] [[117]] 2000; OFetch 0 [107] true; ORise 1 [117]; OStats 0; OFetch 0 [107] false] in
  let w := init_world 2 [true; false] in
  positive_pick pick /\ length (calls_run w h) = 11%nat /\ forallb call_fits (calls_run w h) = true /\
  grun (sched_rpc pick) w h = run w h /\
  fst (run w h) = [ObsNone; ObsFetch (Some ([49; 0; 50], [[107]; [116]], 2000%Z)); ObsNone;
                   ObsFetch (Some ([49; 0; 50], [[107]; [116]], 2000%Z)); ObsNone;
                   ObsFetch (Some ([52], [[107]; [116]; [117]], 2000%Z)); ObsNone; ObsStats 1 1; ObsFetch None].
Proof.
  cbv zeta. split.
  - intros w i rq. cbn [fst snd]. split.
    + destruct (snd rq) as [|b r]; [apply Forall_forall; intros x Hx; apply repeat_spec in Hx; subst; reflexivity|].
      destruct (N.eq_dec b 107) as [->|NE].
      * repeat constructor.
      * assert (match b with 107 => [1; 2; 3; 4; 5] | _ => repeat 1 100 end = repeat 1 100) as ->.
        { destruct b as [|p]; [reflexivity|]. do 7 (destruct p as [p|p|]; try reflexivity). congruence. }
        apply Forall_forall. intros x Hx. apply repeat_spec in Hx. subst. reflexivity.
    + repeat constructor.
  - vm_compute. repeat split.
Qed.

(* ---------------------------------------------------------------------------------------------------------
   14. The request string is also the buffer the caller gets the answer in.  messenger::transmit receives the answer body into a
       temporary vector and assigns it to that string only when the body is complete (NetDefs.body_failure_leaves), so: under ANY
       single failure point of the first attempt - while the request goes out, anywhere in the answer header, anywhere in the
       answer BODY (all schedules = all points) - the memory of the request string is unchanged and the retry re-sends exactly the
       original request, header AND payload.  (A transmit that read the body straight into the caller's string would, after a
       failure inside the body, retry with the first key_len bytes of the half-received value as the key: fetch(A) would ask
       for - and with an L1 keep - the value of another key.  Oracle key fetch-returns-other-keys-value.) *)
Theorem retry_after_any_single_failure_resends_header_and_payload : forall ws rs h data pad now c hb dm c',
  hdr_ok h -> h_size h = lenN data ->
  (forall rh rp c1, srv_handle now h data c = (rh, rp, c1) -> hdr_ok rh) ->
  attempt ws rs (hdr_bytes h) (data ++ pad) now c = (AFail hb dm, c') ->
  dm = data ++ pad /\ second_request h hb dm = Some (h, data).
Proof. exact retry_after_any_failure_resends_the_request. Qed.
Print Assumptions retry_after_any_single_failure_resends_header_and_payload.
(* non-vacuity: key A = [65], its value begins with key B = [66]; the connection fails at every point of the 45-byte answer to
   fetch(A) in turn (fail_at j, j = 0..44: 40 header bytes, 3 value bytes, 2 bytes of the trigger region): the first attempt fails, the request
   string still holds A, and transmit returns the genuine answer (value 66,45,65) every time *)
Example body_failure_nonvacuous :
  let rq := enc_fetch [65] 0 true false in
  let c := snd (srv_handle 1000 (fst (enc_store [66] [98] [] 2000)) (snd (enc_store [66] [98] [] 2000))
            (snd (srv_handle 1000 (fst (enc_store [65] [66; 45; 65] [] 2000)) (snd (enc_store [65] [66; 45; 65] [] 2000)) c_empty))) in
  let genuine := srv_handle 1000 (fst rq) (snd rq) c in
  snd (fst genuine) = [66; 45; 65; 65; 0] /\ lenN (hdr_bytes (fst (fst genuine)) ++ snd (fst genuine)) = 45 /\
  forallb (fun j =>
    match attempt [] (fail_at (N.of_nat j)) (hdr_bytes (fst rq)) (snd rq ++ [9; 9]) 1000 c with
    | (AFail _ dm, _) => beq dm (snd rq ++ [9; 9])
    | _ => false
    end &&
    match transmit [] (fail_at (N.of_nat j)) true [] [] (fst rq) (snd rq ++ [9; 9]) 1000 c with
    | (TxReply _ p, _) => beq p [66; 45; 65; 65; 0]
    | _ => false
    end) (seq 0 45) = true.
Proof. vm_compute. repeat split. Qed.
