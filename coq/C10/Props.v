(* C10 -- networked cache with local L1 never serves data another node replaced.
   This file holds only the property theorems, each closed by `exact <lemma>`; the proofs are in
   Proofs.v (cache, server step, fetch RPC) and Coherence.v (world invariant over all histories).
   Model: coq/C10/Defs.v (cache_over_ip + tcp_cache codec + tcp_cache_service::session + mem_cache(limit 0)
   + tcp_connector::hash).  `reachable w` = w is obtained from an initial world (any number of servers, any
   number of clients each with or without L1) by ANY finite sequence of store / fetch / rise / clear /
   evict / stats / clock tick / raw foreign frame operations by any clients in any order. *)
From CppcmsV Require Import Base.Tac C10.Defs C10.Proofs C10.Coherence.
Local Open Scope N_scope.

(* 1. fetch_current: in every reachable world a fetch of key k by any client c (with or without L1, with or
      without trigger set requested) answers exactly what the responsible server holds unexpired at that
      moment: found iff the server finds it, with the server's value and deadline.  Since stores, rises and
      clears by any node act on that server synchronously, no fetch that starts after such an operation
      completed can return the older value, even if it still sits in the fetching node's L1. *)
Theorem fetch_current : forall w c k tags r w1,
  reachable w -> step w (OFetch c k tags) = (ObsFetch r, w1) -> current w k r.
Proof. exact fetch_current_reachable. Qed.
Print Assumptions fetch_current.

(* a fetch changes no server and not the clock (so `current w k r` is also about the world after the fetch) *)
Theorem fetch_changes_no_server : forall w c k tags x w1,
  reachable w -> step w (OFetch c k tags) = (x, w1) -> w_srv w1 = w_srv w /\ w_now w1 = w_now w.
Proof. exact fetch_keeps_servers. Qed.
Print Assumptions fetch_changes_no_server.

(* 2. gen_injective: over the whole history, on one server a generation number identifies one store event:
      two records with the same generation, the first held (by server i or by any L1 for a key of server i)
      in a reachable world and the second held after any further history h, have the same key, value and
      deadline. *)
Theorem gen_injective : forall w h i k1 e1 k2 e2,
  reachable w ->
  holds w i k1 e1 -> holds (snd (run w h)) i k2 e2 -> e_gen e1 = e_gen e2 ->
  k1 = k2 /\ e_val e1 = e_val e2 /\ e_dl e1 = e_dl e2.
Proof. exact gen_injective_reachable. Qed.
Print Assumptions gen_injective.
