(* C10 -- networked cache with local L1 never serves data another node replaced.
   This file holds only the property theorems, each closed by `exact <lemma>`; the proofs are in
   Proofs.v (cache, server step, fetch RPC), Coherence.v (world invariant over all histories), Codec.v (wire
   format), Effects.v (completed operations take effect), Refine.v (refinement of one shared cache), Link.v (hash
   step regenerated from the source).
   Model: coq/C10/Defs.v (cache_over_ip + tcp_cache codec + tcp_cache_service::session + mem_cache(limit 0)
   + tcp_connector::hash).  `reachable w` = w is obtained from an initial world (any number of servers, any
   number of clients each with or without L1) by ANY finite sequence of store / fetch / rise / clear /
   evict / stats / clock tick / raw foreign frame operations by any clients in any order.
   `quiet o` = o is a fetch, an L1 eviction or a stats call (operations that only read the servers). *)
From CppcmsV Require Import Base.Tac Base.CSem C10.Defs C10.Proofs C10.Coherence C10.Codec C10.Effects C10.Refine C10.Placement C10.Triggers C10.L1Triggers C10.Link
  gen.Gen_tcphash gen.Gen_tcpproto.
Local Open Scope N_scope.

(* ---------------------------------------------------------------------------------------------------------
   1. fetch_current: in every reachable world a fetch of key k by any client c (with or without L1, with or
      without trigger set requested) answers exactly what the responsible server holds unexpired at that
      moment: found iff the server finds it, with the server's value and deadline - whatever the L1 of the
      fetching node holds. *)
Theorem fetch_current : forall w c k tags r w1,
  reachable w -> step w (OFetch c k tags) = (ObsFetch r, w1) -> current w k r.
Proof. exact fetch_current_reachable. Qed.
Print Assumptions fetch_current.

(* a fetch changes no server and not the clock (so `current w k r` is also about the world after the fetch) *)
Theorem fetch_changes_no_server : forall w c k tags x w1,
  reachable w -> step w (OFetch c k tags) = (x, w1) -> w_srv w1 = w_srv w /\ w_now w1 = w_now w.
Proof. exact fetch_keeps_servers. Qed.
Print Assumptions fetch_changes_no_server.

(* after ANY node completed a store of (k,v,dl) - on the exact domain of the wire format, store_ok - and any
   number of reads by any nodes, a fetch of k by ANY node returns v with deadline dl (nothing if dl is
   already past): never the older value, even if it still sits in that node's L1 *)
Theorem no_older_value_after_store : forall w c k v trg dl w1 h c2 tags r w3,
  reachable w -> (0 < nsrv w)%nat -> store_ok k v trg dl ->
  step w (OStore c k v trg dl) = (ObsNone, w1) ->
  Forall quiet h ->
  step (snd (run w1 h)) (OFetch c2 k tags) = (ObsFetch r, w3) ->
  if (dl <? w_now w)%Z then r = None else exists t, r = Some (v, t, dl).
Proof. exact store_then_fetch. Qed.
Print Assumptions no_older_value_after_store.

(* after any node completed a rise of trigger t no server holds a record depending on t, and whatever a later
   fetch by any node returns is a record of the responsible server that does not depend on t *)
Theorem rise_reaches_every_server : forall w c t w1,
  step w (ORise c t) = (ObsNone, w1) ->
  nsrv w1 = nsrv w /\ w_now w1 = w_now w /\
  forall i s1 k e, nth_error (w_srv w1) i = Some s1 -> In (k, e) (c_items s1) -> smem t (e_trg e) = false.
Proof. exact rise_takes_effect. Qed.
Print Assumptions rise_reaches_every_server.
Theorem no_raised_value_after_rise : forall w c t w1 h c2 k tags v tt dl w3,
  reachable w -> step w (ORise c t) = (ObsNone, w1) -> Forall quiet h ->
  step (snd (run w1 h)) (OFetch c2 k tags) = (ObsFetch (Some (v, tt, dl)), w3) ->
  exists s e, nth_error (w_srv w1) (server_of (nsrv w1) k) = Some s /\ In (k, e) (c_items s) /\
              smem t (e_trg e) = false /\ v = e_val e /\ dl = e_dl e.
Proof. exact rise_then_fetch. Qed.
Print Assumptions no_raised_value_after_rise.

(* after any node completed a clear (and any reads) every fetch by any node finds nothing *)
Theorem nothing_after_clear : forall w c w1 h c2 k tags r w3,
  reachable w -> step w (OClear c) = (ObsNone, w1) -> Forall quiet h ->
  step (snd (run w1 h)) (OFetch c2 k tags) = (ObsFetch r, w3) -> r = None.
Proof. exact clear_then_fetch. Qed.
Print Assumptions nothing_after_clear.

(* non-vacuity: two servers, two nodes with L1; node 1 caches v1 in its L1, node 0 replaces it by v2, node 1's
   L1 still holds v1 and its fetch answers v2 (107 = k, 49/50 = the two values) *)
Example fetch_current_nonvacuous :
  let h := [OStore 0 [107] [49] [] 2000; OFetch 1 [107] true; OStore 0 [107] [50] [[116]] 2000] in
  let w := snd (run (init_world 2 [true; true]) h) in
  reachable w /\ (0 < nsrv w)%nat /\ store_ok [107] [50] [[116]] 2000 /\
  (exists l e, nth_error (w_cli w) 1 = Some (Some l) /\ a_find [107] (c_items l) = Some e /\ e_val e = [49]) /\
  fst (step w (OFetch 1 [107] true)) = ObsFetch (Some ([50], [[107]; [116]], 2000%Z)).
Proof.
  cbv zeta. split; [apply run_reachable; constructor|]. split; [vm_compute; lia|]. split.
  - split; [discriminate|]. split; [|split; [unfold int64; lia|vm_compute; reflexivity]].
    constructor; [|constructor]. split; [discriminate|]. intros [H|[]]. discriminate H.
  - split; [|vm_compute; reflexivity]. vm_compute. eexists. eexists. split; [reflexivity|]. split; reflexivity.
Qed.
(* non-vacuity for rise and clear: a raised trigger and a clear by node 1 remove what node 0 has in its L1 *)
Example rise_clear_nonvacuous :
  let w := snd (run (init_world 2 [true; false]) [OStore 1 [107] [49] [[116]] 2000; OFetch 0 [107] true]) in
  fst (step w (OFetch 0 [107] true)) = ObsFetch (Some ([49], [[107]; [116]], 2000%Z)) /\
  fst (step (snd (step w (ORise 1 [116]))) (OFetch 0 [107] true)) = ObsFetch None /\
  fst (step (snd (step w (OClear 1))) (OFetch 0 [107] true)) = ObsFetch None.
Proof. vm_compute. repeat split. Qed.

(* ---------------------------------------------------------------------------------------------------------
   1b. The statement as a refinement.  For every number of servers > 0, every assignment of L1s to any number of
      nodes, and EVERY history of node operations (client_ok: valid node numbers, no foreign raw frames, every
      store in the exact domain store_ok of the wire format) - stores, fetches, rises, clears, L1 evictions,
      stats calls and clock ticks by any nodes in any order - the values and deadlines returned by all fetches
      are exactly those of ONE mem_cache shared by all nodes executing the same operations (spec_run: no
      network, no L1).  In particular a fetch never returns a value that a completed store, rise or clear of
      any node has replaced or removed. *)
Theorem network_cache_is_one_cache : forall ns l1 h,
  (0 < ns)%nat -> Forall (client_ok (length l1)) h ->
  map view_of (fst (run (init_world ns l1) h)) = fst (spec_run (mkS c_empty 1000) h).
Proof. exact refines. Qed.
Print Assumptions network_cache_is_one_cache.
Example one_cache_nonvacuous :
  let h := [OStore 0 [107] [49] [[116]] 2000; OFetch 1 [107] true; OStore 2 [107] [50] [] 1001; OFetch 1 [107] false;
            OTick 2; OFetch 1 [107] true; OStore 0 [108] [51] [[116]] 2000; OFetch 2 [108] true; ORise 1 [116];
            OFetch 0 [108] true] in
  Forall (client_ok 3) h /\
  (fst (spec_run (mkS c_empty 1000) h) =
    [VOther; VFetch (Some ([49], 2000%Z)); VOther; VFetch (Some ([50], 1001%Z)); VOther; VFetch None; VOther;
     VFetch (Some ([51], 2000%Z)); VOther; VFetch None]) /\
  (map view_of (fst (run (init_world 2 [true; true; false]) h)) = fst (spec_run (mkS c_empty 1000) h)).
Proof.
  cbv zeta. split; [|split; vm_compute; reflexivity].
  assert (good_name [116]) as G by (split; [discriminate|intros [H|[]]; discriminate H]).
  repeat constructor; try discriminate; try exact G; try apply G; try (unfold int64; lia); try (vm_compute; reflexivity).
Qed.

(* ---------------------------------------------------------------------------------------------------------
   2. gen_injective: over the whole history, on one server a generation number identifies one store event:
      two records with the same generation, the first held (by server i or by any L1 for a key of server i)
      in a reachable world and the second held after any further history h, have the same key, value and
      deadline.  l1_coherent: hence the handshake "still generation g?" is sound - an L1 record whose
      generation equals that of the responsible server's current record carries its value and deadline. *)
Theorem gen_injective : forall w h i k1 e1 k2 e2,
  reachable w ->
  holds w i k1 e1 -> holds (snd (run w h)) i k2 e2 -> e_gen e1 = e_gen e2 ->
  k1 = k2 /\ e_val e1 = e_val e2 /\ e_dl e1 = e_dl e2.
Proof. exact gen_injective_reachable. Qed.
Print Assumptions gen_injective.
Theorem l1_coherent : forall w j l k e s e1,
  reachable w ->
  nth_error (w_cli w) j = Some (Some l) -> In (k, e) (c_items l) ->
  nth_error (w_srv w) (server_of (nsrv w) k) = Some s -> In (k, e1) (c_items s) ->
  e_gen e = e_gen e1 -> e_val e = e_val e1 /\ e_dl e = e_dl e1.
Proof. exact l1_coherent_reachable. Qed.
Print Assumptions l1_coherent.
Example gen_nonvacuous :
  let w := snd (run (init_world 1 [true]) [OStore 0 [107] [49] [] 2000; OFetch 0 [107] true; OStore 0 [108] [50] [] 2000]) in
  exists e1 e2, holds w 0 [107] e1 /\ holds w 0 [108] e2 /\ e_gen e1 = 0 /\ e_gen e2 = 1.
Proof.
  cbv zeta. eexists. eexists. split; [|split].
  - right. exists 0%nat. eexists. split; [vm_compute; reflexivity|]. split; [left; reflexivity|reflexivity].
  - left. eexists. split; [vm_compute; reflexivity|]. left. reflexivity.
  - split; reflexivity.
Qed.

(* the assumption "no cache server restart" (reachable has no such event) is necessary: a restarted server (empty, generation
   counter back at 0; Defs.restart) makes the handshake confirm a record of the previous incarnation - witness replayed on the
   implementation (docs/C10_restart.case) *)
Theorem restart_breaks_handshake :
  let w := snd (run (init_world 1 [true; false]) [OStore 1 [107] [49] [] 2000; OFetch 0 [107] true]) in
  let w1 := snd (step (restart w 0) (OStore 1 [107] [50] [] 2000)) in
  fst (step w1 (OFetch 0 [107] true)) = ObsFetch (Some ([49], [[107]], 2000%Z)) /\
  fst (step w1 (OFetch 1 [107] true)) = ObsFetch (Some ([50], [[107]], 2000%Z)).
Proof. vm_compute. split; reflexivity. Qed.
Print Assumptions restart_breaks_handshake.

(* ---------------------------------------------------------------------------------------------------------
   3. codec_roundtrip, on the exact domain.  Header: 40 bytes <-> ten 32-bit fields.  Store: the frame
      built by tcp_cache::store for key k (non-empty), value v (any bytes, also empty or with NULs), a sorted
      trigger set of non-empty NUL-free names, deadline in int64, frame shorter than 2^32, is answered `done`
      and the server's cache stores exactly (k, v, trg, dl).  Fetch: a data answer decodes to the value,
      trigger set, deadline and generation the server holds (names NUL-free).  Trigger lists: parse(serialise)
      is the identity; std::set normal form is idempotent.  Outside the domain the faithful model refutes
      the round trip: the empty name and the empty key are refused, a name containing NUL is split (these
      are the known finding name-with-nul-or-empty-not-carried, replayed on the implementation). *)
Theorem header_roundtrip : forall h, hdr_ok h -> hdr_parse (hdr_bytes h) = Some h.
Proof. exact hdr_roundtrip. Qed.
Print Assumptions header_roundtrip.
Theorem store_codec_roundtrip : forall now k v trg dl c,
  k <> [] -> Forall good_name trg -> ssorted trg -> int64 dl ->
  lenN (k ++ v ++ enc_trigs trg) < W32 ->
  srv_handle now (fst (enc_store k v trg dl)) (snd (enc_store k v trg dl)) c =
    (hdr0 op_done, [], c_store k v trg dl None c).
Proof. exact store_rpc. Qed.
Print Assumptions store_codec_roundtrip.
Theorem fetch_codec_roundtrip : forall now k g want tif c,
  let rq := enc_fetch k g want tif in
  let rp := srv_fetch now (fst rq) (snd rq) c in
  srv_handle now (fst rq) (snd rq) c = (fst rp, snd rp, c) /\
  dec_fetch tif want (fst rp) (snd rp) = fetch_answer now k g want tif c.
Proof. exact fetch_rpc. Qed.
Print Assumptions fetch_codec_roundtrip.
Theorem fetch_data_unchanged : forall now k g want tif c e,
  c_fetch now k c = Some e -> (tif && (e_gen e =? g)) = false ->
  int64 (e_dl e) -> Forall nul_free (e_trg e) ->
  fetch_answer now k g want tif c = FData (e_val e) (if want then e_trg e else []) (e_dl e) (e_gen e).
Proof. exact fetch_data_roundtrip. Qed.
Print Assumptions fetch_data_unchanged.
Theorem trigger_list_roundtrip : forall t,
  (Forall good_name t -> load_triggers [] (enc_trigs t) = Some t) /\
  (Forall nul_free t -> walk_triggers [] (enc_trigs t) = t).
Proof. intros t. split; [exact (load_enc_trigs t)|exact (walk_enc_trigs t)]. Qed.
Print Assumptions trigger_list_roundtrip.
Theorem trigger_set_normal_form : forall l,
  ssorted (mkset l) /\ mkset (mkset l) = mkset l /\ forall y, In y (mkset l) <-> In y l.
Proof. intros l. split; [exact (mkset_sorted l)|]. split; [exact (mkset_idem l)|exact (mkset_In l)]. Qed.
Print Assumptions trigger_set_normal_form.
Theorem deadline_roundtrip : forall z, int64 z -> z64_of (z64_lo z) (z64_hi z) = z.
Proof. exact z64_roundtrip. Qed.
Print Assumptions deadline_roundtrip.
(* at system level: every record on every server of every reachable world (also after foreign raw frames) has its trigger
   set in std::set normal form, and a fetch-with-triggers by a node without L1 returns the value, the deadline and the
   trigger set of the responsible server's record unchanged when the names are NUL-free (for nodes with an L1 the value and
   deadline are covered by fetch_current; their trigger set may in addition contain the names of the L1 copy) *)
Theorem server_trigger_sets_normal : forall w i s k e,
  reachable w -> nth_error (w_srv w) i = Some s -> In (k, e) (c_items s) -> ssorted (e_trg e).
Proof. exact reachable_sorted. Qed.
Print Assumptions server_trigger_sets_normal.
Theorem fetch_returns_trigger_set_unchanged : forall w c k r w1 s e,
  reachable w -> nth_error (w_cli w) c = Some None ->
  nth_error (w_srv w) (server_of (nsrv w) k) = Some s -> c_fetch (w_now w) k s = Some e ->
  Forall nul_free (e_trg e) ->
  step w (OFetch c k true) = (ObsFetch r, w1) -> r = Some (e_val e, e_trg e, e_dl e).
Proof. exact fetch_triggers_no_l1. Qed.
Print Assumptions fetch_returns_trigger_set_unchanged.
(* for ANY node, with or without L1, in every reachable world (also after foreign raw frames): the trigger set returned by a
   fetch-with-triggers contains every name of the responsible server's record (NUL-free names).  Invariant behind it: an L1
   record whose generation is that of the server's record contains that record's names.  (A node with an L1 may return more
   names - those of older copies it held: cache_over_ip::fetch merges; see docs.) *)
Theorem fetch_returns_at_least_the_trigger_set : forall w c k v tt dl w1 s e,
  reachable w -> step w (OFetch c k true) = (ObsFetch (Some (v, tt, dl)), w1) ->
  nth_error (w_srv w) (server_of (nsrv w) k) = Some s -> c_fetch (w_now w) k s = Some e ->
  Forall nul_free (e_trg e) -> incl (e_trg e) tt.
Proof. exact fetch_triggers_superset. Qed.
Print Assumptions fetch_returns_at_least_the_trigger_set.
(* the superset can be strict: node 0 keeps the name t of the copy it held before node 1 replaced the record *)
Example trigger_superset_strict :
  let h := [OStore 1 [107] [49] [[116]] 2000; OFetch 0 [107] true; OStore 1 [107] [50] [[117]] 2000] in
  let w := snd (run (init_world 1 [true; false]) h) in
  fst (step w (OFetch 0 [107] true)) = ObsFetch (Some ([50], [[107]; [116]; [117]], 2000%Z)) /\
  fst (step w (OFetch 1 [107] true)) = ObsFetch (Some ([50], [[107]; [117]], 2000%Z)).
Proof. vm_compute. split; reflexivity. Qed.
Example fetch_triggers_nonvacuous :
  let w := snd (run (init_world 2 [true; false]) [OStore 0 [107] [0; 49] [[117]; [116]; [116]] 2000]) in
  nth_error (w_cli w) 1 = Some None /\
  fst (step w (OFetch 1 [107] true)) = ObsFetch (Some ([0; 49], [[107]; [116]; [117]], 2000%Z)).
Proof. vm_compute. split; reflexivity. Qed.
Theorem codec_roundtrip_refuted_outside_domain :
  (exists k v trg dl c now,
     fst (fst (srv_handle now (fst (enc_store k v trg dl)) (snd (enc_store k v trg dl)) c)) = hdr0 op_error /\
     snd (srv_handle now (fst (enc_store k v trg dl)) (snd (enc_store k v trg dl)) c) = c) /\
  (exists k v trg dl now,
     snd (srv_handle now (fst (enc_store k v trg dl)) (snd (enc_store k v trg dl)) c_empty) <>
     c_store k v trg dl None c_empty) /\
  (exists v dl now,
     fst (fst (srv_handle now (fst (enc_store [] v [] dl)) (snd (enc_store [] v [] dl)) c_empty)) = hdr0 op_error).
Proof. split; [exact store_empty_name_refused|]. split; [exact store_nul_name_split|exact store_empty_key_refused]. Qed.
Print Assumptions codec_roundtrip_refuted_outside_domain.
Example codec_nonvacuous :
  let k := [107; 0; 255] in let v := [0; 0; 118] in let trg := [[116]; [116; 116]; [255; 128]] in
  k <> [] /\ Forall good_name trg /\ ssorted trg /\ int64 (-5) /\ lenN (k ++ v ++ enc_trigs trg) < W32 /\
  c_fetch (-10) k (snd (srv_handle 0 (fst (enc_store k v trg (-5))) (snd (enc_store k v trg (-5))) c_empty)) =
    Some (mkE v (sins k trg) (-5) 0) /\
  hdr_ok (fst (enc_store k v trg (-5))).
Proof.
  cbv zeta. split; [discriminate|]. split.
  - repeat constructor; try discriminate; intros H; cbn in H; intuition discriminate.
  - split; [vm_compute; tauto|]. split; [unfold int64; lia|]. split; [vm_compute; reflexivity|].
    split; [vm_compute; reflexivity|]. vm_compute. repeat split.
Qed.

(* ---------------------------------------------------------------------------------------------------------
   4. key_spread_consistent: the server responsible for a key is a function of the key bytes and the number of
      servers only (server_of is a Gallina function: the same on every node by construction), it is total and
      below the number of servers; and it is the function the source computes: the loop body of
      tcp_connector::hash regenerated from the current source equals the model's hash_step on every state and
      byte, hence the whole fold over the key. *)
Theorem key_spread_consistent : forall n k, (0 < n)%nat -> (server_of n k < n)%nat.
Proof. exact server_of_lt. Qed.
Print Assumptions key_spread_consistent.
(* in every world reached by operations of the nodes themselves (any nodes, any arguments, also stores the server
   refuses; no foreign raw frames) a record for key k sits only on server server_of n k *)
Theorem key_only_on_responsible_server : forall ns l1 h,
  Forall node_op h ->
  forall i s k e, nth_error (w_srv (snd (run (init_world ns l1) h))) i = Some s -> In (k, e) (c_items s) ->
                  i = server_of (length (w_srv (snd (run (init_world ns l1) h)))) k.
Proof. exact placement. Qed.
Print Assumptions key_only_on_responsible_server.
Example placement_nonvacuous :
  let w := snd (run (init_world 2 [true; false]) [OStore 0 [107] [49] [] 2000; OStore 1 [108] [50] [] 2000]) in
  map (fun s => map fst (c_items s)) (w_srv w) = [[[108]]; [[107]]].
Proof. vm_compute. reflexivity. Qed.
Theorem hash_step_is_source : forall h c, g_hash_step (Z.of_N h) (Z.of_N c) = Z.of_N (hash_step h c).
Proof. exact link_hash_step. Qed.
Print Assumptions hash_step_is_source.
Theorem hash_is_source : forall key, fold_left g_hash_step (map Z.of_N key) g_hash_init = Z.of_N (hash_raw key).
Proof. exact link_hash_raw. Qed.
Print Assumptions hash_is_source.
(* the opcode numbers and the header layout of the model are those of private/tcp_cache_protocol.h as it is now
   (enumerators and sizeof/offsetof evaluated by clang, coq/gen/Gen_tcpproto.v): every accessor of the model reads
   the header word at the offset the source declares for that field *)
Theorem opcodes_are_source :
  g_op_fetch = Z.of_N op_fetch /\ g_op_rise = Z.of_N op_rise /\ g_op_clear = Z.of_N op_clear /\
  g_op_store = Z.of_N op_store /\ g_op_stats = Z.of_N op_stats /\ g_op_error = Z.of_N op_error /\
  g_op_done = Z.of_N op_done /\ g_op_data = Z.of_N op_data /\ g_op_no_data = Z.of_N op_no_data /\
  g_op_uptodate = Z.of_N op_uptodate /\ g_op_out_stats = Z.of_N op_out_stats /\
  NoDup g_opcodes.
Proof. exact link_opcodes. Qed.
Print Assumptions opcodes_are_source.
Theorem header_layout_is_source : forall h, hdr_ok h ->
  Z.of_nat (length (hdr_bytes h)) = g_size_of_header /\ g_size_of_time_t = 8%Z /\
  word_at h g_off_opcode = h_op h /\ word_at h g_off_size = h_size h /\
  word_at h g_off_filler = h_f0 h /\ word_at h (g_off_filler + 4) = h_f1 h /\
  word_at h g_off_fetch_current_gen = h_u0 h /\ word_at h (g_off_fetch_current_gen + 4) = h_u1 h /\
  word_at h g_off_fetch_key_len = h_u2 h /\ word_at h (g_off_fetch_key_len + 4) = h_u3 h /\
  word_at h g_off_rise_trigger_len = h_u0 h /\
  word_at h g_off_store_timeout = h_u0 h /\ word_at h (g_off_store_timeout + 4) = h_u1 h /\
  word_at h g_off_store_key_len = h_u2 h /\ word_at h g_off_store_data_len = h_u3 h /\
  word_at h g_off_store_triggers_len = h_u4 h /\
  word_at h g_off_data_generation = h_u0 h /\ word_at h (g_off_data_generation + 4) = h_u1 h /\
  word_at h g_off_data_timeout = h_u2 h /\ word_at h (g_off_data_timeout + 4) = h_u3 h /\
  word_at h g_off_data_data_len = h_u4 h /\ word_at h g_off_data_triggers_len = h_u5 h /\
  word_at h g_off_out_stats_keys = h_u0 h /\ word_at h g_off_out_stats_triggers = h_u1 h.
Proof. exact link_layout. Qed.
Print Assumptions header_layout_is_source.
Example key_spread_nonvacuous :
  server_of 2 [107] = 1%nat /\ server_of 2 [108] = 0%nat /\ server_of 3 [107] = 2%nat /\
  hash_raw [255; 255; 255; 255; 255; 255; 255; 255; 255] = 831298521.
Proof. vm_compute. repeat split. Qed.
