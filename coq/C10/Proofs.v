(* C10 proofs, part 1: lists, the abstract cache, what one server step can do, the fetch RPC. *)
From CppcmsV Require Import Base.Tac C10.Defs.
Local Open Scope N_scope.

(* ---------- byte strings ---------- *)
Lemma beq_eq a b : beq a b = true <-> a = b.
Proof.
  revert b. induction a as [|x a IH]; intros [|y b]; cbn [beq]; split; intros H; try reflexivity; try discriminate.
  - apply andb_true_iff in H. destruct H as [H1 H2]. apply N.eqb_eq in H1. apply IH in H2. subst. reflexivity.
  - inversion H; subst. rewrite N.eqb_refl. apply IH. reflexivity.
Qed.
Lemma beq_refl a : beq a a = true.
Proof. apply beq_eq. reflexivity. Qed.

(* ---------- association list ---------- *)
Lemma a_find_In k l e : a_find k l = Some e -> In (k, e) l.
Proof.
  induction l as [|[k1 e1] r IH]; cbn [a_find]; intros H; [discriminate|].
  destruct (beq k k1) eqn:E.
  - apply beq_eq in E. inversion H; subst. left. reflexivity.
  - right. apply IH. exact H.
Qed.
Lemma a_remove_In k l p : In p (a_remove k l) -> In p l.
Proof. unfold a_remove. intros H. apply filter_In in H. tauto. Qed.
Lemma a_find_remove k l : a_find k (a_remove k l) = None.
Proof.
  induction l as [|[k1 e1] r IH]; cbn [a_remove filter fst]; [reflexivity|].
  destruct (beq k k1) eqn:E; cbn [negb].
  - exact IH.
  - cbn [a_find]. rewrite E. exact IH.
Qed.

(* ---------- upd / nth_error ---------- *)
Lemma upd_length {A} i (x : A) l : length (upd i x l) = length l.
Proof. revert i. induction l as [|y r IH]; intros [|j]; cbn [upd length]; try reflexivity. rewrite IH. reflexivity. Qed.
Lemma upd_same {A} i (x : A) l : nth_error l i = Some x -> upd i x l = l.
Proof.
  revert i. induction l as [|y r IH]; intros [|j]; cbn [upd nth_error]; intros H; try discriminate.
  - inversion H. reflexivity.
  - rewrite IH by exact H. reflexivity.
Qed.
Lemma nth_upd_eq {A} i (x : A) l : (i < length l)%nat -> nth_error (upd i x l) i = Some x.
Proof.
  revert i. induction l as [|y r IH]; intros [|j]; cbn [upd nth_error length]; intros H; try lia; try reflexivity.
  apply IH. lia.
Qed.
Lemma nth_upd_neq {A} i j (x : A) l : i <> j -> nth_error (upd i x l) j = nth_error l j.
Proof.
  revert i j. induction l as [|y r IH]; intros [|i] [|j] H; cbn [upd nth_error]; try reflexivity; try congruence.
  apply IH. congruence.
Qed.
Lemma nth_upd_inv {A} i j (x y : A) l :
  nth_error (upd i x l) j = Some y -> (i = j /\ y = x) \/ (i <> j /\ nth_error l j = Some y).
Proof.
  intros H. destruct (Nat.eq_dec i j) as [E|E].
  - subst. left. split; [reflexivity|].
    assert (j < length l)%nat as L.
    { rewrite <- (upd_length j x l). apply nth_error_Some. congruence. }
    rewrite nth_upd_eq in H by exact L. congruence.
  - right. split; [exact E|]. rewrite nth_upd_neq in H by exact E. exact H.
Qed.

(* ---------- events and the per-server invariant ---------- *)
(* a store event: key, generation, value, deadline *)
Definition event := (bytes * N * bytes * Z)%type.
Definition ev_gen (x : event) : N := snd (fst (fst x)).
Definition ev_dl (x : event) : Z := snd x.
Definition ev_of (k : bytes) (e : entry) : event := (k, e_gen e, e_val e, e_dl e).
Definition int64 (z : Z) : Prop := (-9223372036854775808 <= z < 9223372036854775808)%Z.

Definition srv_ok (c : cache) (log : list event) : Prop :=
  NoDup (map ev_gen log) /\
  (forall x, In x log -> ev_gen x < c_gen c /\ int64 (ev_dl x)) /\
  (forall k e, In (k, e) (c_items c) -> In (ev_of k e) log).

Lemma nodup_map_inj {A B} (f : A -> B) l x y :
  NoDup (map f l) -> In x l -> In y l -> f x = f y -> x = y.
Proof.
  induction l as [|a r IH]; cbn [map In]; intros N Hx Hy E; [contradiction|].
  inversion N as [|? ? Hn Nr]; subst.
  destruct Hx as [Hx|Hx], Hy as [Hy|Hy]; subst.
  - reflexivity.
  - exfalso. apply Hn. rewrite E. apply in_map. exact Hy.
  - exfalso. apply Hn. rewrite <- E. apply in_map. exact Hx.
  - apply IH; assumption.
Qed.

(* what a server step can do to the cache *)
Inductive srv_change (c : cache) : cache -> Prop :=
| ch_same : srv_change c c
| ch_rise t : srv_change c (c_rise t c)
| ch_clear : srv_change c (c_clear c)
| ch_store k v trg lo hi : srv_change c (c_store k v trg (z64_of lo hi) None c).

Lemma srv_handle_change now h p c h1 p1 c1 :
  srv_handle now h p c = (h1, p1, c1) -> srv_change c c1.
Proof.
  unfold srv_handle. intros H.
  destruct (h_op h =? op_fetch); [inversion H; constructor|].
  destruct (h_op h =? op_rise); [inversion H; constructor|].
  destruct (h_op h =? op_clear); [inversion H; constructor|].
  destruct (h_op h =? op_store).
  - unfold srv_store in H.
    destruct (negb (h_u2 h + h_u3 h + h_u4 h =? h_size h) || (h_u2 h =? 0)); [inversion H; constructor|].
    destruct (load_triggers [] (take (h_u4 h) (drop (h_u2 h + h_u3 h) p))); inversion H; constructor.
  - destruct (h_op h =? op_stats).
    + destruct (c_stats c). inversion H. constructor.
    + inversion H. constructor.
Qed.

Lemma z64_of_int64 lo hi : int64 (z64_of lo hi).
Proof.
  unfold int64, z64_of. cbv zeta.
  pose proof (Z.mod_pos_bound (Z.of_N lo + 4294967296 * Z.of_N hi + 9223372036854775808) 18446744073709551616 ltac:(lia)) as B.
  lia.
Qed.

Lemma srv_change_ok c c1 log :
  srv_ok c log -> srv_change c c1 ->
  exists log1, srv_ok c1 log1 /\ incl log log1 /\ c_gen c <= c_gen c1 <= c_gen c + 1.
Proof.
  intros (ND & LT & IT) CH. destruct CH as [|t| |k v trg lo hi].
  - exists log. split; [split; [exact ND|split; [exact LT|exact IT]]|]. split; [apply incl_refl|lia].
  - exists log. split; [split; [exact ND|split; [exact LT|]]|].
    + intros k e H. cbn [c_rise c_items] in H. apply filter_In in H. apply IT. tauto.
    + split; [apply incl_refl|cbn [c_rise c_gen]; lia].
  - exists log. split; [split; [exact ND|split; [exact LT|]]|].
    + intros k e H. cbn [c_clear c_items] in H. contradiction.
    + split; [apply incl_refl|cbn [c_clear c_gen]; lia].
  - exists ((k, c_gen c, v, z64_of lo hi) :: log). cbn [c_store c_gen c_items].
    split; [split; [|split]|].
    + cbn [map]. constructor; [|exact ND].
      intros H. apply in_map_iff in H. destruct H as (x & E & Hx). apply LT in Hx.
      change (ev_gen (k, c_gen c, v, z64_of lo hi)) with (c_gen c) in E. lia.
    + intros x [H|H].
      * subst x. split; [cbn; lia|apply z64_of_int64].
      * apply LT in H. split; [cbn; lia|tauto].
    + cbn. intros k1 e1 [H|H].
      * inversion H; subst. left. reflexivity.
      * right. apply IT. eapply a_remove_In. exact H.
    + split; [apply incl_tl, incl_refl|cbn; lia].
Qed.

(* ---------- the fetch RPC ---------- *)
Lemma take_app (a b : bytes) : take (lenN a) (a ++ b) = a.
Proof.
  unfold take, lenN. rewrite Nat2N.id.
  rewrite firstn_app, Nat.sub_diag, firstn_all. cbn [firstn]. apply app_nil_r.
Qed.
Lemma drop_app (a b : bytes) : drop (lenN a) (a ++ b) = b.
Proof.
  unfold drop, lenN. rewrite Nat2N.id.
  rewrite skipn_app, Nat.sub_diag, skipn_all. reflexivity.
Qed.
Lemma take_all (a : bytes) : take (lenN a) a = a.
Proof. unfold take, lenN. rewrite Nat2N.id. apply firstn_all. Qed.

Lemma z64_roundtrip z : int64 z -> z64_of (z64_lo z) (z64_hi z) = z.
Proof.
  unfold int64, z64_of, z64_lo, z64_hi. intros H. cbv zeta.
  rewrite !Z2N.id by (apply Z.mod_pos_bound; lia).
  pose proof (Z.div_mod z 4294967296 ltac:(lia)) as D.
  pose proof (Z.mod_pos_bound z 4294967296 ltac:(lia)) as B.
  assert (-2147483648 <= z / 4294967296 < 2147483648)%Z as Q by lia.
  assert ((z / 4294967296) mod 4294967296 = z / 4294967296 \/
          (z / 4294967296) mod 4294967296 = z / 4294967296 + 4294967296)%Z as [E|E].
  { destruct (Z_lt_le_dec (z / 4294967296) 0) as [L|L].
    - right. symmetry. apply Z.mod_unique with (q := (-1)%Z); lia.
    - left. apply Z.mod_small. lia. }
  - rewrite E.
    replace (z mod 4294967296 + 4294967296 * (z / 4294967296))%Z with z by lia.
    rewrite Z.mod_small by lia. lia.
  - rewrite E.
    replace (z mod 4294967296 + 4294967296 * (z / 4294967296 + 4294967296) + 9223372036854775808)%Z
      with (z + 9223372036854775808 + 1 * 18446744073709551616)%Z by lia.
    rewrite Z.mod_add by lia. rewrite Z.mod_small by lia. lia.
Qed.

Lemma gen_words g : g mod W32 + W32 * (g / W32) = g.
Proof. unfold W32. lia. Qed.

Definition fetch_answer (now : Z) (k : bytes) (g : N) (want tif : bool) (c : cache) : fetch_res :=
  match c_fetch now k c with
  | None => FNotFound
  | Some e =>
      if tif && (e_gen e =? g) then FUpToDate
      else FData (e_val e) (if want then walk_triggers [] (enc_trigs (e_trg e)) else [])
                 (z64_of (z64_lo (e_dl e)) (z64_hi (e_dl e))) (e_gen e)
  end.

Lemma flags_decode (want tif : bool) :
  let f := (if want then 1 else 0) + (if tif then 2 else 0) in
  (f mod 2 =? 1) = want /\ ((f / 2) mod 2 =? 1) = tif.
Proof. destruct want, tif; vm_compute; split; reflexivity. Qed.

(* the request produced by tcp_cache::fetch, handled by the server, decoded by tcp_cache::fetch *)
Lemma fetch_rpc now k g want tif c :
  let rq := enc_fetch k g want tif in
  srv_handle now (fst rq) (snd rq) c =
    (fst (srv_fetch now (fst rq) (snd rq) c), snd (srv_fetch now (fst rq) (snd rq) c), c) /\
  dec_fetch tif want (fst (srv_fetch now (fst rq) (snd rq) c)) (snd (srv_fetch now (fst rq) (snd rq) c))
    = fetch_answer now k g want tif c.
Proof.
  cbv zeta. split.
  - unfold srv_handle, enc_fetch. cbn [fst snd h_op]. change (op_fetch =? op_fetch) with true. cbv iota.
    destruct (srv_fetch now _ k c). reflexivity.
  - unfold srv_fetch, enc_fetch, fetch_answer. cbn [fst snd h_u0 h_u1 h_u3].
    destruct (flags_decode want tif) as [F1 F2]. cbv zeta in F1, F2. rewrite F1, F2.
    destruct (c_fetch now k c) as [e|]; [|destruct tif; reflexivity].
    rewrite gen_words.
    destruct tif; cbn [andb].
    + destruct (e_gen e =? g) eqn:E; [reflexivity|].
      unfold dec_fetch. cbn [fst snd h_op h_u0 h_u1 h_u2 h_u3 h_u4 h_u5 andb].
      change (op_data =? op_uptodate) with false. change (op_data =? op_data) with true. cbn [negb].
      rewrite take_app, drop_app, take_all, gen_words. destruct want; reflexivity.
    + unfold dec_fetch. cbn [fst snd h_op h_u0 h_u1 h_u2 h_u3 h_u4 h_u5 andb].
      change (op_data =? op_data) with true. cbn [negb].
      rewrite take_app, drop_app, take_all, gen_words. destruct want; reflexivity.
Qed.
