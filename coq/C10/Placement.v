(* C10 proofs, part 6: key spread.  In every world reached by operations of the nodes themselves (any nodes, any
   arguments - also stores the server refuses), a record for key k sits only on server server_of n k. *)
From CppcmsV Require Import Base.Tac C10.Defs C10.Proofs C10.Coherence C10.Codec C10.Effects C10.Refine.
Local Open Scope N_scope.

Definition placedS (srv : list cache) : Prop :=
  forall i s k e, nth_error srv i = Some s -> In (k, e) (c_items s) -> i = server_of (length srv) k.
Definition placed (w : world) : Prop := placedS (w_srv w).
Definition node_op (o : op) : Prop := match o with ORaw _ _ _ => False | _ => True end.

(* what one request can do to the records of a server: keep a subset, or store under the key found in the frame *)
Lemma srv_handle_items now h p c :
  (forall x, In x (c_items (snd (srv_handle now h p c))) -> In x (c_items c)) \/
  (h_op h = op_store /\ exists v trg dl, snd (srv_handle now h p c) = c_store (take (h_u2 h) p) v trg dl None c).
Proof.
  unfold srv_handle.
  destruct (h_op h =? op_fetch); [left; cbn [snd]; tauto|].
  destruct (h_op h =? op_rise); [left; cbn [snd]; apply c_rise_sub|].
  destruct (h_op h =? op_clear); [left; cbn [snd]; apply c_clear_sub|].
  destruct (h_op h =? op_store) eqn:E.
  - apply N.eqb_eq in E. unfold srv_store.
    destruct (negb (h_u2 h + h_u3 h + h_u4 h =? h_size h) || (h_u2 h =? 0)); [left; cbn [snd]; tauto|].
    destruct (load_triggers [] (take (h_u4 h) (drop (h_u2 h + h_u3 h) p))); [|left; cbn [snd]; tauto].
    right. split; [exact E|]. cbn [snd]. eexists. eexists. eexists. reflexivity.
  - destruct (h_op h =? op_stats); [destruct (c_stats c)|]; left; cbn [snd]; tauto.
Qed.

Lemma rpc_placed w i rq h p w1 :
  placed w ->
  (h_op (fst rq) = op_store -> i = server_of (nsrv w) (take (h_u2 (fst rq)) (snd rq))) ->
  rpc w i rq = (h, p, w1) -> placed w1 /\ nsrv w1 = nsrv w /\ w_cli w1 = w_cli w /\ w_now w1 = w_now w.
Proof.
  intros P K H. unfold rpc in H. destruct (nth_error (w_srv w) i) as [c|] eqn:Ei.
  - destruct (srv_handle (w_now w) (fst rq) (snd rq) c) as [[h2 p2] c1] eqn:Eh. inversion H; subst; clear H.
    unfold placed, nsrv. cbn [w_srv w_cli w_now]. rewrite upd_length. split; [|repeat split].
    intros j s k e Hj Hin. rewrite upd_length. apply nth_upd_inv in Hj. destruct Hj as [[E ->]|[E Hj]].
    + subst j. pose proof (srv_handle_items (w_now w) (fst rq) (snd rq) c) as A. rewrite Eh in A. cbn [snd] in A.
      destruct A as [A|(Eo & v & trg & dl & A)].
      * eapply P; [exact Ei|apply A; exact Hin].
      * rewrite A in Hin. cbn [c_store c_items] in Hin. destruct Hin as [Hin|Hin].
        -- inversion Hin; subst. apply K. exact Eo.
        -- eapply P; [exact Ei|eapply a_remove_In; exact Hin].
    + eapply P; eassumption.
  - inversion H; subst. repeat split. exact P.
Qed.

Lemma broadcast_placed n w rq :
  placed w -> h_op (fst rq) <> op_store -> placed (broadcast n w rq) /\ nsrv (broadcast n w rq) = nsrv w.
Proof.
  intros P NS. induction n as [|m IH]; cbn [broadcast]; [split; [exact P|reflexivity]|].
  destruct IH as [P1 N1]. destruct (rpc (broadcast m w rq) m rq) as [[h p] w2] eqn:E.
  destruct (rpc_placed _ _ _ _ _ _ P1 (fun Eo => False_ind _ (NS Eo)) E) as (P2 & N2 & _). split; [exact P2|congruence].
Qed.

Lemma placed_same w w1 : placed w -> w_srv w1 = w_srv w -> placed w1.
Proof. unfold placed. intros P E. rewrite E. exact P. Qed.

Lemma step_placed w o : reachable w -> placed w -> node_op o -> placed (snd (step w o)).
Proof.
  intros R P NO. destruct (step w o) as [x w1] eqn:H. cbn [snd].
  destruct o as [c k v trg dl|c k tags|c t|c|c k|c|d|s h p]; try contradiction.
  - cbn [step] in H. destruct (on_l1 w c (c_remove k)) as [w0|] eqn:E0.
    + destruct (on_l1_frame _ _ _ _ E0) as [S0 _].
      destruct (rpc w0 (server_of (nsrv w0) k) (enc_store k v (mkset trg) dl)) as [[h1 p1] w2] eqn:E.
      inversion H; subst w1.
      eapply (rpc_placed w0 _ _ _ _ _ (placed_same w w0 P S0)); [|exact E].
      intros _. unfold enc_store. cbn [fst snd h_u2]. rewrite take_app. reflexivity.
    + inversion H; subst. exact P.
  - eapply placed_same; [exact P|]. eapply fetch_keeps_servers; eassumption.
  - cbn [step] in H. destruct (on_l1 w c (c_rise t)) as [w0|] eqn:E0.
    + destruct (on_l1_frame _ _ _ _ E0) as [S0 _]. inversion H; subst w1.
      apply broadcast_placed; [exact (placed_same w w0 P S0)|discriminate].
    + inversion H; subst. exact P.
  - cbn [step] in H. destruct (on_l1 w c c_clear) as [w0|] eqn:E0.
    + destruct (on_l1_frame _ _ _ _ E0) as [S0 _]. inversion H; subst w1.
      apply broadcast_placed; [exact (placed_same w w0 P S0)|discriminate].
    + inversion H; subst. exact P.
  - eapply placed_same; [exact P|]. eapply (quiet_keeps_servers w (OEvict c k)); [exact R|exact I|exact H].
  - eapply placed_same; [exact P|]. eapply (quiet_keeps_servers w (OStats c)); [exact R|exact I|exact H].
  - cbn [step] in H. inversion H; subst. exact P.
Qed.

Lemma run_placed h : forall w, reachable w -> placed w -> Forall node_op h -> placed (snd (run w h)).
Proof.
  induction h as [|o r IH]; intros w R P F; [exact P|]. inversion F as [|? ? Fo Fr]; subst. cbn [run].
  pose proof (step_placed w o R P Fo) as P1.
  assert (reachable (snd (step w o))) as R1 by (constructor; exact R).
  destruct (step w o) as [x w1]. cbn [snd] in *. specialize (IH w1 R1 P1 Fr).
  destruct (run w1 r) as [xs w2]. exact IH.
Qed.

Lemma init_placed ns l1 : placed (init_world ns l1).
Proof.
  intros i s k e H Hin. unfold init_world in H. cbn [w_srv] in H. apply nth_error_In in H. apply repeat_spec in H.
  subst. contradiction.
Qed.

Lemma placement ns l1 h : Forall node_op h -> placed (snd (run (init_world ns l1) h)).
Proof. intros F. apply run_placed; [constructor|apply init_placed|exact F]. Qed.
