(* C10 proofs, part 14: the key -> server distribution and the ORDER of the server list.  tcp_connector::hash returns an
   index into the node's own list (hash mod number of servers): it is stable as long as every node has the same list in the
   same order, and only then:
   - two nodes whose lists are different orderings of the same servers disagree on the server of some key (up to 256 servers);
   - a node with the reversed list breaks the property (witness; replayed on the implementation, docs/C10_order.case);
   - with one server the order is irrelevant;
   - the distribution is not stable when a server is added (hash mod n: no consistent hashing) - witness. *)
From CppcmsV Require Import Base.Tac C10.Defs C10.Proofs C10.NetDefs.
Local Open Scope N_scope.

Lemma hash_single c : c < 256 -> hash_raw [c] = c.
Proof.
  intros H. unfold hash_raw. cbn [fold_left]. unfold hash_step. cbn [N.land N.shiftl N.shiftr N.lxor].
  change (0 mod W32) with 0. cbn [N.shiftr N.lxor]. change (N.lxor 0 (0 mod W32) mod W32) with 0.
  rewrite N.lxor_0_l. unfold W32. rewrite (N.mod_small c 256) by exact H. apply N.mod_small. lia.
Qed.

Lemma server_of_single n i : (1 < n)%nat -> (i < n)%nat -> (n <= 256)%nat -> server_of n [N.of_nat i] = i.
Proof.
  intros N1 I N2. unfold server_of. destruct (Nat.eqb_spec n 1) as [E|E]; [lia|].
  rewrite hash_single by lia. rewrite N.mod_small by lia. apply Nat2N.id.
Qed.

(* same list, same order: same physical server for every key (phys is a function of the list and the key) *)
Lemma same_order_same_server (o1 o2 : list nat) k : o1 = o2 -> phys o1 k = phys o2 k.
Proof. intros ->. reflexivity. Qed.

(* different orders of equally many servers: some key goes to different physical servers *)
Lemma order_matters (o1 o2 : list nat) :
  length o1 = length o2 -> (length o1 <= 256)%nat -> o1 <> o2 -> exists k, phys o1 k <> phys o2 k.
Proof.
  intros L B NE.
  assert (exists i, (i < length o1)%nat /\ nth i o1 O <> nth i o2 O) as (i & I & D).
  { clear B. revert o2 L NE. induction o1 as [|a r IH]; intros [|b r2] L NE; cbn [length] in *; try lia; [congruence|].
    destruct (Nat.eq_dec a b) as [E|E].
    - subst b. destruct (IH r2) as (i & I & D); [lia|congruence|]. exists (S i). split; [lia|exact D].
    - exists 0%nat. split; [lia|exact E]. }
  destruct (Nat.eq_dec (length o1) 1) as [E1|E1].
  - (* one server: i = 0, key irrelevant *)
    exists []. unfold phys. rewrite <- L. unfold server_of. rewrite E1. cbn [Nat.eqb]. assert (i = 0)%nat as -> by lia. exact D.
  - exists [N.of_nat i]. unfold phys. rewrite <- L. rewrite server_of_single by lia. exact D.
Qed.

(* one server: the order is irrelevant (the reversed world is the world) *)
Lemma rev_srv_one w : nsrv w = 1%nat -> rev_srv w = w.
Proof.
  unfold nsrv. intros H. destruct w as [srv cli now]. cbn [w_srv] in H.
  destruct srv as [|s [|s2 r]]; cbn [length] in H; try lia. reflexivity.
Qed.

(* a node with the reversed list: a completed store by it is not seen by the other nodes - they keep answering the older value *)
Lemma reversed_order_breaks_the_property :
  let w0 := init_world 2 [false; false] in
  let w1 := snd (step w0 (OStore 0 [107] [49] [] 2000)) in        (* node 0, list (A,B): store k=v1 *)
  let w2 := snd (rstep w1 (OStore 1 [107] [50] [] 2000)) in       (* node 1, list (B,A): store k=v2, completed *)
  fst (step w2 (OFetch 0 [107] true)) = ObsFetch (Some ([49], [[107]], 2000%Z)) /\    (* node 0 still answers v1 *)
  fst (rstep w2 (OFetch 1 [107] true)) = ObsFetch (Some ([50], [[107]], 2000%Z)) /\   (* node 1 answers v2 *)
  map (fun s => map (fun p => (fst p, e_val (snd p))) (c_items s)) (w_srv w2) = [[([107], [50])]; [([107], [49])]].
Proof. vm_compute. repeat split. Qed.

(* adding a server moves keys (hash mod n) *)
Lemma adding_a_server_moves_keys : exists k, server_of 2 k <> server_of 3 k /\ server_of 2 k = 1%nat /\ server_of 3 k = 2%nat.
Proof. exists [107]. vm_compute. repeat split. discriminate. Qed.
