(* C10: executable model of the networked cache: cache_over_ip (client with optional L1), tcp_cache (client
   codec), tcp_cache_service::session (server codec + dispatch), tcp_connector::hash (key -> server) and an
   abstract mem_cache (src/cache_storage.cpp with limit 0: a map key -> (value, trigger set, deadline,
   generation) with a generation counter that is never reset).
   Bytes are N, strings list N.  No proofs here. *)
From Coq Require Import NArith ZArith List Bool.
Import ListNotations.
Local Open Scope N_scope.

Definition bytes := list N.

(* ---------- std::string equality / order, std::set<std::string> ---------- *)
Fixpoint beq (a b : bytes) : bool :=
  match a, b with
  | [], [] => true
  | x :: a1, y :: b1 => (x =? y) && beq a1 b1
  | _, _ => false
  end.
(* lexicographic on unsigned bytes, proper prefix first (char_traits<char>::compare, then length) *)
Fixpoint bltb (a b : bytes) : bool :=
  match a, b with
  | _, [] => false
  | [], _ :: _ => true
  | x :: a1, y :: b1 => if x <? y then true else if y <? x then false else bltb a1 b1
  end.
Fixpoint sins (x : bytes) (s : list bytes) : list bytes :=
  match s with
  | [] => [x]
  | y :: r => if bltb x y then x :: s else if bltb y x then y :: sins x r else s
  end.
Definition mkset (l : list bytes) : list bytes := fold_right sins [] l.
Definition sunion (a b : list bytes) : list bytes := fold_right sins b a.
Definition smem (x : bytes) (s : list bytes) : bool := existsb (beq x) s.

(* ---------- mem_cache (limit 0, thread settings) ---------- *)
Record entry := mkE { e_val : bytes; e_trg : list bytes; e_dl : Z; e_gen : N }.
Record cache := mkC { c_items : list (bytes * entry); c_gen : N }.
Definition c_empty : cache := mkC [] 0.

Fixpoint a_find (k : bytes) (l : list (bytes * entry)) : option entry :=
  match l with
  | [] => None
  | (k1, e) :: r => if beq k k1 then Some e else a_find k r
  end.
Definition a_remove (k : bytes) (l : list (bytes * entry)) : list (bytes * entry) :=
  filter (fun p => negb (beq k (fst p))) l.

(* fetch: found and not past its deadline (timeout < now means gone; the record stays in the map) *)
Definition c_fetch (now : Z) (k : bytes) (c : cache) : option entry :=
  match a_find k (c_items c) with
  | Some e => if (e_dl e <? now)%Z then None else Some e
  | None => None
  end.
Definition c_remove (k : bytes) (c : cache) : cache := mkC (a_remove k (c_items c)) (c_gen c).
(* store: old record deleted, generation = given one (L1 filled from the server) or the counter, which
   is then incremented; the key is always one of the triggers of its own record *)
Definition c_store (k v : bytes) (trg : list bytes) (dl : Z) (g : option N) (c : cache) : cache :=
  let items := a_remove k (c_items c) in
  match g with
  | Some g0 => mkC ((k, mkE v (sins k trg) dl g0) :: items) (c_gen c)
  | None => mkC ((k, mkE v (sins k trg) dl (c_gen c)) :: items) (c_gen c + 1)
  end.
Definition c_rise (t : bytes) (c : cache) : cache :=
  mkC (filter (fun p => negb (smem t (e_trg (snd p)))) (c_items c)) (c_gen c).
Definition c_clear (c : cache) : cache := mkC [] (c_gen c).
Definition c_stats (c : cache) : N * N :=
  (N.of_nat (length (c_items c)),
   fold_right (fun p acc => N.of_nat (length (e_trg (snd p))) + acc) 0 (c_items c)).

(* ---------- wire format: tcp_operation_header = 10 little-endian 32-bit words (40 bytes) ----------
   Length fields and generations are unbounded N in the model (uint32 / uint64 in the code, assumed not to
   overflow); the length sum check of the store request is evaluated in 64 bits by the code (since /repo b527961:
   three 32-bit fields cannot overflow it), i.e. it is the exact integer comparison. *)
Definition le32 (v : N) : bytes :=
  [v mod 256; (v / 256) mod 256; (v / 65536) mod 256; (v / 16777216) mod 256].
Definition de32 (a b c d : N) : N := a + 256 * b + 65536 * c + 16777216 * d.
Definition W32 : N := 4294967296.
Definition W64 : N := 18446744073709551616.

(* opcode, size, filler[2], then the 24-byte union as six words *)
Record hdr := mkH { h_op : N; h_size : N; h_f0 : N; h_f1 : N;
                    h_u0 : N; h_u1 : N; h_u2 : N; h_u3 : N; h_u4 : N; h_u5 : N }.
Definition hdr0 (op : N) : hdr := mkH op 0 0 0 0 0 0 0 0 0.
Definition hdr_bytes (h : hdr) : bytes :=
  le32 (h_op h) ++ le32 (h_size h) ++ le32 (h_f0 h) ++ le32 (h_f1 h) ++ le32 (h_u0 h) ++ le32 (h_u1 h)
  ++ le32 (h_u2 h) ++ le32 (h_u3 h) ++ le32 (h_u4 h) ++ le32 (h_u5 h).
Fixpoint words (l : bytes) : list N :=
  match l with
  | a :: b :: c :: d :: r => de32 a b c d :: words r
  | _ => []
  end.
Definition hdr_parse (l : bytes) : option hdr :=
  if Nat.eqb (length l) 40 then
    match words l with
    | [a; b; c; d; e; f; g; h; i; j] => Some (mkH a b c d e f g h i j)
    | _ => None
    end
  else None.

Definition lenN (l : bytes) : N := N.of_nat (length l).
Definition take (n : N) (l : bytes) : bytes := firstn (N.to_nat n) l.
Definition drop (n : N) (l : bytes) : bytes := skipn (N.to_nat n) l.

(* int64 <-> two 32-bit words *)
Definition z64_lo (z : Z) : N := Z.to_N (z mod 4294967296).
Definition z64_hi (z : Z) : N := Z.to_N ((z / 4294967296) mod 4294967296).
Definition z64_of (lo hi : N) : Z :=
  let u := (Z.of_N lo + 4294967296 * Z.of_N hi)%Z in
  ((u + 9223372036854775808) mod 18446744073709551616 - 9223372036854775808)%Z.

(* opcodes (private/tcp_cache_protocol.h) *)
Definition op_fetch := 0. Definition op_rise := 1. Definition op_clear := 2. Definition op_store := 3.
Definition op_stats := 4. Definition op_error := 5. Definition op_done := 6. Definition op_data := 7.
Definition op_no_data := 8. Definition op_uptodate := 9. Definition op_out_stats := 10.

(* trigger list on the wire: every name followed by a NUL *)
Definition enc_trigs (t : list bytes) : bytes := flat_map (fun x => x ++ [0]) t.

(* ---- client side encoder (src/tcp_cache_client.cpp) ---- *)
Definition enc_fetch (key : bytes) (cur_gen : N) (want_trg tif : bool) : hdr * bytes :=
  let g := if tif then cur_gen else 0 in
  (mkH op_fetch (lenN key) 0 0 (g mod W32) (g / W32) (lenN key)
       ((if want_trg then 1 else 0) + (if tif then 2 else 0)) 0 0, key).
Definition enc_rise (t : bytes) : hdr * bytes :=
  (mkH op_rise (lenN t) 0 0 (lenN t) 0 0 0 0 0, t).
Definition enc_clear : hdr * bytes := (hdr0 op_clear, []).
Definition enc_stats : hdr * bytes := (hdr0 op_stats, []).
Definition enc_store (k v : bytes) (trg : list bytes) (dl : Z) : hdr * bytes :=
  let t := enc_trigs trg in
  let data := k ++ v ++ t in
  (mkH op_store (lenN data) 0 0 (z64_lo dl) (z64_hi dl) (lenN k) (lenN v) (lenN t) 0, data).

(* ---- server side (src/tcp_cache_server.cpp: session::on_data_in, fetch, rise, clear, stats, store) ---- *)
(* load_triggers: NUL-terminated names, an empty name is refused; a last name without NUL is taken up to
   the end of the region (c_str() of the copy supplies the terminator) *)
Fixpoint load_triggers (cur : bytes) (l : bytes) : option (list bytes) :=
  match l with
  | [] => match cur with [] => Some [] | _ => Some [rev cur] end
  | c :: r =>
      if c =? 0 then
        match cur with
        | [] => None
        | _ => match load_triggers [] r with Some t => Some (rev cur :: t) | None => None end
        end
      else load_triggers (c :: cur) r
  end.

Definition srv_fetch (now : Z) (h : hdr) (p : bytes) (c : cache) : hdr * bytes :=
  let want_trg := (h_u3 h) mod 2 =? 1 in
  let tif := ((h_u3 h) / 2) mod 2 =? 1 in
  let cur_gen := h_u0 h + W32 * h_u1 h in
  match c_fetch now p c with
  | None => (hdr0 op_no_data, [])
  | Some e =>
      if tif && (e_gen e =? cur_gen) then (hdr0 op_uptodate, [])
      else
        let t := if want_trg then enc_trigs (e_trg e) else [] in
        let out := e_val e ++ t in
        (mkH op_data (lenN out) 0 0 (e_gen e mod W32) (e_gen e / W32)
             (z64_lo (e_dl e)) (z64_hi (e_dl e)) (lenN (e_val e)) (lenN t), out)
  end.

Definition srv_store (h : hdr) (p : bytes) (c : cache) : hdr * bytes * cache :=
  let kl := h_u2 h in let dlen := h_u3 h in let tl := h_u4 h in
  if negb (kl + dlen + tl =? h_size h) || (kl =? 0) then (hdr0 op_error, [], c)
  else
    match load_triggers [] (take tl (drop (kl + dlen) p)) with
    | None => (hdr0 op_error, [], c)
    | Some trg =>
        (hdr0 op_done, [],
         c_store (take kl p) (take dlen (drop kl p)) (mkset trg) (z64_of (h_u0 h) (h_u1 h)) None c)
    end.

(* one request frame handled by one server: reply header, reply payload, new cache *)
Definition srv_handle (now : Z) (h : hdr) (p : bytes) (c : cache) : hdr * bytes * cache :=
  let o := h_op h in
  if o =? op_fetch then (srv_fetch now h p c, c)
  else if o =? op_rise then (hdr0 op_done, [], c_rise p c)
  else if o =? op_clear then (hdr0 op_done, [], c_clear c)
  else if o =? op_store then srv_store h p c
  else if o =? op_stats then
    let (k, t) := c_stats c in
    (mkH op_out_stats 0 0 0 (k mod W32) (t mod W32) 0 0 0 0, [], c)
  else (hdr0 op_error, [], c).

(* ---- client side decoder (tcp_cache::fetch) ---- *)
(* the strlen walk over the trigger region of an answer: no emptiness check on this side *)
Fixpoint walk_triggers (cur : bytes) (l : bytes) : list bytes :=
  match l with
  | [] => match cur with [] => [] | _ => [rev cur] end
  | c :: r => if c =? 0 then rev cur :: walk_triggers [] r else walk_triggers (c :: cur) r
  end.

Inductive fetch_res :=
| FUpToDate
| FNotFound
| FData (v : bytes) (trg : list bytes) (dl : Z) (gen : N).

Definition dec_fetch (tif : bool) (want_trg : bool) (h : hdr) (p : bytes) : fetch_res :=
  if tif && (h_op h =? op_uptodate) then FUpToDate
  else if negb (h_op h =? op_data) then FNotFound
  else FData (take (h_u4 h) p)
             (if want_trg then walk_triggers [] (take (h_u5 h) (drop (h_u4 h) p)) else [])
             (z64_of (h_u2 h) (h_u3 h)) (h_u0 h + W32 * h_u1 h).
(* note: with want_trg = false the client still walks triggers_len bytes, but then the server sent none *)

(* ---------- tcp_connector::hash ---------- *)
Definition hash_step (h c : N) : N :=
  let high := N.land h 4160749568 mod W32 in                  (* highorder = h & 0xf8000000u *)
  let h1 := N.shiftl h 5 mod W32 in                           (* h<<=5 *)
  let h2 := N.lxor h1 (N.shiftr high 27 mod W32) mod W32 in   (* h^=highorder>>27 *)
  N.lxor h2 (c mod 256) mod W32.                              (* h^=c *)
Definition hash_raw (key : bytes) : N := fold_left hash_step key 0.
Definition server_of (n : nat) (key : bytes) : nat :=
  if Nat.eqb n 1 then 0%nat else N.to_nat (hash_raw key mod N.of_nat n).

(* ---------- the world: servers, clients with optional L1, one clock ---------- *)
Record world := mkW { w_srv : list cache; w_cli : list (option cache); w_now : Z }.
Definition init_world (ns : nat) (l1 : list bool) : world :=
  mkW (repeat c_empty ns) (map (fun b : bool => if b then Some c_empty else None) l1) 1000.

Fixpoint upd {A} (i : nat) (x : A) (l : list A) : list A :=
  match l, i with
  | [], _ => []
  | _ :: r, O => x :: r
  | y :: r, S j => y :: upd j x r
  end.

(* one RPC: request frame to server i, atomic *)
Definition rpc (w : world) (i : nat) (rq : hdr * bytes) : hdr * bytes * world :=
  match nth_error (w_srv w) i with
  | None => (hdr0 op_error, [], w)
  | Some c =>
      match srv_handle (w_now w) (fst rq) (snd rq) c with
      | (h, p, c1) => (h, p, mkW (upd i c1 (w_srv w)) (w_cli w) (w_now w))
      end
  end.
Fixpoint broadcast (n : nat) (w : world) (rq : hdr * bytes) : world :=
  match n with
  | O => w
  | S m => let w1 := broadcast m w rq in match rpc w1 m rq with (_, _, w2) => w2 end
  end.
Definition nsrv (w : world) : nat := length (w_srv w).
Definition set_l1 (w : world) (c : nat) (l : cache) : world :=
  mkW (w_srv w) (upd c (Some l) (w_cli w)) (w_now w).

Inductive op :=
| OStore (c : nat) (k v : bytes) (trg : list bytes) (dl : Z)
| OFetch (c : nat) (k : bytes) (tags : bool)
| ORise (c : nat) (t : bytes)
| OClear (c : nat)
| OEvict (c : nat) (k : bytes)
| OStats (c : nat)
| OTick (d : Z)
| ORaw (s : nat) (h : hdr) (p : bytes).

Inductive obs :=
| ObsNone
| ObsFetch (r : option (bytes * list bytes * Z))
| ObsStats (k t : N)
| ObsRaw (h : hdr) (p : bytes)
| ObsBad.

(* cache_over_ip::fetch *)
Definition client_fetch (w : world) (c : nat) (k : bytes) (tags : bool) : obs * world :=
  match nth_error (w_cli w) c with
  | None => (ObsBad, w)
  | Some None =>
      match rpc w (server_of (nsrv w) k) (enc_fetch k 0 tags false) with
      | (h, p, w1) =>
          match dec_fetch false tags h p with
          | FData v t dl _ => (ObsFetch (Some (v, mkset t, dl)), w1)
          | _ => (ObsFetch None, w1)
          end
      end
  | Some (Some l1) =>
      match c_fetch (w_now w) k l1 with
      | Some e =>
          match rpc w (server_of (nsrv w) k) (enc_fetch k (e_gen e) true true) with
          | (h, p, w1) =>
              match dec_fetch true true h p with
              | FUpToDate => (ObsFetch (Some (e_val e, e_trg e, e_dl e)), w1)
              | FNotFound => (ObsFetch None, set_l1 w1 c (c_remove k l1))
              | FData v t dl g =>
                  let tt := sunion t (e_trg e) in
                  (ObsFetch (Some (v, tt, dl)), set_l1 w1 c (c_store k v tt dl (Some g) l1))
              end
          end
      | None =>
          match rpc w (server_of (nsrv w) k) (enc_fetch k 0 true false) with
          | (h, p, w1) =>
              match dec_fetch false true h p with
              | FData v t dl g =>
                  let tt := mkset t in
                  (ObsFetch (Some (v, tt, dl)), set_l1 w1 c (c_store k v tt dl (Some g) l1))
              | _ => (ObsFetch None, w1)
              end
          end
      end
  end.

(* l1 transformation applied first, then the remote part *)
Definition on_l1 (w : world) (c : nat) (f : cache -> cache) : option world :=
  match nth_error (w_cli w) c with
  | None => None
  | Some None => Some w
  | Some (Some l1) => Some (set_l1 w c (f l1))
  end.

Fixpoint stats_sum (n : nat) (w : world) : N * N * world :=
  match n with
  | O => (0, 0, w)
  | S m =>
      match stats_sum m w with
      | (k, t, w1) =>
          match rpc w1 m enc_stats with
          | (h, _, w2) =>
              if h_op h =? op_out_stats then ((k + h_u0 h) mod W32, (t + h_u1 h) mod W32, w2) else (k, t, w2)
          end
      end
  end.

Definition step (w : world) (o : op) : obs * world :=
  match o with
  | OStore c k v trg dl =>
      match on_l1 w c (c_remove k) with
      | None => (ObsBad, w)
      | Some w1 =>
          match rpc w1 (server_of (nsrv w1) k) (enc_store k v (mkset trg) dl) with
          | (_, _, w2) => (ObsNone, w2)
          end
      end
  | OFetch c k tags =>
      match client_fetch w c k tags with
      | (ObsFetch (Some (v, t, dl)), w1) => (ObsFetch (Some (v, if tags then t else [], dl)), w1)
      | r => r
      end
  | ORise c t =>
      match on_l1 w c (c_rise t) with
      | None => (ObsBad, w)
      | Some w1 => (ObsNone, broadcast (nsrv w1) w1 (enc_rise t))
      end
  | OClear c =>
      match on_l1 w c c_clear with
      | None => (ObsBad, w)
      | Some w1 => (ObsNone, broadcast (nsrv w1) w1 enc_clear)
      end
  | OEvict c k =>
      match on_l1 w c (c_remove k) with
      | None => (ObsBad, w)
      | Some w1 => (ObsNone, w1)
      end
  | OStats c =>
      match nth_error (w_cli w) c with
      | None => (ObsBad, w)
      | Some _ => match stats_sum (nsrv w) w with (k, t, w1) => (ObsStats k t, w1) end
      end
  | OTick d => (ObsNone, mkW (w_srv w) (w_cli w) (w_now w + d)%Z)
  | ORaw s h p =>
      match nth_error (w_srv w) s with
      | None => (ObsBad, w)
      | Some _ => match rpc w s (h, p) with (h1, p1, w1) => (ObsRaw h1 p1, w1) end
      end
  end.

Fixpoint run (w : world) (h : list op) : list obs * world :=
  match h with
  | [] => ([], w)
  | o :: r => let (x, w1) := step w o in let (xs, w2) := run w1 r in (x :: xs, w2)
  end.

(* a cache server process that is restarted comes back empty, with its generation counter at 0 (outside the property's
   quantifier; used only to show that the no-restart assumption of the theorems is necessary) *)
Definition restart (w : world) (s : nat) : world := mkW (upd s c_empty (w_srv w)) (w_cli w) (w_now w).

(* what a direct fetch on every server's own cache gives for this key now (harness ground truth) *)
Definition truth (w : world) (k : bytes) : list (option entry) := map (c_fetch (w_now w) k) (w_srv w).
