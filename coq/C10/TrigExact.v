(* C10 proofs, part 15: the trigger set a fetch returns, EXACTLY (decision on the "union" observation of DESIGN.md section 6).
   In every reachable world, when the names of the responsible server's record are NUL-free, a fetch-with-triggers that finds the
   key returns
     - the server record's trigger set                       on a node without L1, and on an L1 miss;
     - the L1 copy's trigger set                             on an L1 hit that the server confirms (same generation);
     - the union of the server record's and the L1 copy's    on an L1 hit that the server answers with newer data.
   With L1Triggers.fetch_triggers_superset (the confirmed L1 copy contains the server record's names) the returned set always
   contains the current record's names and never a name that is neither in the current record nor in the node's own L1 copy. *)
From CppcmsV Require Import Base.Tac C10.Defs C10.Proofs C10.Coherence C10.Codec C10.Triggers.
Local Open Scope N_scope.

Definition trig_answer (w : world) (c : nat) (k : bytes) (e : entry) (tt : list bytes) : Prop :=
  match nth_error (w_cli w) c with
  | Some None => tt = e_trg e
  | Some (Some l1) =>
      match c_fetch (w_now w) k l1 with
      | None => tt = e_trg e
      | Some e1 => if e_gen e =? e_gen e1 then tt = e_trg e1 else tt = sunion (e_trg e) (e_trg e1)
      end
  | None => False
  end.

Lemma fetch_trigger_set_exact w c k v tt dl w1 s e :
  reachable w -> step w (OFetch c k true) = (ObsFetch (Some (v, tt, dl)), w1) ->
  nth_error (w_srv w) (server_of (nsrv w) k) = Some s -> c_fetch (w_now w) k s = Some e ->
  Forall nul_free (e_trg e) -> trig_answer w c k e tt.
Proof.
  intros R H Es Ef NF.
  destruct (reachable_inv w R) as [logs I].
  destruct (srv_entry_int64 w logs _ s k e I Es Ef) as [_ I64].
  pose proof (reachable_sorted w _ s k e R Es (c_fetch_In _ _ _ _ Ef)) as SO.
  cbn [step] in H. unfold client_fetch in H. unfold trig_answer.
  destruct (nth_error (w_cli w) c) as [[l1|]|] eqn:Ec.
  - destruct (c_fetch (w_now w) k l1) as [e1|] eqn:E1.
    + destruct (rpc_fetch_some w _ s k (e_gen e1) true true Es) as (h & p & Rq & D). rewrite Rq, D in H.
      destruct (e_gen e =? e_gen e1) eqn:Eg.
      * unfold fetch_answer in H. rewrite Ef in H. cbn [andb] in H. rewrite Eg in H. inversion H. reflexivity.
      * rewrite (fetch_data_roundtrip (w_now w) k (e_gen e1) true true s e Ef) in H; [|cbn [andb]; exact Eg|exact I64|exact NF].
        inversion H. reflexivity.
    + destruct (rpc_fetch_some w _ s k 0 true false Es) as (h & p & Rq & D). rewrite Rq, D in H.
      rewrite (fetch_data_roundtrip (w_now w) k 0 true false s e Ef eq_refl I64 NF) in H.
      rewrite (mkset_id _ SO) in H. inversion H. reflexivity.
  - destruct (rpc_fetch_some w _ s k 0 true false Es) as (h & p & Rq & D). rewrite Rq, D in H.
    rewrite (fetch_data_roundtrip (w_now w) k 0 true false s e Ef eq_refl I64 NF) in H.
    rewrite (mkset_id _ SO) in H. inversion H. reflexivity.
  - discriminate H.
Qed.

(* hence: nothing is returned that is neither a name of the current record nor a name of the node's own L1 copy *)
Lemma fetch_trigger_set_upper_bound w c k v tt dl w1 s e y :
  reachable w -> step w (OFetch c k true) = (ObsFetch (Some (v, tt, dl)), w1) ->
  nth_error (w_srv w) (server_of (nsrv w) k) = Some s -> c_fetch (w_now w) k s = Some e ->
  Forall nul_free (e_trg e) -> In y tt ->
  In y (e_trg e) \/ exists l1 e1, nth_error (w_cli w) c = Some (Some l1) /\ c_fetch (w_now w) k l1 = Some e1 /\ In y (e_trg e1).
Proof.
  intros R H Es Ef NF Hy. pose proof (fetch_trigger_set_exact w c k v tt dl w1 s e R H Es Ef NF) as T.
  unfold trig_answer in T. destruct (nth_error (w_cli w) c) as [[l1|]|] eqn:Ec; [| |contradiction].
  - destruct (c_fetch (w_now w) k l1) as [e1|] eqn:E1.
    + destruct (e_gen e =? e_gen e1); subst tt.
      * right. exists l1, e1. split; [reflexivity|]. split; [exact E1|exact Hy].
      * apply sunion_In in Hy. destruct Hy as [Hy|Hy]; [left; exact Hy|].
        right. exists l1, e1. split; [reflexivity|]. split; [exact E1|exact Hy].
    + subst tt. left. exact Hy.
  - subst tt. left. exact Hy.
Qed.
