(* C10 proofs, part 2: the world invariant (per-server store log with pairwise distinct generations; every
   server record and every L1 record is an event of the log of the responsible server) is preserved by
   every operation; a client fetch answers what the responsible server holds. *)
From CppcmsV Require Import Base.Tac C10.Defs C10.Proofs.
Local Open Scope N_scope.

Definition logs_t := nat -> list event.
Definition logs_le (a b : logs_t) : Prop := forall i, incl (a i) (b i).
Definition l1_ok (n : nat) (logs : logs_t) (l : cache) : Prop :=
  forall k e, In (k, e) (c_items l) -> In (ev_of k e) (logs (server_of n k)).
Definition Inv0 (w : world) (logs : logs_t) : Prop :=
  (forall i c, nth_error (w_srv w) i = Some c -> srv_ok c (logs i)) /\
  (forall j l, nth_error (w_cli w) j = Some (Some l) -> l1_ok (nsrv w) logs l).
Definition Inv (w : world) (logs : logs_t) : Prop :=
  Inv0 w logs /\ forall i, NoDup (map ev_gen (logs i)).

Lemma logs_le_refl a : logs_le a a.
Proof. intros i. apply incl_refl. Qed.
Lemma logs_le_trans a b c : logs_le a b -> logs_le b c -> logs_le a c.
Proof. intros H1 H2 i. eapply incl_tran; [apply H1|apply H2]. Qed.
Lemma l1_ok_mono n a b l : l1_ok n a l -> logs_le a b -> l1_ok n b l.
Proof. intros H L k e Hin. apply L. apply H. exact Hin. Qed.
Lemma l1_ok_sub n a l l2 : l1_ok n a l -> (forall p, In p (c_items l2) -> In p (c_items l)) -> l1_ok n a l2.
Proof. intros H S k e Hin. apply H. apply S. exact Hin. Qed.

(* what stays the same across a step *)
Definition same_frame (w w1 : world) : Prop :=
  nsrv w1 = nsrv w /\ w_cli w1 = w_cli w /\ w_now w1 = w_now w.
Lemma same_frame_refl w : same_frame w w.
Proof. repeat split. Qed.
Lemma same_frame_trans a b c : same_frame a b -> same_frame b c -> same_frame a c.
Proof. intros (A1 & A2 & A3) (B1 & B2 & B3). repeat split; congruence. Qed.

(* ---------- one RPC ---------- *)
Lemma rpc_inv w logs i rq h p w1 :
  Inv w logs -> rpc w i rq = (h, p, w1) ->
  exists logs1, Inv w1 logs1 /\ logs_le logs logs1 /\ same_frame w w1.
Proof.
  intros [[IS IC] ND] H. unfold rpc in H.
  destruct (nth_error (w_srv w) i) as [c|] eqn:Ei.
  - destruct (srv_handle (w_now w) (fst rq) (snd rq) c) as [[h2 p2] c1] eqn:Eh.
    inversion H; subst h2 p2 w1; clear H.
    apply srv_handle_change in Eh.
    destruct (srv_change_ok c c1 (logs i) (IS i c Ei) Eh) as (log1 & OK1 & INC & _).
    exists (fun j => if Nat.eqb j i then log1 else logs j).
    assert (logs_le logs (fun j => if Nat.eqb j i then log1 else logs j)) as LE.
    { intros j. destruct (Nat.eqb_spec j i) as [E|E]; [subst; exact INC|apply incl_refl]. }
    split; [split; [split|]|split; [exact LE|]].
    + cbn [w_srv]. intros j c2 Hj. apply nth_upd_inv in Hj. destruct Hj as [[E1 E2]|[E1 E2]].
      * subst. rewrite Nat.eqb_refl. exact OK1.
      * destruct (Nat.eqb_spec j i) as [E|E]; [congruence|]. apply IS. exact E2.
    + cbn [w_cli]. intros j l Hj. unfold nsrv. cbn [w_srv]. rewrite upd_length.
      eapply l1_ok_mono; [apply (IC j l Hj)|exact LE].
    + intros j. destruct (Nat.eqb_spec j i) as [E|E]; [apply OK1|apply ND].
    + unfold same_frame, nsrv. cbn [w_srv w_cli w_now]. rewrite upd_length. repeat split.
  - inversion H; subst. exists logs. split; [split; [split; assumption|exact ND]|]. split; [apply logs_le_refl|apply same_frame_refl].
Qed.

Lemma broadcast_inv n w logs rq :
  Inv w logs -> exists logs1, Inv (broadcast n w rq) logs1 /\ logs_le logs logs1 /\ same_frame w (broadcast n w rq).
Proof.
  induction n as [|m IH]; intros I; cbn [broadcast].
  - exists logs. split; [exact I|]. split; [apply logs_le_refl|apply same_frame_refl].
  - destruct (IH I) as (l1 & I1 & LE1 & F1).
    destruct (rpc (broadcast m w rq) m rq) as [[h p] w2] eqn:E.
    destruct (rpc_inv _ _ _ _ _ _ _ I1 E) as (l2 & I2 & LE2 & F2).
    exists l2. split; [exact I2|]. split; [eapply logs_le_trans; eassumption|eapply same_frame_trans; eassumption].
Qed.

Lemma stats_sum_inv n w logs k t w1 :
  Inv w logs -> stats_sum n w = (k, t, w1) ->
  exists logs1, Inv w1 logs1 /\ logs_le logs logs1 /\ same_frame w w1.
Proof.
  revert k t w1. induction n as [|m IH]; intros k t w1 I H; cbn [stats_sum] in H.
  - inversion H; subst. exists logs. split; [exact I|]. split; [apply logs_le_refl|apply same_frame_refl].
  - destruct (stats_sum m w) as [[k0 t0] w0] eqn:E0.
    destruct (IH _ _ _ I eq_refl) as (l1 & I1 & LE1 & F1).
    destruct (rpc w0 m enc_stats) as [[h p] w2] eqn:E.
    destruct (rpc_inv _ _ _ _ _ _ _ I1 E) as (l2 & I2 & LE2 & F2).
    assert (w1 = w2) as -> by (destruct (h_op h =? op_out_stats); inversion H; reflexivity).
    exists l2. split; [exact I2|]. split; [eapply logs_le_trans; eassumption|eapply same_frame_trans; eassumption].
Qed.

(* ---------- L1 updates ---------- *)
Lemma set_l1_inv w logs c l :
  Inv w logs -> l1_ok (nsrv w) logs l -> Inv (set_l1 w c l) logs.
Proof.
  intros [[IS IC] ND] OK. split; [split|exact ND].
  - exact IS.
  - unfold set_l1, nsrv. cbn [w_cli w_srv]. intros j l2 Hj. apply nth_upd_inv in Hj.
    destruct Hj as [[E1 E2]|[E1 E2]].
    + inversion E2; subst. exact OK.
    + apply (IC j l2 E2).
Qed.
Lemma set_l1_frame w c l :
  w_srv (set_l1 w c l) = w_srv w /\ w_now (set_l1 w c l) = w_now w /\
  length (w_cli (set_l1 w c l)) = length (w_cli w).
Proof. unfold set_l1. cbn [w_srv w_now w_cli]. rewrite upd_length. repeat split. Qed.

Lemma on_l1_inv w logs c f w1 :
  Inv w logs -> on_l1 w c f = Some w1 ->
  (forall l p, In p (c_items (f l)) -> In p (c_items l)) ->
  Inv w1 logs /\ w_srv w1 = w_srv w /\ w_now w1 = w_now w /\ length (w_cli w1) = length (w_cli w).
Proof.
  intros I H S. unfold on_l1 in H.
  destruct (nth_error (w_cli w) c) as [[l|]|] eqn:E; inversion H; subst; clear H.
  - split.
    + apply set_l1_inv; [exact I|]. destruct I as [[_ IC] _]. eapply l1_ok_sub; [apply (IC c l E)|apply S].
    + apply set_l1_frame.
  - split; [exact I|]. repeat split.
Qed.

Lemma c_remove_sub k l p : In p (c_items (c_remove k l)) -> In p (c_items l).
Proof. cbn [c_remove c_items]. apply a_remove_In. Qed.
Lemma c_rise_sub t l p : In p (c_items (c_rise t l)) -> In p (c_items l).
Proof. cbn [c_rise c_items]. intros H. apply filter_In in H. tauto. Qed.
Lemma c_clear_sub l p : In p (c_items (c_clear l)) -> In p (c_items l).
Proof. cbn [c_clear c_items]. contradiction. Qed.

Lemma l1_store_ok n logs l k v trg dl g :
  l1_ok n logs l -> In (k, g, v, dl) (logs (server_of n k)) ->
  l1_ok n logs (c_store k v trg dl (Some g) l).
Proof.
  intros OK Hin k1 e1 H. cbn [c_store c_items] in H. destruct H as [H|H].
  - inversion H; subst. exact Hin.
  - apply OK. eapply a_remove_In. exact H.
Qed.

Lemma c_fetch_In now k c e : c_fetch now k c = Some e -> In (k, e) (c_items c).
Proof.
  unfold c_fetch. destruct (a_find k (c_items c)) as [e1|] eqn:E; [|discriminate].
  destruct (e_dl e1 <? now)%Z; [discriminate|]. intros H. inversion H; subst. apply a_find_In. exact E.
Qed.

(* ---------- the fetch RPC at world level ---------- *)
Lemma rpc_fetch_some w i s k g want tif :
  nth_error (w_srv w) i = Some s ->
  exists h p, rpc w i (enc_fetch k g want tif) = (h, p, w) /\
              dec_fetch tif want h p = fetch_answer (w_now w) k g want tif s.
Proof.
  intros E. unfold rpc. rewrite E.
  destruct (fetch_rpc (w_now w) k g want tif s) as [H1 H2]. cbv zeta in H1, H2.
  rewrite H1. rewrite upd_same by exact E.
  eexists. eexists. split; [|exact H2]. destruct w. reflexivity.
Qed.
Lemma rpc_fetch_none w i k g want tif :
  nth_error (w_srv w) i = None ->
  exists h p, rpc w i (enc_fetch k g want tif) = (h, p, w) /\ dec_fetch tif want h p = FNotFound.
Proof.
  intros E. unfold rpc. rewrite E. eexists. eexists. split; [reflexivity|]. destruct tif; reflexivity.
Qed.

(* the statement of the property for one fetch: the answer is what the responsible server holds now *)
Definition current (w : world) (k : bytes) (r : option (bytes * list bytes * Z)) : Prop :=
  match nth_error (w_srv w) (server_of (nsrv w) k) with
  | None => r = None
  | Some s =>
      match c_fetch (w_now w) k s, r with
      | None, None => True
      | Some e, Some (v, _, dl) => v = e_val e /\ dl = e_dl e
      | _, _ => False
      end
  end.

Lemma srv_entry_int64 w logs i s k e :
  Inv w logs -> nth_error (w_srv w) i = Some s -> c_fetch (w_now w) k s = Some e ->
  In (ev_of k e) (logs i) /\ int64 (e_dl e).
Proof.
  intros [[IS _] _] Ei Ef. destruct (IS i s Ei) as (_ & LT & IT).
  apply c_fetch_In in Ef. apply IT in Ef. split; [exact Ef|]. apply LT in Ef. apply Ef.
Qed.

Ltac same_world I := split; [exact I|split; [reflexivity|split; [reflexivity|split; [reflexivity|]]]].

Lemma client_fetch_inv w logs c k tags x w1 :
  Inv w logs -> client_fetch w c k tags = (x, w1) ->
  Inv w1 logs /\ w_srv w1 = w_srv w /\ w_now w1 = w_now w /\ length (w_cli w1) = length (w_cli w) /\
  (forall r, x = ObsFetch r -> current w k r).
Proof.
  intros I H. unfold client_fetch in H. unfold current.
  set (i := server_of (nsrv w) k) in *.
  destruct (nth_error (w_cli w) c) as [[l1|]|] eqn:Ec.
  - (* with L1 *)
    destruct (c_fetch (w_now w) k l1) as [e1|] eqn:E1.
    + (* L1 hit: revalidate *)
      destruct (nth_error (w_srv w) i) as [s|] eqn:Ei.
      * destruct (rpc_fetch_some w i s k (e_gen e1) true true Ei) as (h & p & R & D).
        rewrite R in H. rewrite D in H. unfold fetch_answer in H.
        destruct (c_fetch (w_now w) k s) as [e|] eqn:Es.
        -- destruct (srv_entry_int64 w logs i s k e I Ei Es) as [Hlog H64].
           cbn [andb] in H. destruct (e_gen e =? e_gen e1) eqn:Eg.
           ++ (* up to date *)
              inversion H; subst x w1; clear H. same_world I.
              intros r Hr. inversion Hr; subst r; clear Hr.
              apply N.eqb_eq in Eg.
              destruct I as [[IS IC] NDall].
              assert (In (ev_of k e1) (logs i)) as H1 by (apply (IC c l1 Ec); eapply c_fetch_In; exact E1).
              pose proof (NDall i) as ND.
              assert (ev_of k e1 = ev_of k e) as EE.
              { eapply nodup_map_inj; [exact ND|exact H1|exact Hlog|]. unfold ev_gen, ev_of. cbn [fst snd]. congruence. }
              unfold ev_of in EE. inversion EE. split; reflexivity.
           ++ (* newer data: refill L1 *)
              rewrite z64_roundtrip in H by exact H64.
              inversion H; subst x w1; clear H.
              split; [|split; [|split; [|split]]]; try apply set_l1_frame.
              ** apply set_l1_inv; [exact I|]. apply l1_store_ok; [apply (proj2 (proj1 I) c l1 Ec)|exact Hlog].
              ** intros r Hr. inversion Hr; subst r. split; reflexivity.
        -- inversion H; subst x w1; clear H.
           split; [|split; [|split; [|split]]]; try apply set_l1_frame.
           ** apply set_l1_inv; [exact I|]. eapply l1_ok_sub; [apply (proj2 (proj1 I) c l1 Ec)|apply c_remove_sub].
           ** intros r Hr. inversion Hr; subst r. exact Logic.I.
      * destruct (rpc_fetch_none w i k (e_gen e1) true true Ei) as (h & p & R & D).
        rewrite R in H. rewrite D in H. inversion H; subst x w1; clear H.
        split; [|split; [|split; [|split]]]; try apply set_l1_frame.
        ** apply set_l1_inv; [exact I|]. eapply l1_ok_sub; [apply (proj2 (proj1 I) c l1 Ec)|apply c_remove_sub].
        ** intros r Hr. inversion Hr; subst r. reflexivity.
    + (* L1 miss: fetch and fill *)
      destruct (nth_error (w_srv w) i) as [s|] eqn:Ei.
      * destruct (rpc_fetch_some w i s k 0 true false Ei) as (h & p & R & D).
        rewrite R in H. rewrite D in H. unfold fetch_answer in H. cbn [andb] in H.
        destruct (c_fetch (w_now w) k s) as [e|] eqn:Es.
        -- destruct (srv_entry_int64 w logs i s k e I Ei Es) as [Hlog H64].
           rewrite z64_roundtrip in H by exact H64.
           inversion H; subst x w1; clear H.
           split; [|split; [|split; [|split]]]; try apply set_l1_frame.
           ** apply set_l1_inv; [exact I|]. apply l1_store_ok; [apply (proj2 (proj1 I) c l1 Ec)|exact Hlog].
           ** intros r Hr. inversion Hr; subst r. split; reflexivity.
        -- inversion H; subst x w1; clear H. same_world I.
           intros r Hr. inversion Hr; subst r. exact Logic.I.
      * destruct (rpc_fetch_none w i k 0 true false Ei) as (h & p & R & D).
        rewrite R in H. rewrite D in H. inversion H; subst x w1; clear H. same_world I.
        intros r Hr. inversion Hr; subst r. reflexivity.
  - (* no L1 *)
    destruct (nth_error (w_srv w) i) as [s|] eqn:Ei.
    + destruct (rpc_fetch_some w i s k 0 tags false Ei) as (h & p & R & D).
      rewrite R in H. rewrite D in H. unfold fetch_answer in H. cbn [andb] in H.
      destruct (c_fetch (w_now w) k s) as [e|] eqn:Es.
      * destruct (srv_entry_int64 w logs i s k e I Ei Es) as [Hlog H64].
        rewrite z64_roundtrip in H by exact H64.
        inversion H; subst x w1; clear H. same_world I.
        intros r Hr. inversion Hr; subst r. split; reflexivity.
      * inversion H; subst x w1; clear H. same_world I.
        intros r Hr. inversion Hr; subst r. exact Logic.I.
    + destruct (rpc_fetch_none w i k 0 tags false Ei) as (h & p & R & D).
      rewrite R in H. rewrite D in H. inversion H; subst x w1; clear H. same_world I.
      intros r Hr. inversion Hr; subst r. reflexivity.
  - inversion H; subst x w1. same_world I. intros r Hr. discriminate.
Qed.

(* ---------- every operation preserves the invariant; logs only grow ---------- *)
Definition same_shape (w w1 : world) : Prop :=
  nsrv w1 = nsrv w /\ length (w_cli w1) = length (w_cli w).

Lemma step_inv w logs o x w1 :
  Inv w logs -> step w o = (x, w1) ->
  exists logs1, Inv w1 logs1 /\ logs_le logs logs1 /\ same_shape w w1.
Proof.
  intros I H. destruct o as [c k v trg dl|c k tags|c t|c|c k|c|d|s h p]; cbn [step] in H.
  - (* store *)
    destruct (on_l1 w c (c_remove k)) as [w0|] eqn:E0.
    + destruct (on_l1_inv w logs c _ w0 I E0 (c_remove_sub k)) as (I0 & S0 & N0 & L0).
      destruct (rpc w0 (server_of (nsrv w0) k) (enc_store k v (mkset trg) dl)) as [[h1 p1] w2] eqn:E.
      destruct (rpc_inv _ _ _ _ _ _ _ I0 E) as (l2 & I2 & LE2 & (F1 & F2 & F3)).
      inversion H; subst. exists l2. split; [exact I2|]. split; [exact LE2|].
      unfold same_shape, nsrv in *. split; congruence.
    + inversion H; subst. exists logs. split; [exact I|]. split; [apply logs_le_refl|split; reflexivity].
  - (* fetch *)
    destruct (client_fetch w c k tags) as [x0 w0] eqn:E.
    destruct (client_fetch_inv w logs c k tags x0 w0 I E) as (I0 & S0 & N0 & L0 & _).
    assert (w1 = w0) as ->.
    { destruct x0 as [|[[[v t] d]|]| | |]; inversion H; reflexivity. }
    exists logs. split; [exact I0|]. split; [apply logs_le_refl|]. unfold same_shape, nsrv. split; congruence.
  - (* rise *)
    destruct (on_l1 w c (c_rise t)) as [w0|] eqn:E0.
    + destruct (on_l1_inv w logs c _ w0 I E0 (c_rise_sub t)) as (I0 & S0 & N0 & L0).
      destruct (broadcast_inv (nsrv w0) w0 logs (enc_rise t) I0) as (l2 & I2 & LE2 & (F1 & F2 & F3)).
      inversion H; subst. exists l2. split; [exact I2|]. split; [exact LE2|].
      unfold same_shape, nsrv in *. split; congruence.
    + inversion H; subst. exists logs. split; [exact I|]. split; [apply logs_le_refl|split; reflexivity].
  - (* clear *)
    destruct (on_l1 w c c_clear) as [w0|] eqn:E0.
    + destruct (on_l1_inv w logs c _ w0 I E0 c_clear_sub) as (I0 & S0 & N0 & L0).
      destruct (broadcast_inv (nsrv w0) w0 logs enc_clear I0) as (l2 & I2 & LE2 & (F1 & F2 & F3)).
      inversion H; subst. exists l2. split; [exact I2|]. split; [exact LE2|].
      unfold same_shape, nsrv in *. split; congruence.
    + inversion H; subst. exists logs. split; [exact I|]. split; [apply logs_le_refl|split; reflexivity].
  - (* evict *)
    destruct (on_l1 w c (c_remove k)) as [w0|] eqn:E0.
    + destruct (on_l1_inv w logs c _ w0 I E0 (c_remove_sub k)) as (I0 & S0 & N0 & L0).
      inversion H; subst. exists logs. split; [exact I0|]. split; [apply logs_le_refl|].
      unfold same_shape, nsrv. split; congruence.
    + inversion H; subst. exists logs. split; [exact I|]. split; [apply logs_le_refl|split; reflexivity].
  - (* stats *)
    destruct (nth_error (w_cli w) c).
    + destruct (stats_sum (nsrv w) w) as [[k t] w0] eqn:E.
      destruct (stats_sum_inv _ _ _ _ _ _ I E) as (l2 & I2 & LE2 & (F1 & F2 & F3)).
      inversion H; subst. exists l2. split; [exact I2|]. split; [exact LE2|]. split; congruence.
    + inversion H; subst. exists logs. split; [exact I|]. split; [apply logs_le_refl|split; reflexivity].
  - (* tick *)
    inversion H; subst. exists logs. split; [|split; [apply logs_le_refl|split; reflexivity]].
    destruct I as [[IS IC] ND]. split; [split; [exact IS|exact IC]|exact ND].
  - (* raw frame of a foreign peer *)
    destruct (nth_error (w_srv w) s).
    + destruct (rpc w s (h, p)) as [[h1 p1] w0] eqn:E.
      destruct (rpc_inv _ _ _ _ _ _ _ I E) as (l2 & I2 & LE2 & (F1 & F2 & F3)).
      inversion H; subst. exists l2. split; [exact I2|]. split; [exact LE2|]. split; congruence.
    + inversion H; subst. exists logs. split; [exact I|]. split; [apply logs_le_refl|split; reflexivity].
Qed.

(* ---------- reachable worlds ---------- *)
Inductive reachable : world -> Prop :=
| reach_init ns l1 : reachable (init_world ns l1)
| reach_step w o : reachable w -> reachable (snd (step w o)).

Lemma init_inv ns l1 : Inv (init_world ns l1) (fun _ => []).
Proof.
  split; [split|intros i; constructor].
  - intros i c H. unfold init_world in H. cbn [w_srv] in H.
    apply nth_error_In in H. apply repeat_spec in H. subst c.
    split; [constructor|]. split; intros; contradiction.
  - intros j l H. unfold init_world in H. cbn [w_cli] in H.
    apply nth_error_In in H. apply in_map_iff in H. destruct H as (b & E & _).
    destruct b; inversion E; subst. intros k e Hin. contradiction.
Qed.

Lemma reachable_inv w : reachable w -> exists logs, Inv w logs.
Proof.
  induction 1 as [ns l1|w o R [logs I]].
  - eexists. apply init_inv.
  - destruct (step w o) as [x w1] eqn:E. destruct (step_inv w logs o x w1 I E) as (l1 & I1 & _).
    exists l1. exact I1.
Qed.

Lemma run_reachable w h : reachable w -> reachable (snd (run w h)).
Proof.
  revert w. induction h as [|o r IH]; intros w R; cbn [run].
  - exact R.
  - destruct (step w o) as [x w1] eqn:E. specialize (IH w1).
    destruct (run w1 r) as [xs w2]. cbn [snd] in *. apply IH.
    replace w1 with (snd (step w o)) by (rewrite E; reflexivity). constructor. exact R.
Qed.

(* the main statement: in every reachable world, a fetch by any client answers what the responsible server holds *)
Lemma fetch_current_reachable w c k tags r w1 :
  reachable w -> step w (OFetch c k tags) = (ObsFetch r, w1) -> current w k r.
Proof.
  intros R H. destruct (reachable_inv w R) as [logs I]. cbn [step] in H.
  destruct (client_fetch w c k tags) as [x0 w0] eqn:E.
  destruct (client_fetch_inv w logs c k tags x0 w0 I E) as (_ & _ & _ & _ & C).
  destruct x0 as [|[[[v t] d]|]| | |]; inversion H; subst.
  - specialize (C _ eq_refl). unfold current in *.
    destruct (nth_error (w_srv w) (server_of (nsrv w) k)); [|discriminate].
    destruct (c_fetch (w_now w) k c0); exact C.
  - apply C. reflexivity.
Qed.

(* a fetch never changes a server *)
Lemma fetch_keeps_servers w c k tags x w1 :
  reachable w -> step w (OFetch c k tags) = (x, w1) -> w_srv w1 = w_srv w /\ w_now w1 = w_now w.
Proof.
  intros R H. destruct (reachable_inv w R) as [logs I]. cbn [step] in H.
  destruct (client_fetch w c k tags) as [x0 w0] eqn:E.
  destruct (client_fetch_inv w logs c k tags x0 w0 I E) as (_ & S & N & _ & _).
  assert (w1 = w0) as ->.
  { destruct x0 as [|[[[v t] d]|]| | |]; inversion H; reflexivity. }
  split; assumption.
Qed.

(* ---------- generations: one (server, generation) = one store event, over the whole history ---------- *)
Lemma run_inv w logs h :
  Inv w logs -> exists logs1, Inv (snd (run w h)) logs1 /\ logs_le logs logs1 /\ same_shape w (snd (run w h)).
Proof.
  revert w logs. induction h as [|o r IH]; intros w logs I; cbn [run].
  - exists logs. split; [exact I|]. split; [apply logs_le_refl|split; reflexivity].
  - destruct (step w o) as [x w1] eqn:E.
    destruct (step_inv w logs o x w1 I E) as (l1 & I1 & LE1 & (A1 & A2)).
    destruct (IH w1 l1 I1) as (l2 & I2 & LE2 & (B1 & B2)).
    destruct (run w1 r) as [xs w2]. cbn [snd] in *.
    exists l2. split; [exact I2|]. split; [eapply logs_le_trans; eassumption|split; congruence].
Qed.

(* where a record may sit: on server i, or in the L1 of some client for a key whose server is i *)
Definition holds (w : world) (i : nat) (k : bytes) (e : entry) : Prop :=
  (exists s, nth_error (w_srv w) i = Some s /\ In (k, e) (c_items s)) \/
  (exists j l, nth_error (w_cli w) j = Some (Some l) /\ In (k, e) (c_items l) /\ server_of (nsrv w) k = i).

Lemma holds_log w logs i k e : Inv w logs -> holds w i k e -> In (ev_of k e) (logs i).
Proof.
  intros [[IS IC] _] [(s & E & Hin)|(j & l & E & Hin & Es)].
  - destruct (IS i s E) as (_ & _ & IT). apply IT. exact Hin.
  - subst i. apply (IC j l E). exact Hin.
Qed.

Lemma gen_injective_reachable w h i k1 e1 k2 e2 :
  reachable w ->
  holds w i k1 e1 -> holds (snd (run w h)) i k2 e2 -> e_gen e1 = e_gen e2 ->
  k1 = k2 /\ e_val e1 = e_val e2 /\ e_dl e1 = e_dl e2.
Proof.
  intros R H1 H2 G. destruct (reachable_inv w R) as [logs I].
  destruct (run_inv w logs h I) as (logs2 & I2 & LE & (SH & _)).
  assert (In (ev_of k1 e1) (logs2 i)) as A1 by (apply LE; eapply holds_log; eassumption).
  assert (In (ev_of k2 e2) (logs2 i)) as A2 by (eapply holds_log; eassumption).
  pose proof (proj2 I2 i) as ND.
  assert (ev_of k1 e1 = ev_of k2 e2) as EE.
  { eapply nodup_map_inj; [exact ND|exact A1|exact A2|]. unfold ev_gen, ev_of. cbn [fst snd]. exact G. }
  unfold ev_of in EE. inversion EE. repeat split; reflexivity.
Qed.
