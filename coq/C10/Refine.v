(* C10 proofs, part 5: refinement.  For every history of client operations (no foreign raw frames) whose stores are
   in the exact domain of the wire format, the values and deadlines returned by the fetches of all nodes - each with
   or without an L1 - over any number (> 0) of servers are exactly those of ONE mem_cache shared by all nodes and
   executing the same operations in the same order (no network, no L1). *)
From CppcmsV Require Import Base.Tac C10.Defs C10.Proofs C10.Coherence C10.Codec C10.Effects.
Local Open Scope N_scope.

(* ---------- the specification ---------- *)
Record spec := mkS { s_cache : cache; s_now : Z }.
Inductive view := VFetch (r : option (bytes * Z)) | VOther.

Definition spec_step (sp : spec) (o : op) : view * spec :=
  match o with
  | OStore _ k v trg dl => (VOther, mkS (c_store k v (mkset trg) dl None (s_cache sp)) (s_now sp))
  | OFetch _ k _ => (VFetch (option_map (fun e => (e_val e, e_dl e)) (c_fetch (s_now sp) k (s_cache sp))), sp)
  | ORise _ t => (VOther, mkS (c_rise t (s_cache sp)) (s_now sp))
  | OClear _ => (VOther, mkS (c_clear (s_cache sp)) (s_now sp))
  | OTick d => (VOther, mkS (s_cache sp) (s_now sp + d)%Z)
  | _ => (VOther, sp)
  end.
Fixpoint spec_run (sp : spec) (h : list op) : list view * spec :=
  match h with
  | [] => ([], sp)
  | o :: r => let (x, sp1) := spec_step sp o in let (xs, sp2) := spec_run sp1 r in (x :: xs, sp2)
  end.
Definition view_of (x : obs) : view :=
  match x with
  | ObsFetch r => VFetch (option_map (fun p => (fst (fst p), snd p)) r)
  | _ => VOther
  end.

(* operations of the nodes themselves, with valid node numbers and stores the wire format can carry *)
Definition client_ok (ncl : nat) (o : op) : Prop :=
  match o with
  | OStore c k v trg dl => (c < ncl)%nat /\ store_ok k v trg dl
  | OFetch c _ _ | ORise c _ | OClear c => (c < ncl)%nat
  | OEvict _ _ | OStats _ | OTick _ => True
  | ORaw _ _ _ => False
  end.

(* ---------- association lists with unique keys ---------- *)
Definition keys_unique (c : cache) : Prop := NoDup (map fst (c_items c)).
Definition strip (e : entry) := (e_val e, e_trg e, e_dl e).

Lemma a_find_remove_other k k1 l : k1 <> k -> a_find k1 (a_remove k l) = a_find k1 l.
Proof.
  intros NE. unfold a_remove. induction l as [|[k2 e2] r IH]; [reflexivity|].
  cbn [filter fst]. destruct (beq k k2) eqn:E; cbn [negb].
  - apply beq_eq in E. subst k2. cbn [a_find]. destruct (beq k1 k) eqn:E2; [apply beq_eq in E2; contradiction|]. exact IH.
  - cbn [a_find]. destruct (beq k1 k2); [reflexivity|exact IH].
Qed.
Lemma a_find_notin k l : ~ In k (map fst l) -> a_find k l = None.
Proof.
  induction l as [|[k1 e1] r IH]; intros H; [reflexivity|]. cbn [a_find]. destruct (beq k k1) eqn:E.
  - apply beq_eq in E. subst. exfalso. apply H. left. reflexivity.
  - apply IH. intros H1. apply H. right. exact H1.
Qed.
Lemma a_find_filter (P : entry -> bool) k l : NoDup (map fst l) ->
  a_find k (filter (fun p => P (snd p)) l) =
  match a_find k l with Some e => if P e then Some e else None | None => None end.
Proof.
  induction l as [|[k1 e1] r IH]; intros ND; [reflexivity|].
  cbn [map fst] in ND. inversion ND as [|? ? NI ND1]; subst.
  cbn [filter snd a_find]. destruct (beq k k1) eqn:E.
  - apply beq_eq in E. subst k1. destruct (P e1) eqn:EP.
    + cbn [a_find]. rewrite beq_refl. reflexivity.
    + rewrite IH by exact ND1. rewrite (a_find_notin k r NI). reflexivity.
  - destruct (P e1).
    + cbn [a_find]. rewrite E. apply IH. exact ND1.
    + apply IH. exact ND1.
Qed.
Lemma a_find_rise t k c : keys_unique c ->
  a_find k (c_items (c_rise t c)) =
  match a_find k (c_items c) with Some e => if smem t (e_trg e) then None else Some e | None => None end.
Proof.
  intros U. cbn [c_rise c_items].
  pose proof (a_find_filter (fun e => negb (smem t (e_trg e))) k (c_items c) U) as H. cbn beta in H. rewrite H.
  destruct (a_find k (c_items c)) as [e|]; [|reflexivity]. destruct (smem t (e_trg e)); reflexivity.
Qed.
Lemma a_find_store k1 k v trg dl g c :
  a_find k1 (c_items (c_store k v trg dl g c)) =
  if beq k1 k then Some (mkE v (sins k trg) dl (match g with Some g0 => g0 | None => c_gen c end))
  else a_find k1 (c_items c).
Proof.
  destruct g; cbn [c_store c_items a_find]; destruct (beq k1 k) eqn:E; try reflexivity;
    apply a_find_remove_other; intros ->; rewrite beq_refl in E; discriminate.
Qed.

Lemma nodup_keys_filter (f : bytes * entry -> bool) l : NoDup (map fst l) -> NoDup (map fst (filter f l)).
Proof.
  induction l as [|p r IH]; intros ND; [constructor|]. cbn [map] in ND. inversion ND as [|? ? NI ND1]; subst.
  cbn [filter]. destruct (f p).
  - cbn [map]. constructor; [|apply IH; exact ND1].
    intros H. apply NI. apply in_map_iff in H. destruct H as (q & E & Hq). apply filter_In in Hq.
    apply in_map_iff. exists q. tauto.
  - apply IH. exact ND1.
Qed.
Lemma keys_unique_store k v trg dl g c : keys_unique c -> keys_unique (c_store k v trg dl g c).
Proof.
  unfold keys_unique. intros U.
  assert (NoDup (k :: map fst (a_remove k (c_items c)))) as H.
  { constructor; [|apply nodup_keys_filter; exact U].
    intros H. apply in_map_iff in H. destruct H as (q & E & Hq). unfold a_remove in Hq. apply filter_In in Hq.
    destruct Hq as [_ Hq]. rewrite E, beq_refl in Hq. discriminate. }
  destruct g; exact H.
Qed.
Lemma keys_unique_rise t c : keys_unique c -> keys_unique (c_rise t c).
Proof. unfold keys_unique. cbn [c_rise c_items]. apply nodup_keys_filter. Qed.
Lemma keys_unique_clear c : keys_unique (c_clear c).
Proof. unfold keys_unique. cbn. constructor. Qed.

Lemma nth_error_ext {A} (a b : list A) : (forall i, nth_error a i = nth_error b i) -> a = b.
Proof.
  revert b. induction a as [|x a IH]; intros [|y b] H; try reflexivity.
  - specialize (H 0%nat). discriminate.
  - specialize (H 0%nat). discriminate.
  - pose proof (H 0%nat) as H0. cbn in H0. inversion H0; subst. f_equal. apply IH. intros i. apply (H (S i)).
Qed.

(* ---------- the relation between the servers and the one shared cache ---------- *)
Definition RelS (srv : list cache) (c : cache) : Prop :=
  keys_unique c /\ (forall i s, nth_error srv i = Some s -> keys_unique s) /\
  forall k s, nth_error srv (server_of (length srv) k) = Some s ->
    option_map strip (a_find k (c_items s)) = option_map strip (a_find k (c_items c)).

Lemma RelS_store srv c k v trg dl s :
  RelS srv c -> nth_error srv (server_of (length srv) k) = Some s ->
  RelS (upd (server_of (length srv) k) (c_store k v trg dl None s) srv) (c_store k v trg dl None c).
Proof.
  intros (U & US & R) Es. split; [apply keys_unique_store; exact U|]. split.
  - intros i s1 H. apply nth_upd_inv in H. destruct H as [[_ ->]|[_ H]].
    + apply keys_unique_store. eapply US. exact Es.
    + eapply US. exact H.
  - intros k1 s1. rewrite upd_length. intros H. rewrite (a_find_store k1 k v trg dl None c).
    apply nth_upd_inv in H. destruct H as [[E ->]|[E H]].
    + rewrite (a_find_store k1 k v trg dl None s). destruct (beq k1 k); [reflexivity|].
      apply R. rewrite <- E. exact Es.
    + destruct (beq k1 k) eqn:E1; [apply beq_eq in E1; subst k1; contradiction E; reflexivity|].
      apply R. exact H.
Qed.

Lemma strip_rise t a b :
  option_map strip a = option_map strip b ->
  option_map strip (match a with Some e => if smem t (e_trg e) then None else Some e | None => None end) =
  option_map strip (match b with Some e => if smem t (e_trg e) then None else Some e | None => None end).
Proof.
  destruct a as [e1|], b as [e2|]; cbn [option_map]; intros H; try discriminate; try reflexivity.
  unfold strip in H. inversion H as [[H1 H2 H3]]. rewrite H2.
  destruct (smem t (e_trg e2)); [reflexivity|]. cbn [option_map]. unfold strip. congruence.
Qed.

Lemma RelS_rise srv c t : RelS srv c -> RelS (map (c_rise t) srv) (c_rise t c).
Proof.
  intros (U & US & R). split; [apply keys_unique_rise; exact U|]. split.
  - intros i s1 H. rewrite nth_error_map in H. destruct (nth_error srv i) as [s|] eqn:E; [|discriminate].
    cbn [option_map] in H. inversion H; subst. apply keys_unique_rise. eapply US. exact E.
  - intros k s1. rewrite map_length, nth_error_map.
    destruct (nth_error srv (server_of (length srv) k)) as [s|] eqn:E; [|discriminate].
    cbn [option_map]. intros H. inversion H; subst s1.
    rewrite (a_find_rise t k s (US _ _ E)), (a_find_rise t k c U). apply strip_rise. apply R. exact E.
Qed.
Lemma RelS_clear srv c : RelS srv c -> RelS (map c_clear srv) (c_clear c).
Proof.
  intros (U & US & R). split; [apply keys_unique_clear|]. split.
  - intros i s1 H. rewrite nth_error_map in H. destruct (nth_error srv i) as [s|]; [|discriminate].
    cbn [option_map] in H. inversion H; subst. apply keys_unique_clear.
  - intros k s1. rewrite map_length, nth_error_map.
    destruct (nth_error srv (server_of (length srv) k)) as [s|]; [|discriminate].
    cbn [option_map]. intros H. inversion H; subst s1. reflexivity.
Qed.

(* ---------- how store / rise / clear change the list of servers ---------- *)
Lemma store_world w c k v trg dl w1 s :
  store_ok k v trg dl ->
  step w (OStore c k v trg dl) = (ObsNone, w1) ->
  nth_error (w_srv w) (server_of (nsrv w) k) = Some s ->
  w_now w1 = w_now w /\
  w_srv w1 = upd (server_of (nsrv w) k) (c_store k v (mkset trg) dl None s) (w_srv w).
Proof.
  intros (NE & G & I64 & LEN) H Es. cbn [step] in H.
  destruct (on_l1 w c (c_remove k)) as [w0|] eqn:E0; [|discriminate].
  destruct (on_l1_frame _ _ _ _ E0) as [S0 N0].
  assert (nsrv w0 = nsrv w) as NS by (unfold nsrv; rewrite S0; reflexivity).
  rewrite NS in H. rewrite <- S0 in Es.
  rewrite (rpc_at w0 _ _ s Es) in H.
  rewrite (store_rpc (w_now w0) k v (mkset trg) dl s NE (mkset_Forall _ _ G) (mkset_sorted trg) I64 LEN) in H.
  cbn [fst snd] in H. inversion H; subst w1; clear H. cbn [w_srv w_now]. rewrite S0. split; [exact N0|reflexivity].
Qed.

Lemma broadcast_map w rq f :
  (forall now c, snd (srv_handle now (fst rq) (snd rq) c) = f c) ->
  w_srv (broadcast (nsrv w) w rq) = map f (w_srv w) /\ w_now (broadcast (nsrv w) w rq) = w_now w.
Proof.
  intros F. destruct (broadcast_char (nsrv w) w rq f F (le_n _)) as (_ & N1 & L1 & A1).
  split; [|exact N1]. apply nth_error_ext. intros i. rewrite A1, nth_error_map.
  destruct (Nat.ltb_spec i (nsrv w)) as [L|L]; [reflexivity|].
  assert (nth_error (w_srv w) i = None) as -> by (apply nth_error_None; exact L). reflexivity.
Qed.
Lemma rise_world w c t w1 :
  step w (ORise c t) = (ObsNone, w1) -> w_srv w1 = map (c_rise t) (w_srv w) /\ w_now w1 = w_now w.
Proof.
  intros H. cbn [step] in H. destruct (on_l1 w c (c_rise t)) as [w0|] eqn:E0; [|discriminate].
  destruct (on_l1_frame _ _ _ _ E0) as [S0 N0]. inversion H; subst w1; clear H.
  destruct (broadcast_map w0 (enc_rise t) (c_rise t) (fun now c => srv_rise now t c)) as [A B].
  rewrite A, B, S0, N0. split; reflexivity.
Qed.
Lemma clear_world w c w1 :
  step w (OClear c) = (ObsNone, w1) -> w_srv w1 = map c_clear (w_srv w) /\ w_now w1 = w_now w.
Proof.
  intros H. cbn [step] in H. destruct (on_l1 w c c_clear) as [w0|] eqn:E0; [|discriminate].
  destruct (on_l1_frame _ _ _ _ E0) as [S0 N0]. inversion H; subst w1; clear H.
  destruct (broadcast_map w0 enc_clear c_clear srv_clear) as [A B].
  rewrite A, B, S0, N0. split; reflexivity.
Qed.

(* ---------- a valid node gets an answer of the right kind ---------- *)
Lemma on_l1_some w c f : (c < length (w_cli w))%nat -> exists w0, on_l1 w c f = Some w0.
Proof.
  intros L. unfold on_l1. destruct (nth_error (w_cli w) c) as [[l|]|] eqn:E; try (eexists; reflexivity).
  apply nth_error_None in E. lia.
Qed.
Lemma fetch_obs w c k tags x w1 :
  (c < length (w_cli w))%nat -> step w (OFetch c k tags) = (x, w1) -> exists r, x = ObsFetch r.
Proof.
  intros L H. cbn [step] in H. destruct (client_fetch w c k tags) as [x0 w0] eqn:E.
  assert (exists r, x0 = ObsFetch r) as [r ->].
  { unfold client_fetch in E. destruct (nth_error (w_cli w) c) as [[l1|]|] eqn:Ec.
    - destruct (c_fetch (w_now w) k l1) as [e|].
      + destruct (rpc w (server_of (nsrv w) k) (enc_fetch k (e_gen e) true true)) as [[h p] w2].
        destruct (dec_fetch true true h p); inversion E; eexists; reflexivity.
      + destruct (rpc w (server_of (nsrv w) k) (enc_fetch k 0 true false)) as [[h p] w2].
        destruct (dec_fetch false true h p); inversion E; eexists; reflexivity.
    - destruct (rpc w (server_of (nsrv w) k) (enc_fetch k 0 tags false)) as [[h p] w2].
      destruct (dec_fetch false tags h p); inversion E; eexists; reflexivity.
    - apply nth_error_None in Ec. lia. }
  destruct r as [[[v t] dl]|]; inversion H; eexists; reflexivity.
Qed.

(* ---------- one step ---------- *)
Definition Good (ncl : nat) (w : world) (sp : spec) : Prop :=
  reachable w /\ (0 < nsrv w)%nat /\ length (w_cli w) = ncl /\ w_now w = s_now sp /\ RelS (w_srv w) (s_cache sp).

Lemma step_shape w o : reachable w -> nsrv (snd (step w o)) = nsrv w /\ length (w_cli (snd (step w o))) = length (w_cli w).
Proof.
  intros R. destruct (reachable_inv w R) as [logs I]. destruct (step w o) as [x w1] eqn:E.
  destruct (step_inv w logs o x w1 I E) as (_ & _ & _ & A). exact A.
Qed.

Lemma responsible_exists w k : (0 < nsrv w)%nat -> exists s, nth_error (w_srv w) (server_of (nsrv w) k) = Some s.
Proof.
  intros NZ. destruct (nth_error (w_srv w) (server_of (nsrv w) k)) eqn:E; [eexists; reflexivity|].
  apply nth_error_None in E. pose proof (server_of_lt (nsrv w) k NZ). unfold nsrv in *. lia.
Qed.

Lemma step_refines ncl w sp o x w1 :
  Good ncl w sp -> client_ok ncl o -> step w o = (x, w1) ->
  view_of x = fst (spec_step sp o) /\ Good ncl w1 (snd (spec_step sp o)).
Proof.
  intros (R & NZ & NC & NW & RS) OK H.
  assert (reachable w1) as R1 by (replace w1 with (snd (step w o)) by (rewrite H; reflexivity); constructor; exact R).
  destruct (step_shape w o R) as [SH1 SH2]. rewrite H in SH1, SH2. cbn [snd] in SH1, SH2.
  assert (forall spc now1, w_now w1 = now1 -> RelS (w_srv w1) spc -> Good ncl w1 (mkS spc now1)) as MK.
  { intros spc now1 A B. split; [exact R1|]. split; [lia|]. split; [lia|]. split; assumption. }
  destruct o as [c k v trg dl|c k tags|c t|c|c k|c|d|s h p]; cbn [client_ok] in OK; cbn [spec_step fst snd].
  - (* store *)
    destruct OK as [L SO]. rewrite <- NC in L.
    assert (x = ObsNone) as ->.
    { cbn [step] in H. destruct (on_l1_some w c (c_remove k) L) as [w0 E0]. rewrite E0 in H.
      destruct (rpc w0 (server_of (nsrv w0) k) (enc_store k v (mkset trg) dl)) as [[h1 p1] w2]. inversion H. reflexivity. }
    split; [reflexivity|].
    destruct (responsible_exists w k NZ) as [s Es].
    destruct (store_world w c k v trg dl w1 s SO H Es) as [N1 S1].
    apply MK; [congruence|]. rewrite S1. unfold nsrv in *. apply RelS_store; assumption.
  - (* fetch *)
    rewrite <- NC in OK. destruct (fetch_obs w c k tags x w1 OK H) as [r ->].
    pose proof (fetch_current_reachable w c k tags r w1 R H) as C.
    destruct (fetch_keeps_servers w c k tags _ w1 R H) as [S1 N1].
    split.
    + cbn [view_of]. f_equal. unfold current in C.
      destruct (responsible_exists w k NZ) as [s Es]. rewrite Es in C.
      destruct RS as (_ & _ & RR). unfold nsrv in Es. specialize (RR k s Es).
      unfold c_fetch in *. rewrite NW in C.
      destruct (a_find k (c_items s)) as [e|], (a_find k (c_items (s_cache sp))) as [e2|]; cbn [option_map] in RR; try discriminate.
      * unfold strip in RR. injection RR as H1 H2 H3. rewrite <- H3.
        destruct (e_dl e <? s_now sp)%Z.
        -- destruct r as [[[v1 t1] d1]|]; [contradiction|reflexivity].
        -- destruct r as [[[v1 t1] d1]|]; [|contradiction]. destruct C as [-> ->]. cbn. congruence.
      * destruct r as [[[v1 t1] d1]|]; [contradiction|reflexivity].
    + destruct sp as [spc spn]. cbn [s_cache s_now] in *. apply MK; [congruence|]. rewrite S1. exact RS.
  - (* rise *)
    rewrite <- NC in OK.
    assert (x = ObsNone) as ->.
    { cbn [step] in H. destruct (on_l1_some w c (c_rise t) OK) as [w0 E0]. rewrite E0 in H. inversion H. reflexivity. }
    split; [reflexivity|]. destruct (rise_world w c t w1 H) as [S1 N1].
    apply MK; [congruence|]. rewrite S1. apply RelS_rise. exact RS.
  - (* clear *)
    rewrite <- NC in OK.
    assert (x = ObsNone) as ->.
    { cbn [step] in H. destruct (on_l1_some w c c_clear OK) as [w0 E0]. rewrite E0 in H. inversion H. reflexivity. }
    split; [reflexivity|]. destruct (clear_world w c w1 H) as [S1 N1].
    apply MK; [congruence|]. rewrite S1. apply RelS_clear. exact RS.
  - (* evict *)
    destruct (quiet_keeps_servers w (OEvict c k) x w1 R I H) as [S1 N1].
    split.
    + cbn [step] in H. destruct (on_l1 w c (c_remove k)); inversion H; reflexivity.
    + destruct sp as [spc spn]. cbn [s_cache s_now] in *. apply MK; [congruence|]. rewrite S1. exact RS.
  - (* stats *)
    destruct (quiet_keeps_servers w (OStats c) x w1 R I H) as [S1 N1].
    split.
    + cbn [step] in H. destruct (nth_error (w_cli w) c); [destruct (stats_sum (nsrv w) w) as [[k t] w0]|]; inversion H; reflexivity.
    + destruct sp as [spc spn]. cbn [s_cache s_now] in *. apply MK; [congruence|]. rewrite S1. exact RS.
  - (* tick *)
    cbn [step] in H. inversion H; subst x w1. split; [reflexivity|].
    apply MK; [cbn [w_now]; congruence|exact RS].
  - contradiction.
Qed.

Lemma run_refines ncl h : forall w sp,
  Good ncl w sp -> Forall (client_ok ncl) h ->
  map view_of (fst (run w h)) = fst (spec_run sp h).
Proof.
  induction h as [|o r IH]; intros w sp G F; [reflexivity|].
  inversion F as [|? ? Fo Fr]; subst. cbn [run spec_run].
  destruct (step w o) as [x w1] eqn:E.
  destruct (step_refines ncl w sp o x w1 G Fo E) as [V G1].
  destruct (spec_step sp o) as [y sp1]. cbn [fst snd] in V, G1.
  specialize (IH w1 sp1 G1 Fr).
  destruct (run w1 r) as [xs w2]. destruct (spec_run sp1 r) as [ys sp2]. cbn [fst map] in *. congruence.
Qed.

Lemma init_good ns l1 : (0 < ns)%nat -> Good (length l1) (init_world ns l1) (mkS c_empty 1000).
Proof.
  intros NZ. split; [constructor|]. unfold init_world, nsrv. cbn [w_srv w_cli w_now s_now s_cache].
  rewrite repeat_length, map_length. split; [exact NZ|]. split; [reflexivity|]. split; [reflexivity|].
  split; [constructor|]. split.
  - intros i s H. apply nth_error_In in H. apply repeat_spec in H. subst. constructor.
  - intros k s H. apply nth_error_In in H. apply repeat_spec in H. subst. reflexivity.
Qed.

(* the networked cache with L1s is observationally ONE cache *)
Lemma refines ns l1 h :
  (0 < ns)%nat -> Forall (client_ok (length l1)) h ->
  map view_of (fst (run (init_world ns l1) h)) = fst (spec_run (mkS c_empty 1000) h).
Proof. intros NZ F. apply run_refines with (ncl := length l1); [apply init_good; exact NZ|exact F]. Qed.
