(* C13 -- the built-in file server never serves anything outside its document roots.
   Only property theorems here, each closed by `exact <lemma>`; proofs are in ProofsNorm.v (normalize_path),
   ProofsRoot.v (is_file_prefix, aliases, check_in_document_root, main) and ProofsMain.v (listing, pipeline).
   Vocabulary (Defs.v): render cs = slash ++ c1 ++ slash ++ ... ++ cn ; good_comp c = c is non-empty, is not
   dot, is not dot-dot and has no slash; resolve = textbook stack resolution (dot-dot pops, never above the root);
   handle = http_api.cpp path pipeline (cut at the question mark, urldecode, C string) followed by
   file_server::main, over abstract OS functions canonical (realpath), file_mode (stat), dir_entries, can_open. *)
From CppcmsV Require Import Base.Tac Base.CSem Base.Sweep C15.Defs C13.Defs C13.ProofsNorm C13.ProofsRoot C13.ProofsMain C13.ProofsIp C13.Link gen.Gen_fileserver.
Local Open Scope N_scope.

(* 1. normalize_safe: for EVERY byte string the result of file_server::normalize_path is slash-rooted, consists of
      good components only (no empty, dot, dot-dot component), and normalising again changes nothing *)
Theorem normalize_safe : forall p, exists cs,
  normalize p = render cs /\ Forall (fun c => good_comp c = true) cs /\ normalize (normalize p) = normalize p.
Proof. exact normalize_safe_full. Qed.
Print Assumptions normalize_safe.

(* 2. normalize_resolves: the in-place algorithm computes the textbook resolution of the slash-separated pieces *)
Theorem normalize_resolves : forall p, normalize p = render (resolve (split_slash (tl (ensure_slash p)))).
Proof. exact normalize_resolves_gen. Qed.
Print Assumptions normalize_resolves.

(* 2b. normalize_refines_iterators: the statement-by-statement model over ONE string buffer with the indices
       out / start / end (std::find, the overlapping std::copy towards the front, the stored slash, the backwards
       scan reading the already written output, the final trailing-slash adjustment and resize; Defs.v 1b)
       computes the same function as the functional model, for every input: nothing unread is ever overwritten *)
Theorem normalize_refines_iterators : forall p, normalize_ip p = normalize p.
Proof. exact normalize_ip_refines. Qed.
Print Assumptions normalize_refines_iterators.

Example normalize_nonvacuous :
  normalize [47;97;47;98;47;46;46;47;99] = [47;97;47;99] /\            (* /a/b/../c -> /a/c *)
  normalize [47;46;46;47;46;46;47;101;116;99;47] = [47;101;116;99] /\  (* /../../etc/ -> /etc *)
  normalize [97;47;47;46;47;46;46] = [47].                              (* a//./..  -> /  *)
Proof. repeat split; vm_compute; reflexivity. Qed.

(* 3. alias_component: on canonical paths is_file_prefix is exactly the component-wise prefix relation, and with
      alias URLs as the constructor leaves them an alias is selected only when its URL is a whole-component prefix
      of the normalised path (the remainder is again a rendering of the remaining components); when none is
      selected, no alias URL is a component prefix.  So /alias../x and /aliasx never select /alias. *)
Theorem is_file_prefix_is_component_prefix : forall rcs cs, Forall good rcs -> Forall good cs ->
  (is_file_prefix (render rcs) (render cs) = true <-> exists t, cs = rcs ++ t).
Proof. exact is_file_prefix_iff. Qed.
Print Assumptions is_file_prefix_is_component_prefix.
Theorem alias_component : forall al cs target rest,
  Forall (fun a => url_ok (fst a)) al -> Forall good cs ->
  select_alias al (render cs) = Some (target, rest) ->
  exists ucs t, In (render ucs, target) al /\ cs = ucs ++ t /\ rest = render t.
Proof. exact alias_component_some. Qed.
Print Assumptions alias_component.
Theorem alias_component_complete : forall al cs,
  Forall (fun a => url_ok (fst a)) al -> Forall good cs ->
  select_alias al (render cs) = None ->
  forall ucs tg t, In (render ucs, tg) al -> Forall good ucs -> cs <> ucs ++ t.
Proof. exact alias_component_none. Qed.
Print Assumptions alias_component_complete.
Example alias_nonvacuous :
  let al := [([47;97;108], [47;84])] in                                                      (* /al -> /T *)
  select_alias al [47;97;108;47;120] = Some ([47;84], [47;120]) /\                          (* /al/x   *)
  select_alias al [47;97;108] = Some ([47;84], [47]) /\                                     (* /al     *)
  select_alias al [47;97;108;120] = None /\                                                 (* /alx    *)
  select_alias al [47;97;108;46;46;47;120] = None.                                          (* /al../x *)
Proof. repeat split; vm_compute; reflexivity. Qed.

(* 4. contained_lexical (check_symlink off): whatever the request and whatever the alias URL strings, the path
      that check_in_document_root hands to stat/open/opendir is  root ++ /c1/.../cn  where root is the document
      root or an alias target and c1..cn are good components forming a tail of the resolved request: the path
      only descends from the root (it names a node under root in any name space without symbolic links) *)
Theorem contained_lexical : forall canonical cfg f path,
  check_symlinks cfg = false ->
  check_in_document_root canonical cfg f = Some path ->
  exists root pre t, root_in_force cfg root /\ Forall good t /\
    resolve (split_slash (tl (ensure_slash f))) = pre ++ t /\
    path = root ++ flat_map (fun c => slash :: c) t.
Proof. exact contained_lexical_gen. Qed.
Print Assumptions contained_lexical.

(* 5. contained_real (check_symlink on): if realpath returns canonical paths (contract) and the roots are
      canonical (they are outputs of canonical() in the constructor), the path handed to stat/open/opendir is a
      canonical path with the root in force as a COMPONENT-WISE prefix, and it is the canonicalisation of
      root / lexically-safe-path *)
Theorem contained_real : forall canonical cfg f real,
  canonical_contract canonical -> roots_canonical cfg ->
  check_symlinks cfg = true ->
  check_in_document_root canonical cfg f = Some real ->
  exists root rcs below lex, root_in_force cfg root /\ root = render rcs /\
    real = render (rcs ++ below) /\ Forall good (rcs ++ below) /\
    Forall good lex /\ canonical (cstr (root ++ slash :: render lex)) = Some real.
Proof. exact contained_real_gen. Qed.
Print Assumptions contained_real.
(* the contract is satisfiable and meaningful: the executable POSIX name-space model used by the model driver
   (symbolic links, dot-dot, absolute and relative targets) meets it for every name space *)
Theorem realpath_model_meets_contract : forall fs, canonical_contract (fs_realpath fs).
Proof. exact fs_realpath_canonical. Qed.
Print Assumptions realpath_model_meets_contract.
(* in that name-space model the path that passes the check is link-free: every proper ancestor is a directory node
   and the last component is a directory / regular file / other node - all symbolic links have been followed - so
   together with contained_real the object served sits, as a node, below the root in force *)
Theorem model_checked_path_is_link_free : forall fs cfg f real,
  check_symlinks cfg = true ->
  check_in_document_root (fs_realpath fs) cfg f = Some real ->
  exists res, real = render (rev res) /\ real_node fs res.
Proof. exact fs_checked_path_link_free. Qed.
Print Assumptions model_checked_path_is_link_free.

(* 6. main decision tree, end to end from the raw request target: a file is streamed only if it is S_IFREG and
      its path came out of check_in_document_root (for the request path or for path/index), hence is contained
      as in 4/5; a directory is opened for listing only if listing is enabled and likewise contained *)
Theorem main_streams_only_checked_regular_files : forall canonical file_mode dir_entries can_open cfg f p e,
  fs_main canonical file_mode dir_entries can_open cfg f = RFile p e ->
  (check_in_document_root canonical cfg f = Some p \/
   check_in_document_root canonical cfg (f ++ slash :: index_file cfg) = Some p) /\
  has_bit (file_mode (cstr p)) S_IFREG = true /\ can_open (cstr p) = true.
Proof. exact main_serves. Qed.
Print Assumptions main_streams_only_checked_regular_files.
Theorem main_redirects_only_for_checked_directories : forall canonical file_mode dir_entries can_open cfg f loc,
  fs_main canonical file_mode dir_entries can_open cfg f = RRedirect loc ->
  loc = f ++ [slash] /\ last f 0 <> slash /\
  exists path, check_in_document_root canonical cfg f = Some path /\ has_bit (file_mode (cstr path)) S_IFDIR = true.
Proof. exact main_redirects. Qed.
Print Assumptions main_redirects_only_for_checked_directories.
Theorem served_file_contained_lexical : forall canonical file_mode dir_entries can_open cfg target p e,
  check_symlinks cfg = false ->
  handle canonical file_mode dir_entries can_open cfg target = RFile p e ->
  exists root t, root_in_force cfg root /\ Forall good t /\ p = root ++ flat_map (fun c => slash :: c) t.
Proof. exact served_lexical. Qed.
Print Assumptions served_file_contained_lexical.
Theorem served_file_contained_real : forall canonical file_mode dir_entries can_open cfg target p e,
  canonical_contract canonical -> roots_canonical cfg -> check_symlinks cfg = true ->
  handle canonical file_mode dir_entries can_open cfg target = RFile p e ->
  exists root rcs below, root_in_force cfg root /\ root = render rcs /\
    p = render (rcs ++ below) /\ Forall good (rcs ++ below).
Proof. exact served_real. Qed.
Print Assumptions served_file_contained_real.
Theorem path_info_is_c_string : forall target, nonul (path_info target) = true.
Proof. exact path_info_nonul. Qed.
Print Assumptions path_info_is_c_string.
(* the OS receives path.c_str(): for a request path without NUL (every front end hands over a C string, see
   path_info_is_c_string) and roots without NUL the C string IS the contained path of theorem 4 *)
Theorem lexical_opened_string_is_checked_path : forall canonical cfg f path,
  check_symlinks cfg = false -> nonul f = true -> (forall root, root_in_force cfg root -> nonul root = true) ->
  check_in_document_root canonical cfg f = Some path -> cstr path = path.
Proof. exact lexical_path_is_c_string. Qed.
Print Assumptions lexical_opened_string_is_checked_path.
(* aside (why the premise is there): file_server::main called with an embedded NUL - not reachable through the
   http/scgi/fastcgi front ends - would hand  root/..  to the OS although the checked std::string is lexically safe *)
Example nul_premise_is_needed :
  check_in_document_root (fun _ => None) (mkcfg [47;114] [] false false [105]) [47;46;46;0] = Some [47;114;47;46;46;0] /\
  cstr [47;114;47;46;46;0] = [47;114;47;46;46].
Proof. split; vm_compute; reflexivity. Qed.

(* 7. listing_rules: a listing is produced only when enabled, for a directory that passed
      check_in_document_root (contained as in 4/5); no row for a name starting with a dot; the text of every row
      is util::escape(name) (+ slash) and so free of markup characters, the href is util::urlencode(name) (+ slash) *)
Theorem listing_only_when_enabled : forall canonical file_mode dir_entries can_open cfg f title parent rows,
  fs_main canonical file_mode dir_entries can_open cfg f = RListing title parent rows ->
  listing cfg = true /\ title = escape f /\
  exists path names, check_in_document_root canonical cfg f = Some path /\
    has_bit (file_mode (cstr path)) S_IFDIR = true /\
    dir_entries (cstr path) = Some names /\ rows = list_rows file_mode path names.
Proof. exact main_lists. Qed.
Print Assumptions listing_only_when_enabled.
Theorem listed_directory_contained_lexical : forall canonical file_mode dir_entries can_open cfg target ti pa rows,
  check_symlinks cfg = false ->
  handle canonical file_mode dir_entries can_open cfg target = RListing ti pa rows ->
  exists path names root t, dir_entries (cstr path) = Some names /\ rows = list_rows file_mode path names /\
    root_in_force cfg root /\ Forall good t /\ path = root ++ flat_map (fun c => slash :: c) t.
Proof. exact listed_lexical. Qed.
Print Assumptions listed_directory_contained_lexical.
Theorem listed_directory_contained_real : forall canonical file_mode dir_entries can_open cfg target ti pa rows,
  canonical_contract canonical -> roots_canonical cfg -> check_symlinks cfg = true ->
  handle canonical file_mode dir_entries can_open cfg target = RListing ti pa rows ->
  exists path names root rcs below, dir_entries (cstr path) = Some names /\ rows = list_rows file_mode path names /\
    root_in_force cfg root /\ root = render rcs /\ path = render (rcs ++ below) /\ Forall good (rcs ++ below).
Proof. exact listed_real. Qed.
Print Assumptions listed_directory_contained_real.
Theorem listing_rows_rule : forall file_mode path names h tx, In (h, tx) (list_rows file_mode path names) ->
  exists name add, In name names /\ starts_with_dot name = false /\
    h = urlencode name ++ add /\ tx = escape name ++ add /\ (add = [] \/ add = [slash]).
Proof. exact list_rows_spec. Qed.
Print Assumptions listing_rows_rule.
Theorem listing_rows_markup_free : forall file_mode path names h tx, In (h, tx) (list_rows file_mode path names) ->
  forallb markup_free tx = true.
Proof. exact list_rows_text_markup_free. Qed.
Print Assumptions listing_rows_markup_free.

(* non-vacuity of 4-7 on a concrete name space:  /r (docroot) with f, d/.h, d/x<y, link -> /o ; /o/s outside *)
Definition ex_fs : fsdesc :=
  [ (rev [47;114], NDir); (rev [47;114;47;102], NReg 1); (rev [47;114;47;100], NDir);
    (rev [47;114;47;100;47;46;104], NReg 2); (rev [47;114;47;100;47;120;60;121], NReg 3);
    (rev [47;114;47;108], NLink [47;111]); (rev [47;111], NDir); (rev [47;111;47;115], NReg 9) ].
Definition ex_cfg (chk : bool) : config := mkcfg [47;114] [] true chk [105].
Example contained_nonvacuous :
  fs_handle ex_fs (ex_cfg true) [47;100;47;46;46;47;102] = RFile [47;114;47;102] [] /\          (* /d/../f  -> /r/f *)
  fs_handle ex_fs (ex_cfg true) [47;108;47;115] = R404 /\                                        (* /l/s escapes: 404 *)
  fs_handle ex_fs (ex_cfg false) [47;108;47;115] = RFile [47;114;47;108;47;115] [] /\            (* lexical only *)
  fs_handle ex_fs (ex_cfg true) [47;37;50;101;37;50;101;47;111;47;115] = R404 /\                 (* /%2e%2e/o/s *)
  fs_handle ex_fs (ex_cfg true) [47;100;47] =
    RListing [47;100;47] true [([120;37;51;99;121], [120;38;108;116;59;121])] /\                 (* x<y escaped, .h hidden *)
  roots_canonical (ex_cfg true).
Proof.
  repeat split; try (vm_compute; reflexivity).
  intros root [H|[]]. exists [[114]]. split. exact H. repeat constructor.
Qed.

(* 8. tie: the separator test regenerated from the current source is the model's (c =? slash) *)
Theorem tie_is_directory_separator : forall b, b < 256 -> g_is_directory_separator (wraps 8 (Z.of_N b)) = (b =? slash).
Proof. exact link_is_directory_separator. Qed.
Print Assumptions tie_is_directory_separator.
