(* C13 -- the built-in file server never serves anything outside its document roots.
   Only property theorems here, each closed by `exact <lemma>`; proofs are in ProofsNorm.v (normalize_path),
   ProofsRoot.v (is_file_prefix, aliases, check_in_document_root, main) and ProofsMain.v (listing, pipeline).
   Vocabulary (Defs.v): render cs = slash ++ c1 ++ slash ++ ... ++ cn ; good_comp c = c is non-empty, is not
   dot, is not dot-dot and has no slash; resolve = textbook stack resolution (dot-dot pops, never above the root);
   handle = http_api.cpp path pipeline (cut at the question mark, urldecode, C string) followed by
   file_server::main, over abstract OS functions canonical (realpath), file_mode (stat), dir_entries, can_open. *)
From CppcmsV Require Import Base.Tac Base.CSem Base.Sweep C15.Defs C13.Defs C13.ProofsNorm C13.ProofsRoot C13.ProofsMain C13.ProofsIp C13.PageDefs C13.ProofsList C13.ProofsRedir C13.ProofsReal C13.ProofsKind C13.Link gen.Gen_fileserver gen.Gen_C13_mode.
Local Open Scope N_scope.

(* 1. normalize_safe: for EVERY byte string the result of file_server::normalize_path is slash-rooted, consists of
      good components only (no empty, dot, dot-dot component), and normalising again changes nothing *)
Theorem normalize_safe : forall p, exists cs,
  normalize p = render cs /\ Forall (fun c => good_comp c = true) cs /\ normalize (normalize p) = normalize p.
Proof. exact normalize_safe_full. Qed.
Print Assumptions normalize_safe.

(* 2. normalize_resolves: the in-place algorithm computes the textbook resolution of the slash-separated pieces *)
Theorem normalize_resolves : forall p, normalize p = render (resolve (split_slash (tl (ensure_slash p)))).
Proof. exact normalize_resolves_gen. Qed.
Print Assumptions normalize_resolves.

(* 2b. normalize_refines_iterators: the statement-by-statement model over ONE string buffer with the indices
       out / start / end (std::find, the overlapping std::copy towards the front, the stored slash, the backwards
       scan reading the already written output, the final trailing-slash adjustment and resize; Defs.v 1b)
       computes the same function as the functional model, for every input: nothing unread is ever overwritten *)
Theorem normalize_refines_iterators : forall p, normalize_ip p = normalize p.
Proof. exact normalize_ip_refines. Qed.
Print Assumptions normalize_refines_iterators.

Example normalize_nonvacuous :
  normalize [47;97;47;98;47;46;46;47;99] = [47;97;47;99] /\            (* /a/b/../c -> /a/c *)
  normalize [47;46;46;47;46;46;47;101;116;99;47] = [47;101;116;99] /\  (* /../../etc/ -> /etc *)
  normalize [97;47;47;46;47;46;46] = [47].                              (* a//./..  -> /  *)
Proof. repeat split; vm_compute; reflexivity. Qed.

(* 3. alias_component: on canonical paths is_file_prefix is exactly the component-wise prefix relation, and with
      alias URLs as the constructor leaves them an alias is selected only when its URL is a whole-component prefix
      of the normalised path (the remainder is again a rendering of the remaining components); when none is
      selected, no alias URL is a component prefix.  So /alias../x and /aliasx never select /alias. *)
Theorem is_file_prefix_is_component_prefix : forall rcs cs, Forall good rcs -> Forall good cs ->
  (is_file_prefix (render rcs) (render cs) = true <-> exists t, cs = rcs ++ t).
Proof. exact is_file_prefix_iff. Qed.
Print Assumptions is_file_prefix_is_component_prefix.
Theorem alias_component : forall al cs target rest,
  Forall (fun a => url_ok (fst a)) al -> Forall good cs ->
  select_alias al (render cs) = Some (target, rest) ->
  exists ucs t, In (render ucs, target) al /\ cs = ucs ++ t /\ rest = render t.
Proof. exact alias_component_some. Qed.
Print Assumptions alias_component.
Theorem alias_component_complete : forall al cs,
  Forall (fun a => url_ok (fst a)) al -> Forall good cs ->
  select_alias al (render cs) = None ->
  forall ucs tg t, In (render ucs, tg) al -> Forall good ucs -> cs <> ucs ++ t.
Proof. exact alias_component_none. Qed.
Print Assumptions alias_component_complete.
Example alias_nonvacuous :
  let al := [([47;97;108], [47;84])] in                                                      (* /al -> /T *)
  select_alias al [47;97;108;47;120] = Some ([47;84], [47;120]) /\                          (* /al/x   *)
  select_alias al [47;97;108] = Some ([47;84], [47]) /\                                     (* /al     *)
  select_alias al [47;97;108;120] = None /\                                                 (* /alx    *)
  select_alias al [47;97;108;46;46;47;120] = None.                                          (* /al../x *)
Proof. repeat split; vm_compute; reflexivity. Qed.

(* 4. contained_lexical (check_symlink off): whatever the request and whatever the alias URL strings, the path
      that check_in_document_root hands to stat/open/opendir is  root ++ /c1/.../cn  where root is the document
      root or an alias target and c1..cn are good components forming a tail of the resolved request: the path
      only descends from the root (it names a node under root in any name space without symbolic links) *)
Theorem contained_lexical : forall canonical cfg f path,
  check_symlinks cfg = false ->
  check_in_document_root canonical cfg f = Some path ->
  exists root pre t, root_in_force cfg root /\ Forall good t /\
    resolve (split_slash (tl (ensure_slash f))) = pre ++ t /\
    path = root ++ flat_map (fun c => slash :: c) t.
Proof. exact contained_lexical_gen. Qed.
Print Assumptions contained_lexical.

(* 5. contained_real (check_symlink on): if realpath returns canonical paths (contract) and the roots are
      canonical (they are outputs of canonical() in the constructor), the path handed to stat/open/opendir is a
      canonical path with the root in force as a COMPONENT-WISE prefix, and it is the canonicalisation of
      root / lexically-safe-path *)
Theorem contained_real : forall canonical cfg f real,
  canonical_contract canonical -> roots_canonical cfg ->
  check_symlinks cfg = true ->
  check_in_document_root canonical cfg f = Some real ->
  exists root rcs below lex, root_in_force cfg root /\ root = render rcs /\
    real = render (rcs ++ below) /\ Forall good (rcs ++ below) /\
    Forall good lex /\ canonical (cstr (root ++ slash :: render lex)) = Some real.
Proof. exact contained_real_gen. Qed.
Print Assumptions contained_real.
(* the contract is satisfiable and meaningful: the executable POSIX name-space model used by the model driver
   (symbolic links, dot-dot, absolute and relative targets) meets it for every name space *)
Theorem realpath_model_meets_contract : forall fs, canonical_contract (fs_realpath fs).
Proof. exact fs_realpath_canonical. Qed.
Print Assumptions realpath_model_meets_contract.
(* in that name-space model the path that passes the check is link-free: every proper ancestor is a directory node
   and the last component is a directory / regular file / other node - all symbolic links have been followed - so
   together with contained_real the object served sits, as a node, below the root in force *)
Theorem model_checked_path_is_link_free : forall fs cfg f real,
  check_symlinks cfg = true ->
  check_in_document_root (fs_realpath fs) cfg f = Some real ->
  exists res, real = render (rev res) /\ real_node fs res.
Proof. exact fs_checked_path_link_free. Qed.
Print Assumptions model_checked_path_is_link_free.

(* 5b. the name-space model (fs_realpath: relative and absolute link targets, dot-dot through links, ENOTDIR, dangling
       links, at most MAXSYMLINKS = 40 links per resolution then ELOOP - also on cycle-free chains) for EVERY finite name
       space, i.e. every symbolic-link graph: realpath is idempotent (its result is link-free, so it is its own real path) *)
Theorem realpath_model_idempotent : forall fs x r, fs_realpath fs x = Some r -> fs_realpath fs r = Some r.
Proof. exact fs_realpath_idempotent. Qed.
Print Assumptions realpath_model_idempotent.
(* with check_symlink on and roots that are canonical() outputs (roots_real: what the constructor stores), every streamed
   file p satisfies: realpath p = p (all links followed, none left), the root in force is its own real path, and p has that
   root as a COMPONENT-WISE prefix - for every name space, every alias table and every request target *)
Theorem model_served_file_under_real_root : forall fs cfg target p e,
  roots_real fs cfg -> check_symlinks cfg = true ->
  fs_handle fs cfg target = RFile p e ->
  exists root rcs below res,
    root_in_force cfg root /\ fs_realpath fs root = Some root /\ root = render rcs /\
    p = render (rcs ++ below) /\ Forall good (rcs ++ below) /\
    fs_realpath fs p = Some p /\ p = render (rev res) /\ real_node fs res.
Proof. exact model_served_under_real_root. Qed.
Print Assumptions model_served_file_under_real_root.

(* 6. main decision tree, end to end from the raw request target: a file is streamed only if it is S_IFREG and
      its path came out of check_in_document_root (for the request path or for path/index), hence is contained
      as in 4/5; a directory is opened for listing only if listing is enabled and likewise contained *)
Theorem main_streams_only_checked_regular_files : forall canonical file_mode dir_entries can_open cfg f p e,
  fs_main canonical file_mode dir_entries can_open cfg f = RFile p e ->
  (check_in_document_root canonical cfg f = Some p \/
   check_in_document_root canonical cfg (f ++ slash :: index_file cfg) = Some p) /\
  has_bit (file_mode (cstr p)) S_IFREG = true /\ can_open (cstr p) = true.
Proof. exact main_serves. Qed.
Print Assumptions main_streams_only_checked_regular_files.
(* 6b. "the contents of a REGULAR file", for every kind of object.  main tests mode BITS: (s & S_IFDIR) holds for directories,
       block devices and sockets, (s & S_IFREG) for regular files, symbolic links (never reported by stat) and sockets; a FIFO, a
       character device and a failed stat (mode 0) pass neither *)
Theorem mode_tests_by_file_type : forall m, In (ftype m) posix_types ->
  (has_bit m S_IFDIR = true <-> In (ftype m) [S_IFDIR; S_IFBLK; S_IFSOCK]) /\
  (has_bit m S_IFREG = true <-> In (ftype m) [S_IFREG; S_IFLNK; S_IFSOCK]).
Proof. exact mode_tests_by_type. Qed.
Print Assumptions mode_tests_by_file_type.
(* whatever the checked path names: if main streams it, the object is - among the seven POSIX types - a regular file, a symbolic
   link or a socket (stat follows links; open() refuses sockets with ENXIO: OS facts, exercised by the harness), and ... *)
Theorem main_streams_only_regular_type : forall canonical file_mode dir_entries can_open cfg f p e,
  fs_main canonical file_mode dir_entries can_open cfg f = RFile p e ->
  In (ftype (file_mode (cstr p))) posix_types ->
  In (ftype (file_mode (cstr p))) [S_IFREG; S_IFLNK; S_IFSOCK] /\ can_open (cstr p) = true.
Proof. exact main_streams_by_type. Qed.
Print Assumptions main_streams_only_regular_type.
(* ... never an object whose stat failed, a FIFO, a character device, a directory or a block device: open() is not reached for them *)
Theorem main_never_opens_fifo_device_or_directory : forall canonical file_mode dir_entries can_open cfg f p e,
  fs_main canonical file_mode dir_entries can_open cfg f = RFile p e ->
  file_mode (cstr p) <> 0 /\ ftype (file_mode (cstr p)) <> S_IFIFO /\ ftype (file_mode (cstr p)) <> S_IFCHR /\
  ftype (file_mode (cstr p)) <> S_IFDIR /\ ftype (file_mode (cstr p)) <> S_IFBLK.
Proof. exact main_never_streams_fifo_or_chardev. Qed.
Print Assumptions main_never_opens_fifo_device_or_directory.
(* in the name-space model, for EVERY name space and every kind of node (directory, regular, link, other with any mode value):
   what is streamed is a regular-file node *)
Theorem model_streams_only_regular_file_nodes : forall fs cfg target p e,
  fs_handle fs cfg target = RFile p e -> exists id, fs_node fs (cstr p) = Some (NReg id).
Proof. exact model_streams_only_regular_nodes. Qed.
Print Assumptions model_streams_only_regular_file_nodes.
(* /r/p is a FIFO (mode 010644), /r/c a character device (020666), /r/s a socket (0140755), /r/x/i a socket named like the index:
   all 404; the socket passes the bit test and is refused by open *)
Definition kind_fs : fsdesc :=
  [ (rev [47;114], NDir); (rev [47;114;47;102], NReg 1); (rev [47;114;47;112], NOther 4516); (rev [47;114;47;99], NOther 8630);
    (rev [47;114;47;115], NOther 49645); (rev [47;114;47;120], NDir); (rev [47;114;47;120;47;105], NOther 49645) ].
Example kinds_nonvacuous :
  let cfg := mkcfg [47;114] [] false false [105] in
  fs_handle kind_fs cfg [47;102] = RFile [47;114;47;102] [] /\
  fs_handle kind_fs cfg [47;112] = R404 /\ fs_handle kind_fs cfg [47;99] = R404 /\ fs_handle kind_fs cfg [47;115] = R404 /\
  fs_handle kind_fs cfg [47;120;47] = R404 /\
  has_bit 49645 S_IFREG = true /\ has_bit 49645 S_IFDIR = true /\ has_bit 4516 S_IFREG = false /\ has_bit 8630 S_IFREG = false.
Proof. cbv zeta. repeat split; vm_compute; reflexivity. Qed.
Theorem main_redirects_only_for_checked_directories : forall canonical file_mode dir_entries can_open cfg f loc,
  fs_main canonical file_mode dir_entries can_open cfg f = RRedirect loc ->
  loc = safe_location f /\ last f 0 <> slash /\
  exists path, check_in_document_root canonical cfg f = Some path /\ has_bit (file_mode (cstr path)) S_IFDIR = true.
Proof. exact main_redirects. Qed.
Print Assumptions main_redirects_only_for_checked_directories.
Theorem served_file_contained_lexical : forall canonical file_mode dir_entries can_open cfg target p e,
  check_symlinks cfg = false ->
  handle canonical file_mode dir_entries can_open cfg target = RFile p e ->
  exists root t, root_in_force cfg root /\ Forall good t /\ p = root ++ flat_map (fun c => slash :: c) t.
Proof. exact served_lexical. Qed.
Print Assumptions served_file_contained_lexical.
Theorem served_file_contained_real : forall canonical file_mode dir_entries can_open cfg target p e,
  canonical_contract canonical -> roots_canonical cfg -> check_symlinks cfg = true ->
  handle canonical file_mode dir_entries can_open cfg target = RFile p e ->
  exists root rcs below, root_in_force cfg root /\ root = render rcs /\
    p = render (rcs ++ below) /\ Forall good (rcs ++ below).
Proof. exact served_real. Qed.
Print Assumptions served_file_contained_real.
Theorem path_info_is_c_string : forall target, nonul (path_info target) = true.
Proof. exact path_info_nonul. Qed.
Print Assumptions path_info_is_c_string.
(* the OS receives path.c_str(): for a request path without NUL (every front end hands over a C string, see
   path_info_is_c_string) and roots without NUL the C string IS the contained path of theorem 4 *)
Theorem lexical_opened_string_is_checked_path : forall canonical cfg f path,
  check_symlinks cfg = false -> nonul f = true -> (forall root, root_in_force cfg root -> nonul root = true) ->
  check_in_document_root canonical cfg f = Some path -> cstr path = path.
Proof. exact lexical_path_is_c_string. Qed.
Print Assumptions lexical_opened_string_is_checked_path.
(* aside (why the premise is there): file_server::main called with an embedded NUL - not reachable through the
   http/scgi/fastcgi front ends - would hand  root/..  to the OS although the checked std::string is lexically safe *)
Example nul_premise_is_needed :
  check_in_document_root (fun _ => None) (mkcfg [47;114] [] false false [105]) [47;46;46;0] = Some [47;114;47;46;46;0] /\
  cstr [47;114;47;46;46;0] = [47;114;47;46;46].
Proof. split; vm_compute; reflexivity. Qed.

(* 7. listing_rules: a listing is produced only when enabled, for a directory that passed
      check_in_document_root (contained as in 4/5); no row for a name starting with a dot; the text of every row
      is util::escape(name) (+ slash) and so free of markup characters, the href is util::urlencode(name) (+ slash) *)
Theorem listing_only_when_enabled : forall canonical file_mode dir_entries can_open cfg f title parent rows,
  fs_main canonical file_mode dir_entries can_open cfg f = RListing title parent rows ->
  listing cfg = true /\ title = escape f /\
  exists path names, check_in_document_root canonical cfg f = Some path /\
    has_bit (file_mode (cstr path)) S_IFDIR = true /\
    dir_entries (cstr path) = Some names /\ rows = list_rows file_mode path names.
Proof. exact main_lists. Qed.
Print Assumptions listing_only_when_enabled.
Theorem listed_directory_contained_lexical : forall canonical file_mode dir_entries can_open cfg target ti pa rows,
  check_symlinks cfg = false ->
  handle canonical file_mode dir_entries can_open cfg target = RListing ti pa rows ->
  exists path names root t, dir_entries (cstr path) = Some names /\ rows = list_rows file_mode path names /\
    root_in_force cfg root /\ Forall good t /\ path = root ++ flat_map (fun c => slash :: c) t.
Proof. exact listed_lexical. Qed.
Print Assumptions listed_directory_contained_lexical.
Theorem listed_directory_contained_real : forall canonical file_mode dir_entries can_open cfg target ti pa rows,
  canonical_contract canonical -> roots_canonical cfg -> check_symlinks cfg = true ->
  handle canonical file_mode dir_entries can_open cfg target = RListing ti pa rows ->
  exists path names root rcs below, dir_entries (cstr path) = Some names /\ rows = list_rows file_mode path names /\
    root_in_force cfg root /\ root = render rcs /\ path = render (rcs ++ below) /\ Forall good (rcs ++ below).
Proof. exact listed_real. Qed.
Print Assumptions listed_directory_contained_real.
Theorem listing_rows_rule : forall file_mode path names h tx, In (h, tx) (list_rows file_mode path names) ->
  exists name add, In name names /\ starts_with_dot name = false /\
    h = urlencode name ++ add /\ tx = escape name ++ add /\ (add = [] \/ add = [slash]).
Proof. exact list_rows_spec. Qed.
Print Assumptions listing_rows_rule.
Theorem listing_rows_markup_free : forall file_mode path names h tx, In (h, tx) (list_rows file_mode path names) ->
  forallb markup_free tx = true.
Proof. exact list_rows_text_markup_free. Qed.
Print Assumptions listing_rows_markup_free.

(* non-vacuity of 4-7 on a concrete name space:  /r (docroot) with f, d/.h, d/x<y, link -> /o ; /o/s outside *)
Definition ex_fs : fsdesc :=
  [ (rev [47;114], NDir); (rev [47;114;47;102], NReg 1); (rev [47;114;47;100], NDir);
    (rev [47;114;47;100;47;46;104], NReg 2); (rev [47;114;47;100;47;120;60;121], NReg 3);
    (rev [47;114;47;108], NLink [47;111]); (rev [47;111], NDir); (rev [47;111;47;115], NReg 9) ].
Definition ex_cfg (chk : bool) : config := mkcfg [47;114] [] true chk [105].
Example contained_nonvacuous :
  fs_handle ex_fs (ex_cfg true) [47;100;47;46;46;47;102] = RFile [47;114;47;102] [] /\          (* /d/../f  -> /r/f *)
  fs_handle ex_fs (ex_cfg true) [47;108;47;115] = R404 /\                                        (* /l/s escapes: 404 *)
  fs_handle ex_fs (ex_cfg false) [47;108;47;115] = RFile [47;114;47;108;47;115] [] /\            (* lexical only *)
  fs_handle ex_fs (ex_cfg true) [47;37;50;101;37;50;101;47;111;47;115] = R404 /\                 (* /%2e%2e/o/s *)
  fs_handle ex_fs (ex_cfg true) [47;100;47] =
    RListing [47;100;47] true [([120;37;51;99;121], [120;38;108;116;59;121])] /\                 (* x<y escaped, .h hidden *)
  roots_canonical (ex_cfg true).
Proof.
  repeat split; try (vm_compute; reflexivity).
  intros root [H|[]]. exists [[114]]. split. exact H. repeat constructor.
Qed.

(* chain of 41 links k0 -> k1 -> ... -> k40 -> f : from k1 on (40 links) it resolves, from k0 (41 links) it is ELOOP *)
Definition chain_fs : fsdesc :=
  (rev [47;102], NReg 7) ::
  map (fun i => (rev [47;107;N.of_nat i], NLink (if (i =? 40)%nat then [102] else [107; N.of_nat (S i)]))) (seq 0 41).
Example realpath_model_nonvacuous :
  fs_realpath chain_fs [47;107;1] = Some [47;102] /\ fs_realpath chain_fs [47;107;0] = None /\
  fs_realpath chain_fs [47;102] = Some [47;102] /\
  fs_realpath ex_fs [47;114;47;108;47;115] = Some [47;111;47;115] /\           (* /r/l/s -> /o/s through the link l *)
  roots_real ex_fs (ex_cfg true).
Proof.
  split. vm_compute; reflexivity. split. vm_compute; reflexivity. split. vm_compute; reflexivity.
  split. vm_compute; reflexivity.
  intros root [H|[]]. exists [47;114]. rewrite H. vm_compute. reflexivity.
Qed.

(* 7b. the listing PAGE (PageDefs.v: the literals of list_dir in the order they are written, data = title, href, text, date,
       size, version).  skeleton = the bytes < > double-quote single-quote of a string, in order.  Whatever the request
       path and whatever byte strings the directory holds as names (hypothesis: entries are byte strings; date, size and
       version strings carry no markup byte), the skeleton of the page is the one the page grammar gives for (parent row
       present?, kind of each row): no name and no part of the request path contributes a structural byte; and there is no
       page at all unless listing is enabled *)
Theorem listing_page_markup_is_fixed : forall canonical file_mode dir_entries can_open cfg f title parent rows ver date_of size_of,
  (forall p names, dir_entries p = Some names -> Forall bytes_ok names) ->
  mf ver -> (forall r, mf (date_of r)) -> (forall r, mf (size_of r)) ->
  fs_main canonical file_mode dir_entries can_open cfg f = RListing title parent rows ->
  listing cfg = true /\
  skeleton (listing_html ver date_of size_of title parent rows) = sk_page parent (map row_is_dir rows).
Proof. exact listing_page_markup_fixed. Qed.
Print Assumptions listing_page_markup_is_fixed.
(* an HTML tokenizer that reads the attribute value up to the closing single quote and the text up to the next < gets
   exactly href and text of the row back ... *)
Theorem listing_row_tokenizes : forall date_of size_of r, mf (fst r) -> mf (snd r) ->
  exists t1 t2, row_html date_of size_of r = pg_row0 ++ fst r ++ 39 :: t1 /\
    take_until 39 (fst r ++ 39 :: t1) = (fst r, 39 :: t1) /\
    t1 = 62 :: snd r ++ 60 :: t2 /\ take_until 60 (snd r ++ 60 :: t2) = (snd r, 60 :: t2).
Proof. exact row_tokenizes. Qed.
Print Assumptions listing_row_tokenizes.
(* ... and both decode (URL-decoding resp. entity decoding) to the same directory entry, which is not a dot name; the href
   consists of unreserved bytes, percent signs and slashes only (so it cannot end the attribute or open a tag) *)
Theorem listing_row_names_entry : forall file_mode path names h tx,
  Forall bytes_ok names -> In (h, tx) (list_rows file_mode path names) ->
  exists name add, In name names /\ starts_with_dot name = false /\ (add = [] \/ add = [slash]) /\
    urldecode h = name ++ add /\ unescape tx = name ++ add.
Proof. exact row_names_entry. Qed.
Print Assumptions listing_row_names_entry.
Theorem listing_href_alphabet : forall file_mode path names h tx,
  Forall bytes_ok names -> In (h, tx) (list_rows file_mode path names) -> forallb loc_alphabet h = true.
Proof. exact list_rows_href_loc_alphabet. Qed.
Print Assumptions listing_href_alphabet.
Example listing_page_nonvacuous :
  let page := listing_page [47;100;47] true [([120;37;51;99;121], [120;38;108;116;59;121])] in     (* the listing of /d/ of ex_fs *)
  fs_handle ex_fs (ex_cfg true) [47;100;47] = RListing [47;100;47] true [([120;37;51;99;121], [120;38;108;116;59;121])] /\
  skeleton page = sk_page true [false] /\ length (skeleton page) = 128%nat.
Proof. cbv zeta. repeat split; vm_compute; reflexivity. Qed.

(* 7c. the directory redirect (code as repaired by a6ff7cd).  For every request the Location value is safe_location of
       PATH_INFO: the NORMAL form of the decoded request path, every byte except the slash percent-encoded as util::urlencode
       does, plus a slash unless that is the root *)
Theorem redirect_location_is_encoded_normal_form : forall canonical file_mode dir_entries can_open cfg target loc,
  handle canonical file_mode dir_entries can_open cfg target = RRedirect loc ->
  loc = safe_location (path_info target) /\ last (path_info target) 0 <> slash /\
  exists path, check_in_document_root canonical cfg (path_info target) = Some path /\
               has_bit (file_mode (cstr path)) S_IFDIR = true.
Proof. exact handle_redirect_location. Qed.
Print Assumptions redirect_location_is_encoded_normal_form.
(* hence, for EVERY request target (byte string) that main answers with a redirect: the Location consists of unreserved bytes,
   percent signs and slashes only - one header line (ctl_free), no quote, no markup; it stays on this site (on_site: one
   slash, then neither a slash nor a backslash); and a client following it reaches, after the decoding step, the same normal
   form, i.e. the same directory under the same root.  (Before a6ff7cd the first three were refuted by the model.) *)
Theorem redirect_is_one_line_on_site_same_directory : forall canonical file_mode dir_entries can_open cfg target loc,
  bytes_ok target ->
  handle canonical file_mode dir_entries can_open cfg target = RRedirect loc ->
  forallb loc_alphabet loc = true /\ ctl_free loc = true /\ on_site loc = true /\
  normalize (urldecode loc) = normalize (path_info target).
Proof. exact handle_redirect_clean. Qed.
Print Assumptions redirect_is_one_line_on_site_same_directory.
(* the same three facts for safe_location on any path (main called directly) *)
Theorem location_single_line : forall f, bytes_ok f ->
  forallb loc_alphabet (safe_location f) = true /\ ctl_free (safe_location f) = true.
Proof. exact safe_location_single_line. Qed.
Print Assumptions location_single_line.
Theorem location_on_site : forall f, bytes_ok f -> on_site (safe_location f) = true.
Proof. exact safe_location_on_site. Qed.
Print Assumptions location_on_site.
Theorem location_same_directory : forall f, bytes_ok f -> nonul f = true ->
  normalize (urldecode (safe_location f)) = normalize f.
Proof. exact safe_location_same_directory. Qed.
Print Assumptions location_same_directory.
(* regression Examples: the three witnesses of the repaired defect now evaluate to a one-line on-site Location
   GET //h/%2e%2e -> Location: /     GET /d/%0d%0aX:y/.. -> Location: /d/     and an un-normalised path  /d/.//%2e -> /d/ ;
   a directory name that needs encoding:  safe_location of  /m/?d  is  /m/%3fd/ *)
Example redirect_regression :
  fs_handle rd_fs rd_cfg [47;47;104;47;37;50;101;37;50;101] = RRedirect [47] /\
  fs_handle rd_fs rd_cfg [47;100;47;37;48;100;37;48;97;88;58;121;47;46;46] = RRedirect [47;100;47] /\
  fs_handle rd_fs rd_cfg [47;100;47;46;47;47;37;50;101] = RRedirect [47;100;47] /\
  safe_location [47;109;47;63;100] = [47;109;47;37;51;102;100;47] /\
  on_site [47;47;104;47;46;46;47] = false /\ ctl_free [47;100;47;13;10;88;58;121;47;46;46;47] = false.   (* the old values fail both tests *)
Proof. repeat split; vm_compute; reflexivity. Qed.

(* 7d. percent-decoding and normalisation compose in the safe order: ONE decoding step (http_api.cpp), then normalisation
       (file server), then alias selection and the root check - theorems 6 are stated from the raw target.  Encoding is
       transparent: the target that spells f with any bytes percent-encoded as util::urlencode does (slashes kept) is handled
       exactly as main handles f; the path that reaches normalize_path is urldecode of the target, whatever the decoded
       bytes themselves spell (a double-encoded dot-dot stays the literal component %2e%2e) *)
Theorem encoded_request_is_decoded_request : forall canonical file_mode dir_entries can_open cfg f,
  bytes_ok f -> nonul f = true ->
  handle canonical file_mode dir_entries can_open cfg (encode_path f) = fs_main canonical file_mode dir_entries can_open cfg f.
Proof. exact encoded_request_equals_decoded. Qed.
Print Assumptions encoded_request_is_decoded_request.
Theorem pipeline_decodes_exactly_once : forall target, nonul (urldecode (cut_query target)) = true ->
  path_info target = urldecode (cut_query target).
Proof. exact pipeline_decodes_once. Qed.
Print Assumptions pipeline_decodes_exactly_once.
Example pipeline_nonvacuous :
  path_info [47;37;50;53;50;101;37;50;53;50;101;47;111;47;115] = [47;37;50;101;37;50;101;47;111;47;115] /\  (* /%252e%252e/o/s -> /%2e%2e/o/s *)
  fs_handle ex_fs (ex_cfg false) [47;37;50;53;50;101;37;50;53;50;101;47;111;47;115] = R404 /\             (* a component named %2e%2e: 404 *)
  fs_handle ex_fs (ex_cfg true) [47;100;37;50;102;46;46;37;50;70;102] = RFile [47;114;47;102] [] /\      (* /d%2f..%2Ff  = /d/../f -> /r/f *)
  fs_handle ex_fs (ex_cfg false) [47;102;37;48;48;47;46;46;47;46;46;47;111;47;115] = RFile [47;114;47;102] [] /\ (* /f%00/../../o/s: C string *)
  (* the other order would escape: decoding AFTER normalisation turns the safe component %2e%2e into dot-dot *)
  urldecode (normalize [47;37;50;101;37;50;101;47;111;47;115]) = [47;46;46;47;111;47;115].
Proof. repeat split; vm_compute; reflexivity. Qed.

(* 7e. MIME selection: the key looked up in the MIME table for a streamed file p is the suffix of p (the path that went through
       check_in_document_root) from its LAST dot on, over the whole path as path.rfind does; empty when p has no dot *)
Theorem mime_key_is_suffix_from_last_dot : forall canonical file_mode dir_entries can_open cfg f p e,
  fs_main canonical file_mode dir_entries can_open cfg f = RFile p e ->
  (e = [] /\ ~ In dot p) \/ (exists pre x, p = pre ++ dot :: x /\ e = dot :: x /\ ~ In dot x).
Proof. exact mime_key_spec. Qed.
Print Assumptions mime_key_is_suffix_from_last_dot.
Example mime_key_nonvacuous :
  ext_of [47;114;47;102;46;116;120;116] = [46;116;120;116] /\            (* /r/f.txt -> .txt *)
  ext_of [47;118;49;46;50;47;110;111;101;120;116] = [46;50;47;110;111;101;120;116] /\   (* /v1.2/noext -> .2/noext : no table key has a slash *)
  ext_of [47;114;47;102] = [].
Proof. repeat split; vm_compute; reflexivity. Qed.

(* 8b. tie: the st_mode bit values of the platform header (regenerated through harness/C13_mode_tu.cpp) are the model's *)
Theorem tie_mode_bits :
  g_c13_S_IFMT = Z.of_N S_IFMT /\ g_c13_S_IFDIR = Z.of_N S_IFDIR /\ g_c13_S_IFREG = Z.of_N S_IFREG /\
  g_c13_S_IFIFO = Z.of_N S_IFIFO /\ g_c13_S_IFCHR = Z.of_N S_IFCHR /\ g_c13_S_IFBLK = Z.of_N S_IFBLK /\
  g_c13_S_IFLNK = Z.of_N S_IFLNK /\ g_c13_S_IFSOCK = Z.of_N S_IFSOCK.
Proof. exact link_mode_bits. Qed.
Print Assumptions tie_mode_bits.
(* 8. tie: the separator test regenerated from the current source is the model's (c =? slash) *)
Theorem tie_is_directory_separator : forall b, b < 256 -> g_is_directory_separator (wraps 8 (Z.of_N b)) = (b =? slash).
Proof. exact link_is_directory_separator. Qed.
Print Assumptions tie_is_directory_separator.
