(* C13 -- property theorems (being filled in; see Proofs.v) *)
From CppcmsV Require Import Base.Tac Base.Sweep C13.Defs.
Local Open Scope N_scope.
Example normalize_example : normalize [47;97;47;98;47;46;46;47;99] = [47;97;47;99].
Proof. vm_compute. reflexivity. Qed.
