(* C13 -- the directory listing page of file_server::list_dir, byte for byte: the string literals of the function (as numbers:
   the source text is quoted in the comment before each) and the order in which they and the data (title = util::escape(url),
   href = util::urlencode(name)+add, text = util::escape(name)+add, date, size, package version) are written.  Definitions only. *)
From CppcmsV Require Import Base.Tac C15.Defs C13.Defs.
Local Open Scope N_scope.

(* <!DOCTYPE HTML PUBLIC DQ-//W3C//DTD HTML 4.01 Transitional//ENDQ NL      DQhttp://www.w3.org/TR/html4/loose.dtdDQ> NL <html><head><title>Directory Listing</title></head> NL <body><h1>Index of  *)
Definition pg_head : list N := [60;33;68;79;67;84;89;80;69;32;72;84;77;76;32;80;85;66;76;73;67;32;34;45;47;47;87;51;67;47;47;68;84;68;32;72;84;77;76;32;52;46;48;49;32;84;114;97;110;115;105;116;105;111;110;97;108;47;47;69;78;34;10;32;32;32;32;32;34;104;116;116;112;58;47;47;119;119;119;46;119;51;46;111;114;103;47;84;82;47;104;116;109;108;52;47;108;111;111;115;101;46;100;116;100;34;62;10;60;104;116;109;108;62;60;104;101;97;100;62;60;116;105;116;108;101;62;68;105;114;101;99;116;111;114;121;32;76;105;115;116;105;110;103;60;47;116;105;116;108;101;62;60;47;104;101;97;100;62;10;60;98;111;100;121;62;60;104;49;62;73;110;100;101;120;32;111;102;32].
(* </h1> NL <table> NL <thead><tr><td width=SQ60%SQ>File</td><td width=SQ20%SQ >Date</td><td width=SQ5%SQ>&nbsp;</td><td width=SQ15%SQ>Size</td></tr></thead> NL <tbody> NL  *)
Definition pg_mid : list N := [60;47;104;49;62;10;60;116;97;98;108;101;62;10;60;116;104;101;97;100;62;60;116;114;62;60;116;100;32;119;105;100;116;104;61;39;54;48;37;39;62;70;105;108;101;60;47;116;100;62;60;116;100;32;119;105;100;116;104;61;39;50;48;37;39;32;62;68;97;116;101;60;47;116;100;62;60;116;100;32;119;105;100;116;104;61;39;53;37;39;62;38;110;98;115;112;59;60;47;116;100;62;60;116;100;32;119;105;100;116;104;61;39;49;53;37;39;62;83;105;122;101;60;47;116;100;62;60;47;116;114;62;60;47;116;104;101;97;100;62;10;60;116;98;111;100;121;62;10].
(* <tr><td><code><a href=SQ../SQ >..</a></code></td><td>&nbsp;</td><td>&nbsp;</td><td>&nbsp;</td></tr> NL  *)
Definition pg_parent : list N := [60;116;114;62;60;116;100;62;60;99;111;100;101;62;60;97;32;104;114;101;102;61;39;46;46;47;39;32;62;46;46;60;47;97;62;60;47;99;111;100;101;62;60;47;116;100;62;60;116;100;62;38;110;98;115;112;59;60;47;116;100;62;60;116;100;62;38;110;98;115;112;59;60;47;116;100;62;60;116;100;62;38;110;98;115;112;59;60;47;116;100;62;60;47;116;114;62;10].
(* <tr><td><code><a href=SQ *)
Definition pg_row0 : list N := [60;116;114;62;60;116;100;62;60;99;111;100;101;62;60;97;32;104;114;101;102;61;39].
(* SQ> *)
Definition pg_row1 : list N := [39;62].
(* </a></code></td><td> *)
Definition pg_row2 : list N := [60;47;97;62;60;47;99;111;100;101;62;60;47;116;100;62;60;116;100;62].
(* </td><td>&nbsp;</td><td> *)
Definition pg_row3 : list N := [60;47;116;100;62;60;116;100;62;38;110;98;115;112;59;60;47;116;100;62;60;116;100;62].
(*  <strong>-</strong>  *)
Definition pg_dirsz : list N := [32;60;115;116;114;111;110;103;62;45;60;47;115;116;114;111;110;103;62;32].
(* </td></tr> NL  *)
Definition pg_row4 : list N := [60;47;116;100;62;60;47;116;114;62;10].
(* </tbody> NL </table> NL <p>CppCMS-Embedded/ *)
Definition pg_foot0 : list N := [60;47;116;98;111;100;121;62;10;60;47;116;97;98;108;101;62;10;60;112;62;67;112;112;67;77;83;45;69;109;98;101;100;100;101;100;47].
(* </p> NL </body> NL  *)
Definition pg_foot1 : list N := [60;47;112;62;10;60;47;98;111;100;121;62;10].

(* a row is a directory row exactly when add was the slash: util::urlencode never writes a raw slash *)
Definition row_is_dir (r : list N * list N) : bool := last (fst r) 0 =? slash.

Section Page.
  (* what the model does not compute: the formatted st_mtime, the formatted st_size, CPPCMS_PACKAGE_VERSION *)
  Variable ver : list N.
  Variable date_of size_of : list N * list N -> list N.

  Definition row_html (r : list N * list N) : list N :=
    pg_row0 ++ fst r ++ pg_row1 ++ snd r ++ pg_row2 ++ date_of r ++ pg_row3 ++
    (if row_is_dir r then pg_dirsz else size_of r) ++ pg_row4.

  Definition listing_html (title : list N) (parent : bool) (rows : list (list N * list N)) : list N :=
    pg_head ++ title ++ pg_mid ++ (if parent then pg_parent else []) ++ flat_map row_html rows ++ pg_foot0 ++ ver ++ pg_foot1.
End Page.

(* the bytes that carry HTML structure: < > double quote, single quote *)
Definition skeleton (s : list N) : list N := filter (fun c => negb (markup_free c)) s.

(* the page with the placeholders checks/C13.py puts in place of date, size and version on both sides *)
Definition listing_page (title : list N) (parent : bool) (rows : list (list N * list N)) : list N :=
  listing_html [86] (fun _ => [68]) (fun _ => [78]) title parent rows.
