(* C13 -- the listing page as bytes (PageDefs.v): the markup skeleton of the page does not depend on names or on the request
   path; an HTML tokenizer recovers href and text of a row and they decode to the entry name; the redirect Location;
   percent-encoding transparency of the pipeline *)
From CppcmsV Require Import Base.Tac Base.Sweep C15.Defs C15.Proofs C15.ProofsFilter C13.Defs C13.PageDefs C13.ProofsNorm C13.ProofsRoot C13.ProofsMain.
Local Open Scope N_scope.

Definition mf (s : list N) : Prop := forallb markup_free s = true.

Lemma skeleton_app a b : skeleton (a ++ b) = skeleton a ++ skeleton b.
Proof. unfold skeleton. apply filter_app. Qed.

Lemma skeleton_free s : mf s -> skeleton s = [].
Proof.
  unfold mf, skeleton. induction s as [|c s IH]; intros H; [reflexivity|].
  cbn [forallb] in H. apply andb_true_iff in H. destruct H as [Hc Hs].
  cbn [filter]. rewrite Hc. cbn [negb]. apply IH. exact Hs.
Qed.

Lemma mf_app a b : mf a -> mf b -> mf (a ++ b).
Proof. unfold mf. intros Ha Hb. rewrite forallb_app, Ha, Hb. reflexivity. Qed.

Lemma urlenc_alphabet_markup_free c : urlenc_alphabet c = true -> markup_free c = true.
Proof.
  unfold markup_free. intros H.
  destruct (N.eqb_spec c 60) as [->|_]; [vm_compute in H; discriminate|].
  destruct (N.eqb_spec c 62) as [->|_]; [vm_compute in H; discriminate|].
  destruct (N.eqb_spec c 34) as [->|_]; [vm_compute in H; discriminate|].
  destruct (N.eqb_spec c 39) as [->|_]; [vm_compute in H; discriminate|].
  reflexivity.
Qed.

Lemma urlenc_mf s : forallb urlenc_alphabet s = true -> mf s.
Proof.
  unfold mf. induction s as [|c s IH]; intros H; [reflexivity|].
  cbn [forallb] in *. apply andb_true_iff in H. destruct H as [Hc Hs].
  rewrite (urlenc_alphabet_markup_free _ Hc), (IH Hs). reflexivity.
Qed.

Lemma mf_add add : add = [] \/ add = [slash] -> mf add.
Proof. intros [->| ->]; reflexivity. Qed.

(* ---------- rows ---------- *)
Definition sk_row (dir : bool) : list N :=
  skeleton pg_row0 ++ skeleton pg_row1 ++ skeleton pg_row2 ++ skeleton pg_row3 ++
  (if dir then skeleton pg_dirsz else []) ++ skeleton pg_row4.

Definition sk_page (parent : bool) (kinds : list bool) : list N :=
  skeleton pg_head ++ skeleton pg_mid ++ (if parent then skeleton pg_parent else []) ++
  flat_map sk_row kinds ++ skeleton pg_foot0 ++ skeleton pg_foot1.

Lemma skeleton_row date_of size_of r :
  mf (fst r) -> mf (snd r) -> mf (date_of r) -> mf (size_of r) ->
  skeleton (row_html date_of size_of r) = sk_row (row_is_dir r).
Proof.
  intros Hh Ht Hd Hs. unfold row_html, sk_row.
  rewrite !skeleton_app. rewrite (skeleton_free _ Hh), (skeleton_free _ Ht), (skeleton_free _ Hd).
  destruct (row_is_dir r).
  - reflexivity.
  - rewrite (skeleton_free _ Hs). reflexivity.
Qed.

Lemma skeleton_rows date_of size_of rows :
  Forall (fun r => mf (fst r) /\ mf (snd r)) rows -> (forall r, mf (date_of r)) -> (forall r, mf (size_of r)) ->
  skeleton (flat_map (row_html date_of size_of) rows) = flat_map sk_row (map row_is_dir rows).
Proof.
  intros H Hd Hs. induction H as [|r rows [Hh Ht] _ IH]; [reflexivity|].
  cbn [flat_map map]. rewrite skeleton_app, IH, (skeleton_row _ _ _ Hh Ht (Hd r) (Hs r)). reflexivity.
Qed.

Theorem skeleton_page ver date_of size_of title parent rows :
  mf ver -> mf title -> (forall r, mf (date_of r)) -> (forall r, mf (size_of r)) ->
  Forall (fun r => mf (fst r) /\ mf (snd r)) rows ->
  skeleton (listing_html ver date_of size_of title parent rows) = sk_page parent (map row_is_dir rows).
Proof.
  intros Hv Ht Hd Hs Hr. unfold listing_html, sk_page.
  rewrite !skeleton_app. rewrite (skeleton_free _ Hv), (skeleton_free _ Ht), (skeleton_rows _ _ _ Hr Hd Hs).
  rewrite !app_nil_l.
  destruct parent.
  - reflexivity.
  - change (skeleton []) with (@nil N). reflexivity.
Qed.

Lemma list_rows_mf file_mode path names :
  Forall bytes_ok names -> Forall (fun r => mf (fst r) /\ mf (snd r)) (list_rows file_mode path names).
Proof.
  intros Hb. apply Forall_forall. intros [h tx] Hin. cbn [fst snd]. split.
  - destruct (list_rows_spec _ _ _ _ _ Hin) as [name [add [Hn [_ [Eh [_ Ha]]]]]]. subst h.
    apply mf_app. apply urlenc_mf, urlencode_alphabet. exact (proj1 (Forall_forall _ _) Hb _ Hn).
    apply mf_add. exact Ha.
  - exact (list_rows_text_markup_free _ _ _ _ _ Hin).
Qed.

(* from the request: whatever the request path and whatever names the directory holds, the sequence of structural bytes of
   the page is the one given by the page grammar for (parent row?, kind of each row) *)
Theorem listing_page_markup_fixed canonical file_mode dir_entries can_open cfg f title parent rows ver date_of size_of :
  (forall p names, dir_entries p = Some names -> Forall bytes_ok names) ->
  mf ver -> (forall r, mf (date_of r)) -> (forall r, mf (size_of r)) ->
  fs_main canonical file_mode dir_entries can_open cfg f = RListing title parent rows ->
  listing cfg = true /\
  skeleton (listing_html ver date_of size_of title parent rows) = sk_page parent (map row_is_dir rows).
Proof.
  intros Hn Hv Hd Hs H. apply main_lists in H.
  destruct H as [Hl [Et [path [names [_ [_ [Hde Er]]]]]]]. split. exact Hl.
  apply skeleton_page; try assumption.
  - subst title. apply escape_markup_free.
  - subst rows. apply list_rows_mf. exact (Hn _ _ Hde).
Qed.

(* ---------- a tokenizer gets the row data back, and it decodes to the entry name ---------- *)
Lemma mf_not_in d s : markup_free d = false -> mf s -> ~ In d s.
Proof.
  intros Hd Hs Hin. unfold mf in Hs. rewrite forallb_forall in Hs. rewrite (Hs _ Hin) in Hd. discriminate.
Qed.

(* after  <a href=SQ  the attribute value runs to the first single quote; after  SQ>  the text runs to the first <  *)
Theorem row_tokenizes date_of size_of r :
  mf (fst r) -> mf (snd r) ->
  exists t1 t2, row_html date_of size_of r = pg_row0 ++ fst r ++ 39 :: t1 /\
    take_until 39 (fst r ++ 39 :: t1) = (fst r, 39 :: t1) /\
    t1 = 62 :: snd r ++ 60 :: t2 /\ take_until 60 (snd r ++ 60 :: t2) = (snd r, 60 :: t2).
Proof.
  intros Hh Ht. unfold row_html.
  exists (62 :: snd r ++ 60 :: (tl pg_row2 ++ date_of r ++ pg_row3 ++ (if row_is_dir r then pg_dirsz else size_of r) ++ pg_row4)).
  eexists. split; [reflexivity|]. split.
  - apply take_until_absent. apply mf_not_in; [reflexivity|exact Hh].
  - split; [reflexivity|]. apply take_until_absent. apply mf_not_in; [reflexivity|exact Ht].
Qed.

Lemma urldecode_enc1 c rest : c < 256 -> urldecode (urlenc1 c ++ rest) = c :: urldecode rest.
Proof.
  intros Hc. unfold urlenc1. destruct (unreserved c) eqn:Eu.
  - cbn [app urldecode].
    assert (c =? 43 = false) as ->. { destruct (N.eqb_spec c 43) as [->|]; [vm_compute in Eu; discriminate|reflexivity]. }
    assert (c =? 37 = false) as ->. { destruct (N.eqb_spec c 37) as [->|]; [vm_compute in Eu; discriminate|reflexivity]. }
    reflexivity.
  - cbn [app urldecode]. change (37 =? 43) with false. change (37 =? 37) with true. cbv iota.
    assert (S : (fun b => xdigit (hexdig (b / 16)) && xdigit (hexdig (b mod 16)) && (hexval (hexdig (b / 16)) * 16 + hexval (hexdig (b mod 16)) =? b)) c = true).
    { apply (sweep256 (fun b => xdigit (hexdig (b / 16)) && xdigit (hexdig (b mod 16)) && (hexval (hexdig (b / 16)) * 16 + hexval (hexdig (b mod 16)) =? b))); [vm_compute; reflexivity|exact Hc]. }
    cbv beta in S. apply andb_true_iff in S. destruct S as [S1 S2]. apply N.eqb_eq in S2.
    rewrite S1, S2. reflexivity.
Qed.

Lemma urldecode_app_enc s t : bytes_ok s -> urldecode (urlencode s ++ t) = s ++ urldecode t.
Proof.
  induction s as [|c s IH]; intros H; [reflexivity|].
  apply bytes_ok_cons in H. destruct H as [Hc Hs].
  change (urlencode (c :: s)) with (urlenc1 c ++ urlencode s). rewrite <- app_assoc.
  rewrite (urldecode_enc1 _ _ Hc), IH by exact Hs. reflexivity.
Qed.

Theorem row_names_entry file_mode path names h tx :
  Forall bytes_ok names -> In (h, tx) (list_rows file_mode path names) ->
  exists name add, In name names /\ starts_with_dot name = false /\ (add = [] \/ add = [slash]) /\
    urldecode h = name ++ add /\ unescape tx = name ++ add.
Proof.
  intros Hb Hin. destruct (list_rows_spec _ _ _ _ _ Hin) as [name [add [Hn [Hd [Eh [Et Ha]]]]]].
  exists name, add. repeat split; try assumption.
  - subst h. rewrite urldecode_app_enc by exact (proj1 (Forall_forall _ _) Hb _ Hn).
    destruct Ha as [->| ->]; reflexivity.
  - subst tx. destruct Ha as [->| ->].
    + rewrite !app_nil_r. apply unescape_escape.
    + change [slash] with (escape [slash]). unfold escape. rewrite <- flat_map_app. apply unescape_escape.
Qed.
