(* C13 -- executable model of cppcms::impl::file_server (src/internal_file_server.cpp) and of the
   part of the embedded HTTP front end that produces its argument (src/http_api.cpp: cut at the
   question mark, util::urldecode, C-string truncation).  Definitions only. *)
From CppcmsV Require Import Base.Tac Base.Sweep C15.Defs.
Local Open Scope N_scope.

Definition slash : N := 47.
Definition dot : N := 46.

Definition is_nil {A} (l : list A) : bool := match l with [] => true | _ => false end.

(* ------------------------------------------------------------------------------------------
   1. file_server::normalize_path -- functional model.
   o is the already written part path[0 .. out) REVERSED (head = the byte at out-1). *)

(* the pieces between consecutive slashes: successive [start,end) ranges of std::find *)
Fixpoint split_slash (l : list N) : list (list N) :=
  match l with
  | [] => [[]]
  | c :: r => if c =? slash then [] :: split_slash r
              else match split_slash r with h :: t => (c :: h) :: t | [] => [[c]] end
  end.

Definition is_dot (c : list N) : bool := match c with [a] => a =? dot | _ => false end.
Definition is_dotdot (c : list N) : bool := match c with [a; b] => (a =? dot) && (b =? dot) | _ => false end.

(* while(out > min_pos) { out--; if( *out == slash) { out++; break; } }     (min_pos = 1) *)
Fixpoint scan_back (o : list N) : list N :=
  match o with
  | c :: o' => match o' with
               | [] => o
               | _ => if c =? slash then o else scan_back o'
               end
  | [] => []
  end.
(* if(out > min_pos) out--;  followed by the loop above *)
Definition back (o : list N) : list N :=
  scan_back (match o with _ :: ((_ :: _) as o') => o' | _ => o end).

(* one iteration of the while loop for the piece [start,end); last = (end == path.end()) *)
Definition step (o : list N) (comp : list N) (last : bool) : list N :=
  if is_nil comp || is_dot comp then o
  else if is_dotdot comp then back o
  else if last then rev comp ++ o else slash :: rev comp ++ o.

Fixpoint norm_comps (o : list N) (cs : list (list N)) : list N :=
  match cs with
  | [] => o
  | [c] => step o c true
  | c :: cs' => norm_comps (step o c false) cs'
  end.

(* if( *(out-1) == slash && out > path.begin()+1) out--; *)
Definition strip_last_slash (o : list N) : list N :=
  match o with c :: ((_ :: _) as o') => if c =? slash then o' else o | _ => o end.

(* if(path.empty() || path[0] != slash) path = slash + path *)
Definition ensure_slash (p : list N) : list N :=
  match p with c :: _ => if c =? slash then p else slash :: p | [] => [slash] end.

Definition normalize (p : list N) : list N :=
  rev (strip_last_slash (norm_comps [slash] (split_slash (tl (ensure_slash p))))).

(* ------------------------------------------------------------------------------------------
   1b. the same function at the level of the string buffer and the iterators out / start / end
   (indices into the buffer), statement by statement.  Proofs.v shows normalize_ip = normalize. *)
Fixpoint find_slash (l : list N) : nat :=        (* offset of the first slash, or length *)
  match l with [] => 0%nat | c :: r => if c =? slash then 0%nat else S (find_slash r) end.
Definition set_nth (buf : list N) (i : nat) (v : N) : list N := firstn i buf ++ v :: skipn (S i) buf.
Fixpoint copy_fwd (buf : list N) (src dst n : nat) : list N :=     (* std::copy, element by element *)
  match n with
  | O => buf
  | S n' => copy_fwd (set_nth buf dst (nth src buf 0)) (S src) (S dst) n'
  end.
Fixpoint scan_back_ip (fuel : nat) (buf : list N) (out : nat) : nat :=
  match fuel with
  | O => out
  | S f => if (1 <? out)%nat
           then if nth (out - 1) buf 0 =? slash then out else scan_back_ip f buf (out - 1)
           else out
  end.
(* the body of one iteration for the piece [start, start+len); at_end = (end == path.end()) *)
Definition ip_body (buf : list N) (out start len : nat) (at_end : bool) : list N * nat :=
  if (len =? 0)%nat || ((len =? 1)%nat && (nth start buf 0 =? dot)) then (buf, out)
  else if (len =? 2)%nat && (nth start buf 0 =? dot) && (nth (S start) buf 0 =? dot) then
    (buf, scan_back_ip out buf (if (1 <? out)%nat then (out - 1)%nat else out))
  else
    let buf1 := copy_fwd buf start out len in
    let out1 := (out + len)%nat in
    if at_end then (buf1, out1) else (set_nth buf1 out1 slash, S out1).
Fixpoint ip_loop (fuel : nat) (buf : list N) (out start : nat) : list N * nat :=
  match fuel with
  | O => (buf, out)
  | S f =>
    if (start <? length buf)%nat then
      let e := (start + find_slash (skipn start buf))%nat in
      let at_end := (e =? length buf)%nat in
      let r := ip_body buf out start (e - start) at_end in
      if at_end then r else ip_loop f (fst r) (snd r) (S e)
    else (buf, out)
  end.
Definition normalize_ip (p : list N) : list N :=
  let buf := ensure_slash p in
  let r := ip_loop (S (length buf)) buf 1 1 in
  let out := snd r in
  let out' := if (nth (out - 1) (fst r) 0 =? slash) && (1 <? out)%nat then (out - 1)%nat else out in
  firstn out' (fst r).

(* ------------------------------------------------------------------------------------------
   2. specification vocabulary: textbook resolution of a request path *)
Definition good_comp (c : list N) : bool :=
  negb (is_nil c) && negb (is_dot c) && negb (is_dotdot c) && forallb (fun x => negb (x =? slash)) c.

(* stack kept reversed: head = innermost directory *)
Fixpoint resolve_rev (st : list (list N)) (cs : list (list N)) : list (list N) :=
  match cs with
  | [] => st
  | c :: r => if is_nil c || is_dot c then resolve_rev st r
              else if is_dotdot c then resolve_rev (tl st) r
              else resolve_rev (c :: st) r
  end.
Definition resolve (cs : list (list N)) : list (list N) := rev (resolve_rev [] cs).

Fixpoint join_slash (cs : list (list N)) : list N :=
  match cs with
  | [] => []
  | [c] => c
  | c :: r => c ++ slash :: join_slash r
  end.
Definition render (cs : list (list N)) : list N := slash :: join_slash cs.

(* ------------------------------------------------------------------------------------------
   3. is_file_prefix, alias selection, check_in_document_root *)
Fixpoint strip_prefix (p f : list N) : option (list N) :=
  match p, f with
  | [], _ => Some f
  | a :: p', b :: f' => if a =? b then strip_prefix p' f' else None
  | _ :: _, [] => None
  end.

Definition is_file_prefix (prefix full : list N) : bool :=
  match strip_prefix prefix full with
  | None => false
  | Some rest =>
      if is_nil prefix || (last prefix 0 =? slash) then true
      else match rest with [] => true | c :: _ => c =? slash end
  end.

Record config := mkcfg {
  docroot : list N;                          (* document_root_  (already canonical) *)
  aliases : list (list N * list N);          (* alias_: (url, canonical target), in configuration order *)
  listing : bool;                            (* list_directories_ *)
  check_symlinks : bool;                     (* check_symlinks_ *)
  index_file : list N                        (* index_file_ *)
}.

(* constructor: url must have size >= 2 and start with a slash; one trailing slash is removed *)
Definition alias_url (url : list N) : option (list N) :=
  match url with
  | c :: _ :: _ => if c =? slash then Some (if last url 0 =? slash then removelast url else url) else None
  | _ => None
  end.

Fixpoint select_alias (al : list (list N * list N)) (normal : list N) : option (list N * list N) :=
  match al with
  | [] => None
  | (u, target) :: t =>
      if is_file_prefix u normal
      then Some (target, let r := skipn (length u) normal in if is_nil r then [slash] else r)
      else select_alias t normal
  end.

(* std::string::c_str() handed to a C API *)
Fixpoint cstr (s : list N) : list N :=
  match s with [] => [] | c :: r => if c =? 0 then [] else c :: cstr r end.
Definition nonul (s : list N) : bool := forallb (fun c => negb (c =? 0)) s.

Definition strip_trailing_sep (s : list N) : list N :=
  match s with [] => [] | _ => if last s 0 =? slash then removelast s else s end.

Definition S_IFDIR : N := 16384.   (* 0040000 *)
Definition S_IFREG : N := 32768.   (* 0100000 *)
Definition has_bit (mode bit : N) : bool := negb (N.land mode bit =? 0).
(* the file type field of st_mode and the seven POSIX types (values tied to sys/stat.h by Link.v) *)
Definition S_IFMT : N := 61440.    (* 0170000 *)
Definition S_IFIFO : N := 4096.    (* 0010000 *)
Definition S_IFCHR : N := 8192.    (* 0020000 *)
Definition S_IFBLK : N := 24576.   (* 0060000 *)
Definition S_IFLNK : N := 40960.   (* 0120000 *)
Definition S_IFSOCK : N := 49152.  (* 0140000 *)
Definition ftype (mode : N) : N := N.land mode S_IFMT.
Definition posix_types : list N := [S_IFIFO; S_IFCHR; S_IFDIR; S_IFBLK; S_IFREG; S_IFLNK; S_IFSOCK].

Inductive response :=
| R404
| RRedirect (location : list N)
| RListing (title : list N) (parent_link : bool) (rows : list (list N * list N))   (* (href, text) *)
| RFile (opened : list N) (ext : list N).

Definition starts_with_dot (name : list N) : bool := match name with c :: _ => c =? dot | [] => false end.

(* suffix starting at the last dot of the whole path (path.rfind), [] if there is none *)
Fixpoint ext_of (p : list N) : list N :=
  match p with
  | [] => []
  | c :: r => match ext_of r with
              | [] => if c =? dot then p else []
              | e => e
              end
  end.

(* the Location of the directory redirect (repaired by a6ff7cd): the NORMAL form of the request path, every byte except the
   slash written with util::urlencode (one byte at a time: normal.substr(i,1)), plus a slash unless that gives the root.
   location != slash  iff  normal != slash : only the single slash encodes to a single slash (Proofs: encode_path_is_root) *)
Definition enc_path1 (c : N) : list N := if c =? slash then [slash] else urlenc1 c.
Definition encode_path (p : list N) : list N := flat_map enc_path1 p.
Definition safe_location (f : list N) : list N :=
  let l := encode_path (normalize f) in if leqb l [slash] then l else l ++ [slash].

Section Env.
  (* the operating system as seen by the file server *)
  Variable canonical : list N -> option (list N).          (* realpath / canonicalize_file_name *)
  Variable file_mode : list N -> N.                        (* stat().st_mode, 0 on failure *)
  Variable dir_entries : list N -> option (list (list N)). (* opendir + readdir names *)
  Variable can_open : list N -> bool.                      (* ifstream opens *)

  Definition is_in_root (input root : list N) : option (list N) :=
    match canonical (cstr (root ++ slash :: input)) with
    | None => None
    | Some real => if is_file_prefix root real then Some real else None
    end.

  Definition check_in_document_root (cfg : config) (fname : list N) : option (list N) :=
    let n := normalize fname in
    let rn := match select_alias (aliases cfg) n with Some x => x | None => (docroot cfg, n) end in
    let root := fst rn in
    let normal := snd rn in
    match normal with
    | [] => None
    | c :: _ =>
        if negb (c =? slash) then None
        else if check_symlinks cfg then is_in_root normal root
        else Some (strip_trailing_sep (root ++ normal))
    end.

  Definition list_rows (path : list N) (names : list (list N)) : list (list N * list N) :=
    flat_map (fun name =>
      if starts_with_dot name then []
      else let m := file_mode (cstr (path ++ slash :: name)) in
           if has_bit m S_IFDIR then [(urlencode name ++ [slash], escape name ++ [slash])]
           else if has_bit m S_IFREG then [(urlencode name, escape name)]
           else []) names.

  Definition list_dir (url path : list N) : response :=
    match dir_entries (cstr path) with
    | None => R404
    | Some names => RListing (escape url) (negb (leqb url [slash]) && negb (is_nil url)) (list_rows path names)
    end.

  Definition serve (path : list N) (s : N) : response :=
    if negb (has_bit s S_IFREG) then R404
    else if can_open (cstr path) then RFile path (ext_of path) else R404.

  Definition fs_main (cfg : config) (file_name : list N) : response :=
    match check_in_document_root cfg file_name with
    | None => R404
    | Some path =>
        let s := file_mode (cstr path) in
        if has_bit s S_IFDIR then
          let idx := check_in_document_root cfg (file_name ++ slash :: index_file cfg) in
          let mode2 := match idx with Some p2 => file_mode (cstr p2) | None => 0 end in
          let have_index := match idx with Some _ => has_bit mode2 S_IFREG | None => false end in
          if negb (is_nil file_name) && negb (last file_name 0 =? slash) && (have_index || listing cfg)
          then RRedirect (safe_location file_name)
          else if have_index
               then match idx with Some p2 => serve p2 mode2 | None => R404 end
               else if listing cfg then list_dir file_name path else R404
        else serve path s
    end.

  (* http_api.cpp: the request target up to the question mark, urldecoded, kept as a C string *)
  Fixpoint cut_query (s : list N) : list N :=
    match s with [] => [] | c :: r => if c =? 63 then [] else c :: cut_query r end.
  Definition path_info (target : list N) : list N := cstr (urldecode (cut_query target)).

  Definition handle (cfg : config) (target : list N) : response := fs_main cfg (path_info target).
End Env.

(* ------------------------------------------------------------------------------------------
   4. a small executable POSIX name space: the sandbox description the check creates on disk.
   Used (a) by the model driver as the operating system behind handle and (b) to show that the
   realpath contract assumed by the containment theorem is satisfiable. *)
Inductive node := NDir | NReg (id : N) | NLink (target : list N) | NOther (mode : N).
(* absolute canonical path, stored REVERSED (names differ at their end, so the comparison stops early) -> node;
   the root directory is implicit *)
Definition fsdesc := list (list N * node).

Fixpoint fs_lookup_rev (fs : fsdesc) (rp : list N) : option node :=
  match fs with
  | [] => None
  | (q, n) :: t => if leqb q rp then Some n else fs_lookup_rev t rp
  end.
Definition fs_lookup (fs : fsdesc) (p : list N) : option node := fs_lookup_rev fs (rev p).

(* cur: resolved components, innermost first; todo: components still to walk *)
(* links: how many more symbolic links may be followed in this resolution.  Linux follows at most MAXSYMLINKS = 40 per
   path walk (fs/namei.c: total_link_count) and glibc realpath/canonicalize_file_name at most 40 (eloop threshold): the 41st
   link fails with ELOOP - also on a chain that has no cycle *)
Definition MAXSYMLINKS : nat := 40.
Fixpoint rp_walk (fs : fsdesc) (fuel : nat) (links : nat) (cur : list (list N)) (todo : list (list N)) : option (list (list N)) :=
  match fuel with
  | O => None
  | S f =>
    match todo with
    | [] => Some cur
    | c :: rest =>
        if is_nil c || is_dot c then rp_walk fs f links cur rest
        else if is_dotdot c then rp_walk fs f links (tl cur) rest
        else match fs_lookup fs (render (rev (c :: cur))) with
             | None => None
             | Some NDir => rp_walk fs f links (c :: cur) rest
             | Some (NLink t) =>
                 match links, t with
                 | S links', x :: _ => rp_walk fs f links' (if x =? slash then [] else cur) (split_slash t ++ rest)
                 | _, _ => None                       (* ELOOP, or the empty target (ENOENT) *)
                 end
             | Some _ => if is_nil rest then Some (c :: cur) else None
             end
    end
  end.

Definition fs_fuel (fs : fsdesc) (p : list N) : nat := (64 + 48 * (length p + length fs))%nat.

Definition fs_realpath (fs : fsdesc) (p : list N) : option (list N) :=
  match p with
  | c :: r => if c =? slash
              then match rp_walk fs (fs_fuel fs p) MAXSYMLINKS [] (split_slash r) with
                   | Some cur => Some (render (rev cur))
                   | None => None
                   end
              else None
  | [] => None
  end.

Definition fs_node (fs : fsdesc) (p : list N) : option node :=
  match fs_realpath fs p with
  | Some q => if leqb q [slash] then Some NDir else fs_lookup fs q
  | None => None
  end.

Definition fs_mode (fs : fsdesc) (p : list N) : N :=
  match fs_node fs p with
  | Some NDir => 16877           (* 040755 *)
  | Some (NReg _) => 33188       (* 0100644 *)
  | Some (NOther m) => m
  | _ => 0
  end.

Definition fs_can_open (fs : fsdesc) (p : list N) : bool :=
  match fs_node fs p with Some (NReg _) => true | _ => false end.

Definition fs_file_id (fs : fsdesc) (p : list N) : option N :=
  match fs_node fs p with Some (NReg i) => Some i | _ => None end.

(* names directly below directory d *)
Definition child_name (d p : list N) : option (list N) :=
  match strip_prefix (if leqb d [slash] then d else d ++ [slash]) p with
  | Some name => if is_nil name || existsb (fun c => c =? slash) name then None else Some name
  | None => None
  end.

Definition fs_dir_entries (fs : fsdesc) (p : list N) : option (list (list N)) :=
  match fs_realpath fs p with
  | Some q =>
      match (if leqb q [slash] then Some NDir else fs_lookup fs q) with
      | Some NDir => Some ([dot] :: [dot; dot] ::
                           flat_map (fun e => match child_name q (rev (fst e)) with Some n => [n] | None => [] end) fs)
      | _ => None
      end
  | None => None
  end.

Definition fs_handle (fs : fsdesc) (cfg : config) (target : list N) : response :=
  handle (fs_realpath fs) (fs_mode fs) (fs_dir_entries fs) (fs_can_open fs) cfg target.
