Require Extraction.
Require Import ExtrOcamlBasic.
From Coq Require Import NArith ZArith List.
From CppcmsV Require Import C13.Defs C13.PageDefs.
Definition keep_types : (N * Z * nat) := (0%N, 0%Z, 0%nat).
Extraction "c13m.ml" keep_types normalize normalize_ip resolve render split_slash ensure_slash is_file_prefix alias_url
  fs_realpath fs_handle fs_file_id  good_comp listing_page.
