(* C13 -- refinement: the buffer-and-iterator model normalize_ip (Defs.v 1b: one string buffer, indices out / start /
   end, std::find, overlapping std::copy, the backwards scan over the buffer) computes exactly the functional model
   normalize, for every input. *)
From CppcmsV Require Import Base.Tac Base.Sweep C13.Defs C13.ProofsNorm.
Local Open Scope N_scope.

(* ---------- list plumbing ---------- *)
Lemma nth_at (A B : list N) x d : nth (length A) (A ++ x :: B) d = x.
Proof. induction A as [|a A IH]. reflexivity. exact IH. Qed.

Lemma nth_at2 (A J B : list N) x d : nth (length A + length J) (A ++ J ++ x :: B) d = x.
Proof. rewrite app_assoc. rewrite <- app_length. apply nth_at. Qed.

Lemma set_nth_at (A B : list N) x v : set_nth (A ++ x :: B) (length A) v = A ++ v :: B.
Proof.
  unfold set_nth. induction A as [|a A IH]. reflexivity.
  cbn [length app firstn skipn]. cbn [app]. f_equal. exact IH.
Qed.

Lemma skipn_at2 (A J R : list N) : skipn (length A + length J) (A ++ J ++ R) = R.
Proof. rewrite app_assoc. rewrite <- app_length. rewrite skipn_app. rewrite skipn_all. rewrite Nat.sub_diag. reflexivity. Qed.

Lemma firstn_at (A B : list N) : firstn (length A) (A ++ B) = A.
Proof. rewrite firstn_app. rewrite firstn_all. rewrite Nat.sub_diag. cbn [firstn]. apply app_nil_r. Qed.

(* ---------- std::find ---------- *)
Lemma find_slash_split r : exists comp tail,
  r = comp ++ tail /\ slash_free comp /\ find_slash r = length comp /\
  ((tail = [] /\ split_slash r = [comp]) \/ (exists r', tail = slash :: r' /\ split_slash r = comp :: split_slash r')).
Proof.
  induction r as [|c r IH].
  - exists [], []. split. reflexivity. split. constructor. split. reflexivity. left. split; reflexivity.
  - cbn [find_slash split_slash]. destruct (N.eqb_spec c slash) as [E|E].
    + subst. exists [], (slash :: r). split. reflexivity. split. constructor. split. reflexivity.
      right. exists r. split; reflexivity.
    + destruct IH as [comp [tail [E1 [E2 [E3 E4]]]]]. exists (c :: comp), tail. split. rewrite E1. reflexivity.
      split. constructor; assumption. split. cbn [length]. rewrite E3. reflexivity.
      destruct E4 as [[Et Es]|[r' [Et Es]]].
      * left. split. assumption. rewrite Es. reflexivity.
      * right. exists r'. split. assumption. rewrite Es. reflexivity.
Qed.

(* ---------- std::copy with overlapping ranges, destination before source ---------- *)
Lemma copy_fwd_spec C : forall A J T,
  exists J', length J' = length J /\
    copy_fwd (A ++ J ++ C ++ T) (length A + length J) (length A) (length C) = A ++ C ++ J' ++ T.
Proof.
  induction C as [|c C IH]; intros A J T.
  - exists J. split. reflexivity. reflexivity.
  - cbn [length copy_fwd]. cbn [app]. rewrite nth_at2.
    destruct J as [|j js].
    + cbn [app length]. rewrite set_nth_at.
      destruct (IH (A ++ [c]) [] T) as [J' [HL HE]].
      exists J'. split. exact HL.
      cbn [app length] in HE. rewrite app_length in HE. cbn [length] in HE.
      rewrite Nat.add_0_r in *. rewrite <- !app_assoc in HE. cbn [app] in HE.
      replace (S (length A)) with (length A + 1)%nat by lia. exact HE.
    + cbn [app]. rewrite set_nth_at.
      destruct (IH (A ++ [c]) (js ++ [c]) T) as [J' [HL HE]].
      exists J'. split. rewrite HL. rewrite app_length. cbn [length]. lia.
      rewrite !app_length in HE. cbn [length] in HE. rewrite <- !app_assoc in HE. cbn [app] in HE.
      replace (S (length A + length (j :: js))) with (length A + 1 + (length js + 1))%nat by (cbn [length]; lia).
      replace (S (length A)) with (length A + 1)%nat by lia. exact HE.
Qed.

(* ---------- the backwards scan over the buffer ---------- *)
Lemma scan_back_ip_spec o1 : forall fuel buf, (length o1 <= fuel)%nat -> firstn (length o1) buf = rev o1 ->
  scan_back_ip fuel buf (length o1) = length (scan_back o1).
Proof.
  induction o1 as [|c o' IH]; intros fuel buf Hf Hb.
  - destruct fuel; reflexivity.
  - destruct fuel as [|f]. cbn in Hf. lia.
    cbn [scan_back_ip length]. destruct o' as [|c2 o''].
    + reflexivity.
    + change (1 <? S (length (c2 :: o'')))%nat with true. cbn [length] in *.
      replace (S (S (length o'')) - 1)%nat with (S (length o'')) by lia.
      assert (E : buf = (rev o'' ++ [c2]) ++ c :: skipn (S (S (length o''))) buf).
      { rewrite <- (firstn_skipn (S (S (length o''))) buf) at 1. rewrite Hb. cbn [rev]. rewrite <- !app_assoc. reflexivity. }
      assert (HL : S (length o'') = length (rev o'' ++ [c2])) by (rewrite app_length, rev_length; cbn; lia).
      assert (Hn : nth (S (length o'')) buf 0 = c). { rewrite E, HL. apply nth_at. }
      rewrite Hn. cbn [scan_back]. destruct (c =? slash). reflexivity.
      apply (IH f buf). cbn [length]. lia.
      cbn [length rev]. rewrite E, HL. apply firstn_at.
Qed.

Ltac len := cbn [length] in *; repeat ((rewrite app_length || rewrite rev_length); cbn [length] in * ); try lia.

Lemma scan_back_suffix o : exists x, o = x ++ scan_back o.
Proof.
  induction o as [|c o' IH]. exists []. reflexivity.
  cbn [scan_back]. destruct o' as [|c2 o'']. exists []. reflexivity.
  destruct (c =? slash). exists []. reflexivity.
  destruct IH as [x Hx]. exists (c :: x). cbn [app]. rewrite <- Hx. reflexivity.
Qed.

Lemma back_suffix o : exists x, o = x ++ back o.
Proof.
  unfold back. destruct o as [|c [|c2 o'']].
  - exists []. reflexivity.
  - exists []. reflexivity.
  - destruct (scan_back_suffix (c2 :: o'')) as [x Hx]. exists (c :: x). cbn [app]. rewrite <- Hx. reflexivity.
Qed.

Lemma back_ip_spec o buf : firstn (length o) buf = rev o ->
  scan_back_ip (length o) buf (if (1 <? length o)%nat then (length o - 1)%nat else length o) = length (back o).
Proof.
  intros Hb. unfold back. destruct o as [|c [|c2 o'']].
  - reflexivity.
  - reflexivity.
  - change (1 <? length (c :: c2 :: o''))%nat with true. cbn [length].
    replace (S (S (length o'')) - 1)%nat with (length (c2 :: o'')) by (cbn [length]; lia).
    apply scan_back_ip_spec. cbn [length]. lia.
    cbn [length rev] in *.
    assert (E : buf = (rev o'' ++ [c2]) ++ c :: skipn (S (S (length o''))) buf).
    { rewrite <- (firstn_skipn (S (S (length o''))) buf) at 1. rewrite Hb. rewrite <- !app_assoc. reflexivity. }
    assert (HL : S (length o'') = length (rev o'' ++ [c2])) by (rewrite app_length, rev_length; cbn; lia).
    rewrite E, HL. apply firstn_at.
Qed.

Lemma nth_at3 (A J B : list N) a b d : nth (S (length A + length J)) (A ++ J ++ a :: b :: B) d = b.
Proof.
  replace (A ++ J ++ a :: b :: B) with (A ++ (J ++ [a]) ++ b :: B) by (rewrite <- !app_assoc; reflexivity).
  replace (S (length A + length J)) with (length A + length (J ++ [a]))%nat by (rewrite app_length; cbn; lia).
  apply nth_at2.
Qed.

(* one loop iteration *)
Lemma ip_body_spec o junk comp tail : slash_free comp ->
  exists junk1,
    ip_body (rev o ++ junk ++ comp ++ tail) (length o) (length o + length junk) (length comp) (is_nil tail)
      = (rev (step o comp (is_nil tail)) ++ junk1 ++ tl tail, length (step o comp (is_nil tail)))
    /\ (tail <> [] -> (length (step o comp (is_nil tail)) + length junk1 = S (length o + length junk + length comp))%nat).
Proof.
  intros Hf. set (buf := rev o ++ junk ++ comp ++ tail).
  assert (HA : length (rev o) = length o) by apply rev_length.
  (* the three shapes of the outcome *)
  assert (Keep : exists junk1, (buf, length o) = (rev o ++ junk1 ++ tl tail, length o) /\
            (tail <> [] -> (length o + length junk1 = S (length o + length junk + length comp))%nat)).
  { destruct tail as [|t0 r'].
    - exists (junk ++ comp). split. unfold buf. rewrite !app_nil_r. reflexivity. congruence.
    - exists (junk ++ comp ++ [t0]). split. unfold buf. cbn [tl]. rewrite <- !app_assoc. reflexivity.
      intros _. rewrite !app_length. cbn [length]. lia. }
  assert (Back : exists junk1, (buf, length (back o)) = (rev (back o) ++ junk1 ++ tl tail, length (back o)) /\
            (tail <> [] -> (length (back o) + length junk1 = S (length o + length junk + length comp))%nat)).
  { destruct (back_suffix o) as [x Hx].
    assert (Hr : rev o = rev (back o) ++ rev x) by (rewrite Hx at 1; apply rev_app_distr).
    assert (Hlen : length o = (length x + length (back o))%nat) by (rewrite Hx at 1; apply app_length).
    destruct tail as [|t0 r'].
    - exists (rev x ++ junk ++ comp). split. unfold buf. rewrite Hr. rewrite !app_nil_r. rewrite <- !app_assoc. reflexivity. congruence.
    - exists (rev x ++ junk ++ comp ++ [t0]). split. unfold buf. rewrite Hr. cbn [tl]. rewrite <- !app_assoc. reflexivity.
      intros _. rewrite !app_length, rev_length. cbn [length]. lia. }
  assert (Copy : is_nil comp = false -> exists junk1,
            (let buf1 := copy_fwd buf (length o + length junk) (length o) (length comp) in
             let out1 := (length o + length comp)%nat in
             if is_nil tail then (buf1, out1) else (set_nth buf1 out1 slash, S out1))
            = (rev (if is_nil tail then rev comp ++ o else slash :: rev comp ++ o) ++ junk1 ++ tl tail,
               length (if is_nil tail then rev comp ++ o else slash :: rev comp ++ o)) /\
            (tail <> [] -> (length (if is_nil tail then rev comp ++ o else slash :: rev comp ++ o) + length junk1
                            = S (length o + length junk + length comp))%nat)).
  { intros _. cbv zeta. destruct (copy_fwd_spec comp (rev o) junk tail) as [J' [HL HE]].
    rewrite HA in HE. unfold buf. rewrite HE.
    destruct tail as [|t0 r']; cbn [is_nil tl].
    - exists J'. split. rewrite rev_app_distr, rev_involutive. rewrite !app_nil_r. rewrite <- !app_assoc.
      f_equal. len. congruence.
    - assert (Hpos : (length o + length comp)%nat = length (rev o ++ comp)) by (rewrite app_length, rev_length; reflexivity).
      destruct J' as [|j js].
      + exists []. split.
        * cbn [app]. rewrite app_assoc. rewrite Hpos. rewrite set_nth_at.
          cbn [rev]. rewrite rev_app_distr, rev_involutive. rewrite <- !app_assoc. cbn [app length].
          f_equal. len.
        * intros _. len.
      + exists (js ++ [t0]). split.
        * cbn [app]. rewrite app_assoc. rewrite Hpos. rewrite set_nth_at.
          cbn [rev]. rewrite rev_app_distr, rev_involutive. rewrite <- !app_assoc. cbn [app length].
          f_equal. len.
        * intros _. len. }
  assert (N0 : forall a rest, comp = a :: rest -> nth (length o + length junk) buf 0 = a).
  { intros a rest ->. unfold buf. rewrite <- HA. apply nth_at2. }
  assert (N1 : forall a b rest, comp = a :: b :: rest -> nth (S (length o + length junk)) buf 0 = b).
  { intros a b rest ->. unfold buf. rewrite <- HA. cbn [app]. apply nth_at3. }
  assert (FB : firstn (length o) buf = rev o).
  { unfold buf. rewrite <- HA. apply firstn_at. }
  fold buf. clearbody buf.
  unfold ip_body, step.
  destruct comp as [|a [|b [|c3 rest]]].
  - (* empty piece *) cbn [length Nat.eqb orb is_nil]. exact Keep.
  - (* one byte *)
    cbn [length Nat.eqb orb andb is_nil is_dot]. rewrite (N0 a [] eq_refl).
    destruct (a =? dot). exact Keep.
    cbn [is_dotdot]. apply Copy. reflexivity.
  - (* two bytes *)
    cbn [length Nat.eqb orb andb is_nil is_dot is_dotdot].
    rewrite (N0 a [b] eq_refl), (N1 a b [] eq_refl).
    destruct (a =? dot); cbn [andb].
    + destruct (b =? dot). 2: (apply Copy; reflexivity).
      rewrite back_ip_spec by exact FB. exact Back.
    + apply Copy. reflexivity.
  - (* three or more *)
    cbn [length Nat.eqb orb andb is_nil is_dot is_dotdot]. apply Copy. reflexivity.
Qed.

Lemma ip_loop_spec fuel : forall o junk r, (length r < fuel)%nat ->
  exists junk', ip_loop fuel (rev o ++ junk ++ r) (length o) (length o + length junk)
     = (rev (norm_comps o (split_slash r)) ++ junk', length (norm_comps o (split_slash r))).
Proof.
  induction fuel as [|f IH]; intros o junk r Hlt. lia.
  cbn [ip_loop].
  assert (HA : length (rev o) = length o) by apply rev_length.
  destruct r as [|c r0].
  - rewrite app_nil_r. replace (length (rev o ++ junk)) with (length o + length junk)%nat by len.
    rewrite Nat.ltb_irrefl. exists junk. reflexivity.
  - assert (Hlt2 : (length o + length junk <? length (rev o ++ junk ++ c :: r0))%nat = true).
    { apply Nat.ltb_lt. len. }
    rewrite Hlt2.
    assert (Hs : skipn (length o + length junk) (rev o ++ junk ++ c :: r0) = c :: r0) by (rewrite <- HA; apply skipn_at2).
    rewrite Hs.
    destruct (find_slash_split (c :: r0)) as [comp [tail [E1 [E2 [E3 E4]]]]].
    rewrite E3. rewrite E1.
    replace (length o + length junk + length comp - (length o + length junk))%nat with (length comp) by lia.
    assert (Hend : (length o + length junk + length comp =? length (rev o ++ junk ++ comp ++ tail))%nat = is_nil tail).
    { destruct tail as [|t0 r']; cbn [is_nil]. apply Nat.eqb_eq. len. apply Nat.eqb_neq. len. }
    rewrite Hend.
    destruct (ip_body_spec o junk comp tail E2) as [junk1 [HB HL]]. rewrite HB. cbn [fst snd].
    destruct E4 as [[Et Es]|[r' [Et Es]]].
    + subst tail. cbn [is_nil tl]. rewrite <- E1, Es. rewrite app_nil_r. exists junk1. reflexivity.
    + subst tail. cbn [is_nil tl] in *. rewrite <- E1, Es.
      rewrite norm_comps_cons by apply split_slash_nonnil.
      specialize (HL ltac:(discriminate)). rewrite <- HL.
      apply IH. rewrite E1 in Hlt. revert Hlt. len.
Qed.

Lemma ensure_slash_shape p : ensure_slash p = slash :: tl (ensure_slash p).
Proof.
  unfold ensure_slash. destruct p as [|c r]. reflexivity.
  destruct (N.eqb_spec c slash) as [E|E]. subst. reflexivity. reflexivity.
Qed.

Theorem normalize_ip_refines p : normalize_ip p = normalize p.
Proof.
  unfold normalize_ip, normalize. pose proof (ensure_slash_shape p) as Es.
  remember (ensure_slash p) as b eqn:Eb. remember (tl b) as r eqn:Er. clear Eb. subst b. clear Er. cbn [tl].
  destruct (ip_loop_spec (S (length (slash :: r))) [slash] [] r ltac:(cbn [length]; lia)) as [junk' H].
  change (rev [slash] ++ [] ++ r) with (slash :: r) in H. change (length [slash] + length (@nil N))%nat with 1%nat in H.
  change (length [slash]) with 1%nat in H. rewrite H. cbn [fst snd].
  set (o' := norm_comps [slash] (split_slash r)).
  destruct o' as [|x [|y t]].
  - cbn [length]. change (1 <? 0)%nat with false. rewrite andb_false_r. reflexivity.
  - cbn [length]. change (1 <? 1)%nat with false. rewrite andb_false_r. reflexivity.
  - assert (Hn : nth (length (x :: y :: t) - 1) (rev (x :: y :: t) ++ junk') 0 = x).
    { cbn [rev]. rewrite <- !app_assoc. cbn [app].
      replace (length (x :: y :: t) - 1)%nat with (length (rev t ++ [y])) by len.
      replace (rev t ++ y :: x :: junk') with ((rev t ++ [y]) ++ x :: junk') by (rewrite <- app_assoc; reflexivity).
      apply nth_at. }
    rewrite Hn. change (1 <? length (x :: y :: t))%nat with true. rewrite andb_true_r.
    unfold strip_last_slash. destruct (x =? slash).
    + replace (length (x :: y :: t) - 1)%nat with (length (rev (y :: t))) by len.
      replace (rev (x :: y :: t) ++ junk') with (rev (y :: t) ++ x :: junk') by (cbn [rev]; rewrite <- !app_assoc; reflexivity).
      apply firstn_at.
    + rewrite <- (rev_length (x :: y :: t)). apply firstn_at.
Qed.
