(* C13: the separator test regenerated from /repo's current source (coq/gen/Gen_fileserver.v) is the test the
   model uses in is_file_prefix and strip_trailing_sep (c =? slash); the parameter is a (signed) char *)
From CppcmsV Require Import Base.Tac Base.CSem Base.Sweep C13.Defs gen.Gen_fileserver gen.Gen_C13_mode.
Local Open Scope N_scope.

Lemma link_is_directory_separator b : b < 256 -> g_is_directory_separator (wraps 8 (Z.of_N b)) = (b =? slash).
Proof.
  intros H. apply eqb_prop.
  apply (sweep256 (fun b => eqb (g_is_directory_separator (wraps 8 (Z.of_N b))) (b =? slash))); [vm_compute; reflexivity|exact H].
Qed.

(* the st_mode bits of the platform header (harness/C13_mode_tu.cpp -> coq/gen/Gen_C13_mode.v) are the numbers of the model *)
Lemma link_mode_bits :
  g_c13_S_IFMT = Z.of_N S_IFMT /\ g_c13_S_IFDIR = Z.of_N S_IFDIR /\ g_c13_S_IFREG = Z.of_N S_IFREG /\
  g_c13_S_IFIFO = Z.of_N S_IFIFO /\ g_c13_S_IFCHR = Z.of_N S_IFCHR /\ g_c13_S_IFBLK = Z.of_N S_IFBLK /\
  g_c13_S_IFLNK = Z.of_N S_IFLNK /\ g_c13_S_IFSOCK = Z.of_N S_IFSOCK.
Proof. repeat split; reflexivity. Qed.
