(* C13: the separator test regenerated from /repo's current source (coq/gen/Gen_fileserver.v) is the test the
   model uses in is_file_prefix and strip_trailing_sep (c =? slash); the parameter is a (signed) char *)
From CppcmsV Require Import Base.Tac Base.CSem Base.Sweep C13.Defs gen.Gen_fileserver.
Local Open Scope N_scope.

Lemma link_is_directory_separator b : b < 256 -> g_is_directory_separator (wraps 8 (Z.of_N b)) = (b =? slash).
Proof.
  intros H. apply eqb_prop.
  apply (sweep256 (fun b => eqb (g_is_directory_separator (wraps 8 (Z.of_N b))) (b =? slash))); [vm_compute; reflexivity|exact H].
Qed.
