(* C13 -- the directory redirect (what the Location header holds, for every request), the proposed repair of it, and the
   transparency of percent-encoding in the path pipeline *)
From CppcmsV Require Import Base.Tac Base.Sweep C15.Defs C15.Proofs C15.ProofsUrl C13.Defs C13.PageDefs C13.ProofsNorm C13.ProofsRoot C13.ProofsMain C13.ProofsList.
Local Open Scope N_scope.

(* ---------- what the Location is ---------- *)
(* a Location value that keeps a client on this site and is one header line: slash, then not a second slash / backslash,
   no control byte anywhere *)
Definition ctl_free (s : list N) : bool := forallb (fun c => 32 <=? c) s.
Definition on_site (loc : list N) : bool :=
  match loc with
  | a :: rest => (a =? slash) && match rest with b :: _ => negb ((b =? slash) || (b =? 92)) | [] => true end && ctl_free loc
  | [] => false
  end.

Theorem handle_redirect_location canonical file_mode dir_entries can_open cfg target loc :
  handle canonical file_mode dir_entries can_open cfg target = RRedirect loc ->
  loc = safe_location (path_info target) /\ last (path_info target) 0 <> slash /\
  exists path, check_in_document_root canonical cfg (path_info target) = Some path /\
               has_bit (file_mode (cstr path)) S_IFDIR = true.
Proof. unfold handle. apply main_redirects. Qed.

(* a small name space: /r is the document root, /r/d a directory *)
Definition rd_fs : fsdesc :=
  [ (rev [47;114], NDir); (rev [47;114;47;102], NReg 1); (rev [47;114;47;100], NDir); (rev [47;114;47;100;47;120], NReg 3) ].
Definition rd_cfg : config := mkcfg [47;114] [] true true [105].

(* regression (the witnesses of the defect repaired by a6ff7cd):
   GET //h/%2e%2e  ->  Location: /      GET /d/%0d%0aX:y/..  ->  Location: /d/      GET /d/.//%2e  ->  Location: /d/ *)
Lemma redirect_regressions :
  fs_handle rd_fs rd_cfg [47;47;104;47;37;50;101;37;50;101] = RRedirect [47] /\
  fs_handle rd_fs rd_cfg [47;100;47;37;48;100;37;48;97;88;58;121;47;46;46] = RRedirect [47;100;47] /\
  fs_handle rd_fs rd_cfg [47;100;47;46;47;47;37;50;101] = RRedirect [47;100;47].
Proof. repeat split; vm_compute; reflexivity. Qed.

(* ---------- the Location: percent-encoded NORMAL form ---------- *)
Lemma bool_eq_iff (a b : bool) : (a = true <-> b = true) -> a = b.
Proof. destruct a, b; intuition. Qed.

Lemma encode_path_nil r : encode_path r = [] -> r = [].
Proof.
  destruct r as [|c r]; [reflexivity|]. cbn [encode_path flat_map]. unfold enc_path1, urlenc1.
  destruct (c =? slash); [discriminate|]. destruct (unreserved c); discriminate.
Qed.

(* location != slash  iff  normal != slash *)
Lemma encode_path_is_root n : leqb (encode_path n) [slash] = leqb n [slash].
Proof.
  apply bool_eq_iff. rewrite !leqb_eq. split.
  - destruct n as [|c r]. discriminate. change (encode_path (c :: r)) with (enc_path1 c ++ encode_path r).
    unfold enc_path1. destruct (N.eqb_spec c slash) as [->|Hc].
    + cbn [app]. intros H. inversion H as [H1]. apply encode_path_nil in H1. subst. reflexivity.
    + unfold urlenc1. destruct (unreserved c); cbn [app]; unfold slash in *; intros H; inversion H. contradiction.
  - intros ->. reflexivity.
Qed.

Lemma safe_location_eq f :
  safe_location f = encode_path (normalize f) ++ (if leqb (normalize f) [slash] then [] else [slash]).
Proof.
  unfold safe_location. cbv zeta. rewrite encode_path_is_root.
  destruct (leqb (normalize f) [slash]). rewrite app_nil_r. reflexivity. reflexivity.
Qed.

Definition loc_alphabet (c : N) : bool := urlenc_alphabet c || (c =? slash).

Lemma enc_path1_alphabet c : c < 256 -> forallb loc_alphabet (enc_path1 c) = true.
Proof.
  intros Hc.
  apply (sweep256 (fun c => forallb loc_alphabet (enc_path1 c))); [vm_compute; reflexivity|exact Hc].
Qed.
Lemma encode_path_alphabet p : bytes_ok p -> forallb loc_alphabet (encode_path p) = true.
Proof.
  induction p as [|c p IH]; intros H; [reflexivity|].
  apply bytes_ok_cons in H. destruct H as [Hc Hp].
  change (encode_path (c :: p)) with (enc_path1 c ++ encode_path p).
  rewrite forallb_app, (enc_path1_alphabet _ Hc), (IH Hp). reflexivity.
Qed.
Lemma loc_alphabet_ctl_free s : forallb loc_alphabet s = true -> ctl_free s = true.
Proof.
  unfold ctl_free. induction s as [|c s IH]; intros H; [reflexivity|].
  cbn [forallb] in *. apply andb_true_iff in H. destruct H as [Hc Hs]. rewrite (IH Hs), andb_true_r.
  unfold loc_alphabet, urlenc_alphabet, unreserved, slash in Hc. apply N.leb_le.
  repeat (apply orb_true_iff in Hc; destruct Hc as [Hc|Hc]);
    repeat (apply andb_true_iff in Hc; destruct Hc as [? Hc]);
    repeat match goal with H : (_ <=? _) = true |- _ => apply N.leb_le in H | H : (_ =? _) = true |- _ => apply N.eqb_eq in H end; lia.
Qed.

(* normal forms are made of bytes of the request *)
Lemma slash_ok : slash < 256.
Proof. reflexivity. Qed.
Lemma bytes_ok_rev l : bytes_ok l -> bytes_ok (rev l).
Proof. unfold bytes_ok. apply Forall_rev. Qed.

Lemma urldecode_enc_path1 c rest : c < 256 -> urldecode (enc_path1 c ++ rest) = c :: urldecode rest.
Proof.
  intros Hc. unfold enc_path1. destruct (N.eqb_spec c slash) as [->|_].
  - reflexivity.
  - apply urldecode_enc1. exact Hc.
Qed.
Lemma urldecode_encode_path p t : bytes_ok p -> urldecode (encode_path p ++ t) = p ++ urldecode t.
Proof.
  induction p as [|c p IH]; intros H; [reflexivity|].
  apply bytes_ok_cons in H. destruct H as [Hc Hp].
  change (encode_path (c :: p)) with (enc_path1 c ++ encode_path p). rewrite <- app_assoc.
  rewrite (urldecode_enc_path1 _ _ Hc), (IH Hp). reflexivity.
Qed.

Lemma encode_path_no_query p : bytes_ok p -> cut_query (encode_path p) = encode_path p.
Proof.
  intros H. pose proof (encode_path_alphabet _ H) as A. revert A. generalize (encode_path p). clear.
  induction l as [|c l IH]; intros A; [reflexivity|].
  cbn [forallb] in A. apply andb_true_iff in A. destruct A as [Ac Al]. cbn [cut_query].
  destruct (N.eqb_spec c 63) as [->|_]; [vm_compute in Ac; discriminate|]. rewrite (IH Al). reflexivity.
Qed.

(* percent-encoding is transparent and undone exactly once: the request whose path is f written with every byte other than
   the slash percent-encoded (or left raw when unreserved) is handled exactly as file_server::main handles f *)
Theorem encoded_request_equals_decoded canonical file_mode dir_entries can_open cfg f :
  bytes_ok f -> nonul f = true ->
  handle canonical file_mode dir_entries can_open cfg (encode_path f) = fs_main canonical file_mode dir_entries can_open cfg f.
Proof.
  intros Hb Hn. unfold handle, path_info. rewrite (encode_path_no_query _ Hb).
  rewrite <- (app_nil_r (encode_path f)), (urldecode_encode_path _ _ Hb). cbn [urldecode]. rewrite app_nil_r, (cstr_id _ Hn).
  reflexivity.
Qed.

(* the pipeline applies ONE decoding step: the path that reaches normalize_path is urldecode of the target, whatever escapes the
   decoded bytes themselves spell *)
Theorem pipeline_decodes_once target : nonul (urldecode (cut_query target)) = true ->
  path_info target = urldecode (cut_query target).
Proof. intros H. unfold path_info. apply cstr_id. exact H. Qed.

(* ---------- properties of the repaired Location ---------- *)
Lemma normalize_bytes_ok f : bytes_ok f -> bytes_ok (normalize f).
Proof.
  intros H. rewrite normalize_resolves_gen.
  assert (Hs : forall l, bytes_ok l -> Forall bytes_ok (split_slash l)).
  { induction l as [|c l IH]; intros Hl. repeat constructor.
    apply bytes_ok_cons in Hl. destruct Hl as [Hc Hl]. specialize (IH Hl). cbn [split_slash].
    destruct (c =? slash). constructor. constructor. exact IH.
    destruct (split_slash l) as [|h t]. repeat constructor. exact Hc.
    inversion IH. constructor. apply bytes_ok_cons. split; assumption. assumption. }
  assert (Hr : forall cs st, Forall bytes_ok st -> Forall bytes_ok cs -> Forall bytes_ok (resolve_rev st cs)).
  { induction cs as [|c cs IH]; intros st Hst Hcs. exact Hst.
    inversion Hcs. subst. cbn [resolve_rev]. destruct (is_nil c || is_dot c). apply IH; assumption.
    destruct (is_dotdot c). apply IH. destruct st. constructor. inversion Hst. assumption. assumption.
    apply IH. constructor; assumption. assumption. }
  assert (Hj : forall cs, Forall bytes_ok cs -> bytes_ok (join_slash cs)).
  { induction cs as [|c cs IH]; intros Hc. constructor. inversion Hc. subst. cbn [join_slash].
    destruct cs. assumption. apply bytes_ok_app. split. assumption. apply bytes_ok_cons. split. exact slash_ok. apply IH. assumption. }
  unfold render. apply bytes_ok_cons. split. exact slash_ok. apply Hj. unfold resolve. apply Forall_rev. apply Hr. constructor.
  apply Hs. assert (He : bytes_ok (ensure_slash f)).
  { unfold ensure_slash. destruct f as [|c r]. repeat constructor.
    destruct (c =? slash). exact H. apply bytes_ok_cons. split. exact slash_ok. exact H. }
  destruct (ensure_slash f). constructor. apply bytes_ok_cons in He. apply He.
Qed.

Theorem safe_location_single_line f : bytes_ok f -> forallb loc_alphabet (safe_location f) = true /\ ctl_free (safe_location f) = true.
Proof.
  intros H. assert (A : forallb loc_alphabet (safe_location f) = true).
  { rewrite safe_location_eq. rewrite forallb_app, (encode_path_alphabet _ (normalize_bytes_ok _ H)).
    destruct (leqb (normalize f) [slash]); reflexivity. }
  split. exact A. apply loc_alphabet_ctl_free. exact A.
Qed.

(* followed by a client, the repaired Location is decoded by the pipeline to the normal form of the request plus the final slash,
   so it names the same directory of the same root *)
Theorem safe_location_same_directory f : bytes_ok f -> nonul f = true ->
  normalize (urldecode (safe_location f)) = normalize f.
Proof.
  intros Hb Hn. rewrite safe_location_eq.
  rewrite (urldecode_encode_path _ _ (normalize_bytes_ok _ Hb)).
  destruct (normalize_safe_full f) as [cs [E [Hg Hi]]].
  destruct (leqb (normalize f) [slash]) eqn:El.
  - cbn [urldecode]. rewrite app_nil_r. exact Hi.
  - change (urldecode [slash]) with [slash].
    (* normalize (n ++ slash) = normalize n : a trailing empty piece *)
    rewrite E in *. transitivity (normalize (render cs)). 2: exact Hi.
    rewrite !normalize_resolves_gen. f_equal. unfold resolve. f_equal.
    change (ensure_slash (render cs ++ [slash])) with (render cs ++ [slash]).
    change (ensure_slash (render cs)) with (render cs).
    unfold render. cbn [tl app].
    assert (S : forall l, split_slash (l ++ [slash]) = split_slash l ++ [[]]).
    { assert (NE : forall l, split_slash l <> []).
      { induction l as [|c l IH]. discriminate. cbn [split_slash]. destruct (c =? slash). discriminate.
        destruct (split_slash l); discriminate. }
      induction l as [|c l IH]. reflexivity. cbn [app split_slash]. rewrite IH.
      destruct (c =? slash). reflexivity. destruct (split_slash l) eqn:El2. exfalso. exact (NE l El2). reflexivity. }
    rewrite S.
    assert (R : forall a st, resolve_rev st (a ++ [[]]) = resolve_rev st a).
    { induction a as [|c a IH]; intros st. reflexivity. cbn [app resolve_rev]. rewrite !IH. reflexivity. }
    apply R.
Qed.

Theorem safe_location_on_site f : bytes_ok f -> on_site (safe_location f) = true.
Proof.
  intros Hb. destruct (safe_location_single_line f Hb) as [_ Hc].
  unfold on_site. revert Hc. rewrite safe_location_eq.
  destruct (normalize_safe_full f) as [cs [E [Hg _]]]. pose proof (normalize_bytes_ok _ Hb) as Hnb. rewrite E in *.
  destruct cs as [|c cs].
  - intros Hc. vm_compute. reflexivity.
  - inversion Hg as [|? ? Hgc _]. subst.
    destruct c as [|x c']. discriminate Hgc.
    assert (Hx : x =? slash = false).
    { unfold good_comp in Hgc. cbn [forallb] in Hgc. repeat (apply andb_true_iff in Hgc; destruct Hgc as [Hgc ?]).
      match goal with H : negb (x =? slash) && _ = true |- _ => apply andb_true_iff in H; destruct H as [H _]; apply negb_true_iff in H; exact H end. }
    assert (Hx256 : x < 256).
    { unfold render in Hnb. apply bytes_ok_cons in Hnb. destruct Hnb as [_ Hnb]. cbn [join_slash] in Hnb.
      destruct cs; [|apply bytes_ok_app in Hnb; destruct Hnb as [Hnb _]]; apply bytes_ok_cons in Hnb; apply Hnb. }
    intros Hc.
    assert (Eh : exists y rest, encode_path (render ((x :: c') :: cs)) ++ (if leqb (render ((x :: c') :: cs)) [slash] then [] else [slash])
                   = slash :: y :: rest /\ (y =? slash) || (y =? 92) = false).
    { unfold render. cbn [join_slash]. destruct cs as [|c2 cs'].
      - change (encode_path (slash :: x :: c')) with ([slash] ++ enc_path1 x ++ encode_path c').
        unfold enc_path1 at 1. rewrite Hx. unfold urlenc1. destruct (unreserved x) eqn:Eu.
        + exists x. eexists. split. reflexivity. rewrite Hx. destruct (N.eqb_spec x 92) as [->|]; [vm_compute in Eu; discriminate|reflexivity].
        + exists 37. eexists. split. reflexivity. reflexivity.
      - change (encode_path (slash :: (x :: c') ++ slash :: join_slash (c2 :: cs'))) with ([slash] ++ enc_path1 x ++ encode_path (c' ++ slash :: join_slash (c2 :: cs'))).
        unfold enc_path1 at 1. rewrite Hx. unfold urlenc1. destruct (unreserved x) eqn:Eu.
        + exists x. eexists. split. reflexivity. rewrite Hx. destruct (N.eqb_spec x 92) as [->|]; [vm_compute in Eu; discriminate|reflexivity].
        + exists 37. eexists. split. reflexivity. reflexivity. }
    destruct Eh as [y [rest [Eh Hy]]]. rewrite Eh in *. rewrite N.eqb_refl, Hy, Hc. reflexivity.
Qed.

(* every href of a listing row is made of unreserved bytes, the percent sign and the slash only *)
Theorem list_rows_href_loc_alphabet file_mode path names h tx :
  Forall bytes_ok names -> In (h, tx) (list_rows file_mode path names) -> forallb loc_alphabet h = true.
Proof.
  intros Hb Hin. destruct (list_rows_spec _ _ _ _ _ Hin) as [name [add [Hn [_ [Eh [_ Ha]]]]]]. subst h.
  rewrite forallb_app. apply andb_true_iff. split.
  - pose proof (urlencode_alphabet name (proj1 (Forall_forall _ _) Hb _ Hn)) as A. revert A. generalize (urlencode name).
    induction l as [|c l IH]; intros A; [reflexivity|]. cbn [forallb] in *. apply andb_true_iff in A. destruct A as [Ac Al].
    unfold loc_alphabet at 1. rewrite Ac, (IH Al). reflexivity.
  - destruct Ha as [->| ->]; reflexivity.
Qed.

(* ---------- the redirect of main, from the raw request target ---------- *)
Lemma cstr_bytes_ok s : bytes_ok s -> bytes_ok (cstr s).
Proof.
  induction s as [|c s IH]; intros H; [constructor|]. apply bytes_ok_cons in H. destruct H as [Hc Hs].
  cbn [cstr]. destruct (c =? 0). constructor. apply bytes_ok_cons. split. exact Hc. apply IH. exact Hs.
Qed.
Lemma cut_query_bytes_ok s : bytes_ok s -> bytes_ok (cut_query s).
Proof.
  induction s as [|c s IH]; intros H; [constructor|]. apply bytes_ok_cons in H. destruct H as [Hc Hs].
  cbn [cut_query]. destruct (c =? 63). constructor. apply bytes_ok_cons. split. exact Hc. apply IH. exact Hs.
Qed.
Lemma path_info_bytes_ok target : bytes_ok target -> bytes_ok (path_info target).
Proof. intros H. unfold path_info. apply cstr_bytes_ok, urldecode_bytes_ok, cut_query_bytes_ok. exact H. Qed.

(* for EVERY request target (a byte string) that main answers with a redirect: the Location is made of unreserved bytes, percent
   signs and slashes only (one header line, no quote, no markup), it starts with exactly one slash (stays on this site), and a
   client that follows it is led - after the decoding step of the pipeline - to the same normal form, i.e. the same directory *)
Theorem handle_redirect_clean canonical file_mode dir_entries can_open cfg target loc :
  bytes_ok target ->
  handle canonical file_mode dir_entries can_open cfg target = RRedirect loc ->
  forallb loc_alphabet loc = true /\ ctl_free loc = true /\ on_site loc = true /\
  normalize (urldecode loc) = normalize (path_info target).
Proof.
  intros Hb H. apply handle_redirect_location in H. destruct H as [-> _].
  pose proof (path_info_bytes_ok _ Hb) as Hp.
  destruct (safe_location_single_line _ Hp) as [H1 H2].
  split. exact H1. split. exact H2. split. apply safe_location_on_site. exact Hp.
  apply safe_location_same_directory. exact Hp. apply path_info_nonul.
Qed.
