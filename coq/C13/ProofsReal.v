(* C13 -- the name-space model: every output of fs_realpath is a fixed point of fs_realpath (it is link-free, so walking it
   follows no link and needs no link budget); hence with check_symlink on every served file and every listed directory is, in
   EVERY finite name space (any symbolic-link graph: chains, cycles, dangling links, links through alias targets), a path whose
   real path is itself and which has the real path of the root in force as a component-wise prefix *)
From CppcmsV Require Import Base.Tac Base.Sweep C15.Defs C13.Defs C13.ProofsNorm C13.ProofsRoot C13.ProofsMain.
Local Open Scope N_scope.

Lemma all_dirs_app fs a b : all_dirs fs (a ++ b) -> all_dirs fs b.
Proof. induction a as [|x a IH]; cbn [app all_dirs]. auto. intros [_ H]. apply IH. exact H. Qed.

Lemma good_flags c : good c -> is_nil c || is_dot c = false /\ is_dotdot c = false.
Proof.
  unfold good, good_comp. intros H.
  apply andb_true_iff in H. destruct H as [H _]. apply andb_true_iff in H. destruct H as [H H3].
  apply andb_true_iff in H. destruct H as [H1 H2].
  apply negb_true_iff in H1, H2, H3. rewrite H1, H2, H3. split; reflexivity.
Qed.

(* walking good components that name directory nodes consumes one unit of fuel each and follows no link *)
Lemma rp_walk_dirs fs : forall todo tail cur fuel links, Forall good todo -> all_dirs fs (rev todo ++ cur) ->
  rp_walk fs (length todo + fuel) links cur (todo ++ tail) = rp_walk fs fuel links (rev todo ++ cur) tail.
Proof.
  induction todo as [|c rest IH]; intros tail cur fuel links Hg Hd. reflexivity.
  inversion Hg as [|? ? Hc Hrest]; subst. cbn [length Nat.add app rp_walk].
  destruct (good_flags c Hc) as [F1 F2]. rewrite F1, F2.
  assert (Hd' : all_dirs fs (rev rest ++ c :: cur)). { cbn [rev] in Hd. rewrite <- app_assoc in Hd. exact Hd. }
  pose proof (all_dirs_app _ _ _ Hd') as Hc1. cbn [all_dirs] in Hc1. destruct Hc1 as [El _]. rewrite El.
  rewrite IH; try assumption. cbn [rev]. rewrite <- app_assoc. reflexivity.
Qed.

Lemma rp_walk_fix fs res links k : Forall good res -> real_node fs res ->
  rp_walk fs (length res + S (S k)) links [] (rev res) = Some res.
Proof.
  intros Hg [Hd | [c [r [E [Hd Hl]]]]].
  - rewrite <- (rev_length res). rewrite <- (app_nil_r (rev res)) at 2.
    rewrite rp_walk_dirs. rewrite rev_involutive, app_nil_r. reflexivity.
    apply Forall_rev. exact Hg. rewrite rev_involutive, app_nil_r. exact Hd.
  - subst res. inversion Hg as [|? ? Hc Hr]; subst. cbn [rev length Nat.add].
    replace (S (length r + S (S k))) with (length (rev r) + S (S (S k)))%nat by (rewrite rev_length; lia).
    rewrite rp_walk_dirs. 2: apply Forall_rev; exact Hr. 2: rewrite rev_involutive, app_nil_r; exact Hd.
    rewrite rev_involutive, app_nil_r. cbn [rp_walk].
    destruct (good_flags c Hc) as [F1 F2]. rewrite F1, F2.
    destruct Hl as [[id El] | [m El]]; rewrite El; reflexivity.
Qed.

Lemma split_slash_length l : (length (split_slash l) <= S (length l))%nat.
Proof.
  induction l as [|c l IH]. cbn. lia. cbn [split_slash length].
  destruct (c =? slash). cbn [length]. lia. destruct (split_slash l). cbn [length]. lia. cbn [length] in *. lia.
Qed.

Theorem fs_realpath_fixpoint fs res : Forall good res -> real_node fs res ->
  fs_realpath fs (render (rev res)) = Some (render (rev res)).
Proof.
  intros Hg Hr. unfold fs_realpath. unfold render at 1. rewrite N.eqb_refl.
  destruct res as [|c r].
  - vm_compute. reflexivity.
  - assert (Hg' : Forall good (rev (c :: r))) by (apply Forall_rev; exact Hg).
    assert (Hn : rev (c :: r) <> []). { cbn [rev]. intros E. apply app_eq_nil in E. destruct E as [_ E]. discriminate. }
    pose proof (render_components _ Hg' Hn) as Es. unfold render in Es. cbn [tl] in Es. rewrite Es.
    pose proof (split_slash_length (join_slash (rev (c :: r)))) as Hl. rewrite Es in Hl. rewrite rev_length in Hl.
    assert (Ef : exists k, fs_fuel fs (slash :: join_slash (rev (c :: r))) = (length (c :: r) + S (S k))%nat).
    { unfold fs_fuel. cbn [length] in *. exists (62 + 48 * (S (length (join_slash (rev (c :: r)))) + length fs) - S (length r))%nat. lia. }
    destruct Ef as [k Ef]. change (render (rev (c :: r))) with (slash :: join_slash (rev (c :: r))) at 1. rewrite Ef. rewrite (rp_walk_fix fs (c :: r) MAXSYMLINKS k Hg Hr). reflexivity.
Qed.

(* realpath is idempotent: what it returns is its own real path *)
Theorem fs_realpath_idempotent fs x r : fs_realpath fs x = Some r -> fs_realpath fs r = Some r.
Proof.
  intros H. unfold fs_realpath in H. destruct x as [|a t]. discriminate. destruct (a =? slash). 2: discriminate.
  destruct (rp_walk fs (fs_fuel fs (a :: t)) MAXSYMLINKS [] (split_slash t)) as [cur|] eqn:E. 2: discriminate.
  inversion H; subst r. apply fs_realpath_fixpoint.
  - eapply rp_walk_good. 3: exact E. constructor. apply split_slash_free.
  - eapply rp_walk_real. 2: exact E. exact I.
Qed.

Lemma checked_is_realpath_output fs cfg f real :
  check_symlinks cfg = true -> check_in_document_root (fs_realpath fs) cfg f = Some real ->
  exists x, fs_realpath fs x = Some real.
Proof.
  intros Hc H. unfold check_in_document_root in H.
  destruct (match select_alias (aliases cfg) (normalize f) with Some x => x | None => (docroot cfg, normalize f) end)
    as [root normal].
  cbn [fst snd] in H. destruct normal as [|c x]. discriminate.
  destruct (negb (c =? slash)). discriminate. rewrite Hc in H. unfold is_in_root in H.
  destruct (fs_realpath fs (cstr (root ++ slash :: c :: x))) as [q|] eqn:Eq. 2: discriminate.
  destruct (is_file_prefix root q). 2: discriminate. inversion H; subst q. eexists. exact Eq.
Qed.

(* the configuration as the constructor builds it: every root in force is an output of canonical() *)
Definition roots_real (fs : fsdesc) (cfg : config) : Prop :=
  forall root, root_in_force cfg root -> exists x, fs_realpath fs x = Some root.

Lemma roots_real_canonical fs cfg : roots_real fs cfg -> roots_canonical cfg.
Proof. intros H root Hr. destruct (H root Hr) as [x Hx]. exact (fs_realpath_canonical fs _ _ Hx). Qed.

Theorem model_served_under_real_root fs cfg target p e :
  roots_real fs cfg -> check_symlinks cfg = true ->
  fs_handle fs cfg target = RFile p e ->
  exists root rcs below res,
    root_in_force cfg root /\ fs_realpath fs root = Some root /\ root = render rcs /\
    p = render (rcs ++ below) /\ Forall good (rcs ++ below) /\
    fs_realpath fs p = Some p /\ p = render (rev res) /\ real_node fs res.
Proof.
  intros Hroots Hc H. unfold fs_handle in H.
  destruct (served_real _ _ _ _ cfg target p e (fs_realpath_canonical fs) (roots_real_canonical _ _ Hroots) Hc H)
    as [root [rcs [below [Hr [Er [Ep Hg]]]]]].
  destruct (proj1 (handle_opens _ _ _ _ cfg target) _ _ H) as [f [Hf Hreg]].
  destruct (fs_checked_path_link_free _ _ _ _ Hc Hf) as [res [Eres Hreal]].
  destruct (checked_is_realpath_output _ _ _ _ Hc Hf) as [x Hx].
  destruct (Hroots root Hr) as [y Hy].
  exists root, rcs, below, res. repeat split; try assumption.
  - exact (fs_realpath_idempotent _ _ _ Hy).
  - exact (fs_realpath_idempotent _ _ _ Hx).
Qed.

(* ---------- the extension used for the MIME lookup: the suffix of the opened path that starts at its LAST dot ---------- *)
Lemma ext_of_spec p :
  (ext_of p = [] /\ ~ In dot p) \/
  (exists pre e, p = pre ++ dot :: e /\ ext_of p = dot :: e /\ ~ In dot e).
Proof.
  induction p as [|c r IH].
  - left. split. reflexivity. intros [].
  - cbn [ext_of]. destruct IH as [[E Hn] | [pre [e [Ep [Ee Hn]]]]].
    + rewrite E. destruct (N.eqb_spec c dot) as [->|Hc].
      * right. exists [], r. split. reflexivity. split. reflexivity. exact Hn.
      * left. split. reflexivity. intros [H|H]. apply Hc. exact H. exact (Hn H).
    + rewrite Ee. right. exists (c :: pre), e. split. rewrite Ep. reflexivity. split. reflexivity. exact Hn.
Qed.

Lemma serve_ext can_open path s p e : serve can_open path s = RFile p e -> e = ext_of p.
Proof.
  unfold serve. destruct (has_bit s S_IFREG); cbn [negb]. 2: discriminate.
  destruct (can_open (cstr path)). 2: discriminate. intros H. inversion H. reflexivity.
Qed.

Theorem main_serves_ext canonical file_mode dir_entries can_open cfg f p e :
  fs_main canonical file_mode dir_entries can_open cfg f = RFile p e -> e = ext_of p.
Proof.
  unfold fs_main. destruct (check_in_document_root canonical cfg f) as [path|] eqn:E1. 2: discriminate.
  destruct (has_bit (file_mode (cstr path)) S_IFDIR).
  - destruct (check_in_document_root canonical cfg (f ++ slash :: index_file cfg)) as [p2|] eqn:E2.
    + destruct (negb (is_nil f) && negb (last f 0 =? slash) && (has_bit (file_mode (cstr p2)) S_IFREG || listing cfg)). discriminate.
      destruct (has_bit (file_mode (cstr p2)) S_IFREG) eqn:E3.
      * apply serve_ext.
      * destruct (listing cfg). intros H. exfalso. revert H. apply list_dir_not_file. discriminate.
    + destruct (negb (is_nil f) && negb (last f 0 =? slash) && (false || listing cfg)). discriminate.
      destruct (listing cfg). intros H. exfalso. revert H. apply list_dir_not_file. discriminate.
  - apply serve_ext.
Qed.

(* the key of the MIME lookup for a streamed file: empty when the opened path has no dot at all, otherwise the suffix of the
   opened path from its last dot on (over the WHOLE path, as path.rfind does - a dot in a directory name counts) *)
Theorem mime_key_spec canonical file_mode dir_entries can_open cfg f p e :
  fs_main canonical file_mode dir_entries can_open cfg f = RFile p e ->
  (e = [] /\ ~ In dot p) \/ (exists pre x, p = pre ++ dot :: x /\ e = dot :: x /\ ~ In dot x).
Proof.
  intros H. apply main_serves_ext in H. subst e. apply ext_of_spec.
Qed.
