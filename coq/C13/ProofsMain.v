(* C13 -- listing rows, the HTTP path pipeline, the POSIX name-space model meets the realpath contract,
   end-to-end statements over handle *)
From CppcmsV Require Import Base.Tac Base.Sweep C15.Defs C15.Proofs C13.Defs C13.ProofsNorm C13.ProofsRoot.
Local Open Scope N_scope.

(* ---------- listing rows ---------- *)
Lemma list_rows_spec file_mode path names h tx : In (h, tx) (list_rows file_mode path names) ->
  exists name add, In name names /\ starts_with_dot name = false /\
    h = urlencode name ++ add /\ tx = escape name ++ add /\ (add = [] \/ add = [slash]).
Proof.
  unfold list_rows. intros H. apply in_flat_map in H. destruct H as [name [Hin H]].
  destruct (starts_with_dot name) eqn:Ed. destruct H.
  destruct (has_bit (file_mode (cstr (path ++ slash :: name))) S_IFDIR).
  - destruct H as [H|[]]. inversion H. exists name, [slash]. auto 10.
  - destruct (has_bit (file_mode (cstr (path ++ slash :: name))) S_IFREG). 2: destruct H.
    destruct H as [H|[]]. inversion H. exists name, []. rewrite !app_nil_r. auto 10.
Qed.

Lemma list_rows_text_markup_free file_mode path names h tx : In (h, tx) (list_rows file_mode path names) ->
  forallb markup_free tx = true.
Proof.
  intros H. destruct (list_rows_spec _ _ _ _ _ H) as [name [add [_ [_ [_ [Et Ha]]]]]]. subst tx.
  rewrite forallb_app. rewrite escape_markup_free. destruct Ha as [->| ->]; reflexivity.
Qed.

Lemma list_rows_href_alphabet file_mode path names h tx : In (h, tx) (list_rows file_mode path names) ->
  exists name add, h = urlencode name ++ add /\ (add = [] \/ add = [slash]) /\
    (bytes_ok name -> forallb urlenc_alphabet (urlencode name) = true).
Proof.
  intros H. destruct (list_rows_spec _ _ _ _ _ H) as [name [add [_ [_ [Eh [_ Ha]]]]]].
  exists name, add. split. exact Eh. split. exact Ha. apply urlencode_alphabet.
Qed.

(* ---------- C strings ---------- *)
Lemma cstr_nonul s : nonul (cstr s) = true.
Proof. induction s as [|c r IH]. reflexivity. cbn [cstr]. destruct (c =? 0) eqn:E. reflexivity. cbn [nonul forallb]. rewrite E. exact IH. Qed.

Lemma cstr_id s : nonul s = true -> cstr s = s.
Proof.
  induction s as [|c r IH]; intros H. reflexivity. cbn [nonul forallb] in H. apply andb_true_iff in H. destruct H as [H1 H2].
  apply negb_true_iff in H1. cbn [cstr]. rewrite H1. rewrite IH by exact H2. reflexivity.
Qed.

Lemma path_info_nonul target : nonul (path_info target) = true.
Proof. unfold path_info. apply cstr_nonul. Qed.

(* ---------- the name-space model meets the realpath contract ---------- *)
Lemma rp_walk_good fs fuel : forall links cur todo res, Forall good cur -> Forall slash_free todo ->
  rp_walk fs fuel links cur todo = Some res -> Forall good res.
Proof.
  induction fuel as [|f IH]; intros links cur todo res Hc Ht H; cbn [rp_walk] in H. discriminate.
  destruct todo as [|c rest]. inversion H; subst. assumption.
  inversion Ht; subst.
  destruct (is_nil c || is_dot c) eqn:E1. eapply IH; eassumption.
  destruct (is_dotdot c) eqn:E2.
  { eapply IH. 3: eassumption. destruct cur; cbn [tl]. constructor. inversion Hc; assumption. assumption. }
  apply orb_false_iff in E1. destruct E1 as [E0 E1].
  assert (Hg : good c) by (apply good_intro; assumption).
  destruct (fs_lookup fs (render (rev (c :: cur)))) as [[| id | t | m]|]. 5: discriminate.
  - eapply IH. 3: eassumption. constructor; assumption. assumption.
  - destruct (is_nil rest). 2: discriminate. inversion H; subst. constructor; assumption.
  - destruct links as [|links']. discriminate. destruct t as [|x t']. discriminate. eapply IH. 3: eassumption.
    destruct (x =? slash). constructor. assumption.
    apply Forall_app. split. apply split_slash_free. assumption.
  - destruct (is_nil rest). 2: discriminate. inversion H; subst. constructor; assumption.
Qed.

Lemma fs_realpath_canonical fs : canonical_contract (fs_realpath fs).
Proof.
  intros p q H. unfold fs_realpath in H. destruct p as [|c r]. discriminate.
  destruct (c =? slash). 2: discriminate.
  destruct (rp_walk fs (fs_fuel fs (c :: r)) MAXSYMLINKS [] (split_slash r)) as [cur|] eqn:E. 2: discriminate.
  inversion H; subst. exists (rev cur). split. reflexivity. apply Forall_rev.
  eapply rp_walk_good. 3: exact E. constructor. apply split_slash_free.
Qed.

(* ---------- end to end: request target -> what is opened ---------- *)
Section Env.
  Variable canonical : list N -> option (list N).
  Variable file_mode : list N -> N.
  Variable dir_entries : list N -> option (list (list N)).
  Variable can_open : list N -> bool.
  Let hnd := handle canonical file_mode dir_entries can_open.
  Let chk := check_in_document_root canonical.

  (* every path opened for streaming and every directory opened for listing went through check_in_document_root *)
  Lemma handle_opens cfg target :
    (forall p e, hnd cfg target = RFile p e ->
        exists f, chk cfg f = Some p /\ has_bit (file_mode (cstr p)) S_IFREG = true) /\
    (forall ti pa rows, hnd cfg target = RListing ti pa rows ->
        listing cfg = true /\
        exists path names, chk cfg (path_info target) = Some path /\ dir_entries (cstr path) = Some names /\
                           rows = list_rows file_mode path names).
  Proof.
    split.
    - intros p e H. apply main_serves in H. destruct H as [[H|H] [H1 _]]; eexists; split; eassumption.
    - intros ti pa rows H. apply main_lists in H. destruct H as [Hl [_ [path [names [H1 [_ [H2 H3]]]]]]].
      split. exact Hl. exists path, names. auto.
  Qed.

  Theorem served_lexical cfg target p e :
    check_symlinks cfg = false -> hnd cfg target = RFile p e ->
    exists root t, root_in_force cfg root /\ Forall good t /\ p = root ++ flat_map (fun c => slash :: c) t.
  Proof.
    intros Hc H. destruct (proj1 (handle_opens cfg target) _ _ H) as [f [Hf _]].
    destruct (contained_lexical_gen _ _ _ _ Hc Hf) as [root [pre [t [H1 [H2 [_ H4]]]]]]. exists root, t. auto.
  Qed.

  Theorem listed_lexical cfg target ti pa rows :
    check_symlinks cfg = false -> hnd cfg target = RListing ti pa rows ->
    exists path names root t, dir_entries (cstr path) = Some names /\ rows = list_rows file_mode path names /\
      root_in_force cfg root /\ Forall good t /\ path = root ++ flat_map (fun c => slash :: c) t.
  Proof.
    intros Hc H. destruct (proj2 (handle_opens cfg target) _ _ _ H) as [_ [path [names [Hf [Hn Hr]]]]].
    destruct (contained_lexical_gen _ _ _ _ Hc Hf) as [root [pre [t [H1 [H2 [_ H4]]]]]]. exists path, names, root, t. auto.
  Qed.

  Theorem served_real cfg target p e :
    canonical_contract canonical -> roots_canonical cfg -> check_symlinks cfg = true ->
    hnd cfg target = RFile p e ->
    exists root rcs below, root_in_force cfg root /\ root = render rcs /\
      p = render (rcs ++ below) /\ Forall good (rcs ++ below).
  Proof.
    intros Hcon Hroots Hc H. destruct (proj1 (handle_opens cfg target) _ _ H) as [f [Hf _]].
    destruct (contained_real_gen _ _ _ _ Hcon Hroots Hc Hf) as [root [rcs [below [lex [H1 [H2 [H3 [H4 _]]]]]]]].
    exists root, rcs, below. auto.
  Qed.

  Theorem listed_real cfg target ti pa rows :
    canonical_contract canonical -> roots_canonical cfg -> check_symlinks cfg = true ->
    hnd cfg target = RListing ti pa rows ->
    exists path names root rcs below, dir_entries (cstr path) = Some names /\ rows = list_rows file_mode path names /\
      root_in_force cfg root /\ root = render rcs /\ path = render (rcs ++ below) /\ Forall good (rcs ++ below).
  Proof.
    intros Hcon Hroots Hc H. destruct (proj2 (handle_opens cfg target) _ _ _ H) as [_ [path [names [Hf [Hn Hr]]]]].
    destruct (contained_real_gen _ _ _ _ Hcon Hroots Hc Hf) as [root [rcs [below [lex [H1 [H2 [H3 [H4 _]]]]]]]].
    exists path, names, root, rcs, below. auto 10.
  Qed.
End Env.

(* ---------- NUL bytes: with a C-string request path the string given to the OS is the checked path itself ---------- *)
Definition nn (c : list N) : Prop := nonul c = true.

Lemma nonul_app a b : nonul (a ++ b) = nonul a && nonul b.
Proof. unfold nonul. apply forallb_app. Qed.

Lemma split_slash_nn l : nn l -> Forall nn (split_slash l).
Proof.
  induction l as [|c r IH]; intros H. repeat constructor.
  unfold nn in *. cbn [nonul forallb] in H. apply andb_true_iff in H. destruct H as [H1 H2].
  cbn [split_slash]. destruct (c =? slash). constructor. reflexivity. apply IH. exact H2.
  specialize (IH H2). destruct (split_slash r) as [|h t]. repeat constructor. cbn [nonul forallb]. rewrite H1. reflexivity.
  inversion IH; subst. constructor. unfold nn in *. cbn [nonul forallb]. rewrite H1. exact H3. assumption.
Qed.

Lemma resolve_rev_nn st cs : Forall nn st -> Forall nn cs -> Forall nn (resolve_rev st cs).
Proof.
  revert st. induction cs as [|c r IH]; intros st Hs Hc. assumption.
  inversion Hc; subst. cbn [resolve_rev]. destruct (is_nil c || is_dot c). apply IH; assumption.
  destruct (is_dotdot c). apply IH. destruct st; cbn [tl]. constructor. inversion Hs; assumption. assumption.
  apply IH. constructor; assumption. assumption.
Qed.

Lemma tl_nn (p : list N) : nn p -> nn (tl p).
Proof. destruct p as [|c r]; intros H. exact H. unfold nn in *. cbn [nonul forallb] in H. apply andb_true_iff in H. apply H. Qed.

Lemma ensure_slash_nn p : nn p -> nn (ensure_slash p).
Proof. intros H. unfold ensure_slash. destruct p as [|c r]. reflexivity. destruct (c =? slash). exact H. unfold nn in *. cbn [nonul forallb]. exact H. Qed.

Lemma flat_nn root t : nn root -> Forall nn t -> nn (root ++ flat_map (fun c => slash :: c) t).
Proof.
  intros Hr Ht. unfold nn. rewrite nonul_app. rewrite Hr. cbn [andb].
  induction Ht as [|c r Hc Hr' IH]. reflexivity. cbn [flat_map]. change ((slash :: c) ++ ?x) with (slash :: c ++ x).
  cbn [nonul forallb]. change (forallb (fun c0 => negb (c0 =? 0)) (c ++ ?x)) with (nonul (c ++ x)). rewrite nonul_app, Hc. exact IH.
Qed.

Theorem lexical_path_is_c_string canonical cfg f path :
  check_symlinks cfg = false -> nn f -> (forall root, root_in_force cfg root -> nn root) ->
  check_in_document_root canonical cfg f = Some path -> cstr path = path.
Proof.
  intros Hc Hf Hroots H. destruct (contained_lexical_gen _ _ _ _ Hc H) as [root [pre [t [H1 [H2 [H3 H4]]]]]].
  apply cstr_id. subst path. apply flat_nn. apply Hroots. assumption.
  assert (Hall : Forall nn (pre ++ t)).
  { rewrite <- H3. unfold resolve. apply Forall_rev. apply resolve_rev_nn. constructor.
    apply split_slash_nn. apply tl_nn. apply ensure_slash_nn. assumption. }
  apply Forall_app in Hall. apply Hall.
Qed.

(* ---------- in the name-space model the checked path is link-free: every proper ancestor is a directory NODE and the
   last component is a directory / regular / other node (never a link), i.e. all symbolic links have been followed ---------- *)
Fixpoint all_dirs (fs : fsdesc) (cur : list (list N)) : Prop :=
  match cur with
  | [] => True
  | c :: r => fs_lookup fs (render (rev (c :: r))) = Some NDir /\ all_dirs fs r
  end.

Definition real_node (fs : fsdesc) (res : list (list N)) : Prop :=
  all_dirs fs res \/
  exists c r, res = c :: r /\ all_dirs fs r /\
    ((exists id, fs_lookup fs (render (rev res)) = Some (NReg id)) \/ (exists m, fs_lookup fs (render (rev res)) = Some (NOther m))).

Lemma all_dirs_tl fs cur : all_dirs fs cur -> all_dirs fs (tl cur).
Proof. destruct cur; cbn [tl all_dirs]. auto. intros [_ H]. exact H. Qed.

Lemma rp_walk_real fs fuel : forall links cur todo res, all_dirs fs cur ->
  rp_walk fs fuel links cur todo = Some res -> real_node fs res.
Proof.
  induction fuel as [|f IH]; intros links cur todo res Hc H; cbn [rp_walk] in H. discriminate.
  destruct todo as [|c rest]. inversion H; subst. left. assumption.
  destruct (is_nil c || is_dot c). eapply IH; eassumption.
  destruct (is_dotdot c). eapply IH. 2: eassumption. apply all_dirs_tl. assumption.
  destruct (fs_lookup fs (render (rev (c :: cur)))) as [[| id | t | m]|] eqn:El. 5: discriminate.
  - eapply IH. 2: eassumption. cbn [all_dirs]. split; assumption.
  - destruct (is_nil rest). 2: discriminate. inversion H; subst. right. exists c, cur. split. reflexivity. split. assumption.
    left. exists id. exact El.
  - destruct links as [|links']. discriminate. destruct t as [|x t']. discriminate. eapply IH. 2: eassumption. destruct (x =? slash). exact I. assumption.
  - destruct (is_nil rest). 2: discriminate. inversion H; subst. right. exists c, cur. split. reflexivity. split. assumption.
    right. exists m. exact El.
Qed.

Theorem fs_checked_path_link_free fs cfg f real :
  check_symlinks cfg = true ->
  check_in_document_root (fs_realpath fs) cfg f = Some real ->
  exists res, real = render (rev res) /\ real_node fs res.
Proof.
  intros Hc H. unfold check_in_document_root in H.
  destruct (match select_alias (aliases cfg) (normalize f) with Some x => x | None => (docroot cfg, normalize f) end)
    as [root normal].
  cbn [fst snd] in H. destruct normal as [|c x]. discriminate.
  destruct (negb (c =? slash)). discriminate. rewrite Hc in H. unfold is_in_root in H.
  destruct (fs_realpath fs (cstr (root ++ slash :: c :: x))) as [q|] eqn:Eq. 2: discriminate.
  destruct (is_file_prefix root q). 2: discriminate. inversion H; subst q.
  unfold fs_realpath in Eq. destruct (cstr (root ++ slash :: c :: x)) as [|a r]. discriminate.
  destruct (a =? slash). 2: discriminate.
  destruct (rp_walk fs (fs_fuel fs (a :: r)) MAXSYMLINKS [] (split_slash r)) as [cur|] eqn:Ew. 2: discriminate.
  inversion Eq; subst. exists cur. split. reflexivity. eapply rp_walk_real. 2: exact Ew. exact I.
Qed.
