(* C13 -- normalize_path: the functional model equals the textbook stack resolution; safety; fixed point *)
From CppcmsV Require Import Base.Tac Base.Sweep C13.Defs.
Local Open Scope N_scope.

Definition slash_free (c : list N) : Prop := Forall (fun x => x <> slash) c.
Definition good (c : list N) : Prop := good_comp c = true.

Lemma slash_free_forallb c : slash_free c <-> forallb (fun x => negb (x =? slash)) c = true.
Proof.
  unfold slash_free. rewrite forallb_forall, Forall_forall. split; intros H x Hx; specialize (H x Hx).
  - apply negb_true_iff. apply N.eqb_neq. exact H.
  - apply negb_true_iff in H. apply N.eqb_neq in H. exact H.
Qed.

Lemma good_slash_free c : good c -> slash_free c.
Proof.
  unfold good, good_comp. intros H. repeat (apply andb_true_iff in H; destruct H as [H ?]).
  apply slash_free_forallb. assumption.
Qed.

Lemma good_intro c : is_nil c = false -> is_dot c = false -> is_dotdot c = false -> slash_free c -> good c.
Proof.
  intros H1 H2 H3 H4. unfold good, good_comp. rewrite H1, H2, H3. cbn [negb andb].
  apply slash_free_forallb. exact H4.
Qed.

Lemma good_inv c : good c -> is_nil c = false /\ is_dot c = false /\ is_dotdot c = false.
Proof.
  unfold good, good_comp. intros H. repeat (apply andb_true_iff in H; destruct H as [H ?]).
  repeat split; apply negb_true_iff; assumption.
Qed.

(* ---------- split_slash / join_slash ---------- *)
Lemma split_slash_nonnil l : split_slash l <> [].
Proof. destruct l as [|c r]; cbn [split_slash]. discriminate. destruct (c =? slash). discriminate. destruct (split_slash r); discriminate. Qed.

Lemma split_slash_cons_noslash c r : c <> slash ->
  exists h t, split_slash r = h :: t /\ split_slash (c :: r) = (c :: h) :: t.
Proof.
  intros Hc. cbn [split_slash]. apply N.eqb_neq in Hc. rewrite Hc.
  destruct (split_slash r) as [|h t] eqn:E. exfalso. exact (split_slash_nonnil r E).
  exists h, t. split; reflexivity.
Qed.

Lemma split_slash_free l : Forall slash_free (split_slash l).
Proof.
  induction l as [|c r IH]; cbn [split_slash].
  - constructor. constructor. constructor.
  - destruct (N.eqb_spec c slash) as [E|E].
    + constructor. constructor. exact IH.
    + destruct (split_slash r) as [|h t]. constructor. constructor. exact E. constructor. constructor.
      inversion IH; subst. constructor. constructor. exact E. assumption. assumption.
Qed.

Lemma split_slash_app a b : split_slash (a ++ slash :: b) = split_slash a ++ split_slash b.
Proof.
  induction a as [|c r IH]; cbn [split_slash app].
  - rewrite N.eqb_refl. reflexivity.
  - destruct (c =? slash).
    + rewrite IH. reflexivity.
    + rewrite IH. destruct (split_slash r) as [|h t] eqn:E. exfalso. exact (split_slash_nonnil r E). reflexivity.
Qed.

Lemma split_slash_of_free c : slash_free c -> split_slash c = [c].
Proof.
  induction c as [|x r IH]; intros H. reflexivity.
  inversion H; subst. cbn [split_slash]. apply N.eqb_neq in H2. rewrite H2. rewrite IH by assumption. reflexivity.
Qed.

Lemma join_slash_cons c r : r <> [] -> join_slash (c :: r) = c ++ slash :: join_slash r.
Proof. destruct r. congruence. reflexivity. Qed.

Lemma split_join cs : Forall slash_free cs -> cs <> [] -> split_slash (join_slash cs) = cs.
Proof.
  induction cs as [|c r IH]; intros H Hn. congruence.
  inversion H; subst. destruct r as [|d r'].
  - cbn [join_slash]. apply split_slash_of_free. assumption.
  - rewrite join_slash_cons by discriminate. rewrite split_slash_app. rewrite IH by (assumption || discriminate).
    rewrite split_slash_of_free by assumption. reflexivity.
Qed.

Lemma join_split l : join_slash (split_slash l) = l.
Proof.
  induction l as [|c r IH]. reflexivity.
  cbn [split_slash]. destruct (N.eqb_spec c slash) as [E|E].
  - subst. rewrite join_slash_cons by apply split_slash_nonnil. rewrite IH. reflexivity.
  - destruct (split_slash r) as [|h t] eqn:Es. exfalso. exact (split_slash_nonnil r Es).
    destruct t as [|h2 t2].
    + cbn [join_slash] in *. rewrite IH. reflexivity.
    + rewrite join_slash_cons by discriminate. rewrite join_slash_cons in IH by discriminate. rewrite <- IH. reflexivity.
Qed.

Lemma join_slash_app a b : a <> [] -> b <> [] -> join_slash (a ++ b) = join_slash a ++ slash :: join_slash b.
Proof.
  induction a as [|c r IH]; intros Ha Hb. congruence.
  destruct r as [|d r'].
  - cbn [app]. rewrite join_slash_cons by assumption. reflexivity.
  - change ((c :: d :: r') ++ b) with (c :: ((d :: r') ++ b)).
    rewrite join_slash_cons by (cbn; discriminate). rewrite IH by (assumption || discriminate).
    rewrite (join_slash_cons c (d :: r')) by discriminate. rewrite <- app_assoc. reflexivity.
Qed.

(* ---------- the output cursor invariant ---------- *)
(* st: stack of kept components, innermost first.  o_of st = reverse of  /c1/c2/.../cn/  *)
Fixpoint o_of (st : list (list N)) : list N :=
  match st with [] => [slash] | c :: r => slash :: rev c ++ o_of r end.

Lemma o_of_head st : exists w, o_of st = slash :: w.
Proof. destruct st; cbn [o_of]; eauto. Qed.

Lemma scan_back_cons x y t : x <> slash -> scan_back (x :: y :: t) = scan_back (y :: t).
Proof.
  intros H. change (scan_back (x :: y :: t)) with (if x =? slash then x :: y :: t else scan_back (y :: t)).
  apply N.eqb_neq in H. rewrite H. reflexivity.
Qed.

Lemma scan_back_skip l w : slash_free l -> scan_back (l ++ slash :: w) = slash :: w.
Proof.
  induction l as [|x l' IH]; intros H; cbn [app].
  - cbn [scan_back]. destruct w. reflexivity. rewrite N.eqb_refl. reflexivity.
  - inversion H; subst.
    assert (Hex : exists y t, l' ++ slash :: w = y :: t) by (destruct l'; cbn [app]; eauto).
    destruct Hex as [y [t Et]]. specialize (IH H3). rewrite Et in *. rewrite scan_back_cons by assumption. exact IH.
Qed.

Lemma back_o_of st : Forall slash_free st -> back (o_of st) = o_of (tl st).
Proof.
  intros H. destruct st as [|c r]; cbn [o_of tl]. reflexivity.
  inversion H; subst. unfold back. destruct (o_of_head r) as [w Hw]. rewrite Hw.
  destruct (rev c ++ slash :: w) eqn:E. destruct (rev c); discriminate.
  rewrite <- E. apply scan_back_skip. unfold slash_free in *. apply Forall_rev. assumption.
Qed.

(* the resolution step on the stack *)
Definition res_step (st : list (list N)) (c : list N) : list (list N) :=
  if is_nil c || is_dot c then st else if is_dotdot c then tl st else c :: st.

Lemma resolve_rev_fold st cs : resolve_rev st cs = fold_left res_step cs st.
Proof. revert st. induction cs as [|c r IH]; intros st. reflexivity. cbn [resolve_rev fold_left]. unfold res_step at 2.
  destruct (is_nil c || is_dot c). apply IH. destruct (is_dotdot c); apply IH. Qed.

Lemma resolve_rev_app st a b : resolve_rev st (a ++ b) = resolve_rev (resolve_rev st a) b.
Proof. rewrite !resolve_rev_fold. apply fold_left_app. Qed.

Lemma res_step_free st c : Forall slash_free st -> slash_free c -> Forall slash_free (res_step st c).
Proof.
  intros Hs Hc. unfold res_step. destruct (is_nil c || is_dot c). assumption.
  destruct (is_dotdot c). destruct st; cbn [tl]. constructor. inversion Hs; assumption. constructor; assumption.
Qed.

Lemma res_step_good st c : Forall good st -> slash_free c -> Forall good (res_step st c).
Proof.
  intros Hs Hc. unfold res_step. destruct (is_nil c || is_dot c) eqn:E1. assumption.
  destruct (is_dotdot c) eqn:E2. destruct st; cbn [tl]. constructor. inversion Hs; assumption.
  constructor. apply orb_false_iff in E1. destruct E1. apply good_intro; assumption. assumption.
Qed.

Lemma resolve_rev_good st cs : Forall good st -> Forall slash_free cs -> Forall good (resolve_rev st cs).
Proof.
  revert st. induction cs as [|c r IH]; intros st Hs Hc. assumption.
  inversion Hc; subst. change (c :: r) with ([c] ++ r). rewrite resolve_rev_app. apply IH. 2: assumption.
  rewrite resolve_rev_fold. cbn [fold_left]. apply res_step_good; assumption.
Qed.

Lemma Forall_good_free st : Forall good st -> Forall slash_free st.
Proof. intros H. eapply Forall_impl. 2: exact H. intros a. apply good_slash_free. Qed.

Lemma step_mid st c : Forall slash_free st -> step (o_of st) c false = o_of (res_step st c).
Proof.
  intros Hs. unfold step, res_step. destruct (is_nil c || is_dot c). reflexivity.
  destruct (is_dotdot c). apply back_o_of. assumption. reflexivity.
Qed.

Lemma norm_comps_cons o d t : t <> [] -> norm_comps o (d :: t) = norm_comps (step o d false) t.
Proof. destruct t. congruence. reflexivity. Qed.

Lemma norm_comps_snoc st cs c : Forall slash_free st -> Forall slash_free cs ->
  norm_comps (o_of st) (cs ++ [c]) = step (o_of (resolve_rev st cs)) c true.
Proof.
  revert st. induction cs as [|d r IH]; intros st Hs Hc. reflexivity.
  inversion Hc; subst. cbn [app]. rewrite norm_comps_cons by (destruct r; discriminate).
  rewrite step_mid by assumption. rewrite IH. 3: assumption. 2: apply res_step_free; assumption.
  cbn [resolve_rev]. unfold res_step. destruct (is_nil d || is_dot d). reflexivity. destruct (is_dotdot d); reflexivity.
Qed.

(* closing the output: what remains after the trailing-slash adjustment, reversed back *)
Lemma rev_o_of st : rev (o_of st) = slash :: flat_map (fun c => c ++ [slash]) (rev st).
Proof.
  induction st as [|c r IH]; cbn [o_of]. reflexivity.
  cbn [rev]. rewrite rev_app_distr, rev_involutive, IH. rewrite flat_map_app. cbn [flat_map app]. rewrite app_nil_r.
  cbn [app]. rewrite <- !app_assoc. reflexivity.
Qed.

Lemma join_slash_snoc l d : join_slash (l ++ [d]) = flat_map (fun c => c ++ [slash]) l ++ d.
Proof.
  induction l as [|c r IH]. reflexivity.
  cbn [app]. rewrite join_slash_cons by (destruct r; discriminate). rewrite IH. cbn [flat_map]. rewrite <- !app_assoc. reflexivity.
Qed.

Lemma closed_top d r : rev (rev d ++ o_of r) = render (rev (d :: r)).
Proof.
  rewrite rev_app_distr, rev_involutive, rev_o_of. unfold render. cbn [rev app]. rewrite join_slash_snoc. reflexivity.
Qed.

Lemma strip_o_of st : Forall good st -> rev (strip_last_slash (o_of st)) = render (rev st).
Proof.
  intros H. destruct st as [|d r]; cbn [o_of]. reflexivity.
  unfold strip_last_slash. destruct (o_of_head r) as [w Hw].
  destruct (rev d ++ o_of r) eqn:E. rewrite Hw in E. destruct (rev d); discriminate.
  rewrite N.eqb_refl. rewrite <- E. apply closed_top.
Qed.

Lemma strip_good c st : good c -> strip_last_slash (rev c ++ o_of st) = rev c ++ o_of st.
Proof.
  intros H. pose proof (good_slash_free _ H) as Hf. destruct (good_inv _ H) as [Hn _].
  destruct c as [|x c'] using rev_ind. discriminate. rewrite rev_app_distr. cbn [rev app].
  unfold strip_last_slash. destruct (rev c' ++ o_of st) eqn:E. reflexivity.
  apply Forall_app in Hf. destruct Hf as [_ Hx]. inversion Hx; subst. apply N.eqb_neq in H2. rewrite H2. reflexivity.
Qed.

Theorem normalize_resolves_gen p :
  normalize p = render (resolve (split_slash (tl (ensure_slash p)))).
Proof.
  unfold normalize, resolve. set (cs := split_slash (tl (ensure_slash p))).
  assert (Hf : Forall slash_free cs) by apply split_slash_free.
  assert (Hn : cs <> []) by apply split_slash_nonnil.
  destruct cs as [|c0 r0] using rev_ind. congruence. clear IHr0.
  apply Forall_app in Hf. destruct Hf as [Hf Hc]. inversion Hc; subst.
  change [slash] with (o_of []). rewrite norm_comps_snoc by (constructor || assumption).
  rewrite resolve_rev_app. set (st := resolve_rev [] r0).
  assert (Hg : Forall good st) by (apply resolve_rev_good; [constructor|assumption]).
  cbn [resolve_rev]. unfold step.
  destruct (is_nil c0 || is_dot c0) eqn:E1.
  - apply strip_o_of. assumption.
  - destruct (is_dotdot c0) eqn:E2.
    + rewrite back_o_of by (apply Forall_good_free; assumption). apply strip_o_of.
      destruct st; cbn [tl]. constructor. inversion Hg; assumption.
    + apply orb_false_iff in E1. destruct E1 as [E0 E1].
      assert (Hgc : good c0) by (apply good_intro; assumption).
      rewrite strip_good by assumption. apply closed_top.
Qed.

(* safety: the result is render of good components *)
Lemma resolve_good cs : Forall slash_free cs -> Forall good (resolve cs).
Proof. intros H. unfold resolve. apply Forall_rev. apply resolve_rev_good. constructor. assumption. Qed.

Theorem normalize_safe_gen p : exists cs, normalize p = render cs /\ Forall good cs.
Proof.
  exists (resolve (split_slash (tl (ensure_slash p)))). split. apply normalize_resolves_gen.
  apply resolve_good. apply split_slash_free.
Qed.

Lemma resolve_rev_all_good st cs : Forall good cs -> resolve_rev st cs = rev cs ++ st.
Proof.
  revert st. induction cs as [|c r IH]; intros st H. reflexivity.
  inversion H; subst. cbn [resolve_rev]. destruct (good_inv _ H2) as [E1 [E2 E3]]. rewrite E1, E2, E3. cbn [orb].
  rewrite IH by assumption. cbn [rev]. rewrite <- app_assoc. reflexivity.
Qed.

Lemma normalize_render cs : Forall good cs -> normalize (render cs) = render cs.
Proof.
  intros H. rewrite normalize_resolves_gen.
  assert (E : tl (ensure_slash (render cs)) = join_slash cs) by reflexivity.
  rewrite E. clear E.
  destruct cs as [|c r].
  - reflexivity.
  - rewrite split_join; [|apply Forall_good_free; assumption|discriminate].
    unfold resolve. rewrite resolve_rev_all_good by assumption. rewrite app_nil_r, rev_involutive. reflexivity.
Qed.

Theorem normalize_idempotent p : normalize (normalize p) = normalize p.
Proof. destruct (normalize_safe_gen p) as [cs [E H]]. rewrite E. apply normalize_render. assumption. Qed.

(* byte-level reading of the safety statement *)
Lemma render_components cs : Forall good cs -> cs <> [] -> split_slash (tl (render cs)) = cs.
Proof. intros H Hn. unfold render. cbn [tl]. apply split_join. apply Forall_good_free. assumption. assumption. Qed.

Lemma normalize_safe_full p : exists cs,
  normalize p = render cs /\ Forall (fun c => good_comp c = true) cs /\ normalize (normalize p) = normalize p.
Proof. destruct (normalize_safe_gen p) as [cs [E H]]. exists cs. split. exact E. split. exact H. apply normalize_idempotent. Qed.
