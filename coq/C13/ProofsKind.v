(* C13 -- which kinds of file-system objects pass the two st_mode tests of file_server::main, and: only regular nodes are streamed *)
From CppcmsV Require Import Base.Tac Base.Sweep C15.Defs C13.Defs C13.ProofsNorm C13.ProofsRoot C13.ProofsMain.
Local Open Scope N_scope.

Lemma has_bit_ftype_dir m : has_bit m S_IFDIR = has_bit (ftype m) S_IFDIR.
Proof. unfold has_bit, ftype. rewrite <- N.land_assoc. reflexivity. Qed.
Lemma has_bit_ftype_reg m : has_bit m S_IFREG = has_bit (ftype m) S_IFREG.
Proof. unfold has_bit, ftype. rewrite <- N.land_assoc. reflexivity. Qed.

(* main tests BITS, not the type field: (s & S_IFDIR) holds for directories, block devices and sockets; (s & S_IFREG) holds for
   regular files, symbolic links (never reported by stat) and sockets; FIFOs and character devices pass neither *)
Theorem mode_tests_by_type m : In (ftype m) posix_types ->
  (has_bit m S_IFDIR = true <-> In (ftype m) [S_IFDIR; S_IFBLK; S_IFSOCK]) /\
  (has_bit m S_IFREG = true <-> In (ftype m) [S_IFREG; S_IFLNK; S_IFSOCK]).
Proof.
  intros H. rewrite has_bit_ftype_dir, has_bit_ftype_reg. unfold posix_types in H.
  repeat (destruct H as [H|H]; [rewrite <- H; vm_compute; split; split; intros X; try discriminate X; try tauto;
    repeat (destruct X as [X|X]; [discriminate X|]); try contradiction |]).
  destruct H.
Qed.

Section Env.
  Variable canonical : list N -> option (list N).
  Variable file_mode : list N -> N.
  Variable dir_entries : list N -> option (list (list N)).
  Variable can_open : list N -> bool.

  (* whatever kind of object the checked path names: if main streams it, its mode passed the S_IFREG bit test, so among the POSIX
     types it is a regular file, a symbolic link (stat never reports one) or a socket (open() refuses sockets: ENXIO) - never a
     FIFO, a character or block device or a directory; and the stream was opened *)
  Theorem main_streams_by_type cfg f p e :
    fs_main canonical file_mode dir_entries can_open cfg f = RFile p e ->
    In (ftype (file_mode (cstr p))) posix_types ->
    In (ftype (file_mode (cstr p))) [S_IFREG; S_IFLNK; S_IFSOCK] /\ can_open (cstr p) = true.
  Proof.
    intros H Ht. apply main_serves in H. destruct H as [_ [Hreg Hopen]]. split.
    - apply (proj2 (mode_tests_by_type _ Ht)). exact Hreg.
    - exact Hopen.
  Qed.

  (* an object that is not opened: mode 0 (stat failed), FIFO, character device - main answers 404 or treats it as a directory, it
     never reaches open() for it *)
  Theorem main_never_streams_fifo_or_chardev cfg f p e :
    fs_main canonical file_mode dir_entries can_open cfg f = RFile p e ->
    file_mode (cstr p) <> 0 /\ ftype (file_mode (cstr p)) <> S_IFIFO /\ ftype (file_mode (cstr p)) <> S_IFCHR /\
    ftype (file_mode (cstr p)) <> S_IFDIR /\ ftype (file_mode (cstr p)) <> S_IFBLK.
  Proof.
    intros H. apply main_serves in H. destruct H as [_ [Hreg _]]. rewrite has_bit_ftype_reg in Hreg.
    repeat split; intros E; try (rewrite E in Hreg; vm_compute in Hreg; discriminate Hreg).
  Qed.
End Env.

(* in the name-space model, for every name space and every kind of node (directory, regular file, link, other with ANY mode):
   what is streamed is a regular-file node *)
Theorem model_streams_only_regular_nodes fs cfg target p e :
  fs_handle fs cfg target = RFile p e -> exists id, fs_node fs (cstr p) = Some (NReg id).
Proof.
  intros H. unfold fs_handle, handle in H. apply main_serves in H. destruct H as [_ [_ Hopen]].
  unfold fs_can_open in Hopen. destruct (fs_node fs (cstr p)) as [[| id | t | m]|]; try discriminate Hopen.
  exists id. reflexivity.
Qed.
