(* C13 -- is_file_prefix, alias selection, check_in_document_root: lexical and real containment *)
From CppcmsV Require Import Base.Tac Base.Sweep C15.Defs C13.Defs C13.ProofsNorm.
Local Open Scope N_scope.

(* ---------- strip_prefix ---------- *)
Lemma strip_prefix_some p f r : strip_prefix p f = Some r -> f = p ++ r.
Proof.
  revert f. induction p as [|a p IH]; intros f H; cbn [strip_prefix] in H.
  - inversion H. reflexivity.
  - destruct f as [|b f]. discriminate. destruct (N.eqb_spec a b) as [E|E]. 2: discriminate.
    subst. apply IH in H. subst. reflexivity.
Qed.

Lemma strip_prefix_app p r : strip_prefix p (p ++ r) = Some r.
Proof. induction p as [|a p IH]; cbn [strip_prefix app]. destruct r; reflexivity. rewrite N.eqb_refl. exact IH. Qed.

(* ---------- facts about render ---------- *)
Lemma last_app_nonnil (a b : list N) d : b <> [] -> last (a ++ b) d = last b d.
Proof.
  intros Hb. induction a as [|x a IH]. reflexivity.
  cbn [app]. assert (Hex : exists y t, a ++ b = y :: t).
  { destruct a; cbn [app]. destruct b. congruence. eauto. eauto. }
  destruct Hex as [y [t Et]]. rewrite Et in *. exact IH.
Qed.

Lemma good_last c : good c -> exists c' x, c = c' ++ [x] /\ x <> slash.
Proof.
  intros H. pose proof (good_slash_free _ H) as Hf. destruct (good_inv _ H) as [Hn _].
  destruct c as [|x c'] using rev_ind. discriminate.
  exists c', x. split. reflexivity. apply Forall_app in Hf. destruct Hf as [_ Hx]. inversion Hx; assumption.
Qed.

Lemma last_render cs : Forall good cs -> cs <> [] -> last (render cs) 0 <> slash.
Proof.
  intros H Hn. destruct cs as [|d l] using rev_ind. congruence. clear IHl.
  apply Forall_app in H. destruct H as [_ Hd]. inversion Hd; subst.
  destruct (good_last _ H1) as [c' [x [E Hx]]]. subst.
  unfold render. rewrite join_slash_snoc. change (slash :: ?a ++ c' ++ [x]) with ((slash :: a) ++ c' ++ [x]).
  rewrite app_assoc. rewrite last_last. exact Hx.
Qed.

Lemma join_nonnil cs : Forall good cs -> cs <> [] -> join_slash cs <> [].
Proof.
  intros H Hn. destruct cs as [|c r]. congruence. inversion H; subst.
  destruct (good_inv _ H2) as [E _]. destruct c. discriminate.
  destruct r; cbn [join_slash]; discriminate.
Qed.

Lemma render_inj a b : Forall good a -> Forall good b -> render a = render b -> a = b.
Proof.
  intros Ha Hb E. unfold render in E. inversion E as [E'].
  destruct a as [|x a'], b as [|y b'].
  - reflexivity.
  - exfalso. symmetry in E'. revert E'. apply join_nonnil. assumption. discriminate.
  - exfalso. revert E'. apply join_nonnil. assumption. discriminate.
  - rewrite <- (split_join (x :: a')), <- (split_join (y :: b')); try (apply Forall_good_free; assumption); try discriminate.
    rewrite E'. reflexivity.
Qed.

Lemma render_app a b : a <> [] -> b <> [] -> render (a ++ b) = render a ++ render b.
Proof. intros Ha Hb. unfold render. rewrite join_slash_app by assumption. reflexivity. Qed.

Lemma render_flat t : t <> [] -> render t = flat_map (fun c => slash :: c) t.
Proof.
  induction t as [|c r IH]; intros H. congruence.
  destruct r as [|d r'].
  - cbn. rewrite app_nil_r. reflexivity.
  - unfold render in *. rewrite join_slash_cons by discriminate.
    change (flat_map (fun c0 => slash :: c0) (c :: d :: r')) with ((slash :: c) ++ flat_map (fun c0 => slash :: c0) (d :: r')).
    rewrite <- IH by discriminate. reflexivity.
Qed.

(* a tail of a safe path that begins at a slash is the rendering of a tail of its components *)
Lemma suffix_components cs u r' : Forall good cs -> u ++ slash :: r' = render cs ->
  exists pre t, cs = pre ++ t /\ slash :: r' = render t /\ (u = [] \/ (u = render pre /\ pre <> [])).
Proof.
  intros Hg E. destruct u as [|x u'].
  - exists [], cs. split. reflexivity. split. exact E. left. reflexivity.
  - unfold render in E. cbn [app] in E. inversion E as [[Ex E']]. subst x.
    assert (Hn : cs <> []). { intros ->. cbn in E'. destruct u'; discriminate. }
    exists (split_slash u'), (split_slash r'). split.
    + rewrite <- split_slash_app, E'. symmetry. apply split_join. apply Forall_good_free. assumption. assumption.
    + split. unfold render. rewrite join_split. reflexivity.
      right. split. unfold render. rewrite join_split. reflexivity. apply split_slash_nonnil.
Qed.

(* ---------- is_file_prefix on canonical paths = component-wise prefix ---------- *)
Lemma is_file_prefix_components rcs cs : Forall good rcs -> Forall good cs ->
  is_file_prefix (render rcs) (render cs) = true -> exists t, cs = rcs ++ t.
Proof.
  intros Hr Hc H. destruct rcs as [|r0 rr]. exists cs. reflexivity.
  unfold is_file_prefix in H. destruct (strip_prefix (render (r0 :: rr)) (render cs)) as [rest|] eqn:Es. 2: discriminate.
  apply strip_prefix_some in Es.
  assert (Hl : last (render (r0 :: rr)) 0 =? slash = false).
  { apply N.eqb_neq. apply last_render. assumption. discriminate. }
  rewrite Hl in H. cbn [is_nil render orb] in H.
  destruct rest as [|c r'].
  - rewrite app_nil_r in Es. apply render_inj in Es; try assumption. subst. exists []. rewrite app_nil_r. reflexivity.
  - apply N.eqb_eq in H. subst c. symmetry in Es.
    destruct (suffix_components _ _ _ Hc Es) as [pre [t [E1 [E2 [E3|[E3 E4]]]]]]. discriminate.
    subst cs. apply Forall_app in Hc. destruct Hc as [Hp Ht].
    apply render_inj in E3; try assumption. subst pre. exists t. reflexivity.
Qed.

Lemma is_file_prefix_components_conv rcs t : Forall good (rcs ++ t) ->
  is_file_prefix (render rcs) (render (rcs ++ t)) = true.
Proof.
  intros Hg. apply Forall_app in Hg. destruct Hg as [Hr Ht]. unfold is_file_prefix.
  destruct rcs as [|r0 rr].
  - cbn [app]. unfold render at 1 2. cbn [strip_prefix]. rewrite N.eqb_refl. cbn [strip_prefix]. reflexivity.
  - assert (Hl : last (render (r0 :: rr)) 0 =? slash = false).
    { apply N.eqb_neq. apply last_render. assumption. discriminate. }
    destruct t as [|t0 tt].
    + rewrite app_nil_r. rewrite <- (app_nil_r (render (r0 :: rr))) at 2. rewrite strip_prefix_app. rewrite Hl. reflexivity.
    + rewrite render_app by discriminate. rewrite strip_prefix_app. rewrite Hl. cbn [is_nil render orb]. apply N.eqb_refl.
Qed.

(* ---------- alias selection ---------- *)
Lemma skipn_length_app (u r : list N) : skipn (length u) (u ++ r) = r.
Proof. induction u as [|a u IH]. reflexivity. exact IH. Qed.

Lemma select_alias_some al n target rest : select_alias al n = Some (target, rest) ->
  exists u r0, In (u, target) al /\ is_file_prefix u n = true /\ n = u ++ r0 /\
               rest = (if is_nil r0 then [slash] else r0).
Proof.
  induction al as [|[u tg] al IH]; intros H; cbn [select_alias] in H. discriminate.
  destruct (is_file_prefix u n) eqn:E.
  - inversion H; subst. unfold is_file_prefix in E. destruct (strip_prefix u n) as [r0|] eqn:Es. 2: discriminate.
    apply strip_prefix_some in Es. subst n. exists u, r0. split. left. reflexivity. split.
    unfold is_file_prefix. rewrite strip_prefix_app. exact E. split. reflexivity. rewrite skipn_length_app. reflexivity.
  - destruct (IH H) as [u' [r0 [Hin Hrest]]]. exists u', r0. split. right. exact Hin. exact Hrest.
Qed.

Lemma select_alias_none al n : select_alias al n = None -> forall u tg, In (u, tg) al -> is_file_prefix u n = false.
Proof.
  induction al as [|[u tg] al IH]; intros H u' tg' Hin. destruct Hin.
  cbn [select_alias] in H. destruct (is_file_prefix u n) eqn:E. discriminate.
  destruct Hin as [Hin|Hin]. inversion Hin; subst. exact E. eapply IH; eassumption.
Qed.

(* alias URLs as the constructor leaves them: rendering of good components, at least one *)
Definition url_ok (u : list N) : Prop := exists ucs, u = render ucs /\ Forall good ucs /\ ucs <> [].

(* alias_component: with well-formed URLs an alias is selected exactly on a whole-component prefix,
   and the first such alias wins *)
Lemma alias_component_some al cs target rest :
  Forall (fun a => url_ok (fst a)) al -> Forall good cs ->
  select_alias al (render cs) = Some (target, rest) ->
  exists ucs t, In (render ucs, target) al /\ cs = ucs ++ t /\ rest = render t.
Proof.
  intros Hal Hg H. destruct (select_alias_some _ _ _ _ H) as [u [r0 [Hin [Hp [En Er]]]]].
  rewrite Forall_forall in Hal. destruct (Hal _ Hin) as [ucs [Eu [Hu Hne]]]. cbn [fst] in Eu. subst u.
  destruct (is_file_prefix_components _ _ Hu Hg Hp) as [t Et]. exists ucs, t. split. exact Hin. split. exact Et.
  subst cs. destruct t as [|t0 tt].
  - rewrite app_nil_r in En. rewrite <- (app_nil_r (render ucs)) in En at 1. apply app_inv_head in En. subst r0. rewrite Er. reflexivity.
  - rewrite render_app in En by (assumption || discriminate). apply app_inv_head in En. subst r0. rewrite Er. reflexivity.
Qed.

Lemma alias_component_none al cs :
  Forall (fun a => url_ok (fst a)) al -> Forall good cs ->
  select_alias al (render cs) = None ->
  forall ucs tg t, In (render ucs, tg) al -> Forall good ucs -> cs <> ucs ++ t.
Proof.
  intros Hal Hg H ucs tg t Hin Hu E. pose proof (select_alias_none _ _ H _ _ Hin) as Hf.
  subst cs. rewrite is_file_prefix_components_conv in Hf by assumption. discriminate.
Qed.

(* ---------- check_in_document_root ---------- *)
Definition root_in_force (cfg : config) (root : list N) : Prop :=
  root = docroot cfg \/ In root (map snd (aliases cfg)).

Lemma strip_trailing_render root t : Forall good t ->
  strip_trailing_sep (root ++ render t) = root ++ flat_map (fun c => slash :: c) t.
Proof.
  intros Hg. unfold strip_trailing_sep. destruct (root ++ render t) eqn:E. destruct root; discriminate.
  rewrite <- E. clear E. destruct t as [|t0 tt].
  - unfold render. cbn [join_slash flat_map]. rewrite last_last, N.eqb_refl, removelast_last, app_nil_r. reflexivity.
  - rewrite last_app_nonnil by (unfold render; discriminate).
    assert (Hl : last (render (t0 :: tt)) 0 =? slash = false).
    { apply N.eqb_neq. apply last_render. assumption. discriminate. }
    rewrite Hl. rewrite render_flat by discriminate. reflexivity.
Qed.

Section Env.
  Variable canonical : list N -> option (list N).
  Variable file_mode : list N -> N.
  Variable dir_entries : list N -> option (list (list N)).
  Variable can_open : list N -> bool.

  (* the (root, path below the root) pair chosen by check_in_document_root, whenever it gets past its
     slash test: root is the document root or an alias target and the path below it is the rendering of a
     TAIL of the resolved request components -- for arbitrary alias URL strings *)
  Lemma chosen_root cfg f root normal x :
    (match select_alias (aliases cfg) (normalize f) with Some x => x | None => (docroot cfg, normalize f) end) = (root, normal) ->
    normal = slash :: x ->
    root_in_force cfg root /\
    exists pre t, resolve (split_slash (tl (ensure_slash f))) = pre ++ t /\ Forall good t /\ normal = render t.
  Proof.
    intros E Hn. rewrite normalize_resolves_gen in E. set (cs := resolve (split_slash (tl (ensure_slash f)))) in *.
    assert (Hg : Forall good cs) by (apply resolve_good; apply split_slash_free).
    destruct (select_alias (aliases cfg) (render cs)) as [[tg rest]|] eqn:Es.
    - inversion E; subst tg rest. destruct (select_alias_some _ _ _ _ Es) as [u [r0 [Hin [_ [En Er]]]]].
      split. right. apply in_map_iff. exists (u, root). split. reflexivity. exact Hin.
      destruct r0 as [|c r'].
      + cbn [is_nil] in Er. exists cs, []. split. rewrite app_nil_r. reflexivity. split. constructor. rewrite Er. reflexivity.
      + cbn [is_nil] in Er. rewrite Er in Hn. inversion Hn; subst c. symmetry in En.
        destruct (suffix_components _ _ _ Hg En) as [pre [t [E1 [E2 _]]]].
        exists pre, t. split. exact E1. split. rewrite E1 in Hg. apply Forall_app in Hg. apply Hg. rewrite Er. exact E2.
    - inversion E; subst. split. left. reflexivity. exists [], cs. split. reflexivity. split. assumption. reflexivity.
  Qed.

  (* contained_lexical: with check_symlink off the path handed to stat/open is root ++ /c1/.../cn with good
     components only: every step descends, nothing climbs *)
  Theorem contained_lexical_gen cfg f path :
    check_symlinks cfg = false ->
    check_in_document_root canonical cfg f = Some path ->
    exists root pre t, root_in_force cfg root /\ Forall good t /\
      resolve (split_slash (tl (ensure_slash f))) = pre ++ t /\
      path = root ++ flat_map (fun c => slash :: c) t.
  Proof.
    intros Hc H. unfold check_in_document_root in H.
    destruct (match select_alias (aliases cfg) (normalize f) with Some x => x | None => (docroot cfg, normalize f) end)
      as [root normal] eqn:E.
    cbn [fst snd] in H. destruct normal as [|c x]. discriminate.
    destruct (N.eqb_spec c slash) as [Ec|Ec]; cbn [negb] in H. 2: discriminate. subst c.
    rewrite Hc in H. inversion H; subst path.
    destruct (chosen_root _ _ _ _ _ E eq_refl) as [Hr [pre [t [E1 [Hg E2]]]]].
    exists root, pre, t. split. assumption. split. assumption. split. assumption.
    rewrite E2. apply strip_trailing_render. assumption.
  Qed.

  (* contained_real: with check_symlink on, under the realpath contract, the path handed to stat/open is a
     canonical path that has the canonical root in force as a component-wise prefix, and it is the
     canonicalisation of root/lexically-safe-path *)
  Definition canonical_contract : Prop :=
    forall p q, canonical p = Some q -> exists cs, q = render cs /\ Forall good cs.
  Definition roots_canonical (cfg : config) : Prop :=
    forall root, root_in_force cfg root -> exists rcs, root = render rcs /\ Forall good rcs.

  Theorem contained_real_gen cfg f real :
    canonical_contract -> roots_canonical cfg ->
    check_symlinks cfg = true ->
    check_in_document_root canonical cfg f = Some real ->
    exists root rcs below lex, root_in_force cfg root /\ root = render rcs /\
      real = render (rcs ++ below) /\ Forall good (rcs ++ below) /\
      Forall good lex /\ canonical (cstr (root ++ slash :: render lex)) = Some real.
  Proof.
    intros Hcon Hroots Hc H. unfold check_in_document_root in H.
    destruct (match select_alias (aliases cfg) (normalize f) with Some x => x | None => (docroot cfg, normalize f) end)
      as [root normal] eqn:E.
    cbn [fst snd] in H. destruct normal as [|c x]. discriminate.
    destruct (N.eqb_spec c slash) as [Ec|Ec]; cbn [negb] in H. 2: discriminate. subst c.
    rewrite Hc in H. unfold is_in_root in H.
    destruct (canonical (cstr (root ++ slash :: slash :: x))) as [q|] eqn:Eq. 2: discriminate.
    destruct (is_file_prefix root q) eqn:Ep. 2: discriminate. inversion H; subst q.
    destruct (chosen_root _ _ _ _ _ E eq_refl) as [Hr [pre [t [E1 [Hg E2]]]]].
    destruct (Hroots _ Hr) as [rcs [Er Hrg]]. destruct (Hcon _ _ Eq) as [cs [Ecs Hcs]].
    subst root real. destruct (is_file_prefix_components _ _ Hrg Hcs Ep) as [below Eb]. subst cs.
    exists (render rcs), rcs, below, t. repeat split; try assumption. rewrite <- E2. exact Eq.
  Qed.

  (* ---------- main: what reaches open / opendir ---------- *)
  Lemma serve_file path s p e : serve can_open path s = RFile p e ->
    p = path /\ has_bit s S_IFREG = true /\ can_open (cstr path) = true.
  Proof.
    unfold serve. destruct (has_bit s S_IFREG); cbn [negb]. 2: discriminate.
    destruct (can_open (cstr path)). 2: discriminate. intros H. inversion H. auto.
  Qed.
  Lemma serve_not_listing path s a b c : serve can_open path s <> RListing a b c.
  Proof. unfold serve. destruct (negb (has_bit s S_IFREG)). discriminate. destruct (can_open (cstr path)); discriminate. Qed.
  Lemma list_dir_not_file url path p e : list_dir file_mode dir_entries url path <> RFile p e.
  Proof. unfold list_dir. destruct (dir_entries (cstr path)); discriminate. Qed.

  Theorem main_serves cfg f p e :
    fs_main canonical file_mode dir_entries can_open cfg f = RFile p e ->
    (check_in_document_root canonical cfg f = Some p \/
     check_in_document_root canonical cfg (f ++ slash :: index_file cfg) = Some p) /\
    has_bit (file_mode (cstr p)) S_IFREG = true /\ can_open (cstr p) = true.
  Proof.
    unfold fs_main. destruct (check_in_document_root canonical cfg f) as [path|] eqn:E1. 2: discriminate.
    destruct (has_bit (file_mode (cstr path)) S_IFDIR).
    - destruct (check_in_document_root canonical cfg (f ++ slash :: index_file cfg)) as [p2|] eqn:E2.
      + destruct (negb (is_nil f) && negb (last f 0 =? slash) && (has_bit (file_mode (cstr p2)) S_IFREG || listing cfg)). discriminate.
        destruct (has_bit (file_mode (cstr p2)) S_IFREG) eqn:E3.
        * intros H. apply serve_file in H. destruct H as [-> [H1 H2]]. split. right. reflexivity. split; assumption.
        * destruct (listing cfg). intros H. exfalso. revert H. apply list_dir_not_file. discriminate.
      + destruct (negb (is_nil f) && negb (last f 0 =? slash) && (false || listing cfg)). discriminate.
        destruct (listing cfg). intros H. exfalso. revert H. apply list_dir_not_file. discriminate.
    - intros H. apply serve_file in H. destruct H as [-> [H1 H2]]. split. left. reflexivity. split; assumption.
  Qed.

  Theorem main_lists cfg f title parent rows :
    fs_main canonical file_mode dir_entries can_open cfg f = RListing title parent rows ->
    listing cfg = true /\ title = escape f /\
    exists path names, check_in_document_root canonical cfg f = Some path /\
      has_bit (file_mode (cstr path)) S_IFDIR = true /\
      dir_entries (cstr path) = Some names /\ rows = list_rows file_mode path names.
  Proof.
    unfold fs_main. destruct (check_in_document_root canonical cfg f) as [path|] eqn:E1. 2: discriminate.
    destruct (has_bit (file_mode (cstr path)) S_IFDIR) eqn:Ed.
    2: { intros H. exfalso. revert H. apply serve_not_listing. }
    assert (L : forall u, list_dir file_mode dir_entries u path = RListing title parent rows ->
                title = escape u /\ exists names, dir_entries (cstr path) = Some names /\ rows = list_rows file_mode path names).
    { intros u. unfold list_dir. destruct (dir_entries (cstr path)) as [names|]. 2: discriminate.
      intros H. inversion H. split. reflexivity. exists names. split; reflexivity. }
    destruct (check_in_document_root canonical cfg (f ++ slash :: index_file cfg)) as [p2|] eqn:E2.
    - destruct (negb (is_nil f) && negb (last f 0 =? slash) && (has_bit (file_mode (cstr p2)) S_IFREG || listing cfg)). discriminate.
      destruct (has_bit (file_mode (cstr p2)) S_IFREG) eqn:E3.
      + intros H. exfalso. revert H. apply serve_not_listing.
      + destruct (listing cfg) eqn:El. 2: discriminate. intros H. destruct (L _ H) as [Ht [names [Hn Hr]]].
        split. reflexivity. split. exact Ht. exists path, names. auto.
    - destruct (negb (is_nil f) && negb (last f 0 =? slash) && (false || listing cfg)). discriminate.
      destruct (listing cfg) eqn:El. 2: discriminate. intros H. destruct (L _ H) as [Ht [names [Hn Hr]]].
      split. reflexivity. split. exact Ht. exists path, names. auto.
  Qed.
  Lemma serve_not_redirect path s l : serve can_open path s <> RRedirect l.
  Proof. unfold serve. destruct (negb (has_bit s S_IFREG)). discriminate. destruct (can_open (cstr path)); discriminate. Qed.
  Lemma list_dir_not_redirect url path l : list_dir file_mode dir_entries url path <> RRedirect l.
  Proof. unfold list_dir. destruct (dir_entries (cstr path)); discriminate. Qed.

  Theorem main_redirects cfg f loc :
    fs_main canonical file_mode dir_entries can_open cfg f = RRedirect loc ->
    loc = safe_location f /\ last f 0 <> slash /\
    exists path, check_in_document_root canonical cfg f = Some path /\ has_bit (file_mode (cstr path)) S_IFDIR = true.
  Proof.
    unfold fs_main. destruct (check_in_document_root canonical cfg f) as [path|] eqn:E1. 2: discriminate.
    destruct (has_bit (file_mode (cstr path)) S_IFDIR) eqn:Ed.
    2: { intros H. exfalso. revert H. apply serve_not_redirect. }
    set (idx := check_in_document_root canonical cfg (f ++ slash :: index_file cfg)).
    set (hi := match idx with Some _ => has_bit match idx with Some p2 => file_mode (cstr p2) | None => 0 end S_IFREG | None => false end).
    destruct (negb (is_nil f) && negb (last f 0 =? slash) && (hi || listing cfg)) eqn:Ec.
    - intros H. inversion H. split. reflexivity. split.
      + apply andb_true_iff in Ec. destruct Ec as [Ec _]. apply andb_true_iff in Ec. destruct Ec as [_ Ec].
        apply negb_true_iff in Ec. apply N.eqb_neq. exact Ec.
      + exists path. split; reflexivity || assumption.
    - destruct hi. destruct idx. intros H. exfalso. revert H. apply serve_not_redirect. discriminate.
      destruct (listing cfg). intros H. exfalso. revert H. apply list_dir_not_redirect. discriminate.
  Qed.
End Env.

Lemma is_file_prefix_iff rcs cs : Forall good rcs -> Forall good cs ->
  (is_file_prefix (render rcs) (render cs) = true <-> exists t, cs = rcs ++ t).
Proof.
  intros Hr Hc. split. apply is_file_prefix_components; assumption.
  intros [t E]. subst cs. apply is_file_prefix_components_conv. assumption.
Qed.
