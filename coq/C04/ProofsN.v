(* C04 proofs, part N: the numeric character reference conversion (DefsN.v) is exact for digit strings of any length. *)
From CppcmsV Require Import Base.Tac Base.Sweep C04.Defs C04.DefsN.
Local Open Scope N_scope.

(* saturation at LONG_MAX does not change the verdict: everything above 0x10FFFF is refused *)
Lemma cp_ok_saturated v : cp_ok (N.min v LONG_MAX) = cp_ok v.
Proof.
  destruct (N.le_gt_cases v LONG_MAX) as [H|H].
  - rewrite N.min_l by exact H. reflexivity.
  - rewrite N.min_r by lia. unfold cp_ok, LONG_MAX.
    replace (1114111 <? v) with true by (symmetry; apply N.ltb_lt; unfold LONG_MAX in H; lia). reflexivity.
Qed.

Lemma strtol_exact base ds : cp_ok (strtol_sat base ds) = cp_ok (num_val base ds).
Proof. apply cp_ok_saturated. Qed.

Theorem entity_conversion_exact text : parse_entity_c text = parse_entity text.
Proof.
  unfold parse_entity_c, parse_entity. destruct (removelast (tl text)) as [|c r]; [reflexivity|].
  destruct (c =? 35); [|reflexivity]. destruct r as [|d r2]; [reflexivity|].
  rewrite !strtol_exact. reflexivity.
Qed.

(* a numeric reference &#<digits>; / &#x<hexdigits>; is recognised iff the MATHEMATICAL value of the digit string - of any
   length - is a permitted code point *)
Lemma body_of_reference pre ds : removelast (tl (38 :: pre ++ ds ++ [59])) = pre ++ ds.
Proof. cbn [tl]. rewrite app_assoc. apply removelast_last. Qed.

Theorem decimal_reference_iff ds : ds <> [] -> forallb is_digit ds = true ->
  (fst (parse_entity_c (38 :: [35] ++ ds ++ [59])) = NumEntity <-> cp_ok (num_val 10 ds) = true).
Proof.
  intros Ne Hd. rewrite entity_conversion_exact. unfold parse_entity. rewrite (body_of_reference [35] ds).
  cbn [app]. change (35 =? 35) with true. cbv iota.
  destruct ds as [|d r]; [contradiction|].
  assert (Hx : (d =? 120) || (d =? 88) = false).
  { cbn [forallb] in Hd. apply andb_true_iff in Hd. destruct Hd as [Hd _]. unfold is_digit in Hd.
    destruct (N.eqb_spec d 120); [subst; discriminate|]. destruct (N.eqb_spec d 88); [subst; discriminate|]. reflexivity. }
  rewrite Hx, Hd. cbn [andb]. destruct (cp_ok (num_val 10 (d :: r))); cbn [fst]; split; congruence.
Qed.

Theorem hex_reference_iff x ds : x = 120 \/ x = 88 -> ds <> [] -> forallb is_xdigit ds = true ->
  (fst (parse_entity_c (38 :: [35; x] ++ ds ++ [59])) = NumEntity <-> cp_ok (num_val 16 ds) = true).
Proof.
  intros Hx Ne Hd. rewrite entity_conversion_exact. unfold parse_entity. rewrite (body_of_reference [35; x] ds).
  cbn [app]. change (35 =? 35) with true. cbv iota.
  assert (E : (x =? 120) || (x =? 88) = true) by (destruct Hx; subst; reflexivity). rewrite E.
  destruct ds as [|d r]; [contradiction|]. rewrite Hd. cbn [andb].
  destruct (cp_ok (num_val 16 (d :: r))); cbn [fst]; split; congruence.
Qed.

(* the value of a digit string: leading zeros do not matter, every further digit multiplies by the base *)
Lemma num_val_app base a b : num_val base (a ++ b) = fold_left (fun x d => x * base + digit_val d) b (num_val base a).
Proof. unfold num_val. apply fold_left_app. Qed.
