(* C04: the single byte validators and the validators_set table, regenerated from the source on every run of this check
   (coq/gen/Gen_C04enc.v: the loop body of each validator of private/encoding_validators.h that src/encoding.cpp instantiates,
   as a predicate on the byte; the assignments predefined_[name] = validator of the constructor of validators_set, in
   execution order), against the model of coq/C14/Defs.v that coq/C04/DefsE.v selects by the encoding name:
     link_sb_validators   every generated predicate is the model's byte_ok, on all 256 bytes
     link_enc_table       the generated table and the model's enc_table have the same entries (name -> validator) *)
From Coq Require Import String.
From CppcmsV Require Import Base.Tac Base.CSem Base.Sweep gen.Gen_C04enc.
From CppcmsV Require C14.Defs.
Local Open Scope N_scope.
Module D := C14.Defs.

(* windows_1254_valid exists in the header but is not in the table and is never instantiated *)
Definition gen_sb (k : D.sbkind) : option (Z -> bool) :=
  match k with
  | D.SB_ascii => Some g_c04_sb_ascii | D.SB_iso => Some g_c04_sb_iso | D.SB_iso3 => Some g_c04_sb_iso3
  | D.SB_iso6 => Some g_c04_sb_iso6 | D.SB_iso7 => Some g_c04_sb_iso7 | D.SB_iso8 => Some g_c04_sb_iso8
  | D.SB_iso11 => Some g_c04_sb_iso11 | D.SB_1250 => Some g_c04_sb_1250 | D.SB_1251 => Some g_c04_sb_1251
  | D.SB_1252 => Some g_c04_sb_1252 | D.SB_1253 => Some g_c04_sb_1253 | D.SB_1254 => None
  | D.SB_1255 => Some g_c04_sb_1255 | D.SB_1256 => Some g_c04_sb_1256 | D.SB_1257 => Some g_c04_sb_1257
  | D.SB_1258 => Some g_c04_sb_1258 | D.SB_koi8 => Some g_c04_sb_koi8
  end.

Definition sb_kinds : list D.sbkind :=
  [D.SB_ascii; D.SB_iso; D.SB_iso3; D.SB_iso6; D.SB_iso7; D.SB_iso8; D.SB_iso11; D.SB_1250; D.SB_1251; D.SB_1252; D.SB_1253;
   D.SB_1254; D.SB_1255; D.SB_1256; D.SB_1257; D.SB_1258; D.SB_koi8].
Lemma sb_kinds_complete k : In k sb_kinds.
Proof. destruct k; cbn; tauto. Qed.

Definition sb_agrees (k : D.sbkind) (b : N) : bool :=
  match gen_sb k with Some g => eqb (g (Z.of_N b)) (D.byte_ok k b) | None => true end.
Lemma sb_agrees_all : forallb (fun k => forallb (sb_agrees k) bytesN) sb_kinds = true.
Proof. vm_compute. reflexivity. Qed.

Lemma link_sb_validators k g b : gen_sb k = Some g -> b < 256 -> g (Z.of_N b) = D.byte_ok k b.
Proof.
  intros G Hb. pose proof sb_agrees_all as A. rewrite forallb_forall in A. specialize (A k (sb_kinds_complete k)).
  pose proof (sweep256 _ A b Hb) as R. unfold sb_agrees in R. rewrite G in R. apply eqb_prop. exact R.
Qed.

(* the validator a template name of private/encoding_validators.h stands for *)
Definition validator_of_name (s : string) : option D.validator :=
  if String.eqb s "utf8_valid" then Some D.V_utf8
  else if String.eqb s "ascii_valid" then Some (D.V_sb D.SB_ascii)
  else if String.eqb s "iso_8859_1_2_4_5_9_10_13_14_15_16_valid" then Some (D.V_sb D.SB_iso)
  else if String.eqb s "iso_8859_3_valid" then Some (D.V_sb D.SB_iso3)
  else if String.eqb s "iso_8859_6_valid" then Some (D.V_sb D.SB_iso6)
  else if String.eqb s "iso_8859_7_valid" then Some (D.V_sb D.SB_iso7)
  else if String.eqb s "iso_8859_8_valid" then Some (D.V_sb D.SB_iso8)
  else if String.eqb s "iso_8859_11_valid" then Some (D.V_sb D.SB_iso11)
  else if String.eqb s "windows_1250_valid" then Some (D.V_sb D.SB_1250)
  else if String.eqb s "windows_1251_valid" then Some (D.V_sb D.SB_1251)
  else if String.eqb s "windows_1252_valid" then Some (D.V_sb D.SB_1252)
  else if String.eqb s "windows_1253_valid" then Some (D.V_sb D.SB_1253)
  else if String.eqb s "windows_1254_valid" then Some (D.V_sb D.SB_1254)
  else if String.eqb s "windows_1255_valid" then Some (D.V_sb D.SB_1255)
  else if String.eqb s "windows_1256_valid" then Some (D.V_sb D.SB_1256)
  else if String.eqb s "windows_1257_valid" then Some (D.V_sb D.SB_1257)
  else if String.eqb s "windows_1258_valid" then Some (D.V_sb D.SB_1258)
  else if String.eqb s "koi8_valid" then Some (D.V_sb D.SB_koi8)
  else None.

Definition kind_code (k : D.sbkind) : N :=
  match k with
  | D.SB_ascii => 1 | D.SB_iso => 2 | D.SB_iso3 => 3 | D.SB_iso6 => 4 | D.SB_iso7 => 5 | D.SB_iso8 => 6 | D.SB_iso11 => 7
  | D.SB_1250 => 8 | D.SB_1251 => 9 | D.SB_1252 => 10 | D.SB_1253 => 11 | D.SB_1254 => 12 | D.SB_1255 => 13 | D.SB_1256 => 14
  | D.SB_1257 => 15 | D.SB_1258 => 16 | D.SB_koi8 => 17
  end.
Definition validator_code (v : D.validator) : N := match v with D.V_utf8 => 0 | D.V_sb k => kind_code k end.
Lemma validator_code_inj a b : validator_code a = validator_code b -> a = b.
Proof. destruct a as [|ka]; destruct b as [|kb]; try destruct ka; try destruct kb; cbn; intros H; try discriminate; reflexivity. Qed.

Definition entry_eqb (a b : list N * D.validator) : bool :=
  leqb (fst a) (fst b) && (validator_code (snd a) =? validator_code (snd b)).
Lemma entry_eqb_eq a b : entry_eqb a b = true -> a = b.
Proof.
  destruct a as [na va], b as [nb vb]. unfold entry_eqb. cbn [fst snd]. intros H.
  apply andb_true_iff in H. destruct H as [H1 H2]. apply leqb_eq in H1. apply N.eqb_eq in H2.
  apply validator_code_inj in H2. subst. reflexivity.
Qed.

(* the generated table, read with validator_of_name (None = a name this file does not know: then the tie is broken) *)
Definition gen_table : list (option (list N * D.validator)) :=
  map (fun e => match validator_of_name (snd e) with Some v => Some (map Z.to_N (fst e), v) | None => None end) g_c04_enc_table.

Definition table_check : bool :=
  forallb (fun o => match o with Some e => existsb (entry_eqb e) D.enc_table | None => false end) gen_table &&
  forallb (fun e => existsb (fun o => match o with Some e' => entry_eqb e e' | None => false end) gen_table) D.enc_table &&
  (length gen_table =? length D.enc_table)%nat.
Lemma table_check_ok : table_check = true.
Proof. vm_compute. reflexivity. Qed.

Lemma link_enc_table :
  (forall n f, In (n, f) g_c04_enc_table -> exists v, validator_of_name f = Some v /\ In (map Z.to_N n, v) D.enc_table) /\
  (forall e, In e D.enc_table -> exists n f, In (n, f) g_c04_enc_table /\ validator_of_name f = Some (snd e) /\ map Z.to_N n = fst e) /\
  length g_c04_enc_table = length D.enc_table.
Proof.
  pose proof table_check_ok as T. unfold table_check in T.
  apply andb_true_iff in T. destruct T as [T T3]. apply andb_true_iff in T. destruct T as [T1 T2].
  rewrite forallb_forall in T1. rewrite forallb_forall in T2. split; [|split].
  - intros n f I.
    assert (I' : In (match validator_of_name f with Some v => Some (map Z.to_N n, v) | None => None end) gen_table).
    { unfold gen_table. apply in_map_iff. exists (n, f). split; [reflexivity|exact I]. }
    specialize (T1 _ I'). destruct (validator_of_name f) as [v|]; [|discriminate].
    exists v. split; [reflexivity|]. apply existsb_exists in T1. destruct T1 as (e & Ie & Ee).
    apply entry_eqb_eq in Ee. subst e. exact Ie.
  - intros e I. specialize (T2 _ I). apply existsb_exists in T2. destruct T2 as (o & Io & Eo).
    destruct o as [e'|]; [|discriminate]. apply entry_eqb_eq in Eo. subst e'.
    unfold gen_table in Io. apply in_map_iff in Io. destruct Io as ((n & f) & E & Inf). cbn [fst snd] in E.
    destruct (validator_of_name f) as [v|] eqn:V; [|discriminate]. inversion E; subst.
    exists n, f. cbn [fst snd]. auto.
  - apply Nat.eqb_eq in T3. unfold gen_table in T3. rewrite map_length in T3. exact T3.
Qed.

(* ---- encoding names: the loop body of encodings_comparator::next (src/encoding.cpp) is the model's name_step:
        digits and lower case letters are kept, upper case letters are lowered, everything else is skipped (-1) ---- *)
Lemma link_name_step b : b < 256 ->
  g_c04_enc_name_step (Z.of_N b) = match D.name_step b with Some x => Z.of_N x | None => (-1)%Z end.
Proof.
  intros H. apply Z.eqb_eq.
  apply (sweep256 (fun b => (g_c04_enc_name_step (Z.of_N b) =? match D.name_step b with Some x => Z.of_N x | None => -1 end)%Z));
    [vm_compute; reflexivity|exact H].
Qed.
