Require Extraction.
Require Import ExtrOcamlBasic.
From Coq Require Import NArith ZArith List.
From CppcmsV Require Import C04.Defs C04.DefsX C04.DefsU.
Definition keep_types : (N * Z * nat) := (0%N, 0%Z, 0%nat).
Extraction "c04m.ml" keep_types c_validate c_validate_and_filter c_validate_x c_validate_and_filter_x uri_validate visible_scheme
  split parse_part nest.
