Require Extraction.
Require Import ExtrOcamlBasic.
From Coq Require Import NArith ZArith List.
From CppcmsV Require Import C04.Defs.
Definition keep_types : (N * Z * nat) := (0%N, 0%Z, 0%nat).
Extraction "c04m.ml" keep_types c_validate c_validate_and_filter split parse_part nest.
