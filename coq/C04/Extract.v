Require Extraction.
Require Import ExtrOcamlBasic.
From Coq Require Import NArith ZArith List.
From CppcmsV Require Import C04.Defs C04.DefsX C04.DefsU C04.DefsE C04.DefsR C04.DefsN.
From CppcmsV Require C20.Defs.
From CppcmsV Require C14.Defs.
Definition keep_types : (N * Z * nat) := (0%N, 0%Z, 0%nat).
Extraction "c04m.ml" keep_types c_validate c_validate_and_filter c_validate_x c_validate_and_filter_x c_validate_e c_validate_and_filter_e c_validate_sel c_validate_and_filter_sel has_encoding named_compat C14.Defs.lookup parse_pattern C20.Defs.full_match parse_entity_c uri_validate visible_scheme
  split parse_part nest.
