(* C04: executable model of the XSS filter, cppcms::xss::validate / validate_and_filter_if_invalid /
   filter (src/xss.cpp).  Bytes are N, strings are list N.  No proofs here: this file must keep
   compiling (and extracting) when a proof breaks.

   Structure follows the source: split_to_parts -> parse_part (parse_html_entity, parse_html_tag,
   parse_properties, validate_property_value) -> validate_nesting -> validate_entry_by_rules ->
   (filter only) pair invalidation and output.  The vector of entries is a list in the same order.
   The rule set is seen through the functions tag_kind / entity_ok / bool_ok / val_ok (Section
   variables); a concrete rule set (crules, below) instantiates them by look-up in lists, with the
   regex and URI functors behind the abstract function vfun.  The encoding pre-filter
   (cppcms::encoding::valid / validate_or_filter) is abstract (enc_valid / enc_vof). *)
From Coq Require Import NArith List Bool.
From CppcmsV Require Import Base.Sweep.
Import ListNotations.
Local Open Scope N_scope.

(* ---------- character classes (anonymous namespace of src/xss.cpp) ---------- *)
Definition is_alpha (c : N) : bool :=
  ((97 <=? c) && (c <=? 122)) || ((65 <=? c) && (c <=? 90)) || (c =? 95).
Definition is_digit (c : N) : bool := (48 <=? c) && (c <=? 57).
Definition is_alnum (c : N) : bool :=
  is_digit c || ((97 <=? c) && (c <=? 122)) || ((65 <=? c) && (c <=? 90)).
Definition is_xdigit (c : N) : bool :=
  is_digit c || ((97 <=? c) && (c <=? 102)) || ((65 <=? c) && (c <=? 70)).
Definition is_space (c : N) : bool := (c =? 32) || (c =? 13) || (c =? 10) || (c =? 9).
Definition to_lower (c : N) : N := if (65 <=? c) && (c <=? 90) then c - 65 + 97 else c.

(* the three characters that open or close markup: < > & *)
Definition special (c : N) : bool := (c =? 60) || (c =? 62) || (c =? 38).

Fixpoint takew (p : N -> bool) (s : list N) : list N :=
  match s with [] => [] | x :: r => if p x then x :: takew p r else [] end.
Fixpoint dropw (p : N -> bool) (s : list N) : list N :=
  match s with [] => [] | x :: r => if p x then dropw p r else s end.

Fixpoint starts (p s : list N) : bool :=
  match p, s with
  | [], _ => true
  | x :: p', y :: s' => (x =? y) && starts p' s'
  | _ :: _, [] => false
  end.

(* ---------- split_to_parts ---------- *)
Inductive etype :=
  | Invalid | Plain | Entity | Tag | Open | Close | OpenClose | Comment | NumEntity | OpenNoSlash.

Definition etype_eqb (a b : etype) : bool :=
  match a, b with
  | Invalid, Invalid | Plain, Plain | Entity, Entity | Tag, Tag | Open, Open | Close, Close
  | OpenClose, OpenClose | Comment, Comment | NumEntity, NumEntity | OpenNoSlash, OpenNoSlash => true
  | _, _ => false
  end.

(* prefix of s up to and including the first occurrence of c *)
Fixpoint upto (c : N) (s : list N) : option (list N) :=
  match s with
  | [] => None
  | x :: r => if x =? c then Some [x]
              else match upto c r with Some a => Some (x :: a) | None => None end
  end.

Fixpoint take_plain (s : list N) : list N :=
  match s with [] => [] | x :: r => if special x then [] else x :: take_plain r end.

(* s = the text after "<!--" (non-empty: the source tests p+4 < end).  The scan stops at the first
   "--"; the comment is closed only if that "--" is directly followed by ">" *)
Fixpoint comment_body (s : list N) : option (list N) :=
  match s with
  | [] => None
  | x :: r =>
      match r with
      | [] => None
      | y :: r2 =>
          if (x =? 45) && (y =? 45) then
            match r2 with
            | z :: _ => if z =? 62 then Some [] else None
            | [] => None
            end
          else match comment_body r with Some b => Some (x :: b) | None => None end
      end
  end.

Definition comment_start (r : list N) : bool :=
  match r with
  | c1 :: c2 :: c3 :: _ :: _ => (c1 =? 33) && (c2 =? 45) && (c3 =? 45)
  | _ => false
  end.

(* the first token of c :: r : its type and its text (a non-empty prefix of c :: r) *)
Definition token_at (c : N) (r : list N) : etype * list N :=
  if c =? 38 then
    match upto 59 r with
    | Some a => (Entity, c :: a)
    | None => (Invalid, c :: r)
    end
  else if c =? 60 then
    if comment_start r then
      match comment_body (skipn 3 r) with
      | Some body => ((if existsb special body then Invalid else Comment),
                      c :: firstn 3 r ++ body ++ [45; 45; 62])
      | None => (Invalid, c :: r)
      end
    else
      match upto 62 r with
      | Some a => (Tag, c :: a)
      | None => (Invalid, c :: r)
      end
  else if c =? 62 then (Invalid, [c])
  else (Plain, c :: take_plain r).

(* structural recursion on the text; skip = number of bytes still belonging to the last token *)
Fixpoint split_aux (skip : nat) (s : list N) : list (etype * list N) :=
  match s with
  | [] => []
  | c :: r =>
      match skip with
      | S k => split_aux k r
      | O => let tk := token_at c r in tk :: split_aux (length (snd tk) - 1) r
      end
  end.
Definition split (s : list N) : list (etype * list N) := split_aux 0 s.

(* ---------- parse_html_entity ---------- *)
Definition digit_val (c : N) : N :=
  if c <=? 57 then c - 48 else if c <=? 70 then c - 55 else c - 87.
Definition num_val (base : N) (ds : list N) : N :=
  fold_left (fun a d => a * base + digit_val d) ds 0.

(* the code point test of parse_html_entity (strtol saturates at LONG_MAX > 0x10FFFF, so the
   unbounded value gives the same verdict) *)
Definition cp_ok (cp : N) : bool :=
  negb ((1114111 <? cp)
        || ((55296 <=? cp) && (cp <=? 56319))
        || (cp =? 65535) || (cp =? 65534)
        || ((127 <=? cp) && (cp <=? 159))
        || ((cp <? 32) && negb (((9 <=? cp) && (cp <=? 10)) || (cp =? 13)))
        || (cp <=? 8)).

(* text = "&" ... ";"  ->  (type, entity name) *)
Definition parse_entity (text : list N) : etype * list N :=
  let body := removelast (tl text) in
  match body with
  | [] => (Invalid, [])
  | c :: r =>
      if c =? 35 then
        match r with
        | [] => (Invalid, [])
        | d :: r2 =>
            if (d =? 120) || (d =? 88) then
              match r2 with
              | [] => (Invalid, [])
              | _ :: _ => if forallb is_xdigit r2 && cp_ok (num_val 16 r2) then (NumEntity, [])
                          else (Invalid, [])
              end
            else if forallb is_digit r && cp_ok (num_val 10 r) then (NumEntity, [])
            else (Invalid, [])
        end
      else if forallb is_alnum body then (Entity, body) else (Invalid, [])
  end.

(* ---------- validate_property_value ---------- *)
Definition value_entities : list (list N) :=
  [ [97;109;112;59];            (* amp;  *)
    [108;116;59];               (* lt;   *)
    [103;116;59];               (* gt;   *)
    [113;117;111;116;59];       (* quot; *)
    [97;112;111;115;59];        (* apos; *)
    [35;120;50;55;59];          (* #x27; *)
    [35;88;50;55;59];           (* #X27; *)
    [35;51;57;59] ].            (* #39;  *)

Fixpoint first_match (ps : list (list N)) (s : list N) : option nat :=
  match ps with
  | [] => None
  | p :: ps' => if starts p s then Some (length p) else first_match ps' s
  end.

Fixpoint value_ok_aux (skip : nat) (v : list N) : bool :=
  match v with
  | [] => true
  | c :: r =>
      match skip with
      | S k => value_ok_aux k r
      | O => if (c =? 60) || (c =? 62) then false
             else if c =? 38 then
               match first_match value_entities r with
               | Some n => value_ok_aux n r
               | None => false
               end
             else value_ok_aux 0 r
      end
  end.
Definition value_ok (v : list N) : bool := value_ok_aux 0 v.

(* ---------- parse_properties ----------
   The loop of the source as a per-character machine.  PBetween sf: at the head of the loop with
   space_found = sf; PName: inside `while(ascii_isalnum( *nb))`; PEq: just after '='; PVal: looking
   for the closing quote.  A name starting with '_' (ascii_isalpha but not ascii_isalnum) gives an
   empty name followed by a character that is neither space nor '=': invalid. *)
Definition prop := (list N * option (list N))%type.
Inductive pstate :=
  | PBetween (sf : bool)
  | PName (nm_rev : list N)
  | PEq (nm : list N)
  | PVal (nm : list N) (q : N) (v_rev : list N).

Fixpoint props_sm (st : pstate) (seg : list N) (acc_rev : list prop) : option (list prop) :=
  match seg with
  | [] => match st with PBetween _ => Some (rev acc_rev) | _ => None end
  | c :: r =>
      match st with
      | PBetween sf =>
          if is_space c then props_sm (PBetween true) r acc_rev
          else if negb sf then None
          else if negb (is_alpha c) then None
          else if is_alnum c then props_sm (PName [c]) r acc_rev
          else None
      | PName nm =>
          if is_alnum c then props_sm (PName (c :: nm)) r acc_rev
          else if is_space c then props_sm (PBetween true) r ((rev nm, None) :: acc_rev)
          else if c =? 61 then props_sm (PEq (rev nm)) r acc_rev
          else None
      | PEq nm =>
          if (c =? 39) || (c =? 34) then props_sm (PVal nm c []) r acc_rev else None
      | PVal nm q v =>
          if c =? q then
            if value_ok (rev v) then props_sm (PBetween false) r ((nm, Some (rev v)) :: acc_rev)
            else None
          else props_sm (PVal nm q (c :: v)) r acc_rev
      end
  end.
Definition parse_props (seg : list N) : option (list prop) := props_sm (PBetween true) seg [].

(* ---------- parse_html_tag: text = "<" ... ">" -> (type, tag name, properties) ---------- *)
Definition parse_tag (text : list N) : etype * list N * list prop :=
  let body := removelast (tl text) in
  match body with
  | [] => (Invalid, [], [])
  | c :: r =>
      if c =? 47 then
        match r with
        | [] => (Invalid, [], [])
        | c1 :: r1 =>
            if is_alpha c1 then
              if forallb is_space (dropw is_alnum r1) then (Close, c1 :: takew is_alnum r1, [])
              else (Invalid, [], [])
            else (Invalid, [], [])
        end
      else if is_alpha c then
        let nm := c :: takew is_alnum r in
        let rest := dropw is_alnum r in
        let slash := last body 0 =? 47 in
        match parse_props (if slash then removelast rest else rest) with
        | Some ps => ((if slash then OpenClose else Open), nm, ps)
        | None => (Invalid, nm, [])
        end
      else (Invalid, [], [])
  end.

(* ---------- entries ----------
   The vector `parsed` is a list in the same order.  Where the source links entries by index (the
   stack of indices in validate_nesting, tag.pair), the model links them by structure: the stack
   holds the open tag itself together with the finished entries that follow it, and tag.pair is a
   copy of the partner's type, name and properties (all that validate_entry_by_rules looks at; a
   paired entry is never modified again by validate_nesting). *)
Definition pinfo := (etype * list N * list prop)%type.
Record entry := mkE {
  e_text : list N;            (* [begin,end) *)
  e_type : etype;
  e_name : list N;            (* tag.tag_begin .. tag.tag_end *)
  e_props : list prop;        (* tag.properties; None = no value (value_begin == 0) *)
  e_pair : option pinfo       (* tag.pair: None = -1, Some = what parsed[pair] holds *)
}.

Definition parse_part (raw : etype * list N) : entry :=
  let (ty, text) := raw in
  match ty with
  | Entity => let (t, nm) := parse_entity text in mkE text t nm [] None
  | Tag => let '(t, nm, ps) := parse_tag text in mkE text t nm ps None
  | _ => mkE text ty [] [] None
  end.

Definition with_type (t : etype) (e : entry) : entry :=
  mkE (e_text e) t (e_name e) (e_props e) (e_pair e).
Definition info (e : entry) : pinfo := (e_type e, e_name e, e_props e).
Definition paired (e partner : entry) : entry :=
  mkE (e_text e) (e_type e) (e_name e) (e_props e) (Some (info partner)).

Definition is_invalid (e : entry) : bool := etype_eqb (e_type e) Invalid.

(* ascii_streq *)
Definition name_eq (xhtml : bool) (a b : list N) : bool :=
  if xhtml then leqb a b else leqb (map to_lower a) (map to_lower b).

(* ---------- validate_nesting ----------
   frame = an open tag that is on the stack + the entries after it whose fate is settled, newest
   first.  `base` = settled entries below the whole stack, newest first. *)
Definition frame := (entry * list entry)%type.

Definition emit_to (items : list entry) (fs : list frame) (base : list entry) : list frame * list entry :=
  match fs with
  | [] => ([], items ++ base)
  | (o, its) :: fs' => ((o, items ++ its) :: fs', base)
  end.

(* html mode: pop until a tag of the same name; what is popped on the way needs no closing tag;
   if the stack runs empty the closing tag is invalid (and the popped tags stay popped) *)
Fixpoint html_close (e : entry) (fs : list frame) (popped : list entry) (base : list entry)
  : list frame * list entry :=
  match fs with
  | [] => ([], with_type Invalid e :: popped ++ base)
  | (o, its) :: fs' =>
      if name_eq false (e_name o) (e_name e)
      then emit_to (paired e o :: popped ++ its ++ [paired o e]) fs' base
      else html_close e fs' (popped ++ its ++ [with_type OpenNoSlash o]) base
  end.

Definition xhtml_close (e : entry) (fs : list frame) (base : list entry) : list frame * list entry :=
  match fs with
  | [] => ([], with_type Invalid e :: base)
  | (o, its) :: fs' =>
      if name_eq true (e_name o) (e_name e)
      then emit_to (paired e o :: its ++ [paired o e]) fs' base
      else emit_to (with_type Invalid e :: its ++ [with_type Invalid o]) fs' base
  end.

(* what is left on the stack at the end *)
Fixpoint flush (t : etype) (fs : list frame) (acc : list entry) : list entry :=
  match fs with
  | [] => acc
  | (o, its) :: fs' => flush t fs' (acc ++ its ++ [with_type t o])
  end.

Fixpoint nest_loop (xhtml : bool) (todo : list entry) (fs : list frame) (base : list entry) : list entry :=
  match todo with
  | [] => rev (flush (if xhtml then Invalid else OpenNoSlash) fs [] ++ base)
  | cur :: todo' =>
      match e_type cur with
      | Close =>
          let (fs', base') := if xhtml then xhtml_close cur fs base else html_close cur fs [] base in
          nest_loop xhtml todo' fs' base'
      | Open => nest_loop xhtml todo' ((cur, []) :: fs) base
      | _ => let (fs', base') := emit_to [cur] fs base in nest_loop xhtml todo' fs' base'
      end
  end.
Definition nest (xhtml : bool) (es : list entry) : list entry := nest_loop xhtml es [] [].

Inductive tkind := TInvalid | TPair | TAlone | TAny.   (* rules::tag_type *)
Inductive fmethod := RemoveInvalid | EscapeInvalid.

(* the escaping done for invalid parts in escape_invalid mode *)
Definition esc4 (c : N) : list N :=
  if c =? 60 then [38;108;116;59]
  else if c =? 62 then [38;103;116;59]
  else if c =? 38 then [38;97;109;112;59]
  else if c =? 34 then [38;113;117;111;116;59]
  else [c].
Definition escape4 (s : list N) : list N := flat_map esc4 s.

Section Rules.
  Variable xhtml : bool.                                   (* rules::html() == xhtml_input *)
  Variable comments : bool.                                (* comments_allowed *)
  Variable numeric : bool.                                 (* numeric_entities_allowed *)
  Variable tag_kind : list N -> tkind.                     (* rules::valid_tag *)
  Variable entity_ok : list N -> bool.                     (* rules::valid_entity *)
  Variable bool_ok : list N -> list N -> bool.             (* rules::valid_boolean_property tag prop *)
  Variable val_ok : list N -> list N -> list N -> bool.    (* rules::valid_property tag prop value *)

  (* the loop over part.tag.properties: duplicate test first, then the white list *)
  Fixpoint props_ok (tag : list N) (seen : list (list N)) (ps : list prop) : bool :=
    match ps with
    | [] => true
    | (pn, v) :: r =>
        if existsb (name_eq xhtml pn) seen then false
        else if match v with None => bool_ok tag pn | Some x => val_ok tag pn x end
             then props_ok tag (pn :: seen) r
             else false
    end.

  (* validate_entry_by_rules: looks at type, tag name and properties only *)
  Definition rules_ok3 (t : etype) (name : list N) (ps : list prop) : bool :=
    match t with
    | Invalid => false
    | Plain => true
    | Tag => false
    | Entity => entity_ok name
    | Comment => comments
    | NumEntity => numeric
    | Open | Close | OpenClose | OpenNoSlash =>
        let kind_fits :=
          match tag_kind name with
          | TInvalid => false
          | TAlone => etype_eqb t OpenNoSlash || etype_eqb t OpenClose
          | TPair => etype_eqb t Open || etype_eqb t Close
          | TAny => true
          end in
        if kind_fits then
          if etype_eqb t Close then true else props_ok name [] ps
        else false
    end.
  Definition rules_ok (e : entry) : bool := rules_ok3 (e_type e) (e_name e) (e_props e).
  (* verdict of validate_entry_by_rules on parsed[pair] *)
  Definition pair_ok (e : entry) : bool :=
    match e_pair e with
    | Some (t, nm, ps) => rules_ok3 t nm ps
    | None => true
    end.

  (* xss::validate after the encoding test *)
  Definition validate_core (x : list N) : bool :=
    let raws := split x in
    if existsb (fun r => etype_eqb (fst r) Invalid) raws then false
    else
      let parsed := map parse_part raws in
      if existsb is_invalid parsed then false
      else
        let nested := nest xhtml parsed in
        if existsb is_invalid nested then false
        else forallb rules_ok nested.

  (* the loop `for i: if(!validate_entry_by_rules(parsed[i],r)) { valid = false; ... parsed[pair].type =
     invalid_data; parsed[i].type = invalid_data; }`: an entry ends up invalid iff it or its partner
     fails the rules *)
  Definition inval (e : entry) : entry :=
    if rules_ok e then (if pair_ok e then e else with_type Invalid e) else with_type Invalid e.

  Definition emit (m : fmethod) (e : entry) : list N :=
    if is_invalid e then
      match m with RemoveInvalid => [] | EscapeInvalid => escape4 (e_text e) end
    else e_text e.

  (* entries as they stand when the output loop of validate_and_filter_if_invalid starts, and `valid` *)
  Definition filter_entries (x : list N) : list entry * bool :=
    let raws := split x in
    let v1 := negb (existsb (fun r => etype_eqb (fst r) Invalid) raws) in
    let parsed := map parse_part raws in
    let v2 := negb (existsb is_invalid parsed) in
    let nested := nest xhtml parsed in
    let v3 := negb (existsb is_invalid nested) in
    let v4 := forallb rules_ok nested in
    (map inval nested, v1 && v2 && v3 && v4).

  (* validate_and_filter_if_invalid after the encoding filter: (return value, text written to output) *)
  Definition vf_core (m : fmethod) (x : list N) : bool * list N :=
    let (final, valid) := filter_entries x in
    (valid, concat (map (emit m) final)).

  Definition filter_core (m : fmethod) (x : list N) : list N :=
    let (valid, out) := vf_core m x in if valid then x else out.

  (* ---- with the encoding pre-filter (ASCII compatible encodings and "no encoding") ---- *)
  Variable has_enc : bool.                         (* !rules::encoding().empty() *)
  Variable enc_valid : list N -> bool.             (* cppcms::encoding::valid *)
  Variable enc_vof : list N -> option (list N).    (* validate_or_filter: None = true (valid),
                                                      Some y = false with y the filtered text *)

  Definition validate (x : list N) : bool :=
    if has_enc then (if enc_valid x then validate_core x else false) else validate_core x.

  (* (return value of validate_and_filter_if_invalid, result of filter()) *)
  Definition validate_and_filter (m : fmethod) (x : list N) : bool * list N :=
    let pre := if has_enc then match enc_vof x with None => (true, x) | Some y => (false, y) end
               else (true, x) in
    let (valid0, y) := pre in
    let (valid, out) := vf_core m y in
    if valid0 && valid then (true, x) else (false, out).

  Definition filter (m : fmethod) (x : list N) : list N := snd (validate_and_filter m x).
End Rules.

(* ---------- a concrete rule set (what the public API of cppcms::xss::rules can build) ---------- *)
Inductive vkind := VBool | VInt | VFun (k : N).
Record crules := mkR {
  c_xhtml : bool;
  c_comments : bool;
  c_numeric : bool;
  c_entities : list (list N);                                     (* add_entity, besides the four defaults *)
  c_tags : list (list N * tkind * list (list N * vkind))           (* add_tag / add_*_property *)
}.

Definition default_entities : list (list N) :=
  [ [108;116]; [103;116]; [97;109;112]; [113;117;111;116] ].       (* lt gt amp quot *)

(* integer_property_functor *)
Definition int_ok (v : list N) : bool :=
  let ds := match v with c :: r => if c =? 45 then r else v | [] => v end in
  match ds with [] => false | _ :: _ => forallb is_digit ds end.

Section Concrete.
  Variable r : crules.
  Variable vfun : N -> list N -> bool.      (* regex_functor / uri_validator_functor number k *)

  (* std::map semantics of the registrations, in the order of c_tags (an entry = add_tag(name, kind) unless kind is
     TInvalid, then add_*_property(name, attribute, ...) for its attributes): tags[name].type = kind - a later add_tag
     under a name that compares equal overwrites the type, add_property never changes it; tags[name].properties[pn] =
     validator - all entries whose name compares equal feed one property map, a later registration of an attribute
     name that compares equal overwrites the earlier one *)
  Definition kind_set (k : tkind) : bool := match k with TInvalid => false | _ => true end.
  Definition find_tag (name : list N) :=
    find (fun t => name_eq (c_xhtml r) (fst (fst t)) name && kind_set (snd (fst t))) (rev (c_tags r)).
  Definition tag_props (tag : list N) : list (list N * vkind) :=
    flat_map (fun t => if name_eq (c_xhtml r) (fst (fst t)) tag then snd t else []) (c_tags r).
  Definition find_prop (tag pn : list N) : option vkind :=
    match find (fun p => name_eq (c_xhtml r) (fst p) pn) (rev (tag_props tag)) with
    | Some p => Some (snd p)
    | None => None
    end.
  Definition c_tag_kind (name : list N) : tkind :=
    match find_tag name with Some t => snd (fst t) | None => TInvalid end.
  Definition c_entity_ok (name : list N) : bool :=
    existsb (leqb name) (default_entities ++ c_entities r).
  Definition c_bool_ok (tag pn : list N) : bool :=
    if c_xhtml r then false
    else match find_prop tag pn with Some VBool => true | _ => false end.
  Definition c_val_ok (tag pn v : list N) : bool :=
    match find_prop tag pn with
    | None => false
    | Some VBool => if c_xhtml r then leqb pn v else false
    | Some VInt => int_ok v
    | Some (VFun k) => vfun k v
    end.

  Definition c_validate := validate (c_xhtml r) (c_comments r) (c_numeric r) c_tag_kind c_entity_ok c_bool_ok c_val_ok.
  Definition c_validate_and_filter :=
    validate_and_filter (c_xhtml r) (c_comments r) (c_numeric r) c_tag_kind c_entity_ok c_bool_ok c_val_ok.
End Concrete.
