(* C04: the leaf functions of cppcms::utf8::next (private/utf_iterator.h: utf::valid, utf8::is_trail, utf8::trail_length,
   utf8::width - the helper behind the shortest-form test), regenerated from the current source into coq/gen/Gen_C04utf.v
   on every run of this check, are the leaf functions of the UTF-8 validator the C04 model uses (coq/C14/Defs.v, selected
   by coq/C04/DefsE.v).  Code points: for every value; bytes: 256 point sweeps. *)
From CppcmsV Require Import Base.Tac Base.CSem Base.Sweep gen.Gen_C04utf.
From CppcmsV Require C14.Defs.
Local Open Scope N_scope.
Module D := C14.Defs.

(* comparison chains: decide every comparison on both sides, then the branches agree or the hypotheses contradict
   (independent of how the source writes the chain: <= 0x7FF or < 0x800, the order of the operands, ...) *)
Ltac zcmp :=
  repeat match goal with
  | |- context [Z.gtb ?a ?b] => rewrite (Z.gtb_ltb a b)
  | |- context [Z.geb ?a ?b] => rewrite (Z.geb_leb a b)
  | |- context [Z.leb ?a ?b] => destruct (Z.leb_spec a b)
  | |- context [Z.ltb ?a ?b] => destruct (Z.ltb_spec a b)
  | |- context [Z.eqb ?a ?b] => destruct (Z.eqb_spec a b)
  | |- context [N.leb ?a ?b] => destruct (N.leb_spec a b)
  | |- context [N.ltb ?a ?b] => destruct (N.ltb_spec a b)
  | |- context [N.eqb ?a ?b] => destruct (N.eqb_spec a b)
  end; cbn [andb orb negb]; try reflexivity; try lia.

Lemma link_utf_valid v : g_c04_utf_valid (Z.of_N v) = D.cp_valid v.
Proof. unfold g_c04_utf_valid, D.cp_valid. zcmp. Qed.

(* is_trail(char): utf8::next passes an unsigned char, converted to char *)
Lemma link_is_trail b : b < 256 -> g_c04_is_trail (wraps 8 (Z.of_N b)) = D.is_trail b.
Proof.
  intros H. apply eqb_prop.
  apply (sweep256 (fun b => eqb (g_c04_is_trail (wraps 8 (Z.of_N b))) (D.is_trail b))); [vm_compute; reflexivity|exact H].
Qed.

Lemma link_trail_length b : b < 256 -> g_c04_trail_length (Z.of_N b) = D.trail_length b.
Proof.
  intros H. apply Z.eqb_eq.
  apply (sweep256 (fun b => (g_c04_trail_length (Z.of_N b) =? D.trail_length b)%Z)); [vm_compute; reflexivity|exact H].
Qed.

(* width(uint32_t): every value, in particular both sides of 0x7F/0x80, 0x7FF/0x800, 0xFFFF/0x10000 *)
Lemma link_width v : g_c04_width (Z.of_N v) = D.width v.
Proof. unfold g_c04_width, D.width. zcmp. Qed.

(* the generated width is the length of the RFC 3629 shortest form: the statement the shortest-form test relies on *)
Lemma link_width_boundaries :
  g_c04_width 127 = 1%Z /\ g_c04_width 128 = 2%Z /\ g_c04_width 2047 = 2%Z /\ g_c04_width 2048 = 3%Z /\
  g_c04_width 65535 = 3%Z /\ g_c04_width 65536 = 4%Z /\ g_c04_width 1114111 = 4%Z.
Proof. repeat split; vm_compute; reflexivity. Qed.
