(* C04, URI validators, third part: the token structure of an accepted value.
   Every value that uri_validator_functor accepts (any kind) is a concatenation of URI tokens:
     one URI character other than & and %  |  % HEXDIG HEXDIG  |  &amp;  |  &apos;
   so & occurs only as the start of &amp; / &apos; and % only as the start of a percent-encoded byte; and the
   value that the browser obtains by decoding the character references (decode_value, ProofsU2.v) again consists
   of URI characters only: no blank, control character, quote, angle bracket or backslash that a lenient URL
   parser would strip or reinterpret.
   The walk over the parser is the one of ProofsU.v (alphabet), generic in the predicate on the consumed prefix. *)
From CppcmsV Require Import Base.Tac Base.Sweep C04.Defs C04.DefsU C04.Proofs3 C04.ProofsU C04.ProofsU2.
Local Open Scope N_scope.

(* URI characters that stand for themselves *)
Definition uchar1 (c : N) : bool :=
  u_alpha c || u_digit c ||
  existsb (N.eqb c) [45;46;95;126; 33;36;40;41;42;43;44;59;61;39; 58;64;47;63;35].

Section Generic.
  Variable P : list N -> Prop.
  Hypothesis P_nil : P [].
  Hypothesis P_app : forall a b, P a -> P b -> P (a ++ b).
  Hypothesis P_one : forall c, uchar1 c = true -> P [c].
  Hypothesis P_pct : forall h1 h2, u_hex h1 = true -> u_hex h2 = true -> P [37; h1; h2].
  Hypothesis P_amp : P amp_s.
  Hypothesis P_apos : P apos_s.

  Definition consumedP (s r : list N) : Prop := exists p, s = p ++ r /\ P p.

  Lemma cP_refl s : consumedP s s.
  Proof. exists []. split; [reflexivity|exact P_nil]. Qed.
  Lemma cP_trans a b c : consumedP a b -> consumedP b c -> consumedP a c.
  Proof.
    intros (p & Hp & Hu) (q & Hq & Hv). exists (p ++ q). subst. rewrite <- app_assoc. split; [reflexivity|].
    apply P_app; assumption.
  Qed.

  Lemma P_all1 l : forallb uchar1 l = true -> P l.
  Proof.
    induction l as [|x l IH]; [intros _; exact P_nil|]. cbn [forallb]. intros H. apply andb_true_iff in H.
    destruct H as [Hx Hl]. change (x :: l) with ([x] ++ l). apply P_app; [apply P_one; exact Hx|exact (IH Hl)].
  Qed.

  Definition tokP (f : list N -> nat) : Prop :=
    forall s k, f s = S k -> exists p r, s = p ++ r /\ length p = S k /\ P p.

  Lemma orlP a b : tokP a -> tokP b -> tokP (fun s => orl (a s) (b s)).
  Proof. intros Ha Hb s k H. unfold orl in H. destruct (a s) eqn:E; [exact (Hb s k H)|exact (Ha s k (eq_trans E H))]. Qed.

  Lemma oneP (test : N -> bool) : (forall c, test c = true -> uchar1 c = true) ->
    tokP (fun s => match s with c :: _ => if test c then 1%nat else 0%nat | [] => 0%nat end).
  Proof.
    intros Ht s k H. destruct s as [|c r]; [discriminate|]. destruct (test c) eqn:E; [|discriminate].
    inversion H; subst. exists [c], r. repeat split. apply P_one. exact (Ht c E).
  Qed.

  Lemma char_lenP c : uchar1 c = true -> tokP (char_len c).
  Proof.
    intros Hc. unfold char_len. apply (oneP (fun x => x =? c)). intros x Hx. apply N.eqb_eq in Hx. subst. exact Hc.
  Qed.

  Lemma unreservedP : tokP unreserved_len.
  Proof.
    unfold unreserved_len. apply (oneP (fun c => u_alpha c || u_digit c || (c =? 45) || (c =? 46) || (c =? 95) || (c =? 126))).
    intros c H. unfold uchar1. uchar_solve H.
  Qed.

  Lemma pctP : tokP pct_len.
  Proof.
    intros s k H. unfold pct_len in H. destruct s as [|c0 [|c1 [|c2 r]]]; try discriminate.
    destruct ((c0 =? 37) && u_hex c1 && u_hex c2) eqn:E; [|discriminate]. inversion H; subst.
    apply andb_true_iff in E. destruct E as [E E2]. apply andb_true_iff in E. destruct E as [E0 E1].
    apply N.eqb_eq in E0. subst c0. exists [37; c1; c2], r. repeat split. apply P_pct; assumption.
  Qed.

  Lemma subdelimP : tokP subdelim_len.
  Proof.
    intros s k H. unfold subdelim_len in H.
    destruct (starts amp_s s) eqn:Ea.
    { inversion H; subst. apply starts_spec in Ea. exists amp_s, (skipn (length amp_s) s). repeat split; [exact Ea|exact P_amp]. }
    destruct (starts apos_s s) eqn:Eb.
    { inversion H; subst. apply starts_spec in Eb. exists apos_s, (skipn (length apos_s) s). repeat split; [exact Eb|exact P_apos]. }
    destruct s as [|c r]; [discriminate|].
    destruct ((c =? 33) || (c =? 36) || (c =? 40) || (c =? 41) || (c =? 42) || (c =? 43) || (c =? 44) || (c =? 59) || (c =? 61) || (c =? 39)) eqn:E;
      [|discriminate].
    inversion H; subst. exists [c], r. repeat split. apply P_one. unfold uchar1. uchar_solve E.
  Qed.

  Lemma regP : tokP reg_len.
  Proof. unfold reg_len. apply orlP; [exact unreservedP|]. apply orlP; [exact pctP|exact subdelimP]. Qed.
  Lemma ncP : tokP nc_len.
  Proof. unfold nc_len. apply orlP; [exact regP|apply char_lenP; reflexivity]. Qed.
  Lemma pcharP : tokP pchar_len.
  Proof. unfold pchar_len. apply orlP; [exact regP|]. apply orlP; apply char_lenP; reflexivity. Qed.
  Lemma qcharP : tokP qchar_len.
  Proof. unfold qchar_len. apply orlP; [exact pcharP|]. apply orlP; apply char_lenP; reflexivity. Qed.
  Lemma pslashP : tokP pslash_len.
  Proof. unfold pslash_len. apply orlP; [exact pcharP|apply char_lenP; reflexivity]. Qed.
  Lemma uiP : tokP ui_len.
  Proof. unfold ui_len. apply orlP; [exact regP|apply char_lenP; reflexivity]. Qed.
  Lemma digitP : tokP digit_len.
  Proof.
    unfold digit_len. apply (oneP u_digit). intros c H. unfold uchar1. rewrite H. rewrite orb_true_r. reflexivity.
  Qed.

  Lemma starP f : tokP f -> forall s, consumedP s (star f s).
  Proof.
    intros Hf s. remember (length s) as n eqn:Hn. assert (Hle : (length s <= n)%nat) by lia. clear Hn. revert s Hle.
    induction n as [|n IH]; intros s Hle.
    - destruct s; [apply cP_refl|cbn in Hle; lia].
    - rewrite star_unfold. destruct s as [|c r]; [apply cP_refl|].
      destruct (f (c :: r)) as [|k] eqn:Ef; [apply cP_refl|].
      destruct (Hf _ _ Ef) as (p & rest & Hs & Hl & Hu). rewrite Hs. rewrite <- Hl.
      rewrite skipn_app, skipn_all, Nat.sub_diag. cbn [skipn app].
      apply (cP_trans _ rest); [exists p; split; [reflexivity|exact Hu]|].
      apply IH. rewrite Hs in Hle. rewrite app_length in Hle. lia.
  Qed.

  Lemma follows_cP c s r : uchar1 c = true -> follows_c c s = Some r -> consumedP s r.
  Proof.
    intros Hc. unfold follows_c. destruct s as [|x s']; [discriminate|]. destruct (N.eqb_spec x c); [|discriminate].
    intros H. inversion H; subst. exists [c]. split; [reflexivity|]. apply P_one. exact Hc.
  Qed.

  Lemma slash_segsP s : consumedP s (slash_segs s).
  Proof.
    unfold slash_segs. destruct s as [|c r]; [apply cP_refl|].
    destruct c as [|p]; [apply cP_refl|].
    do 6 (destruct p as [p|p|]; try apply cP_refl). apply (starP _ pslashP).
  Qed.

  Lemma segment_nzP s r : segment_nz s = Some r -> consumedP s r.
  Proof. unfold segment_nz. destruct (pchar_len s); [discriminate|]. intros H. inversion H. apply (starP _ pcharP). Qed.

  Lemma path_absoluteP s r : path_absolute s = Some r -> consumedP s r.
  Proof.
    unfold path_absolute. destruct (follows_c 47 s) as [r1|] eqn:E; [|discriminate]. intros H. inversion H; subst.
    apply (cP_trans _ r1); [apply (follows_cP 47); [reflexivity|exact E]|].
    destruct (segment_nz r1) as [r2|] eqn:E2; [|apply cP_refl].
    apply (cP_trans _ r2); [apply segment_nzP; exact E2|apply slash_segsP].
  Qed.

  Lemma path_rootlessP s r : path_rootless s = Some r -> consumedP s r.
  Proof.
    unfold path_rootless. destruct (segment_nz s) as [r1|] eqn:E; [|discriminate]. intros H. inversion H; subst.
    apply (cP_trans _ r1); [apply segment_nzP; exact E|apply slash_segsP].
  Qed.

  Lemma ipv4addrP s r : ipv4addr s = Some r -> consumedP s r.
  Proof.
    unfold ipv4addr. destruct (dec_octet s); [|discriminate].
    destruct (follows_c 46 s) as [s1|] eqn:E1; [|discriminate]. destruct (dec_octet s1); [|discriminate].
    destruct (follows_c 46 s1) as [s2|] eqn:E2; [|discriminate]. destruct (dec_octet s2); [|discriminate].
    destruct (follows_c 46 s2) as [s3|] eqn:E3; [|discriminate]. destruct (dec_octet s3); [|discriminate].
    intros H. inversion H; subst.
    apply (cP_trans _ s1); [apply (follows_cP 46); [reflexivity|exact E1]|].
    apply (cP_trans _ s2); [apply (follows_cP 46); [reflexivity|exact E2]|].
    apply (follows_cP 46); [reflexivity|exact E3].
  Qed.

  Lemma hostP s : consumedP s (host s).
  Proof. unfold host. destruct (ipv4addr s) as [r|] eqn:E; [apply ipv4addrP; exact E|apply (starP _ regP)]. Qed.

  Lemma authorityP s : consumedP s (authority s).
  Proof.
    unfold authority. set (s1 := star ui_len s).
    assert (H1 : consumedP s s1) by apply (starP _ uiP).
    set (s3 := match follows_c 64 s1 with Some s2 => host s2 | None => host s1 end).
    assert (H3 : consumedP s s3).
    { unfold s3. destruct (follows_c 64 s1) as [s2|] eqn:E.
      - apply (cP_trans _ s1); [exact H1|]. apply (cP_trans _ s2); [apply (follows_cP 64); [reflexivity|exact E]|apply hostP].
      - apply (cP_trans _ s1); [exact H1|apply hostP]. }
    destruct (follows_c 58 s3) as [s4|] eqn:E; [|exact H3].
    apply (cP_trans _ s3); [exact H3|]. apply (cP_trans _ s4); [apply (follows_cP 58); [reflexivity|exact E]|].
    apply (starP _ digitP).
  Qed.

  Lemma opt_queryP s : consumedP s (opt_query s).
  Proof.
    unfold opt_query. destruct (follows_c 63 s) as [r|] eqn:E; [|apply cP_refl].
    apply (cP_trans _ r); [apply (follows_cP 63); [reflexivity|exact E]|apply (starP _ qcharP)].
  Qed.
  Lemma opt_fragmentP s : consumedP s (opt_fragment s).
  Proof.
    unfold opt_fragment. destruct (follows_c 35 s) as [r|] eqn:E; [|apply cP_refl].
    apply (cP_trans _ r); [apply (follows_cP 35); [reflexivity|exact E]|apply (starP _ qcharP)].
  Qed.

  Lemma relative_refP s : consumedP s (relative_ref s).
  Proof.
    unfold relative_ref, path_abempty.
    apply (cP_trans _ (authority s)); [apply authorityP|].
    apply (cP_trans _ (slash_segs (authority s))); [apply slash_segsP|].
    apply (cP_trans _ (opt_query (slash_segs (authority s)))); [apply opt_queryP|apply opt_fragmentP].
  Qed.

  Lemma hier_partP s : consumedP s (hier_part s).
  Proof.
    unfold hier_part, follows_s, path_abempty. destruct (starts [47;47] s) eqn:E.
    - apply starts_spec in E. set (r := skipn (length [47;47]) s) in *.
      apply (cP_trans _ r); [exists [47;47]; split; [exact E|apply P_all1; reflexivity]|].
      apply (cP_trans _ (authority r)); [apply authorityP|apply slash_segsP].
    - destruct (path_absolute s) as [r|] eqn:E1; [apply path_absoluteP; exact E1|].
      destruct (path_rootless s) as [r|] eqn:E2; [apply path_rootlessP; exact E2|apply cP_refl].
  Qed.

  Lemma schemech_uchar1 l : forallb schemech l = true -> forallb uchar1 l = true.
  Proof.
    induction l as [|x l IH]; [reflexivity|]. cbn [forallb]. intros H. apply andb_true_iff in H. destruct H as [Hx Hl].
    rewrite (IH Hl), andb_true_r. unfold schemech in Hx. unfold uchar1. uchar_solve Hx.
  Qed.

  Lemma schemeP s sc r : scheme s = Some (sc, r) -> consumedP s r.
  Proof.
    unfold scheme. destruct s as [|c s']; [discriminate|]. destruct (u_alpha c) eqn:Ea; [|discriminate].
    intros H. inversion H; subst. exists (c :: takew schemech s'). split; [cbn [app]; f_equal; apply takew_dropw|].
    apply P_all1. cbn [forallb]. unfold uchar1 at 1. rewrite Ea. cbn [orb andb]. apply schemech_uchar1. apply takew_all.
  Qed.

  Lemma uriP s rest : uri s = Some rest -> consumedP s rest.
  Proof.
    unfold uri. destruct (scheme s) as [[sc r]|] eqn:Es; [|discriminate].
    destruct (follows_c 58 r) as [r2|] eqn:E; [|discriminate]. intros H. inversion H; subst.
    apply (cP_trans _ r); [apply (schemeP s sc); exact Es|].
    apply (cP_trans _ r2); [apply (follows_cP 58); [reflexivity|exact E]|].
    apply (cP_trans _ (hier_part r2)); [apply hier_partP|].
    apply (cP_trans _ (opt_query (hier_part r2))); [apply opt_queryP|apply opt_fragmentP].
  Qed.

  Lemma uri_validateP k sre v : uri_validate k sre v = true -> P v.
  Proof.
    assert (Hpu : forall rel range, parse_uri v = (true, rel, range) -> P v).
    { intros rel range. unfold parse_uri. destruct (uri v) as [rest|] eqn:Eu.
      - destruct rest as [|c r]; [|intros H; discriminate]. intros _.
        destruct (uriP v [] Eu) as (p & Hp & Hu). rewrite app_nil_r in Hp. subst. exact Hu.
      - destruct (relative_ref v) as [|c r] eqn:Er; [|intros H; discriminate]. intros _.
        pose proof (relative_refP v) as Hc. rewrite Er in Hc. destruct Hc as (p & Hp & Hu). rewrite app_nil_r in Hp. subst. exact Hu. }
    unfold uri_validate. destruct k.
    - destruct (parse_uri v) as [[ok rel] range] eqn:Ep. destruct ok; [|discriminate]. intros _. exact (Hpu rel range eq_refl).
    - destruct (parse_uri v) as [[ok rel] range] eqn:Ep. destruct ok; [|discriminate]. intros _. exact (Hpu rel range eq_refl).
    - unfold parse_full. destruct (scheme v) as [[sc' r]|]; [|discriminate].
      destruct (uri v) as [rest|] eqn:Eu; [|discriminate]. destruct rest as [|c r']; [|discriminate]. intros _.
      destruct (uriP v [] Eu) as (p & Hp & Hu). rewrite app_nil_r in Hp. subst. exact Hu.
  Qed.
End Generic.

(* ---------- instance: concatenation of URI tokens ---------- *)
Definition utok (p : list N) : Prop :=
  (exists c, p = [c] /\ uchar1 c = true) \/
  (exists h1 h2, p = [37; h1; h2] /\ u_hex h1 = true /\ u_hex h2 = true) \/
  p = amp_s \/ p = apos_s.
Definition utoks (p : list N) : Prop := exists toks, p = concat toks /\ Forall utok toks.

Lemma utoks_nil : utoks [].
Proof. exists []. split; [reflexivity|constructor]. Qed.
Lemma utoks_app a b : utoks a -> utoks b -> utoks (a ++ b).
Proof.
  intros (ta & Ha & Fa) (tb & Hb & Fb). exists (ta ++ tb). subst. split; [symmetry; apply concat_app|].
  apply Forall_app. split; assumption.
Qed.
Lemma utoks_tok p : utok p -> utoks p.
Proof. intros H. exists [p]. split; [cbn [concat]; rewrite app_nil_r; reflexivity|constructor; [exact H|constructor]]. Qed.

Lemma uri_value_tokens k sre v : uri_validate k sre v = true -> utoks v.
Proof.
  apply (uri_validateP utoks utoks_nil utoks_app).
  - intros c Hc. apply utoks_tok. left. exists c. split; [reflexivity|exact Hc].
  - intros h1 h2 H1 H2. apply utoks_tok. right. left. exists h1, h2. repeat split; assumption.
  - apply utoks_tok. right. right. left. reflexivity.
  - apply utoks_tok. right. right. right. reflexivity.
Qed.

(* ---------- the decoded value ---------- *)
Lemma uchar1_not_amp c : uchar1 c = true -> (c =? 38) = false.
Proof. intros H. destruct (N.eqb_spec c 38) as [E|E]; [subst c; discriminate H|reflexivity]. Qed.
Lemma uchar1_uchar c : uchar1 c = true -> uchar c = true.
Proof.
  unfold uchar1, uchar. intros H. apply orb_true_iff in H. destruct H as [H|H]; [rewrite H; reflexivity|].
  apply existsb_exists in H. destruct H as (x & Hin & Hx). apply N.eqb_eq in Hx. subst x.
  cbn [In] in Hin. repeat (destruct Hin as [Hin|Hin]; [subst c; reflexivity|]). contradiction.
Qed.
Lemma hex_not_amp c : u_hex c = true -> (c =? 38) = false.
Proof. intros H. destruct (N.eqb_spec c 38) as [E|E]; [subst c; discriminate H|reflexivity]. Qed.
Lemma hex_uchar c : u_hex c = true -> uchar c = true.
Proof.
  intros Hc. unfold u_hex in Hc. unfold uchar, u_alpha.
  apply orb_true_iff in Hc. destruct Hc as [Hc|Hc]; [apply orb_true_iff in Hc; destruct Hc as [Hc|Hc]|].
  - rewrite Hc. repeat rewrite orb_true_r. reflexivity.
  - apply andb_true_iff in Hc. destruct Hc as [H1 H2]. apply N.leb_le in H1, H2.
    assert (H3 : (97 <=? c) && (c <=? 122) = true) by (apply andb_true_iff; split; apply N.leb_le; lia).
    rewrite H3. reflexivity.
  - apply andb_true_iff in Hc. destruct Hc as [H1 H2]. apply N.leb_le in H1, H2.
    assert (H3 : (65 <=? c) && (c <=? 90) = true) by (apply andb_true_iff; split; apply N.leb_le; lia).
    rewrite H3. repeat rewrite orb_true_r. reflexivity.
Qed.

(* decoding goes token by token *)
Lemma decode_tok p rest : utok p ->
  exists d, decode_aux 0 (p ++ rest) = d ++ decode_aux 0 rest /\ forallb uchar d = true.
Proof.
  intros [(c & Hp & Hc)|[(h1 & h2 & Hp & H1 & H2)|[Hp|Hp]]]; subst p.
  - exists [c]. cbn [app decode_aux]. rewrite (uchar1_not_amp c Hc). split; [reflexivity|].
    cbn [forallb]. rewrite (uchar1_uchar c Hc). reflexivity.
  - exists [37; h1; h2]. cbn [app decode_aux]. change (37 =? 38) with false. cbv iota.
    rewrite (hex_not_amp h1 H1), (hex_not_amp h2 H2). split; [reflexivity|].
    cbn [forallb]. rewrite (hex_uchar h1 H1), (hex_uchar h2 H2). reflexivity.
  - exists [38]. split; [reflexivity|reflexivity].
  - exists [39]. split; [reflexivity|reflexivity].
Qed.

Lemma decode_utoks v : utoks v -> forallb uchar (decode_value v) = true.
Proof.
  intros (toks & Hv & Ht). subst v. unfold decode_value. induction Ht as [|p toks Hp Ht IH]; [reflexivity|].
  cbn [concat]. destruct (decode_tok p (concat toks) Hp) as (d & Hd & Hu). rewrite Hd, forallb_app, Hu, IH. reflexivity.
Qed.

Lemma uri_decoded_alphabet k sre v : uri_validate k sre v = true -> forallb uchar (decode_value v) = true.
Proof. intros H. apply decode_utoks. exact (uri_value_tokens k sre v H). Qed.
