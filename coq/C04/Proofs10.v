(* C04 proofs, part 10: the encoding layer of stability.  For an encoding in which the bytes
   & ; < > and the double quote are always complete characters (never part of a multi-byte sequence),
   validity is decided run by run between these bytes; the filter cuts and pastes the text only at
   such bytes, so its output is again well-formed in the encoding.  Then: validate (filter x) = true. *)
From CppcmsV Require Import Base.Tac Base.Sweep C04.Defs C04.Proofs1 C04.Proofs2 C04.Proofs3 C04.Proofs4
  C04.Proofs6 C04.Proofs9.
Local Open Scope N_scope.

Definition syncb (c : N) : bool := (c =? 38) || (c =? 59) || (c =? 60) || (c =? 62) || (c =? 34).

Section Enc.
  Variable enc_valid : list N -> bool.

  Record enc_ascii_compatible : Prop := {
    ev_nil : enc_valid [] = true;
    ev_sync : forall a c b, syncb c = true -> enc_valid (a ++ c :: b) = enc_valid a && enc_valid b;
    ev_app : forall a b, enc_valid a = true -> enc_valid b = true -> enc_valid (a ++ b) = true;
    ev_lt : enc_valid [108;116] = true;
    ev_gt : enc_valid [103;116] = true;
    ev_amp : enc_valid [97;109;112] = true;
    ev_quot : enc_valid [113;117;111;116] = true }.

  Hypothesis EV : enc_ascii_compatible.

  (* t and rest meet at one of the bytes & ; < > dquote *)
  Definition aligned (t rest : list N) : Prop :=
    rest = [] \/ (exists a c, t = a ++ [c] /\ syncb c = true) \/ (exists c r, rest = c :: r /\ syncb c = true).

  Lemma ev_split t rest : aligned t rest -> enc_valid (t ++ rest) = enc_valid t && enc_valid rest.
  Proof.
    intros [H|[(a & c & Ht & Hc)|(c & r & Hr & Hc)]].
    - subst rest. rewrite app_nil_r, (ev_nil EV), andb_true_r. reflexivity.
    - subst t. rewrite <- app_assoc. cbn [app]. rewrite (ev_sync EV a c rest Hc), (ev_sync EV a c [] Hc).
      rewrite (ev_nil EV), andb_true_r. reflexivity.
    - subst rest. rewrite (ev_sync EV t c r Hc). change (c :: r) with ([] ++ c :: r).
      rewrite (ev_sync EV [] c r Hc), (ev_nil EV). reflexivity.
  Qed.

  Lemma special_sync c : special c = true -> syncb c = true.
  Proof.
    unfold special, syncb. intros H. apply orb_true_iff in H. destruct H as [H|H].
    - apply orb_true_iff in H. destruct H as [H|H]; rewrite H; repeat rewrite orb_true_r; reflexivity.
    - rewrite H. reflexivity.
  Qed.

  Lemma aligned_last a c rest : syncb c = true -> aligned (a ++ [c]) rest.
  Proof. intros H. right. left. exists a, c. split; [reflexivity|exact H]. Qed.

  Lemma token_at_aligned c r rest : c :: r = snd (token_at c r) ++ rest -> aligned (snd (token_at c r)) rest.
  Proof.
    assert (Hwhole : c :: r = (c :: r) ++ rest -> aligned (c :: r) rest).
    { intros H. left. rewrite <- (app_nil_r (c :: r)) in H at 1. apply app_inv_head in H. symmetry. exact H. }
    unfold token_at.
    destruct (N.eqb_spec c 38) as [E38|E38].
    { destruct (upto 59 r) as [a|] eqn:Eu; cbn [snd]; [|exact Hwhole].
      destruct (upto_spec _ _ _ Eu) as (pre & rest' & Ha & _ & _). subst a. intros _.
      change (c :: pre ++ [59]) with ((c :: pre) ++ [59]). apply aligned_last. reflexivity. }
    destruct (N.eqb_spec c 60) as [E60|E60].
    { destruct (comment_start r).
      - destruct (comment_body (skipn 3 r)) as [body|]; cbn [snd]; [|exact Hwhole]. intros _.
        replace (c :: firstn 3 r ++ body ++ [45; 45; 62]) with ((c :: firstn 3 r ++ body ++ [45; 45]) ++ [62])
          by (cbn [app]; rewrite <- !app_assoc; reflexivity).
        apply aligned_last. reflexivity.
      - destruct (upto 62 r) as [a|] eqn:Eu; cbn [snd]; [|exact Hwhole].
        destruct (upto_spec _ _ _ Eu) as (pre & rest' & Ha & _ & _). subst a. intros _.
        change (c :: pre ++ [62]) with ((c :: pre) ++ [62]). apply aligned_last. reflexivity. }
    destruct (N.eqb_spec c 62) as [E62|E62].
    { cbn [snd]. intros _. subst c. apply (aligned_last [] 62). reflexivity. }
    cbn [snd]. intros H. destruct (take_plain_spec r) as (rest' & H1 & _ & H3).
    assert (Hr : rest = rest').
    { cbn [app] in H. injection H as H. rewrite H1 in H at 1. apply app_inv_head in H. symmetry. exact H. }
    subst rest'. destruct rest as [|y rest2]; [left; reflexivity|]. right. right.
    exists y, rest2. split; [reflexivity|apply special_sync; exact H3].
  Qed.

  Lemma split_valid y : enc_valid y = true -> Forall (fun tk => enc_valid (snd tk) = true) (split y).
  Proof.
    apply (split_induction (fun y toks => enc_valid y = true -> Forall (fun tk => enc_valid (snd tk) = true) toks)).
    - intros _. constructor.
    - intros c r rest H1 _ _ IH Hv. rewrite H1 in Hv. rewrite (ev_split _ _ (token_at_aligned c r rest H1)) in Hv.
      apply andb_true_iff in Hv. destruct Hv as [Hv1 Hv2]. constructor; [exact Hv1|exact (IH Hv2)].
  Qed.

  Definition escb (c : N) : bool := (c =? 60) || (c =? 62) || (c =? 38) || (c =? 34).

  Lemma esc_decomp t : existsb escb t = false \/
    exists r c t', t = r ++ c :: t' /\ existsb escb r = false /\ escb c = true.
  Proof.
    induction t as [|x t IH]; [left; reflexivity|]. destruct (escb x) eqn:Ex.
    - right. exists [], x, t. repeat split. exact Ex.
    - destruct IH as [IH|(r & c & t' & Ht & Hr & Hc)].
      + left. cbn [existsb]. rewrite Ex. exact IH.
      + right. exists (x :: r), c, t'. subst t. repeat split; [|exact Hc]. cbn [existsb]. rewrite Ex. exact Hr.
  Qed.

  Lemma escape4_noesc r : existsb escb r = false -> escape4 r = r.
  Proof.
    induction r as [|x r IH]; [reflexivity|]. cbn [existsb]. intros H. apply orb_false_iff in H. destruct H as [Hx Hr].
    unfold escape4 in *. cbn [flat_map]. rewrite (IH Hr). unfold esc4, escb in *.
    apply orb_false_iff in Hx. destruct Hx as [Hx H34]. apply orb_false_iff in Hx. destruct Hx as [Hx H38].
    apply orb_false_iff in Hx. destruct Hx as [H60 H62]. rewrite H60, H62, H38, H34. reflexivity.
  Qed.

  Lemma escb_sync c : escb c = true -> syncb c = true.
  Proof.
    unfold escb, syncb. intros H.
    destruct (c =? 60), (c =? 62), (c =? 38), (c =? 34); try discriminate; repeat rewrite orb_true_r; reflexivity.
  Qed.

  Lemma ev_entity nm : enc_valid nm = true -> enc_valid (38 :: nm ++ [59]) = true.
  Proof.
    intros H. change (38 :: nm ++ [59]) with ([] ++ 38 :: (nm ++ [59])).
    rewrite (ev_sync EV [] 38 _ eq_refl), (ev_nil EV). cbn [andb].
    rewrite (ev_sync EV nm 59 [] eq_refl), H, (ev_nil EV). reflexivity.
  Qed.

  Lemma ev_esc4 c : escb c = true -> enc_valid (esc4 c) = true.
  Proof.
    unfold escb, esc4. intros H.
    destruct (c =? 60); [apply (ev_entity [108;116]); exact (ev_lt EV)|].
    destruct (c =? 62); [apply (ev_entity [103;116]); exact (ev_gt EV)|].
    destruct (c =? 38); [apply (ev_entity [97;109;112]); exact (ev_amp EV)|].
    destruct (c =? 34); [apply (ev_entity [113;117;111;116]); exact (ev_quot EV)|]. discriminate.
  Qed.

  Lemma ev_escape t : enc_valid t = true -> enc_valid (escape4 t) = true.
  Proof.
    remember (length t) as n eqn:Hn. assert (Hle : (length t <= n)%nat) by lia. clear Hn. revert t Hle.
    induction n as [|n IH]; intros t Hle Hv.
    - destruct t; [exact Hv|cbn in Hle; lia].
    - destruct (esc_decomp t) as [Hno|(r & c & t' & Ht & Hr & Hc)].
      + rewrite escape4_noesc by exact Hno. exact Hv.
      + subst t. rewrite (ev_sync EV r c t' (escb_sync c Hc)) in Hv. apply andb_true_iff in Hv. destruct Hv as [Hv1 Hv2].
        unfold escape4. rewrite flat_map_app. cbn [flat_map]. fold (escape4 r). fold (escape4 t').
        rewrite escape4_noesc by exact Hr. apply (ev_app EV); [exact Hv1|]. apply (ev_app EV); [apply ev_esc4; exact Hc|].
        apply IH; [|exact Hv2]. rewrite app_length in Hle. cbn [length] in Hle. lia.
  Qed.

  Lemma ev_concat ps : Forall (fun p => enc_valid p = true) ps -> enc_valid (concat ps) = true.
  Proof. induction 1 as [|p ps Hp H IH]; [exact (ev_nil EV)|]. cbn [concat]. apply (ev_app EV); assumption. Qed.
End Enc.

Section Full.
  Variable xhtml comments numeric : bool.
  Variable tag_kind : list N -> tkind.
  Variable entity_ok : list N -> bool.
  Variable bool_ok : list N -> list N -> bool.
  Variable val_ok : list N -> list N -> list N -> bool.
  Variable has_enc : bool.
  Variable enc_valid : list N -> bool.
  Variable enc_vof : list N -> option (list N).
  Notation inval := (inval xhtml comments numeric tag_kind entity_ok bool_ok val_ok).
  Notation fentries := (filter_entries xhtml comments numeric tag_kind entity_ok bool_ok val_ok).
  Notation vfcore := (vf_core xhtml comments numeric tag_kind entity_ok bool_ok val_ok).
  Notation vcore := (validate_core xhtml comments numeric tag_kind entity_ok bool_ok val_ok).
  Notation validate := (validate xhtml comments numeric tag_kind entity_ok bool_ok val_ok has_enc enc_valid).
  Notation vaf := (validate_and_filter xhtml comments numeric tag_kind entity_ok bool_ok val_ok has_enc enc_vof).
  Notation filter := (filter xhtml comments numeric tag_kind entity_ok bool_ok val_ok has_enc enc_vof).

  Lemma vf_core_enc_valid m y : enc_ascii_compatible enc_valid -> enc_valid y = true ->
    enc_valid (snd (vfcore m y)) = true.
  Proof.
    intros EV Hy. rewrite vf_core_out. apply (ev_concat enc_valid EV).
    apply Forall_forall. intros p Hp. apply in_map_iff in Hp. destruct Hp as (e & He & Hin). subst p.
    assert (Htext : enc_valid (e_text e) = true).
    { unfold filter_entries in Hin. cbn [fst] in Hin. fold (nested xhtml y) in Hin.
      assert (Hall : Forall (fun t => enc_valid t = true) (map e_text (map inval (nested xhtml y)))).
      { rewrite map_map. rewrite (map_ext _ e_text (inval_text xhtml comments numeric tag_kind entity_ok bool_ok val_ok)).
        unfold nested. rewrite nest_texts, map_map. rewrite (map_ext _ snd parse_part_text).
        pose proof (split_valid enc_valid EV y Hy) as Hs. apply Forall_forall. intros t Ht. apply in_map_iff in Ht.
        destruct Ht as (tk & Htk & Hin'). subst t. rewrite Forall_forall in Hs. apply Hs. exact Hin'. }
      rewrite Forall_forall in Hall. apply Hall. apply in_map. exact Hin. }
    unfold emit. destruct (is_invalid e); [|exact Htext].
    destruct m; [exact (ev_nil enc_valid EV)|apply (ev_escape enc_valid EV); exact Htext].
  Qed.

  (* validate_or_filter returns well-formed text when it had to filter (property C14) *)
  Definition enc_vof_valid : Prop := forall x y, enc_vof x = Some y -> enc_valid y = true.

  Lemma filter_validates_l m x :
    kind_compat xhtml tag_kind -> (m = EscapeInvalid -> esc_entities_ok entity_ok) ->
    enc_agree enc_valid enc_vof -> enc_vof_valid -> (has_enc = true -> enc_ascii_compatible enc_valid) ->
    validate (filter m x) = true.
  Proof.
    intros Hkind Hesc Hag Hvv HEV.
    destruct (fst (vaf m x)) eqn:Eflag.
    - (* valid input: returned unchanged *)
      assert (Hv : validate x = true) by (rewrite <- (validate_flag _ _ _ _ _ _ _ _ _ _ Hag m x); exact Eflag).
      rewrite (valid_unchanged_l _ _ _ _ _ _ _ _ _ _ Hag m x Hv). exact Hv.
    - unfold Defs.filter. revert Eflag. unfold validate_and_filter.
      destruct has_enc eqn:Ehe.
      + destruct (enc_vof x) as [y|] eqn:Ev.
        * pose proof (vf_core_validates xhtml comments numeric tag_kind entity_ok bool_ok val_ok Hkind m Hesc y) as Hc.
          pose proof (vf_core_enc_valid m y (HEV eq_refl) (Hvv x y Ev)) as He.
          destruct (vfcore m y) as [valid out]. cbn [fst snd andb] in *. intros _.
          unfold Defs.validate. rewrite He. exact Hc.
        * pose proof (vf_core_validates xhtml comments numeric tag_kind entity_ok bool_ok val_ok Hkind m Hesc x) as Hc.
          pose proof (vf_core_enc_valid m x (HEV eq_refl) (proj2 (Hag x) Ev)) as He.
          destruct (vfcore m x) as [valid out]. cbn [fst snd andb] in *.
          destruct valid; cbn [fst snd]; [discriminate|]. intros _.
          unfold Defs.validate. rewrite He. exact Hc.
      + pose proof (vf_core_validates xhtml comments numeric tag_kind entity_ok bool_ok val_ok Hkind m Hesc x) as Hc.
        destruct (vfcore m x) as [valid out]. cbn [fst snd andb] in *.
        destruct valid; cbn [fst snd]; [discriminate|]. intros _.
        unfold Defs.validate. exact Hc.
  Qed.
End Full.
