(* C04 proofs, part R: a regex-typed attribute is accepted only if the WHOLE value is in the language of the pattern
   (DefsR.v: the pattern family, parsed into property C20's regular expressions; C20.Regex.full_match_spec: the derivative
   matcher decides exactly the declarative language `lang`). *)
From CppcmsV Require Import Base.Tac Base.Sweep C04.Defs C04.DefsR.
From CppcmsV Require C20.Defs C20.Regex.
Local Open Scope N_scope.
Module R := C20.Defs.
Module RP := C20.Regex.

Theorem re_validate_exact p v :
  re_validate p v = Some true <-> exists r, parse_pattern p = Some r /\ RP.lang r v.
Proof.
  unfold re_validate. destruct (parse_pattern p) as [r|].
  - split.
    + intros H. exists r. split; [reflexivity|]. apply RP.full_match_spec. congruence.
    + intros (r' & E & L). inversion E; subst r'. f_equal. apply RP.full_match_spec. exact L.
  - split; [discriminate|]. intros (r & E & _). discriminate.
Qed.

Theorem re_validate_reject p v r : parse_pattern p = Some r -> ~ RP.lang r v -> re_validate p v = Some false.
Proof.
  intros E N. unfold re_validate. rewrite E. destruct (R.full_match r v) eqn:F; [|reflexivity].
  exfalso. apply N. apply RP.full_match_spec. exact F.
Qed.

(* through the rule set: an attribute registered with a regex validator of the family *)
Theorem regex_attribute_whole_value r vfun tag pn k p re v :
  find_prop r tag pn = Some (VFun k) -> parse_pattern p = Some re ->
  (forall x, vfun k x = R.full_match re x) ->
  c_val_ok r vfun tag pn v = true -> RP.lang re v.
Proof.
  intros F P V H. unfold c_val_ok in H. rewrite F in H. rewrite V in H. apply RP.full_match_spec. exact H.
Qed.

(* nothing may follow (or precede) a member of the language unless the pattern says so: for the class patterns [..]+ and [..]*
   of the family the language is exactly the strings over the class - so a value followed by a line feed, a NUL, a blank ... is
   in the language only if that byte is in the class *)
Lemma lang_cat_eps a s : RP.lang (R.Cat a R.Eps) s <-> RP.lang a s.
Proof.
  split.
  - intros H. apply RP.lang_cat in H. destruct H as (x & t & -> & Hx & Ht). apply RP.lang_eps in Ht. subst t.
    rewrite app_nil_r. exact Hx.
  - intros H. rewrite <- (app_nil_r s). constructor; [exact H|constructor].
Qed.

Theorem class_plus_language cs v :
  RP.lang (R.Cat (R.Plus (R.Cls cs)) R.Eps) v <-> forallb (R.cmem cs) v = true /\ v <> [].
Proof. rewrite lang_cat_eps. apply RP.lang_plus_cls. Qed.

Theorem class_star_language cs v :
  RP.lang (R.Cat (R.Star (R.Cls cs)) R.Eps) v <-> forallb (R.cmem cs) v = true.
Proof. rewrite lang_cat_eps. apply RP.lang_star_cls. Qed.

Lemma forallb_app_last {A} (f : A -> bool) l x : forallb f (l ++ [x]) = forallb f l && f x.
Proof. rewrite forallb_app. cbn [forallb]. rewrite andb_true_r. reflexivity. Qed.

(* the instance of the missed defect: under [a-z]+ no value that ends in (or contains) a byte outside a-z is accepted *)
Definition lower_plus : list N := [91;97;45;122;93;43].      (* [a-z]+ *)
Theorem lower_plus_rejects_trailing_byte v c :
  ((c <? 97) || (122 <? c)) = true -> re_validate lower_plus (v ++ [c]) = Some false.
Proof.
  intros Hc.
  assert (P : parse_pattern lower_plus = Some (R.Cat (R.Plus (R.Cls (R.CS false [(97, 122)]))) R.Eps)) by (vm_compute; reflexivity).
  apply (re_validate_reject _ _ _ P). intros L. apply class_plus_language in L. destruct L as [L _].
  rewrite forallb_app_last in L. apply andb_true_iff in L. destruct L as [_ L].
  unfold R.cmem, R.in_range in L. cbn [R.cneg R.cranges existsb fst snd] in L.
  apply orb_true_iff in Hc.
  destruct (N.leb_spec 97 c); destruct (N.leb_spec c 122); cbn in L; try discriminate.
  destruct Hc as [Hc|Hc]; apply N.ltb_lt in Hc; lia.
Qed.
