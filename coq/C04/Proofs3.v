(* C04 proofs, part 3: the strict grammar read by parse_html_entity / parse_html_tag /
   parse_properties / validate_property_value.  Each parser result different from Invalid determines
   the token text completely: every byte of the text is white space, a checked name, one of = / quote,
   or part of a checked attribute value. *)
From CppcmsV Require Import Base.Tac Base.Sweep C04.Defs C04.Proofs1.
Local Open Scope N_scope.

Lemma takew_dropw p s : s = takew p s ++ dropw p s.
Proof. induction s as [|x r IH]; [reflexivity|]. cbn [takew dropw]. destruct (p x); [cbn [app]; f_equal; exact IH|reflexivity]. Qed.
Lemma takew_all p s : forallb p (takew p s) = true.
Proof. induction s as [|x r IH]; [reflexivity|]. cbn [takew]. destruct (p x) eqn:E; [cbn [forallb]; rewrite E; exact IH|reflexivity]. Qed.

Lemma starts_spec p s : starts p s = true -> s = p ++ skipn (length p) s.
Proof.
  revert s. induction p as [|x p IH]; intros s H; [reflexivity|].
  destruct s as [|y s]; [discriminate|]. cbn [starts] in H. apply andb_true_iff in H. destruct H as [H1 H2].
  apply N.eqb_eq in H1. subst y. cbn [length skipn app]. f_equal. apply IH. exact H2.
Qed.
Lemma starts_app p s : starts p (p ++ s) = true.
Proof. induction p as [|x p IH]; [reflexivity|]. cbn [app starts]. rewrite N.eqb_refl. exact IH. Qed.

(* ---------- attribute values ---------- *)
Inductive val_form : list N -> Prop :=
  | VF_nil : val_form []
  | VF_char c v : special c = false -> val_form v -> val_form (c :: v)
  | VF_ent e v : In e value_entities -> val_form v -> val_form (38 :: e ++ v).

Lemma value_ok_aux_skip k v : value_ok_aux k v = value_ok_aux 0 (skipn k v).
Proof.
  revert k. induction v as [|c r IH]; intros k; [destruct k; reflexivity|].
  destruct k as [|k]; [reflexivity|]. cbn [value_ok_aux skipn]. apply IH.
Qed.

Lemma first_match_spec ps s n : first_match ps s = Some n ->
  exists p, In p ps /\ n = length p /\ s = p ++ skipn n s.
Proof.
  induction ps as [|p ps IH]; [discriminate|]. cbn [first_match].
  destruct (starts p s) eqn:E.
  - intros H. inversion H; subst. exists p. split; [left; reflexivity|]. split; [reflexivity|]. apply starts_spec. exact E.
  - intros H. destruct (IH H) as (q & Hq & Hn & Hs). exists q. split; [right; exact Hq|]. split; assumption.
Qed.

Lemma value_ok_form v : value_ok v = true -> val_form v.
Proof.
  unfold value_ok. remember (length v) as n eqn:Hn. assert (Hle : (length v <= n)%nat) by lia. clear Hn.
  revert v Hle. induction n as [|n IH]; intros v Hle H.
  - destruct v; [constructor|cbn in Hle; lia].
  - destruct v as [|c r]; [constructor|]. cbn [value_ok_aux] in H. cbn [length] in Hle.
    destruct ((c =? 60) || (c =? 62)) eqn:E1; [discriminate|].
    destruct (N.eqb_spec c 38) as [E2|E2].
    + subst c. destruct (first_match value_entities r) as [k|] eqn:Ef; [|discriminate].
      destruct (first_match_spec _ _ _ Ef) as (p & Hp & Hk & Hs).
      rewrite value_ok_aux_skip in H. rewrite Hs. apply VF_ent; [exact Hp|].
      apply IH; [|exact H]. rewrite Hs in Hle. rewrite app_length in Hle. lia.
    + apply VF_char; [|apply IH; [lia|exact H]].
      unfold special. apply orb_false_iff in E1. destruct E1 as [E60 E62]. rewrite E60, E62.
      apply N.eqb_neq in E2. rewrite E2. reflexivity.
Qed.

Lemma val_form_value_ok v : val_form v -> value_ok v = true.
Proof.
  unfold value_ok. induction 1 as [|c v Hc H IH|e v He H IH]; [reflexivity| |].
  - cbn [value_ok_aux]. unfold special in Hc. apply orb_false_iff in Hc. destruct Hc as [Hc H38].
    rewrite Hc, H38. exact IH.
  - cbn [value_ok_aux]. cbn [N.eqb Pos.eqb orb].
    assert (Hfm : first_match value_entities (e ++ v) = Some (length e)).
    { cbn [value_entities In] in He.
      repeat (destruct He as [He|He]; [subst e; reflexivity|]). destruct He. }
    rewrite Hfm. rewrite value_ok_aux_skip. rewrite skipn_app, skipn_all, Nat.sub_diag. exact IH.
Qed.

Lemma val_form_no_angle v : val_form v -> ~ In 60 v /\ ~ In 62 v.
Proof.
  induction 1 as [|c v Hc H IH|e v He H IH].
  - split; intros [].
  - destruct IH as [I1 I2]. unfold special in Hc. apply orb_false_iff in Hc. destruct Hc as [Hc _].
    apply orb_false_iff in Hc. destruct Hc as [H60 H62]. apply N.eqb_neq in H60, H62.
    split; intros [Hx|Hx]; try congruence; auto.
  - destruct IH as [I1 I2].
    assert (Hent : ~ In 60 e /\ ~ In 62 e).
    { cbn [value_entities In] in He.
      repeat (destruct He as [He|He]; [subst e; split; cbn [In]; intros Hx; repeat (destruct Hx as [Hx|Hx]; [discriminate|]); exact Hx|]).
      destruct He. }
    destruct Hent as [E1 E2].
    split; intros [Hx|Hx]; try discriminate; apply in_app_or in Hx; destruct Hx; auto.
Qed.

Lemma val_form_app a b : val_form a -> val_form b -> val_form (a ++ b).
Proof.
  induction 1 as [|c v Hc H IH|e v He H IH]; intros Hb; [exact Hb| |].
  - cbn [app]. apply VF_char; [exact Hc|apply IH; exact Hb].
  - cbn [app]. rewrite <- app_assoc. apply VF_ent; [exact He|apply IH; exact Hb].
Qed.

(* the escaping of invalid parts produces text of the same harmless form *)
Lemma escape4_form t : val_form (escape4 t).
Proof.
  induction t as [|c t IH]; [constructor|]. unfold escape4 in *. cbn [flat_map].
  unfold esc4.
  destruct (N.eqb_spec c 60); [apply (VF_ent [108;116;59] _); [cbn; tauto|exact IH]|].
  destruct (N.eqb_spec c 62); [apply (VF_ent [103;116;59] _); [cbn; tauto|exact IH]|].
  destruct (N.eqb_spec c 38); [apply (VF_ent [97;109;112;59] _); [cbn; tauto|exact IH]|].
  destruct (N.eqb_spec c 34); [apply (VF_ent [113;117;111;116;59] _); [cbn; tauto|exact IH]|].
  cbn [app]. apply VF_char; [|exact IH]. unfold special.
  repeat match goal with H : _ <> _ |- _ => apply N.eqb_neq in H; rewrite H; clear H end. reflexivity.
Qed.

(* ---------- attributes ---------- *)
Definition attr_name (nm : list N) : Prop := nm <> [] /\ forallb is_alnum nm = true.

Inductive attrs_form : list prop -> list N -> Prop :=
  | AF_nil ws : forallb is_space ws = true -> attrs_form [] ws
  | AF_bool ws nm s ps rest :
      forallb is_space ws = true -> attr_name nm -> is_space s = true -> attrs_form ps rest ->
      attrs_form ((nm, None) :: ps) (ws ++ nm ++ s :: rest)
  | AF_val ws nm q v ps rest :
      forallb is_space ws = true -> attr_name nm -> q = 34 \/ q = 39 -> ~ In q v -> val_form v ->
      attrs_form ps rest ->
      attrs_form ((nm, Some v) :: ps) (ws ++ nm ++ 61 :: q :: v ++ q :: rest).

Lemma attrs_form_space c ps seg : is_space c = true -> attrs_form ps seg -> attrs_form ps (c :: seg).
Proof.
  intros Hc H. inversion H; subst.
  - apply AF_nil. cbn [forallb]. rewrite Hc. assumption.
  - apply (AF_bool (c :: ws)); try assumption. cbn [forallb]. rewrite Hc. assumption.
  - apply (AF_val (c :: ws)); try assumption. cbn [forallb]. rewrite Hc. assumption.
Qed.

(* what remains to be read in each state of the loop of parse_properties *)
Definition name_tail (nm : list N) (seg : list N) (ps : list prop) : Prop :=
  exists more, forallb is_alnum more = true /\
    ((exists s rest ps', seg = more ++ s :: rest /\ is_space s = true /\
                         ps = (nm ++ more, None) :: ps' /\ attrs_form ps' rest) \/
     (exists q v rest ps', seg = more ++ 61 :: q :: v ++ q :: rest /\ (q = 34 \/ q = 39) /\ ~ In q v /\
                           val_form v /\ ps = (nm ++ more, Some v) :: ps' /\ attrs_form ps' rest)).
Definition st_form (st : pstate) (seg : list N) (ps : list prop) : Prop :=
  match st with
  | PBetween _ => attrs_form ps seg
  | PName nmr => name_tail (rev nmr) seg ps
  | PEq nm => exists q v rest ps', seg = q :: v ++ q :: rest /\ (q = 34 \/ q = 39) /\ ~ In q v /\
                val_form v /\ ps = (nm, Some v) :: ps' /\ attrs_form ps' rest
  | PVal nm q vr => exists v2 rest ps', seg = v2 ++ q :: rest /\ ~ In q v2 /\ val_form (rev vr ++ v2) /\
                ps = (nm, Some (rev vr ++ v2)) :: ps' /\ attrs_form ps' rest
  end.

Lemma props_sm_form seg : forall st acc res, props_sm st seg acc = Some res ->
  exists ps, res = rev acc ++ ps /\ st_form st seg ps.
Proof.
  induction seg as [|c r IH]; intros st acc res H.
  - cbn [props_sm] in H. destruct st; try discriminate. inversion H; subst.
    exists []. rewrite app_nil_r. split; [reflexivity|]. apply AF_nil. reflexivity.
  - cbn [props_sm] in H. destruct st as [sf|nmr|nm|nm q vr].
    + (* PBetween *)
      destruct (is_space c) eqn:Es.
      { destruct (IH _ _ _ H) as (ps & Hres & Hf). exists ps. split; [exact Hres|].
        cbn [st_form] in *. apply attrs_form_space; assumption. }
      destruct (negb sf); [discriminate|]. destruct (negb (is_alpha c)); [discriminate|].
      destruct (is_alnum c) eqn:Ea; [|discriminate].
      destruct (IH _ _ _ H) as (ps & Hres & Hf). exists ps. split; [exact Hres|].
      cbn [st_form rev app] in *. destruct Hf as (more & Hm & [Hf|Hf]).
      * destruct Hf as (s & rest & ps' & Hseg & Hs & Hps & Hrest). subst r ps.
        apply (AF_bool [] (c :: more) s ps' rest); try assumption; [reflexivity|].
        split; [discriminate|]. cbn [forallb]. rewrite Ea. exact Hm.
      * destruct Hf as (q & v & rest & ps' & Hseg & Hq & Hnq & Hv & Hps & Hrest). subst r ps.
        apply (AF_val [] (c :: more) q v ps' rest); try assumption; [reflexivity|].
        split; [discriminate|]. cbn [forallb]. rewrite Ea. exact Hm.
    + (* PName *)
      destruct (is_alnum c) eqn:Ea.
      { destruct (IH _ _ _ H) as (ps & Hres & Hf). exists ps. split; [exact Hres|].
        cbn [st_form rev] in *. destruct Hf as (more & Hm & Hf). exists (c :: more).
        split; [cbn [forallb]; rewrite Ea; exact Hm|].
        destruct Hf as [Hf|Hf]; [left|right].
        - destruct Hf as (s & rest & ps' & Hseg & Hs & Hps & Hrest). exists s, rest, ps'.
          rewrite <- app_assoc in Hps. repeat split; try assumption. cbn [app]. f_equal. exact Hseg.
        - destruct Hf as (q & v & rest & ps' & Hseg & Hq & Hnq & Hv & Hps & Hrest). exists q, v, rest, ps'.
          rewrite <- app_assoc in Hps. repeat split; try assumption. cbn [app]. f_equal. exact Hseg. }
      destruct (is_space c) eqn:Es.
      { destruct (IH _ _ _ H) as (ps & Hres & Hf). cbn [st_form] in Hf.
        exists ((rev nmr, None) :: ps). split; [rewrite Hres; cbn [rev]; rewrite <- app_assoc; reflexivity|].
        cbn [st_form]. exists []. split; [reflexivity|]. left. exists c, r, ps.
        rewrite app_nil_r. repeat split; assumption. }
      destruct (N.eqb_spec c 61) as [E61|E61]; [|discriminate]. subst c.
      destruct (IH _ _ _ H) as (ps & Hres & Hf). exists ps. split; [exact Hres|].
      cbn [st_form] in *. exists []. split; [reflexivity|]. right.
      destruct Hf as (q & v & rest & ps' & Hseg & Hq & Hnq & Hv & Hps & Hrest). exists q, v, rest, ps'.
      rewrite app_nil_r. repeat split; try assumption. cbn [app]. f_equal. exact Hseg.
    + (* PEq *)
      destruct ((c =? 39) || (c =? 34)) eqn:Eq; [|discriminate].
      destruct (IH _ _ _ H) as (ps & Hres & Hf). exists ps. split; [exact Hres|].
      cbn [st_form rev app] in *. destruct Hf as (v2 & rest & ps' & Hseg & Hnq & Hv & Hps & Hrest).
      exists c, v2, rest, ps'. repeat split; try assumption; [f_equal; exact Hseg|].
      apply orb_true_iff in Eq. destruct Eq as [Eq|Eq]; apply N.eqb_eq in Eq; [right|left]; exact Eq.
    + (* PVal *)
      destruct (N.eqb_spec c q) as [Ecq|Ecq].
      { subst c. destruct (value_ok (rev vr)) eqn:Ev; [|discriminate].
        destruct (IH _ _ _ H) as (ps & Hres & Hf). cbn [st_form] in Hf.
        exists ((nm, Some (rev vr)) :: ps). split; [rewrite Hres; cbn [rev]; rewrite <- app_assoc; reflexivity|].
        cbn [st_form]. exists [], r, ps. rewrite app_nil_r. repeat split; try assumption; [intros []|].
        apply value_ok_form. exact Ev. }
      destruct (IH _ _ _ H) as (ps & Hres & Hf). exists ps. split; [exact Hres|].
      cbn [st_form rev] in *. destruct Hf as (v2 & rest & ps' & Hseg & Hnq & Hv & Hps & Hrest).
      exists (c :: v2), rest, ps'. rewrite <- app_assoc in Hv, Hps. cbn [app] in Hv, Hps.
      repeat split; try assumption; [cbn [app]; f_equal; exact Hseg|].
      intros [Hx|Hx]; [congruence|exact (Hnq Hx)].
Qed.

Lemma parse_props_form seg ps : parse_props seg = Some ps -> attrs_form ps seg.
Proof.
  unfold parse_props. intros H. destruct (props_sm_form _ _ _ _ H) as (ps' & Hres & Hf).
  cbn [rev app] in Hres. subst ps'. exact Hf.
Qed.
