(* C04 proofs, part 11: every rule set that the public API can build (crules) satisfies the two
   side conditions of the stability theorem: tag look-up does not distinguish names that ascii_streq
   identifies, and the entities lt gt amp quot are always allowed. *)
From CppcmsV Require Import Base.Tac Base.Sweep C04.Defs C04.Proofs1 C04.Proofs6 C04.Proofs9 C04.Proofs10.
Local Open Scope N_scope.

Lemma name_eq_iff x a b : name_eq x a b = true <->
  (if x then a else map to_lower a) = (if x then b else map to_lower b).
Proof. unfold name_eq. destruct x; apply leqb_eq. Qed.

Lemma name_eq_right x t a b : name_eq x a b = true -> name_eq x t a = name_eq x t b.
Proof.
  intros H. apply name_eq_iff in H. unfold name_eq. destruct x; rewrite H; reflexivity.
Qed.

Lemma c_kind_compat r : kind_compat (c_xhtml r) (c_tag_kind r).
Proof.
  intros a b H. unfold c_tag_kind, find_tag.
  assert (Hf : forall l, find (fun t : list N * tkind * list (list N * vkind) =>
                                 name_eq (c_xhtml r) (fst (fst t)) a && kind_set (snd (fst t))) l
                       = find (fun t => name_eq (c_xhtml r) (fst (fst t)) b && kind_set (snd (fst t))) l).
  { induction l as [|t l IH]; [reflexivity|]. cbn [find]. rewrite (name_eq_right _ (fst (fst t)) a b H), IH. reflexivity. }
  rewrite Hf. reflexivity.
Qed.

Lemma c_esc_entities_ok r : esc_entities_ok (c_entity_ok r).
Proof. unfold esc_entities_ok, c_entity_ok. repeat split; reflexivity. Qed.

Lemma c_filter_validates r vfun has_enc enc_valid enc_vof m x :
  enc_agree enc_valid enc_vof -> enc_vof_valid enc_valid enc_vof ->
  (has_enc = true -> enc_ascii_compatible enc_valid) ->
  c_validate r vfun has_enc enc_valid (snd (c_validate_and_filter r vfun has_enc enc_vof m x)) = true.
Proof.
  intros Hag Hvv HEV. unfold c_validate, c_validate_and_filter.
  apply (filter_validates_l (c_xhtml r) (c_comments r) (c_numeric r) (c_tag_kind r) (c_entity_ok r)
           (c_bool_ok r) (c_val_ok r vfun) has_enc enc_valid enc_vof m x);
    [apply c_kind_compat|intros _; apply c_esc_entities_ok|exact Hag|exact Hvv|exact HEV].
Qed.
