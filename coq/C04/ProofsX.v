(* C04 proofs for the conversion path (DefsX.v): verdict agreement, valid input unchanged, the markup
   property of the UTF-8 text that is converted back, stability. *)
From CppcmsV Require Import Base.Tac Base.Sweep C04.Defs C04.DefsX C04.Proofs1 C04.Proofs3 C04.Proofs4 C04.Proofs6
  C04.Proofs9 C04.Proofs10.
Local Open Scope N_scope.

Section X.
  Variable xhtml comments numeric : bool.
  Variable tag_kind : list N -> tkind.
  Variable entity_ok : list N -> bool.
  Variable bool_ok : list N -> list N -> bool.
  Variable val_ok : list N -> list N -> list N -> bool.
  Variable has_enc ascii_compat : bool.
  Variable enc_valid : list N -> bool.
  Variable enc_vof : list N -> option (list N).
  Variable to_utf_stop : list N -> option (list N).
  Variable to_utf_skip : list N -> list N.
  Variable from_utf_stop : list N -> option (list N).
  Notation vfcore := (vf_core xhtml comments numeric tag_kind entity_ok bool_ok val_ok).
  Notation vcore := (validate_core xhtml comments numeric tag_kind entity_ok bool_ok val_ok).
  Notation validate_x := (validate_x xhtml comments numeric tag_kind entity_ok bool_ok val_ok has_enc ascii_compat
                            enc_valid to_utf_stop).
  Notation vaf_x := (validate_and_filter_x xhtml comments numeric tag_kind entity_ok bool_ok val_ok has_enc ascii_compat
                       enc_vof to_utf_stop to_utf_skip from_utf_stop).
  Notation filter_x := (filter_x xhtml comments numeric tag_kind entity_ok bool_ok val_ok has_enc ascii_compat
                          enc_vof to_utf_stop to_utf_skip from_utf_stop).
  Notation seg_ok := (seg_ok xhtml comments numeric tag_kind entity_ok bool_ok val_ok).
  Notation whitelisted := (whitelisted xhtml comments numeric tag_kind entity_ok bool_ok val_ok).

  Hypothesis Hag : enc_agree enc_valid enc_vof.

  Lemma not_valid_vof x : enc_vof x <> None -> enc_valid x = false.
  Proof. intros H. destruct (enc_valid x) eqn:E; [|reflexivity]. apply Hag in E. congruence. Qed.

  Lemma validate_flag_x m x : fst (vaf_x m x) = validate_x x.
  Proof.
    unfold validate_and_filter_x, DefsX.validate_x.
    destruct (has_enc && negb ascii_compat); [|apply validate_flag; exact Hag].
    destruct (to_utf_stop x) as [u|].
    - destruct (enc_vof u) as [y|] eqn:Ev.
      + rewrite (not_valid_vof u) by congruence. destruct (vfcore m y). reflexivity.
      + apply Hag in Ev. rewrite Ev. pose proof (vf_core_flag xhtml comments numeric tag_kind entity_ok bool_ok val_ok m u) as Hf.
        destruct (vfcore m u) as [valid out]. cbn [fst] in Hf. subst valid. cbn [andb]. destruct (vcore u); reflexivity.
    - destruct (enc_vof (to_utf_skip x)); destruct (vfcore m _); reflexivity.
  Qed.

  Lemma valid_unchanged_x m x : validate_x x = true -> filter_x m x = x.
  Proof.
    intros Hv. rewrite <- (validate_flag_x m x) in Hv. unfold DefsX.filter_x. revert Hv.
    unfold validate_and_filter_x.
    destruct (has_enc && negb ascii_compat).
    - destruct (match to_utf_stop x with Some u => (true, u) | None => (false, to_utf_skip x) end) as [v0 w].
      destruct (match enc_vof w with None => (v0, w) | Some y => (false, y) end) as [v1 y].
      destruct (vfcore m y) as [valid out]. destruct (v1 && valid); cbn [fst snd]; [reflexivity|discriminate].
    - unfold validate_and_filter.
      destruct (if has_enc then match enc_vof x with None => (true, x) | Some y => (false, y) end else (true, x)) as [v0 y].
      destruct (vfcore m y) as [valid out]. destruct (v0 && valid); cbn [fst snd]; [reflexivity|discriminate].
  Qed.

  (* validation implies: the text converts and the conversion is well-formed UTF-8 *)
  Lemma validate_encoding_x x : has_enc = true -> ascii_compat = false -> validate_x x = true ->
    exists u, to_utf_stop x = Some u /\ enc_valid u = true.
  Proof.
    intros H1 H2. unfold DefsX.validate_x. rewrite H1, H2. cbn [andb negb].
    destruct (to_utf_stop x) as [u|]; [|discriminate]. destruct (enc_valid u) eqn:E; [|discriminate].
    intros _. exists u. split; [reflexivity|exact E].
  Qed.

  (* the text that is converted back consists of white-listed tokens and harmless text *)
  Lemma filter_segs_x m x : has_enc = true -> ascii_compat = false ->
    exists segs, Forall seg_ok segs /\
      ((filter_x m x = x /\ to_utf_stop x = Some (concat segs)) \/
       from_utf_stop (concat segs) = Some (filter_x m x) \/ filter_x m x = []).
  Proof.
    intros H1 H2. unfold DefsX.filter_x, validate_and_filter_x. rewrite H1, H2. cbn [andb negb].
    destruct (to_utf_stop x) as [u|] eqn:Eu.
    - destruct (enc_vof u) as [y|] eqn:Ev.
      + destruct (vf_core_segs xhtml comments numeric tag_kind entity_ok bool_ok val_ok m y) as (segs & Hs & Hok).
        destruct (vfcore m y) as [valid out]. cbn [fst snd andb] in *. exists segs. split; [exact Hok|]. subst out.
        destruct (from_utf_stop (concat segs)); [right; left; reflexivity|right; right; reflexivity].
      + pose proof (vf_core_flag xhtml comments numeric tag_kind entity_ok bool_ok val_ok m u) as Hf.
        destruct (vf_core_segs xhtml comments numeric tag_kind entity_ok bool_ok val_ok m u) as (segs & Hs & Hok).
        destruct (vfcore m u) as [valid out]. cbn [fst snd andb] in *. destruct valid; cbn [snd].
        * destruct (validate_core_whitelisted xhtml comments numeric tag_kind entity_ok bool_ok val_ok u (eq_sym Hf)) as (segs' & Hu & Hw).
          exists segs'. split; [eapply Forall_impl; [|exact Hw]; intros s Hs'; left; exact Hs'|].
          left. split; [reflexivity|rewrite <- Hu; reflexivity].
        * exists segs. split; [exact Hok|]. subst out.
          destruct (from_utf_stop (concat segs)); [right; left; reflexivity|right; right; reflexivity].
    - destruct (enc_vof (to_utf_skip x)) as [y|].
      + destruct (vf_core_segs xhtml comments numeric tag_kind entity_ok bool_ok val_ok m y) as (segs & Hs & Hok).
        destruct (vfcore m y) as [valid out]. cbn [fst snd andb] in *. exists segs. split; [exact Hok|]. subst out.
        destruct (from_utf_stop (concat segs)); [right; left; reflexivity|right; right; reflexivity].
      + destruct (vf_core_segs xhtml comments numeric tag_kind entity_ok bool_ok val_ok m (to_utf_skip x)) as (segs & Hs & Hok).
        destruct (vfcore m (to_utf_skip x)) as [valid out]. cbn [fst snd andb] in *. exists segs. split; [exact Hok|]. subst out.
        destruct (from_utf_stop (concat segs)); [right; left; reflexivity|right; right; reflexivity].
  Qed.

  (* conversion to the encoding and back gives the same UTF-8 text; the empty text converts *)
  Definition conv_roundtrip : Prop :=
    (forall o z, enc_valid o = true -> from_utf_stop o = Some z -> to_utf_stop z = Some o) /\ to_utf_stop [] = Some [].

  Lemma vcore_nil : vcore [] = true.
  Proof. reflexivity. Qed.

  Lemma filter_validates_x m x :
    kind_compat xhtml tag_kind -> (m = EscapeInvalid -> esc_entities_ok entity_ok) ->
    enc_vof_valid enc_valid enc_vof -> (has_enc = true -> enc_ascii_compatible enc_valid) -> conv_roundtrip ->
    validate_x (filter_x m x) = true.
  Proof.
    intros Hkind Hesc Hvv HEV [Hrt Hnil].
    destruct (fst (vaf_x m x)) eqn:Eflag.
    - assert (Hv : validate_x x = true) by (rewrite <- (validate_flag_x m x); exact Eflag).
      rewrite (valid_unchanged_x m x Hv). exact Hv.
    - destruct (has_enc && negb ascii_compat) eqn:Ex.
      + pose proof Ex as Ex'. apply andb_true_iff in Ex. destruct Ex as [E1 E2]. apply negb_true_iff in E2.
        specialize (HEV E1).
        assert (Hgen : forall y, enc_valid y = true ->
                  validate_x (match from_utf_stop (snd (vfcore m y)) with Some o => o | None => [] end) = true).
        { intros y Hy.
          pose proof (vf_core_validates xhtml comments numeric tag_kind entity_ok bool_ok val_ok Hkind m Hesc y) as Hc.
          pose proof (vf_core_enc_valid xhtml comments numeric tag_kind entity_ok bool_ok val_ok enc_valid m y HEV Hy) as He.
          unfold DefsX.validate_x. rewrite E1, E2. cbn [andb negb].
          destruct (from_utf_stop (snd (vfcore m y))) as [o|] eqn:Ef.
          - rewrite (Hrt _ _ He Ef), He. exact Hc.
          - rewrite Hnil, (ev_nil enc_valid HEV). apply vcore_nil. }
        unfold DefsX.filter_x. revert Eflag. unfold validate_and_filter_x. rewrite Ex'.
        destruct (to_utf_stop x) as [u|] eqn:Eu.
        * destruct (enc_vof u) as [y|] eqn:Ev.
          -- specialize (Hgen y (Hvv u y Ev)). destruct (vfcore m y) as [valid out]. cbn [fst snd andb] in *. intros _. exact Hgen.
          -- specialize (Hgen u (proj2 (Hag u) Ev)). destruct (vfcore m u) as [valid out]. cbn [fst snd andb] in *.
             destruct valid; cbn [fst snd]; [discriminate|]. intros _. exact Hgen.
        * destruct (enc_vof (to_utf_skip x)) as [y|] eqn:Ev.
          -- specialize (Hgen y (Hvv _ y Ev)). destruct (vfcore m y) as [valid out]. cbn [fst snd andb] in *. intros _. exact Hgen.
          -- specialize (Hgen _ (proj2 (Hag _) Ev)). destruct (vfcore m (to_utf_skip x)) as [valid out]. cbn [fst snd andb] in *.
             intros _. exact Hgen.
      + (* the ASCII compatible path *)
        assert (Hsame : forall z, validate_x z = validate xhtml comments numeric tag_kind entity_ok bool_ok val_ok has_enc enc_valid z).
        { intros z. unfold DefsX.validate_x. rewrite Ex. reflexivity. }
        assert (Hf : filter_x m x = filter xhtml comments numeric tag_kind entity_ok bool_ok val_ok has_enc enc_vof m x).
        { unfold DefsX.filter_x, validate_and_filter_x, Defs.filter. rewrite Ex. reflexivity. }
        rewrite Hsame, Hf. apply filter_validates_l; assumption.
  Qed.
End X.
