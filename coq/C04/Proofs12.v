(* C04 proofs, part 12: remove_invalid only deletes whole entries; escape_invalid only rewrites them *)
From CppcmsV Require Import Base.Tac Base.Sweep C04.Defs C04.Proofs1 C04.Proofs4.
Local Open Scope N_scope.

Lemma emit_remove_filter es :
  concat (map (emit RemoveInvalid) es) = concat (map e_text (List.filter (fun e => negb (is_invalid e)) es)).
Proof.
  induction es as [|e es IH]; [reflexivity|]. cbn [map concat List.filter]. unfold emit at 1.
  destruct (is_invalid e); cbn [negb]; [exact IH|]. cbn [map concat]. rewrite IH. reflexivity.
Qed.

Lemma emit_escape_map es :
  concat (map (emit EscapeInvalid) es) = concat (map (fun e => if is_invalid e then escape4 (e_text e) else e_text e) es).
Proof. reflexivity. Qed.

Section Del.
  Variable xhtml comments numeric : bool.
  Variable tag_kind : list N -> tkind.
  Variable entity_ok : list N -> bool.
  Variable bool_ok : list N -> list N -> bool.
  Variable val_ok : list N -> list N -> list N -> bool.
  Notation fentries := (filter_entries xhtml comments numeric tag_kind entity_ok bool_ok val_ok).
  Notation vfcore := (vf_core xhtml comments numeric tag_kind entity_ok bool_ok val_ok).

  Lemma vf_core_remove y :
    let es := fst (fentries y) in
    concat (map e_text es) = y /\
    snd (vfcore RemoveInvalid y) = concat (map e_text (List.filter (fun e => negb (is_invalid e)) es)) /\
    snd (vfcore EscapeInvalid y) = concat (map (fun e => if is_invalid e then escape4 (e_text e) else e_text e) es).
  Proof.
    cbv zeta. destruct (vf_core_shape xhtml comments numeric tag_kind entity_ok bool_ok val_ok RemoveInvalid y) as (H1 & H2 & _).
    destruct (vf_core_shape xhtml comments numeric tag_kind entity_ok bool_ok val_ok EscapeInvalid y) as (H3 & _ & _).
    cbv zeta in *. split; [exact H2|]. split; [rewrite H1; apply emit_remove_filter|rewrite H3; apply emit_escape_map].
  Qed.
End Del.
