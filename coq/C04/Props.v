(* C04 -- XSS filter output contains only white-listed markup and is stable.
   Only property theorems here, each closed by `exact <lemma>`; proofs are in Proofs*.v.
   Rule sets are universally quantified through the functions tag_kind / entity_ok / bool_ok / val_ok
   (rules::valid_tag, valid_entity, valid_boolean_property, valid_property) and the three flags;
   the encoding validators enc_valid / enc_vof (cppcms::encoding::valid / validate_or_filter) are
   universally quantified functions constrained only by the stated premises in sections 1-8; section 9
   instantiates them with the concrete validators selected by the encoding name (DefsE.v) and has no such premise. *)
From CppcmsV Require Import Base.Tac Base.Sweep C04.Defs C04.DefsX C04.DefsU C04.ProofsX C04.ProofsU C04.ProofsU2 C04.ProofsU3 C04.ProofsI C04.Proofs1 C04.Proofs2 C04.Proofs3 C04.Proofs4 C04.Proofs5 C04.Proofs6 C04.Proofs7 C04.Proofs8 C04.Proofs9 C04.Proofs10 C04.Proofs11 C04.Proofs12 C04.Link C04.DefsE C04.ProofsE C04.ProofsE2 C04.LinkE C04.LinkN C04.LinkS C04.LinkC C04.LinkR C04.DefsR C04.ProofsR C04.DefsN C04.ProofsN Base.CSem gen.Gen_xss gen.Gen_xss2 gen.Gen_uri gen.Gen_cstr gen.Gen_C04utf gen.Gen_C04next gen.Gen_C04enc gen.Gen_C04ctl.
From CppcmsV Require C14.Defs C14.Spec C14.Proofs3 C20.Defs C20.Regex.
Local Open Scope N_scope.
Module D := C14.Defs. Module S := C14.Spec. Module P3 := C14.Proofs3.


(* ---- 1. verdicts: both entry points agree, valid input is returned unchanged, validation implies
        well-formedness in the declared encoding ---- *)
Theorem validate_iff_flag :
  forall xhtml comments numeric tag_kind entity_ok bool_ok val_ok has_enc enc_valid enc_vof,
  enc_agree enc_valid enc_vof -> forall m x,
  fst (validate_and_filter xhtml comments numeric tag_kind entity_ok bool_ok val_ok has_enc enc_vof m x)
  = validate xhtml comments numeric tag_kind entity_ok bool_ok val_ok has_enc enc_valid x.
Proof. exact validate_flag. Qed.
Print Assumptions validate_iff_flag.

Theorem valid_unchanged :
  forall xhtml comments numeric tag_kind entity_ok bool_ok val_ok has_enc enc_valid enc_vof,
  enc_agree enc_valid enc_vof -> forall m x,
  validate xhtml comments numeric tag_kind entity_ok bool_ok val_ok has_enc enc_valid x = true ->
  filter xhtml comments numeric tag_kind entity_ok bool_ok val_ok has_enc enc_vof m x = x.
Proof. exact valid_unchanged_l. Qed.
Print Assumptions valid_unchanged.

Theorem validate_encoding :
  forall xhtml comments numeric tag_kind entity_ok bool_ok val_ok has_enc enc_valid x,
  has_enc = true ->
  validate xhtml comments numeric tag_kind entity_ok bool_ok val_ok has_enc enc_valid x = true ->
  enc_valid x = true.
Proof. exact validate_encoding_l. Qed.
Print Assumptions validate_encoding.

(* ---- 2. tokeniser: the tokens are consecutive pieces of the input, each of the shape its type says;
        in particular every < > & of the input is inside a token that is an entity, a tag, a comment
        or invalid - a plain token has none ---- *)
Theorem tokens_partition_input : forall x, concat (map snd (split x)) = x.
Proof. exact split_partition. Qed.
Print Assumptions tokens_partition_input.

Theorem tokens_have_their_shape : forall x, Forall (fun tk => tok_form (fst tk) (snd tk)) (split x).
Proof. exact split_forms. Qed.
Print Assumptions tokens_have_their_shape.

(* ---- 3. filter_shape (the security core): for every input and every rule set the text written by
        validate_and_filter_if_invalid is the concatenation, entry by entry, of
          - the unchanged text of an entry that passed validate_entry_by_rules, whose text is white-listed
            (see `whitelisted`: plain text without < > &, an allowed named entity, a permitted numeric
            entity, an allowed comment without < > &, a closing tag of an allowed paired tag, an opening
            or self-closed tag of an allowed tag whose attributes are pairwise distinct, each allowed for
            this tag with this value, every value free of < > and with & only in the 8 permitted spellings,
            and nothing else between < and > but white space, names, =, and quotes), or
          - nothing (remove_invalid) / escape4 of the text (escape_invalid) for an invalid entry;
        and the entry texts are consecutive pieces of the (encoding-filtered) input ---- *)
Theorem filter_shape :
  forall xhtml comments numeric tag_kind entity_ok bool_ok val_ok m y,
  let es := fst (filter_entries xhtml comments numeric tag_kind entity_ok bool_ok val_ok y) in
  snd (vf_core xhtml comments numeric tag_kind entity_ok bool_ok val_ok m y) = concat (map (emit m) es) /\
  concat (map e_text es) = y /\
  Forall (fun e => if is_invalid e
                   then emit m e = match m with RemoveInvalid => [] | EscapeInvalid => escape4 (e_text e) end
                   else emit m e = e_text e /\
                        rules_ok xhtml comments numeric tag_kind entity_ok bool_ok val_ok e = true /\
                        whitelisted xhtml comments numeric tag_kind entity_ok bool_ok val_ok (e_text e)) es.
Proof. exact vf_core_shape. Qed.
Print Assumptions filter_shape.

(* the two methods differ only in what they do with an invalid entry: remove_invalid deletes it,
   escape_invalid replaces it by escape4 of its text; valid entries are copied *)
Theorem remove_deletes_escape_rewrites :
  forall xhtml comments numeric tag_kind entity_ok bool_ok val_ok y,
  let es := fst (filter_entries xhtml comments numeric tag_kind entity_ok bool_ok val_ok y) in
  concat (map e_text es) = y /\
  snd (vf_core xhtml comments numeric tag_kind entity_ok bool_ok val_ok RemoveInvalid y)
    = concat (map e_text (List.filter (fun e => negb (is_invalid e)) es)) /\
  snd (vf_core xhtml comments numeric tag_kind entity_ok bool_ok val_ok EscapeInvalid y)
    = concat (map (fun e => if is_invalid e then escape4 (e_text e) else e_text e) es).
Proof. exact vf_core_remove. Qed.
Print Assumptions remove_deletes_escape_rewrites.

(* no_stray_markup: the result of filter(), in both modes, with or without an encoding, valid or not,
   is a concatenation of white-listed token texts and of text in which < and > do not occur and &
   occurs only as the start of &amp; &lt; &gt; &quot; &apos; &#x27; &#X27; &#39; (val_form) *)
Theorem no_stray_markup :
  forall xhtml comments numeric tag_kind entity_ok bool_ok val_ok has_enc enc_vof m x,
  exists segs,
    filter xhtml comments numeric tag_kind entity_ok bool_ok val_ok has_enc enc_vof m x = concat segs /\
    Forall (seg_ok xhtml comments numeric tag_kind entity_ok bool_ok val_ok) segs.
Proof. exact filter_segs. Qed.
Print Assumptions no_stray_markup.

Theorem escaped_text_is_harmless : forall t, val_form (escape4 t).
Proof. exact escape4_form. Qed.
Print Assumptions escaped_text_is_harmless.

Theorem harmless_text_has_no_angle_bracket : forall v, val_form v -> ~ In 60 v /\ ~ In 62 v.
Proof. exact val_form_no_angle. Qed.
Print Assumptions harmless_text_has_no_angle_bracket.

(* ---- 4. token_whitelisted: whatever validate accepts is a sequence of white-listed tokens; and the
        executable check of attribute values is exactly the grammar val_form ---- *)
Theorem token_whitelisted :
  forall xhtml comments numeric tag_kind entity_ok bool_ok val_ok x n,
  In n (nested xhtml x) ->
  rules_ok xhtml comments numeric tag_kind entity_ok bool_ok val_ok n = true ->
  whitelisted xhtml comments numeric tag_kind entity_ok bool_ok val_ok (e_text n).
Proof. exact nested_whitelisted. Qed.
Print Assumptions token_whitelisted.

Theorem validate_only_whitelisted :
  forall xhtml comments numeric tag_kind entity_ok bool_ok val_ok has_enc enc_valid x,
  validate xhtml comments numeric tag_kind entity_ok bool_ok val_ok has_enc enc_valid x = true ->
  exists segs, x = concat segs /\
               Forall (whitelisted xhtml comments numeric tag_kind entity_ok bool_ok val_ok) segs.
Proof. exact validate_whitelisted. Qed.
Print Assumptions validate_only_whitelisted.

Theorem attribute_value_grammar : forall v, value_ok v = true <-> val_form v.
Proof. intros v. split; [exact (value_ok_form v)|exact (val_form_value_ok v)]. Qed.
Print Assumptions attribute_value_grammar.

Theorem nesting_keeps_order_and_content :
  forall xhtml es, Forall2 erel es (nest xhtml es).
Proof. exact nest_rel. Qed.
Print Assumptions nesting_keeps_order_and_content.

(* ---- 4b. stability (filter_validates): the text written by the filter passes validation under the
        same rules - remove_invalid and escape_invalid, xhtml and html, proved in full.
        Side conditions on the rule set (both hold for every rule set the public API can build, see
        concrete_rules_side_conditions): kind_compat - rules::valid_tag gives the same answer for names that
        ascii_streq identifies; esc_entities_ok (escape mode only) - lt gt amp quot are allowed entities.
        The ingredients, each a theorem of its own: re-tokenising a concatenation of self-delimiting
        tokens gives these tokens with adjacent plain pieces merged; entries that are not opening or
        closing tags are inert for validate_nesting; the surviving tags of the first run are well nested
        (wf); validate_nesting of a well nested sequence invalidates nothing and every entry passes the rules
        (in html mode the second run may pair differently from the first - the verdict is the same). ---- *)
Theorem filter_output_validates_core :
  forall xhtml comments numeric tag_kind entity_ok bool_ok val_ok,
  kind_compat xhtml tag_kind -> forall m, (m = EscapeInvalid -> esc_entities_ok entity_ok) -> forall y,
  validate_core xhtml comments numeric tag_kind entity_ok bool_ok val_ok
    (snd (vf_core xhtml comments numeric tag_kind entity_ok bool_ok val_ok m y)) = true.
Proof. exact vf_core_validates. Qed.
Print Assumptions filter_output_validates_core.

(* with the encoding layer.  Premises about the abstract encoding validators: enc_agree and enc_vof_valid
   (valid / validate_or_filter agree, filtered text is valid: property C14) and, when an encoding is set,
   enc_ascii_compatible: the bytes & ; < > dquote are complete characters in every position, validity is
   closed under concatenation, the ASCII words lt gt amp quot are valid *)
Theorem filter_validates :
  forall xhtml comments numeric tag_kind entity_ok bool_ok val_ok has_enc enc_valid enc_vof m x,
  kind_compat xhtml tag_kind -> (m = EscapeInvalid -> esc_entities_ok entity_ok) ->
  enc_agree enc_valid enc_vof -> enc_vof_valid enc_valid enc_vof ->
  (has_enc = true -> enc_ascii_compatible enc_valid) ->
  validate xhtml comments numeric tag_kind entity_ok bool_ok val_ok has_enc enc_valid
    (filter xhtml comments numeric tag_kind entity_ok bool_ok val_ok has_enc enc_vof m x) = true.
Proof. exact filter_validates_l. Qed.
Print Assumptions filter_validates.

Theorem filter_idempotent :
  forall xhtml comments numeric tag_kind entity_ok bool_ok val_ok has_enc enc_valid enc_vof m x,
  kind_compat xhtml tag_kind -> (m = EscapeInvalid -> esc_entities_ok entity_ok) ->
  enc_agree enc_valid enc_vof -> enc_vof_valid enc_valid enc_vof ->
  (has_enc = true -> enc_ascii_compatible enc_valid) ->
  let f := filter xhtml comments numeric tag_kind entity_ok bool_ok val_ok has_enc enc_vof m in
  f (f x) = f x.
Proof.
  intros xhtml comments numeric tag_kind entity_ok bool_ok val_ok has_enc enc_valid enc_vof m x Hk He Ha Hv HE f.
  exact (valid_unchanged_l _ _ _ _ _ _ _ _ _ _ Ha m (f x) (filter_validates_l _ _ _ _ _ _ _ _ _ _ m x Hk He Ha Hv HE)).
Qed.
Print Assumptions filter_idempotent.

Theorem concrete_rules_side_conditions :
  forall r, kind_compat (c_xhtml r) (c_tag_kind r) /\ esc_entities_ok (c_entity_ok r).
Proof. exact (fun r => conj (c_kind_compat r) (c_esc_entities_ok r)). Qed.
Print Assumptions concrete_rules_side_conditions.

Theorem concrete_filter_validates :
  forall r vfun has_enc enc_valid enc_vof m x,
  enc_agree enc_valid enc_vof -> enc_vof_valid enc_valid enc_vof ->
  (has_enc = true -> enc_ascii_compatible enc_valid) ->
  c_validate r vfun has_enc enc_valid (snd (c_validate_and_filter r vfun has_enc enc_vof m x)) = true.
Proof. exact c_filter_validates. Qed.
Print Assumptions concrete_filter_validates.

Theorem retokenize : forall T, Forall stable T -> split (concat (map snd T)) = norm T.
Proof. exact split_stable. Qed.
Print Assumptions retokenize.

Theorem nesting_of_well_nested_is_valid :
  forall xhtml comments numeric tag_kind entity_ok bool_ok val_ok,
  kind_compat xhtml tag_kind -> forall l, wf xhtml tag_kind bool_ok val_ok l ->
  Forall (valid xhtml comments numeric tag_kind entity_ok bool_ok val_ok) (nest xhtml l).
Proof. exact nest_wf_valid. Qed.
Print Assumptions nesting_of_well_nested_is_valid.

Theorem surviving_tags_are_well_nested :
  forall xhtml comments numeric tag_kind entity_ok bool_ok val_ok es,
  Forall tin es ->
  wf xhtml tag_kind bool_ok val_ok (tagsurv xhtml comments numeric tag_kind entity_ok bool_ok val_ok (nest xhtml es)).
Proof. exact nest_tagsurv_wf. Qed.
Print Assumptions surviving_tags_are_well_nested.

(* ---- 4c. the same four claims for an encoding that is not ASCII compatible (DefsX.v: convert to UTF-8, run
        the UTF-8 pipeline, convert back; the conversions are arbitrary functions) ---- *)
Theorem converted_validate_iff_flag :
  forall xhtml comments numeric tag_kind entity_ok bool_ok val_ok has_enc ascii_compat enc_valid enc_vof
         to_utf_stop to_utf_skip from_utf_stop,
  enc_agree enc_valid enc_vof -> forall m x,
  fst (validate_and_filter_x xhtml comments numeric tag_kind entity_ok bool_ok val_ok has_enc ascii_compat enc_vof
         to_utf_stop to_utf_skip from_utf_stop m x)
  = validate_x xhtml comments numeric tag_kind entity_ok bool_ok val_ok has_enc ascii_compat enc_valid to_utf_stop x.
Proof. exact validate_flag_x. Qed.
Print Assumptions converted_validate_iff_flag.

Theorem converted_valid_unchanged :
  forall xhtml comments numeric tag_kind entity_ok bool_ok val_ok has_enc ascii_compat enc_valid enc_vof
         to_utf_stop to_utf_skip from_utf_stop,
  enc_agree enc_valid enc_vof -> forall m x,
  validate_x xhtml comments numeric tag_kind entity_ok bool_ok val_ok has_enc ascii_compat enc_valid to_utf_stop x = true ->
  filter_x xhtml comments numeric tag_kind entity_ok bool_ok val_ok has_enc ascii_compat enc_vof
           to_utf_stop to_utf_skip from_utf_stop m x = x.
Proof. exact valid_unchanged_x. Qed.
Print Assumptions converted_valid_unchanged.

Theorem converted_validate_encoding :
  forall xhtml comments numeric tag_kind entity_ok bool_ok val_ok has_enc ascii_compat enc_valid to_utf_stop x,
  has_enc = true -> ascii_compat = false ->
  validate_x xhtml comments numeric tag_kind entity_ok bool_ok val_ok has_enc ascii_compat enc_valid to_utf_stop x = true ->
  exists u, to_utf_stop x = Some u /\ enc_valid u = true.
Proof. exact validate_encoding_x. Qed.
Print Assumptions converted_validate_encoding.

(* the UTF-8 text that is converted back to the encoding has no stray markup *)
Theorem converted_no_stray_markup :
  forall xhtml comments numeric tag_kind entity_ok bool_ok val_ok has_enc ascii_compat enc_vof
         to_utf_stop to_utf_skip from_utf_stop m x,
  has_enc = true -> ascii_compat = false ->
  let res := filter_x xhtml comments numeric tag_kind entity_ok bool_ok val_ok has_enc ascii_compat enc_vof
                      to_utf_stop to_utf_skip from_utf_stop m x in
  exists segs, Forall (seg_ok xhtml comments numeric tag_kind entity_ok bool_ok val_ok) segs /\
    ((res = x /\ to_utf_stop x = Some (concat segs)) \/ from_utf_stop (concat segs) = Some res \/ res = []).
Proof. exact filter_segs_x. Qed.
Print Assumptions converted_no_stray_markup.

Theorem converted_filter_validates :
  forall xhtml comments numeric tag_kind entity_ok bool_ok val_ok has_enc ascii_compat enc_valid enc_vof
         to_utf_stop to_utf_skip from_utf_stop,
  enc_agree enc_valid enc_vof -> forall m x,
  kind_compat xhtml tag_kind -> (m = EscapeInvalid -> esc_entities_ok entity_ok) ->
  enc_vof_valid enc_valid enc_vof -> (has_enc = true -> enc_ascii_compatible enc_valid) ->
  conv_roundtrip enc_valid to_utf_stop from_utf_stop ->
  validate_x xhtml comments numeric tag_kind entity_ok bool_ok val_ok has_enc ascii_compat enc_valid to_utf_stop
    (filter_x xhtml comments numeric tag_kind entity_ok bool_ok val_ok has_enc ascii_compat enc_vof
              to_utf_stop to_utf_skip from_utf_stop m x) = true.
Proof. exact filter_validates_x. Qed.
Print Assumptions converted_filter_validates.

(* ... and for every rule set the public API can build the side conditions on the rule set are discharged *)
Theorem concrete_converted_filter_validates :
  forall r vfun has_enc ascii_compat enc_valid enc_vof to_utf_stop to_utf_skip from_utf_stop m x,
  enc_agree enc_valid enc_vof -> enc_vof_valid enc_valid enc_vof ->
  (has_enc = true -> enc_ascii_compatible enc_valid) -> conv_roundtrip enc_valid to_utf_stop from_utf_stop ->
  c_validate_x r vfun has_enc ascii_compat enc_valid to_utf_stop
    (filter_x (c_xhtml r) (c_comments r) (c_numeric r) (c_tag_kind r) (c_entity_ok r) (c_bool_ok r) (c_val_ok r vfun)
              has_enc ascii_compat enc_vof to_utf_stop to_utf_skip from_utf_stop m x) = true.
Proof. exact c_filter_validates_x. Qed.
Print Assumptions concrete_converted_filter_validates.

(* ---- 4d. URI validators (class uri_parser and uri_validator_functor are modelled in DefsU.v; sre = the scheme
        regular expression, an arbitrary function).  visible_scheme v = the scheme a browser reads:
        ALPHA *( ALPHA / DIGIT / + - . ) followed by a colon at the start of the value;
        scheme_form sc = sc is ALPHA *( ALPHA / DIGIT / + - . ). ---- *)
Theorem uri_value_alphabet : forall k sre v,
  uri_validate k sre v = true -> forallb uchar v = true.
Proof. exact uri_validate_alphabet. Qed.
Print Assumptions uri_value_alphabet.

Theorem uri_scheme_whitelisted : forall sre v sc,
  uri_validate UBoth sre v = true -> visible_scheme v = Some sc -> sre sc = true.
Proof. exact uri_both_scheme_checked. Qed.
Print Assumptions uri_scheme_whitelisted.

Theorem relative_uri_has_no_scheme : forall sre v,
  uri_validate URelative sre v = true -> visible_scheme v = None.
Proof. exact uri_relative_no_scheme. Qed.
Print Assumptions relative_uri_has_no_scheme.

(* the absolute-only validator (rules::uri_validator(scheme, true)): a value is accepted only if it is
   scheme ":" rest, where the scheme is the one a browser reads, the scheme expression matches it, and rest is
   hier-part [ "?" query ] [ "#" fragment ] to the last byte *)
Theorem absolute_uri_requires_scheme : forall sre v,
  uri_validate UFull sre v = true ->
  exists sc rest, v = sc ++ 58 :: rest /\ scheme_form sc /\ sre sc = true /\ visible_scheme v = Some sc /\
                  opt_fragment (opt_query (hier_part rest)) = [].
Proof. exact uri_full_has_scheme. Qed.
Print Assumptions absolute_uri_requires_scheme.

(* ... and this description is exact *)
Theorem absolute_uri_validator_exact : forall sre v,
  uri_validate UFull sre v = true <->
  exists sc rest, v = sc ++ 58 :: rest /\ scheme_form sc /\ sre sc = true /\
                  opt_fragment (opt_query (hier_part rest)) = [].
Proof. exact uri_full_exact. Qed.
Print Assumptions absolute_uri_validator_exact.

Theorem absolute_uri_scheme_whitelisted : forall sre v sc,
  uri_validate UFull sre v = true -> visible_scheme v = Some sc -> sre sc = true.
Proof. exact uri_full_scheme_checked. Qed.
Print Assumptions absolute_uri_scheme_whitelisted.

(* the other two validators, exactly: the relative validator accepts the values without a visible scheme that relative-ref
   consumes to the last byte; the validator for both accepts what the absolute-only or the relative validator accepts *)
Theorem relative_uri_validator_exact : forall sre v,
  uri_validate URelative sre v = true <-> visible_scheme v = None /\ relative_ref v = [].
Proof. exact uri_relative_exact. Qed.
Print Assumptions relative_uri_validator_exact.

Theorem uri_validator_is_absolute_or_relative : forall sre v,
  uri_validate UBoth sre v = uri_validate UFull sre v || uri_validate URelative sre v.
Proof. exact uri_both_is_full_or_relative. Qed.
Print Assumptions uri_validator_is_absolute_or_relative.

(* through the rule set: an attribute registered with a URI validator *)
Theorem uri_attribute_scheme_whitelisted :
  forall r vfun k sre tag pn v sc,
  find_prop r tag pn = Some (VFun k) -> vfun k = uri_validate UBoth sre ->
  c_val_ok r vfun tag pn v = true -> visible_scheme v = Some sc -> sre sc = true.
Proof. exact uri_both_attribute. Qed.
Print Assumptions uri_attribute_scheme_whitelisted.

Theorem absolute_uri_attribute_requires_scheme :
  forall r vfun k sre tag pn v,
  find_prop r tag pn = Some (VFun k) -> vfun k = uri_validate UFull sre ->
  c_val_ok r vfun tag pn v = true ->
  exists sc rest, v = sc ++ 58 :: rest /\ scheme_form sc /\ sre sc = true /\ visible_scheme v = Some sc /\
                  opt_fragment (opt_query (hier_part rest)) = [].
Proof. exact uri_full_attribute. Qed.
Print Assumptions absolute_uri_attribute_requires_scheme.

Theorem relative_uri_attribute_has_no_scheme :
  forall r vfun k sre tag pn v,
  find_prop r tag pn = Some (VFun k) -> vfun k = uri_validate URelative sre ->
  c_val_ok r vfun tag pn v = true -> visible_scheme v = None.
Proof. exact uri_relative_attribute. Qed.
Print Assumptions relative_uri_attribute_has_no_scheme.

(* a browser decodes the character references in an attribute value before it reads the value as a URI.  Inside a value
   validate_property_value permits & only as the start of the 8 spellings of value_entities (attribute_value_grammar);
   decode_value replaces them by the characters they stand for (& < > dquote apostrophe; the decoder recognises a spelling
   exactly where value_ok does).  The scheme of the decoded value is the scheme of the raw value, for every value: *)
Theorem uri_scheme_survives_entity_decoding : forall v, visible_scheme (decode_value v) = visible_scheme v.
Proof. exact decode_scheme. Qed.
Print Assumptions uri_scheme_survives_entity_decoding.

Theorem decoder_follows_value_grammar : forall s,
  match first_match_ch value_entities ent_chars s with Some (n, _) => Some n | None => None end = first_match value_entities s.
Proof. exact first_match_ch_agrees. Qed.
Print Assumptions decoder_follows_value_grammar.

(* so the scheme policy of the three validators holds for the value as the browser sees it: a visible scheme is never
   accepted by the relative validator and only if the scheme expression matches it by the other two; a value without
   a visible scheme is never accepted by the absolute-only validator *)
Theorem decoded_uri_scheme_policy : forall k sre v,
  uri_validate k sre v = true ->
  match visible_scheme (decode_value v) with
  | Some sc => k <> URelative /\ sre sc = true
  | None => k <> UFull
  end.
Proof. exact decoded_scheme_policy. Qed.
Print Assumptions decoded_uri_scheme_policy.

(* the token structure of an accepted value (any of the three validators): a concatenation of URI tokens (utoks) -
   one URI character other than & and % | % HEXDIG HEXDIG | &amp; | &apos; - so & occurs only as the start of
   &amp; / &apos; and % only as the start of a percent-encoded byte; and the decoded value (what the browser reads as the
   URI) consists of URI characters only: no blank, control character, quote, angle bracket, backslash *)
Theorem uri_value_is_token_sequence : forall k sre v, uri_validate k sre v = true -> utoks v.
Proof. exact uri_value_tokens. Qed.
Print Assumptions uri_value_is_token_sequence.

Theorem decoded_uri_value_alphabet : forall k sre v,
  uri_validate k sre v = true -> forallb uchar (decode_value v) = true.
Proof. exact uri_decoded_alphabet. Qed.
Print Assumptions decoded_uri_value_alphabet.

(* ---- 4e. the other attribute kinds of API-built rule sets: integer (rules::add_integer_property) = optional minus sign and
        one or more digits; boolean (rules::add_boolean_property) = name="name" byte for byte in xhtml, no value in html ---- *)
Theorem integer_attribute_grammar : forall v,
  int_ok v = true <->
  exists sign ds, v = sign ++ ds /\ (sign = [] \/ sign = [45]) /\ ds <> [] /\ forallb is_digit ds = true.
Proof. exact int_ok_spec. Qed.
Print Assumptions integer_attribute_grammar.

Theorem integer_attribute_checked : forall r vfun tag pn v,
  find_prop r tag pn = Some VInt -> c_val_ok r vfun tag pn v = true ->
  exists sign ds, v = sign ++ ds /\ (sign = [] \/ sign = [45]) /\ ds <> [] /\ forallb is_digit ds = true.
Proof. exact int_attribute. Qed.
Print Assumptions integer_attribute_checked.

Theorem boolean_attribute_checked : forall r vfun tag pn,
  (forall v, find_prop r tag pn = Some VBool -> c_val_ok r vfun tag pn v = true -> c_xhtml r = true /\ v = pn) /\
  (c_bool_ok r tag pn = true -> c_xhtml r = false /\ find_prop r tag pn = Some VBool).
Proof. exact (fun r vfun tag pn => conj (bool_attribute_xhtml r vfun tag pn) (bool_attribute_html r tag pn)). Qed.
Print Assumptions boolean_attribute_checked.

(* repeated registrations (std::map semantics of rules::add_tag / add_*_property, modelled by find_tag / tag_props / find_prop):
   the last add_tag under a name decides the kind, the last registration of an attribute decides its validator, and
   add_*_property alone never makes a tag valid *)
Theorem registration_last_wins : forall x c nu e tags n k attrs pn vk,
  (k <> TInvalid -> c_tag_kind (mkR x c nu e (tags ++ [((n, k), attrs)])) n = k) /\
  find_prop (mkR x c nu e (tags ++ [((n, k), attrs ++ [(pn, vk)])])) n pn = Some vk /\
  c_tag_kind (mkR x c nu e (tags ++ [((n, TInvalid), attrs)])) n = c_tag_kind (mkR x c nu e tags) n.
Proof.
  exact (fun x c nu e tags n k attrs pn vk =>
    conj (last_add_tag_wins x c nu e tags n k attrs)
      (conj (last_add_property_wins x c nu e tags n k attrs pn vk) (properties_only_is_invalid x c nu e tags n attrs))).
Qed.
Print Assumptions registration_last_wins.

(* ---- 5. tie to the source: leaf functions regenerated from src/xss.cpp on every run are the
        leaf functions of the model ---- *)
Theorem src_char_classes : forall b, b < 256 ->
  g_xss_isalpha (sch b) = is_alpha b /\ g_xss_isdigit (sch b) = is_digit b /\
  g_xss_isalnum (sch b) = is_alnum b /\ g_xss_isxdigit (sch b) = is_xdigit b /\
  g_xss_isspace (sch b) = is_space b /\ Z.to_N (wrapu 8 (g_xss_tolower (sch b))) = to_lower b.
Proof.
  exact (fun b H => conj (link_isalpha b H) (conj (link_isdigit b H) (conj (link_isalnum b H)
          (conj (link_isxdigit b H) (conj (link_isspace b H) (link_tolower b H)))))).
Qed.
Print Assumptions src_char_classes.
Theorem src_escape_table : forall b, b < 256 -> map Z.to_N (g_xss_escape_step (Z.of_N b)) = esc4 b.
Proof. exact link_escape_step. Qed.
Print Assumptions src_escape_table.
Theorem src_code_point_test : forall cp, g_xss_cp_rejected (Z.of_N cp) = negb (cp_ok cp).
Proof. exact link_cp_ok. Qed.
Print Assumptions src_code_point_test.
Theorem src_value_entities : map (map Z.to_N) g_xss_value_entities = value_entities.
Proof. exact link_value_entities. Qed.
Print Assumptions src_value_entities.

Theorem src_integer_test : forall b, b < 256 -> g_xss_int_reject (sch b) = negb (is_digit b).
Proof. exact link_int_reject. Qed.
Print Assumptions src_integer_test.

Theorem src_uri_leafs : forall b, b < 256 ->
  g_uri_isdigit (sch b) = u_digit b /\ g_uri_isalpha (sch b) = u_alpha b /\ g_uri_ishex (sch b) = u_hex b /\
  g_uri_unreserved (sch b) = negb (Nat.eqb (unreserved_len [b]) 0) /\
  existsb (Z.eqb (Z.of_N b)) g_uri_subdelim_chars = negb (Nat.eqb (subdelim_len [b]) 0).
Proof.
  exact (fun b H => conj (link_uri_isdigit b H) (conj (link_uri_isalpha b H) (conj (link_uri_ishex b H)
          (conj (link_uri_unreserved b H) (link_uri_subdelims b H))))).
Qed.
Print Assumptions src_uri_leafs.
Theorem src_uri_subdelim_words : map (map Z.to_N) g_uri_subdelim_words = [amp_s; apos_s].
Proof. exact link_uri_subdelim_words. Qed.
Print Assumptions src_uri_subdelim_words.

(* class uri_parser: the character test of the loop of scheme(); the methods and loop conditions that are written as
   alternatives of token matchers (pchar, query, segment, segment_nz_nc, reg_name, userinfo), read from the AST as lists of
   operands (rule name) and interpreted with the token matchers of the model (alts), are the model's composite matchers;
   the entry points parse / parse_relative / parse_full, host and fragment are written as the model assumes - in particular
   parse_full() is uri() && begin_ == end_ *)
Theorem src_uri_scheme_chars : forall b, b < 256 -> g_uri_schemech (sch b) = schemech b.
Proof. exact link_uri_schemech. Qed.
Print Assumptions src_uri_scheme_chars.
Theorem src_uri_token_alternatives : forall s,
  alts_pchar s = pchar_len s /\ alts_query s = qchar_len s /\ alts_segment s = pchar_len s /\
  alts_segment_nz_nc s = nc_len s /\ alts_reg_name s = reg_len s /\ alts_userinfo s = ui_len s.
Proof. exact link_uri_alternatives. Qed.
Print Assumptions src_uri_token_alternatives.
(* uri_entry_points_as_modelled (Link.v): rule parse = && uri_reference() begin_==end_, rule parse_relative = && relative_ref()
   begin_==end_, rule parse_full = && uri() begin_==end_, rule host = || ipv4addr() reg_name(), rule fragment = query() *)
Theorem src_uri_entry_points : uri_entry_points_as_modelled.
Proof. exact link_uri_entry_points. Qed.
Print Assumptions src_uri_entry_points.

(* uri_control_as_modelled (Link.v): the conditions of the if / while statements and the operands of the return statements of
   uri, relative_ref, relative_part, hier_part, authority, path_absolute, path_rootless, path_noscheme, path_abempty, segment_nz,
   in source order, are the ones the hand model of these rules was written from *)
Theorem src_uri_control : uri_control_as_modelled.
Proof. exact link_uri_control. Qed.
Print Assumptions src_uri_control.

Theorem src_case_insensitive_compare : forall a b, a < 256 -> b < 256 ->
  (g_cstr_ilt (sch a) (sch b) = false /\ g_cstr_ilt (sch b) (sch a) = false) <-> to_lower a = to_lower b.
Proof. exact link_cstr_equiv. Qed.
Print Assumptions src_case_insensitive_compare.

(* ---- non-vacuity: a concrete rule set (xhtml; tag a: paired with attribute href checked by functor 0,
        tag br: stand alone; entity nbsp), functor 0 = "does not start with j" ---- *)
Definition ex_rules : crules :=
  mkR true true true [[110;98;115;112]]
      [ ([97], TPair, [([104;114;101;102], VFun 0)]); ([98;114], TAlone, []) ].
Definition ex_vfun (k : N) (v : list N) : bool := match v with 106 :: _ => false | _ => true end.
(* <a href="x">t</a><br/>&nbsp;&#65; *)
Definition ex_good : list N :=
  [60;97;32;104;114;101;102;61;34;120;34;62;116;60;47;97;62;60;98;114;47;62;38;110;98;115;112;59;38;35;54;53;59].
(* <a href="j">t</a><s>&x *)
Definition ex_bad : list N := [60;97;32;104;114;101;102;61;34;106;34;62;116;60;47;97;62;60;115;62;38;120].
Example verdicts_nonvacuous :
  c_validate ex_rules ex_vfun false (fun _ => true) ex_good = true /\
  c_validate ex_rules ex_vfun false (fun _ => true) ex_bad = false /\
  c_validate_and_filter ex_rules ex_vfun false (fun _ => None) RemoveInvalid ex_bad = (false, [116]) /\
  c_validate_and_filter ex_rules ex_vfun false (fun _ => None) EscapeInvalid ex_bad
    = (false, [38;108;116;59;97;32;104;114;101;102;61;38;113;117;111;116;59;106;38;113;117;111;116;59;38;103;116;59;
               116;38;108;116;59;47;97;38;103;116;59;38;108;116;59;115;38;103;116;59;38;97;109;112;59;120]).
Proof. vm_compute. repeat split. Qed.
Example whitelist_nonvacuous :
  exists n, In n (nested true ex_good) /\ e_type n = Open /\
            rules_ok true true true (c_tag_kind ex_rules) (c_entity_ok ex_rules) (c_bool_ok ex_rules)
                     (c_val_ok ex_rules ex_vfun) n = true.
Proof. eexists. split; [vm_compute; left; reflexivity|]. split; vm_compute; reflexivity. Qed.

(* the premises of filter_validates are satisfiable: "7-bit ASCII" as the encoding *)
Definition ex_enc_valid (s : list N) : bool := forallb (fun c => c <? 128) s.
Definition ex_enc_vof (s : list N) : option (list N) :=
  if ex_enc_valid s then None else Some (List.filter (fun c => c <? 128) s).
Example stability_premises_nonvacuous :
  enc_agree ex_enc_valid ex_enc_vof /\ enc_vof_valid ex_enc_valid ex_enc_vof /\ enc_ascii_compatible ex_enc_valid /\
  c_validate ex_rules ex_vfun true ex_enc_valid (snd (c_validate_and_filter ex_rules ex_vfun true ex_enc_vof RemoveInvalid (ex_bad ++ [200]))) = true /\
  snd (c_validate_and_filter ex_rules ex_vfun true ex_enc_vof RemoveInvalid (ex_bad ++ [200])) = [116].
Proof.
  split; [|split; [|split; [|split; vm_compute; reflexivity]]].
  - intros x. unfold ex_enc_vof. destruct (ex_enc_valid x); split; congruence.
  - intros x y. unfold ex_enc_vof. destruct (ex_enc_valid x); [discriminate|]. intros H. inversion H; subst.
    unfold ex_enc_valid. apply forallb_forall. intros c Hc. apply filter_In in Hc. exact (proj2 Hc).
  - unfold ex_enc_valid. constructor; try reflexivity.
    + intros a c b Hc. rewrite forallb_app. cbn [forallb]. f_equal.
      assert (Hlt : (c <? 128) = true).
      { unfold syncb in Hc. repeat (apply orb_true_iff in Hc; destruct Hc as [Hc|Hc]);
          apply N.eqb_eq in Hc; subst c; reflexivity. }
      rewrite Hlt. reflexivity.
    + intros a b Ha Hb. rewrite forallb_app, Ha, Hb. reflexivity.
Qed.

(* conv_roundtrip is satisfiable: the identity conversion *)
Example conversion_premise_nonvacuous : conv_roundtrip ex_enc_valid (fun x => Some x) (fun x => Some x).
Proof. split; [intros o z _ H; inversion H; reflexivity|reflexivity]. Qed.

(* the premise kind_compat of filter_validates cannot be dropped: a (non API) tag_kind that treats B as
   paired and b as any_tag, html mode, input <B><x><b></x></B>: the output <B><b></B> does not validate.
   Rule sets built through the API satisfy kind_compat (concrete_rules_side_conditions). *)
Definition ex_tk (n : list N) : tkind := match n with [66] => TPair | [98] => TAny | _ => TInvalid end.
Example kind_compat_is_needed :
  let f := filter false false false ex_tk (fun _ => true) (fun _ _ => false) (fun _ _ _ => false) false (fun _ => None) RemoveInvalid in
  let x := [60;66;62;60;120;62;60;98;62;60;47;120;62;60;47;66;62] in
  f x = [60;66;62;60;98;62;60;47;66;62] /\
  validate false false false ex_tk (fun _ => true) (fun _ _ => false) (fun _ _ _ => false) false (fun _ => true) (f x) = false.
Proof. vm_compute. split; reflexivity. Qed.

Example uri_nonvacuous :
  uri_validate UBoth ex_http_https [104;116;116;112;58;47;47;104;47;112;63;113;61;49] = true /\   (* http://h/p?q=1 *)
  visible_scheme [104;116;116;112;58;47;47;104;47;112;63;113;61;49] = Some [104;116;116;112] /\
  uri_validate UBoth ex_http_https [106;97;118;97;115;99;114;105;112;116;58;97;108;101;114;116;40;49;41] = false /\  (* javascript:alert(1) *)
  uri_validate URelative ex_http_https [47;112;47;113] = true /\                                            (* /p/q *)
  uri_validate UBoth ex_http_https [104;116;116;112;58;47;47;104;47;97;32;98] = false /\                     (* http://h/a b *)
  uri_validate UFull ex_http_https [104;116;116;112;115;58;47;47;104;47;112;63;113;35;102] = true /\         (* https://h/p?q#f *)
  uri_validate UFull ex_http_https [102;116;112;58;47;47;104] = false /\                                    (* ftp://h *)
  uri_validate UFull ex_http_https [47;112] = false.                                                        (* /p *)
Proof. vm_compute. repeat split. Qed.

(* regression of the defect repaired by /repo 92a72e6 (was finding absolute-uri-attribute-without-scheme): with
   add_tag("img", stand_alone), add_property("img", "src", uri_validator("(http|https)", true)) the document
   <img src="http/evil"/> validated.  It is rejected now (the filter removes / escapes the tag), an absolute URI in
   the same place validates; uri_validate_full_old is the functor as it was. *)
Definition ex_img_rules : crules :=
  mkR true true true [] [ ([105;109;103], TAlone, [([115;114;99], VFun 0)]) ].
Definition ex_img_vfun (k : N) : list N -> bool := uri_validate UFull ex_http_https.
Definition ex_img_evil : list N :=     (* <img src="http/evil"/> *)
  [60;105;109;103;32;115;114;99;61;34;104;116;116;112;47;101;118;105;108;34;47;62].
Definition ex_img_good : list N :=     (* <img src="http://h/"/> *)
  [60;105;109;103;32;115;114;99;61;34;104;116;116;112;58;47;47;104;47;34;47;62].
Example absolute_uri_regression :
  uri_validate UFull ex_http_https [104;116;116;112;47;101;118;105;108] = false /\
  uri_validate_full_old ex_http_https [104;116;116;112;47;101;118;105;108] = true /\
  visible_scheme [104;116;116;112;47;101;118;105;108] = None /\
  c_validate ex_img_rules ex_img_vfun false (fun _ => true) ex_img_evil = false /\
  c_validate ex_img_rules (fun _ => uri_validate_full_old ex_http_https) false (fun _ => true) ex_img_evil = true /\
  c_validate_and_filter ex_img_rules ex_img_vfun false (fun _ => None) RemoveInvalid ex_img_evil = (false, []) /\
  c_validate ex_img_rules ex_img_vfun false (fun _ => true) ex_img_good = true.
Proof. vm_compute. repeat split. Qed.

Example entity_decoding_nonvacuous :
  decode_value [106;97;118;97;38;35;120;50;55;59;58;120] = [106;97;118;97;39;58;120] /\      (* java&#x27;:x -> java':x *)
  visible_scheme (decode_value [106;97;118;97;38;35;120;50;55;59;58;120]) = None /\
  decode_value [104;116;116;112;58;47;47;104;47;63;97;38;97;109;112;59;98] = [104;116;116;112;58;47;47;104;47;63;97;38;98] /\  (* http://h/?a&amp;b *)
  visible_scheme (decode_value [104;116;116;112;58;47;47;104;47;63;97;38;97;109;112;59;98]) = Some [104;116;116;112] /\
  uri_validate UFull ex_http_https [104;116;116;112;58;47;47;104;47;63;97;38;97;109;112;59;98] = true.
Proof. vm_compute. repeat split. Qed.

Example attribute_kinds_nonvacuous :
  int_ok [45;49;50] = true /\ int_ok [49;45] = false /\ int_ok [45] = false /\ int_ok [] = false /\ int_ok [43;49] = false.
Proof. vm_compute. repeat split. Qed.

(* the same tag registered twice: a paired, then a any_tag with href relative only *)
Example registration_nonvacuous :
  let r := mkR true false false [] [ ([97], TPair, [([104;114;101;102], VFun 0)]); ([97], TAny, [([104;114;101;102], VFun 1)]) ] in
  c_tag_kind r [97] = TAny /\ find_prop r [97] [104;114;101;102] = Some (VFun 1).
Proof. vm_compute. split; reflexivity. Qed.

(* ---- 9. the encoding layer made concrete (DefsE.v): the validators are no longer parameters.  name = rules::encoding();
        D.lookup name = what cppcms::encoding::validators_set answers for it (D = coq/C14/Defs.v, the model of utf8::next /
        validate and of the single byte validators; S = coq/C14/Spec.v, the RFC 3629 section 4 ABNF as the inductive predicates
        Seq / WF with the scalar values, and html_safe = no C0 control other than tab LF CR, not DEL, no C1 control).
        No premise about the encoding validators is left; the conversions tus / tusk / fus (iconv) are asked only for
        names without a built-in validator. ---- *)

(* THE CLAUSE "validation never accepts text that is not well-formed in the declared character encoding", UTF-8:
   whatever validate accepts under a rule set whose encoding name selects the UTF-8 validator is a sequence of RFC 3629
   UTF8-char (ABNF), i.e. the concatenated shortest-form encodings of Unicode scalar values (<= U+10FFFF, no surrogate),
   none of which is a forbidden control character - unconditionally *)
Theorem validate_implies_wellformed_utf8 :
  forall xhtml comments numeric tag_kind entity_ok bool_ok val_ok name tus x,
  D.lookup name = Some D.V_utf8 ->
  validate_e xhtml comments numeric tag_kind entity_ok bool_ok val_ok name tus x = true ->
  (exists cps, S.WF x cps /\ Forall S.html_safe cps) /\
  (exists cps, Forall S.scalar cps /\ Forall S.html_safe cps /\ x = flat_map S.rfc_encode cps).
Proof. exact validate_implies_wellformed_utf8_l. Qed.
Print Assumptions validate_implies_wellformed_utf8.

(* every spelling the comparator of src/encoding.cpp identifies with utf8 selects that validator (UTF-8, utf8, Utf_8, ...) *)
Theorem utf8_names : forall name, D.norm_name name = D.utf8_name -> D.lookup name = Some D.V_utf8.
Proof. exact utf8_spellings. Qed.
Print Assumptions utf8_names.

(* ... and every text filter() returns under such a rule set is well-formed in the same sense (replacement character none or
   HTML-safe ASCII; rule set: the two side conditions that every API-built rule set satisfies) *)
Theorem filter_output_wellformed_utf8 :
  forall xhtml comments numeric tag_kind entity_ok bool_ok val_ok name repl tus tusk fus m x,
  kind_compat xhtml tag_kind -> (m = EscapeInvalid -> esc_entities_ok entity_ok) ->
  D.lookup name = Some D.V_utf8 -> P3.repl_ok repl ->
  let out := filter_e xhtml comments numeric tag_kind entity_ok bool_ok val_ok name repl tus tusk fus m x in
  validate_e xhtml comments numeric tag_kind entity_ok bool_ok val_ok name tus out = true /\
  exists cps, Forall S.scalar cps /\ Forall S.html_safe cps /\ out = flat_map S.rfc_encode cps.
Proof. exact filter_output_wellformed_utf8_l. Qed.
Print Assumptions filter_output_wellformed_utf8.

(* verdicts with UTF-8, no premise left *)
Theorem utf8_validate_iff_flag_and_unchanged :
  forall xhtml comments numeric tag_kind entity_ok bool_ok val_ok name repl tus tusk fus m x,
  D.lookup name = Some D.V_utf8 ->
  fst (validate_and_filter_e xhtml comments numeric tag_kind entity_ok bool_ok val_ok name repl tus tusk fus m x)
    = validate_e xhtml comments numeric tag_kind entity_ok bool_ok val_ok name tus x /\
  (validate_e xhtml comments numeric tag_kind entity_ok bool_ok val_ok name tus x = true ->
   filter_e xhtml comments numeric tag_kind entity_ok bool_ok val_ok name repl tus tusk fus m x = x).
Proof. exact utf8_validate_iff_flag_and_unchanged_l. Qed.
Print Assumptions utf8_validate_iff_flag_and_unchanged.

(* single byte code pages (the 36 other names of the table; k = the validator body the name selects): accepted text and
   filter output consist of bytes the table accepts; none of them is a C0 control other than tab LF CR, DEL, or - ISO-8859
   family - a C1 control; US-ASCII: nothing above 0x7E *)
Theorem validate_implies_wellformed_single_byte :
  forall xhtml comments numeric tag_kind entity_ok bool_ok val_ok name k tus x,
  D.lookup name = Some (D.V_sb k) -> bytes_ok x ->
  validate_e xhtml comments numeric tag_kind entity_ok bool_ok val_ok name tus x = true ->
  forallb (D.byte_ok k) x = true /\
  Forall (fun b => (32 <= b \/ b = 9 \/ b = 10 \/ b = 13) /\ b <> 127 /\ (iso_kind k = true -> ~ (128 <= b <= 159)) /\
                   (k = D.SB_ascii -> b < 127)) x.
Proof. exact validate_implies_wellformed_single_byte_l. Qed.
Print Assumptions validate_implies_wellformed_single_byte.

Theorem single_byte_filter_validates :
  forall xhtml comments numeric tag_kind entity_ok bool_ok val_ok name k repl tus tusk fus m x,
  kind_compat xhtml tag_kind -> (m = EscapeInvalid -> esc_entities_ok entity_ok) ->
  D.lookup name = Some (D.V_sb k) -> (repl = 0 \/ D.byte_ok k repl = true) ->
  let out := filter_e xhtml comments numeric tag_kind entity_ok bool_ok val_ok name repl tus tusk fus m x in
  fst (validate_and_filter_e xhtml comments numeric tag_kind entity_ok bool_ok val_ok name repl tus tusk fus m x)
    = validate_e xhtml comments numeric tag_kind entity_ok bool_ok val_ok name tus x /\
  validate_e xhtml comments numeric tag_kind entity_ok bool_ok val_ok name tus out = true /\
  forallb (D.byte_ok k) out = true.
Proof. exact single_byte_filter_validates_l. Qed.
Print Assumptions single_byte_filter_validates.

(* a name without a built-in validator (UTF-16, Shift_JIS, ...): what validate accepts converts (method stop) to well-formed
   UTF-8 without forbidden controls; stability under the round-trip premise on the conversions alone *)
Theorem converted_validate_implies_wellformed_utf8 :
  forall xhtml comments numeric tag_kind entity_ok bool_ok val_ok name tus x,
  name <> [] -> D.lookup name = None ->
  validate_e xhtml comments numeric tag_kind entity_ok bool_ok val_ok name tus x = true ->
  exists u, tus x = Some u /\ exists cps, Forall S.scalar cps /\ Forall S.html_safe cps /\ u = flat_map S.rfc_encode cps.
Proof. exact converted_validate_implies_wellformed_utf8_l. Qed.
Print Assumptions converted_validate_implies_wellformed_utf8.

Theorem converted_named_filter_validates :
  forall xhtml comments numeric tag_kind entity_ok bool_ok val_ok name repl tus tusk fus m x,
  kind_compat xhtml tag_kind -> (m = EscapeInvalid -> esc_entities_ok entity_ok) ->
  D.lookup name = None -> conv_roundtrip (D.validate true) tus fus ->
  fst (validate_and_filter_e xhtml comments numeric tag_kind entity_ok bool_ok val_ok name repl tus tusk fus m x)
    = validate_e xhtml comments numeric tag_kind entity_ok bool_ok val_ok name tus x /\
  validate_e xhtml comments numeric tag_kind entity_ok bool_ok val_ok name tus
    (filter_e xhtml comments numeric tag_kind entity_ok bool_ok val_ok name repl tus tusk fus m x) = true.
Proof. exact converted_named_filter_validates_l. Qed.
Print Assumptions converted_named_filter_validates.

(* for every rule set the public API can build, with encoding UTF-8: all of the above without side conditions *)
Theorem concrete_utf8_filter :
  forall r vfun name repl tus tusk fus m x,
  D.norm_name name = D.utf8_name -> P3.repl_ok repl ->
  let out := snd (c_validate_and_filter_e r vfun name repl tus tusk fus m x) in
  fst (c_validate_and_filter_e r vfun name repl tus tusk fus m x) = c_validate_e r vfun name tus x /\
  (c_validate_e r vfun name tus x = true -> out = x) /\
  c_validate_e r vfun name tus out = true /\
  exists cps, Forall S.scalar cps /\ Forall S.html_safe cps /\ out = flat_map S.rfc_encode cps.
Proof. exact concrete_utf8_filter_l. Qed.
Print Assumptions concrete_utf8_filter.

(* what the extracted driver executes: the same entry points with the table look-up of the encoding name done once *)
Theorem lookup_once :
  forall xhtml comments numeric tag_kind entity_ok bool_ok val_ok name repl tus tusk fus m x,
  validate_e xhtml comments numeric tag_kind entity_ok bool_ok val_ok name tus x =
    validate_sel xhtml comments numeric tag_kind entity_ok bool_ok val_ok (has_encoding name) (D.lookup name) tus x /\
  validate_and_filter_e xhtml comments numeric tag_kind entity_ok bool_ok val_ok name repl tus tusk fus m x =
    validate_and_filter_sel xhtml comments numeric tag_kind entity_ok bool_ok val_ok (has_encoding name) (D.lookup name)
                            repl tus tusk fus m x.
Proof. exact lookup_once_l. Qed.
Print Assumptions lookup_once.

(* tie of the decoder's leaf functions to private/utf_iterator.h (coq/gen/Gen_C04utf.v, regenerated on every run) *)
Theorem src_utf8_leafs :
  (forall v, g_c04_utf_valid (Z.of_N v) = D.cp_valid v) /\
  (forall b, b < 256 -> g_c04_is_trail (wraps 8 (Z.of_N b)) = D.is_trail b) /\
  (forall b, b < 256 -> g_c04_trail_length (Z.of_N b) = D.trail_length b) /\
  (forall v, g_c04_width (Z.of_N v) = D.width v).
Proof. exact (conj LinkE.link_utf_valid (conj LinkE.link_is_trail (conj LinkE.link_trail_length LinkE.link_width))). Qed.
Print Assumptions src_utf8_leafs.

(* ... and of the decoder itself: utf8::next<char const *> regenerated from the source - every expression of its body translated
   (g_c04_next_e0 .. e9) and its statement skeleton read from the AST - is the decoder of the model, on every byte string, in
   both modes.  src_next (LinkN.v) is the skeleton transcribed by hand over the generated expressions; the first conjunct pins
   the skeleton it was transcribed from *)
Theorem src_utf8_next :
  g_c04_next_skeleton = next_skeleton_as_transcribed /\
  forall html l, bytes_ok l -> src_next html l = D.cppcms_next html l.
Proof. exact (conj link_next_skeleton link_next). Qed.
Print Assumptions src_utf8_next.

(* consequence, stated on the regenerated decoder itself: utf8::next as it stands in the source returns a code point exactly on one
   UTF8-char of the RFC 3629 section 4 ABNF (shortest form, no surrogate, at most U+10FFFF) followed by an arbitrary rest, with its
   scalar value - in HTML mode only when the value is no forbidden control.  Over-long forms, truncations, stray trail bytes: illegal. *)
Theorem src_utf8_next_is_rfc3629 : forall html l c r, bytes_ok l ->
  (src_next html l = (D.Cp c, r) <-> exists e, S.Seq e c /\ l = e ++ r /\ (html = true -> S.html_safe c)).
Proof. exact src_next_is_rfc3629. Qed.
Print Assumptions src_utf8_next_is_rfc3629.

(* the single byte validators (loop bodies of private/encoding_validators.h as instantiated by src/encoding.cpp) and the
   validators_set table (the assignments of its constructor), regenerated from the source, are the model's byte_ok and enc_table *)
Theorem src_single_byte_validators : forall k g b, gen_sb k = Some g -> b < 256 -> g (Z.of_N b) = D.byte_ok k b.
Proof. exact link_sb_validators. Qed.
Print Assumptions src_single_byte_validators.

Theorem src_validators_table :
  (forall n f, In (n, f) g_c04_enc_table -> exists v, validator_of_name f = Some v /\ In (map Z.to_N n, v) D.enc_table) /\
  (forall e, In e D.enc_table -> exists n f, In (n, f) g_c04_enc_table /\ validator_of_name f = Some (snd e) /\ map Z.to_N n = fst e) /\
  length g_c04_enc_table = length D.enc_table.
Proof. exact link_enc_table. Qed.
Print Assumptions src_validators_table.

(* the per character step of the encoding name comparator (encodings_comparator::next), regenerated, is the model's name_step *)
Theorem src_encoding_name_step : forall b, b < 256 ->
  g_c04_enc_name_step (Z.of_N b) = match D.name_step b with Some x => Z.of_N x | None => (-1)%Z end.
Proof. exact link_name_step. Qed.
Print Assumptions src_encoding_name_step.

(* the statement skeleton (control structure, calls, arguments, constants) of the loops and dispatch functions around the decoder -
   utf8_valid, utf8::validate, validate_or_filter_utf8, validate_or_filter_single_byte_charset, encoding::valid,
   encoding::validate_or_filter, is_ascii_compatible, is_utf8, validators_set::get, and the encoding prologue / epilogue of
   xss::validate and xss::validate_and_filter_if_invalid - read from the AST of the checked tree, is the one the hand model was
   written from (a fingerprint, see LinkC.v; behaviour: correspondence) *)
Theorem src_encoding_control : g_c04_control = encoding_control_as_modelled.
Proof. exact link_encoding_control. Qed.
Print Assumptions src_encoding_control.

(* RIGID ties (LinkR.v): the text that booster::regex wraps around a pattern to obtain the full-match form ("(?:" pattern ")" backslash z,
   compiled into d->are, run by regex::match with PCRE_ANCHORED; booster::regex_match = r.match; the regex_functor of xss.cpp calls
   regex_match), and the conversion of the digits of a numeric character reference (long code_point = strtol(begin,&endptr,16 / 10)),
   as rendered from the AST of the checked tree, are literally the text the model's reading of them was written from *)
Theorem src_regex_anchoring_and_entity_conversion : g_c04_rigid_control = rigid_control_as_modelled.
Proof. exact link_rigid_control. Qed.
Print Assumptions src_regex_anchoring_and_entity_conversion.

(* non-vacuity: rule set ex_rules with encoding "UTF-8"; the boundary code points in shortest form are accepted, every
   over-long form, surrogate, truncated sequence, stray trail byte and forbidden control is refused and removed *)
Definition ex_utf8 : list N := [85;84;70;45;56].
Definition ex_none (_ : list N) : option (list N) := None.
Definition ex_v (x : list N) : bool := c_validate_e ex_rules ex_vfun ex_utf8 ex_none x.
Definition ex_f (x : list N) : list N :=
  snd (c_validate_and_filter_e ex_rules ex_vfun ex_utf8 0 ex_none (fun x => x) ex_none RemoveInvalid x).
Example utf8_nonvacuous :
  D.lookup ex_utf8 = Some D.V_utf8 /\
  ex_v ([60;98;114;47;62] ++ [223;191] ++ [224;160;128] ++ [239;191;191] ++ [240;144;128;128] ++ [244;143;191;191] ++ [194;160]) = true /\
  ex_v [224;159;191] = false /\ ex_v [223;191] = true /\          (* U+07FF over-long / shortest *)
  ex_v [192;128] = false /\ ex_v [193;191] = false /\ ex_v [224;128;128] = false /\ ex_v [240;143;191;191] = false /\
  ex_v [237;160;128] = false /\ ex_v [237;159;191] = true /\      (* U+D800 / U+D7FF *)
  ex_v [244;144;128;128] = false /\                               (* U+110000 *)
  ex_v [195] = false /\ ex_v [226;130] = false /\ ex_v [240;159;152] = false /\ ex_v [128] = false /\ ex_v [195;192] = false /\
  ex_v [194;128] = false /\ ex_v [194;159] = false /\ ex_v [127] = false /\ ex_v [1] = false /\ ex_v [9;10;13] = true /\
  ex_f ([116] ++ [224;159;191] ++ [60;98;114;47;62] ++ [195]) = [116;60;98;114;47;62] /\
  ex_f ([60;97;32;104;114;101;102;61;34;120] ++ [226;130] ++ [34;62;116;60;47;97;62]) = [60;97;32;104;114;101;102;61;34;120;34;62;116;60;47;97;62] /\
  S.WF [223;191;224;160;128] [2047;2048].
Proof.
  repeat split; try (vm_compute; reflexivity).
  change [223;191;224;160;128] with ([223;191] ++ [224;160;128] ++ []).
  apply (S.WF_cons [223;191] 2047); [exact (S.Seq2 223 191 ltac:(lia) ltac:(unfold S.tail; lia))|].
  apply (S.WF_cons [224;160;128] 2048); [exact (S.Seq3_E0 160 128 ltac:(lia) ltac:(unfold S.tail; lia))|constructor].
Qed.

(* ---- 10. the property for a rule set built through the public API with encoding UTF-8, in one statement: for every input,
        every replacement character that is absent or HTML-safe ASCII, both methods -
        (a) the text returned by the filter passes validation under the same rules;
        (b) it is a concatenation of white-listed tokens and harmless text (nothing that opens markup survives outside an
            allowed construct: seg_ok = whitelisted \/ val_form);
        (c) it is well-formed UTF-8: concatenated RFC 3629 shortest-form encodings of scalar values, none a forbidden control;
        (d) input that validates is returned unchanged, and such input is itself (b') a concatenation of white-listed tokens and
            (c') well-formed UTF-8.  No premise about validators, encoding functions or the rule set is left. ---- *)
Theorem c04_utf8_rule_sets :
  forall r vfun name repl tus tusk fus m x,
  D.norm_name name = D.utf8_name -> P3.repl_ok repl ->
  let validate_ := c_validate_e r vfun name tus in
  let out := snd (c_validate_and_filter_e r vfun name repl tus tusk fus m x) in
  validate_ out = true /\
  (exists segs, out = concat segs /\
     Forall (seg_ok (c_xhtml r) (c_comments r) (c_numeric r) (c_tag_kind r) (c_entity_ok r) (c_bool_ok r) (c_val_ok r vfun)) segs) /\
  (exists cps, Forall S.scalar cps /\ Forall S.html_safe cps /\ out = flat_map S.rfc_encode cps) /\
  (validate_ x = true ->
     out = x /\
     (exists segs, x = concat segs /\
        Forall (whitelisted (c_xhtml r) (c_comments r) (c_numeric r) (c_tag_kind r) (c_entity_ok r) (c_bool_ok r) (c_val_ok r vfun)) segs) /\
     (exists cps, Forall S.scalar cps /\ Forall S.html_safe cps /\ x = flat_map S.rfc_encode cps)).
Proof. exact c04_utf8_rule_sets_l. Qed.
Print Assumptions c04_utf8_rule_sets.

(* the same for a single byte code page (one of the 36 other names of the validators_set table; k = the validator body it
   selects): output validates, is a concatenation of white-listed tokens and harmless text, and consists of bytes the table
   accepts; valid input is returned unchanged, is a concatenation of white-listed tokens and consists of accepted bytes
   (validate_implies_wellformed_single_byte: none of them a control character).  Replacement character: none or a byte the table accepts. *)
Theorem c04_single_byte_rule_sets :
  forall r vfun name k repl tus tusk fus m x,
  D.lookup name = Some (D.V_sb k) -> (repl = 0 \/ D.byte_ok k repl = true) ->
  let validate_ := c_validate_e r vfun name tus in
  let out := snd (c_validate_and_filter_e r vfun name repl tus tusk fus m x) in
  validate_ out = true /\
  (exists segs, out = concat segs /\
     Forall (seg_ok (c_xhtml r) (c_comments r) (c_numeric r) (c_tag_kind r) (c_entity_ok r) (c_bool_ok r) (c_val_ok r vfun)) segs) /\
  forallb (D.byte_ok k) out = true /\
  (validate_ x = true ->
     out = x /\
     (exists segs, x = concat segs /\
        Forall (whitelisted (c_xhtml r) (c_comments r) (c_numeric r) (c_tag_kind r) (c_entity_ok r) (c_bool_ok r) (c_val_ok r vfun)) segs) /\
     forallb (D.byte_ok k) x = true).
Proof. exact c04_single_byte_rule_sets_l. Qed.
Print Assumptions c04_single_byte_rule_sets.

(* the same for an encoding without a built-in validator (UTF-16, UTF-32, Shift_JIS, ...): the text is converted to UTF-8, filtered
   there and converted back; tus / tusk / fus = conv::to_utf (stop / skip) and conv::from_utf (stop) as arbitrary functions, constrained
   only by the round-trip premise.  The UTF-8 text that is converted back (concat segs) is a concatenation of white-listed tokens and
   harmless text; what validation accepts converts to well-formed UTF-8 without forbidden controls. *)
Theorem c04_converted_rule_sets :
  forall r vfun name repl tus tusk fus m x,
  name <> [] -> D.lookup name = None -> conv_roundtrip (D.validate true) tus fus ->
  let validate_ := c_validate_e r vfun name tus in
  let out := snd (c_validate_and_filter_e r vfun name repl tus tusk fus m x) in
  validate_ out = true /\
  (exists segs,
     Forall (seg_ok (c_xhtml r) (c_comments r) (c_numeric r) (c_tag_kind r) (c_entity_ok r) (c_bool_ok r) (c_val_ok r vfun)) segs /\
     ((out = x /\ tus x = Some (concat segs)) \/ fus (concat segs) = Some out \/ out = [])) /\
  (validate_ x = true ->
     out = x /\
     exists u, tus x = Some u /\ exists cps, Forall S.scalar cps /\ Forall S.html_safe cps /\ u = flat_map S.rfc_encode cps).
Proof. exact c04_converted_rule_sets_l. Qed.
Print Assumptions c04_converted_rule_sets.

(* ---- 11. regex-typed attributes and numeric character references, made concrete.
        RX = coq/C20/Defs.v (regular expressions, derivative matcher full_match), RL = coq/C20/Regex.v (the declarative language
        `lang` and full_match_spec), imported read-only.  parse_pattern (DefsR.v) reads the pattern family the rule sets of the
        check use.  The anchoring that makes booster::regex_match a FULL match is tied by src_regex_anchoring_and_entity_conversion. ---- *)
Module RX := C20.Defs.
Module RL := C20.Regex.

(* the model of regex_functor accepts exactly the values that are, as a whole, in the language of the pattern *)
Theorem regex_validator_exact : forall p v,
  re_validate p v = Some true <-> exists r, parse_pattern p = Some r /\ RL.lang r v.
Proof. exact re_validate_exact. Qed.
Print Assumptions regex_validator_exact.

(* through the rule set: an attribute registered with a regex validator is accepted only if the WHOLE value (the text between
   the quotes, as validate_entry_by_rules hands it to the validator) is in the language of the pattern; via `whitelisted`
   (attr_allowed) this holds for every attribute of every tag that validate accepts or filter copies *)
Theorem regex_attribute_checked : forall r vfun tag pn k p re v,
  find_prop r tag pn = Some (VFun k) -> parse_pattern p = Some re ->
  (forall x, vfun k x = RX.full_match re x) ->
  c_val_ok r vfun tag pn v = true -> RL.lang re v.
Proof. exact regex_attribute_whole_value. Qed.
Print Assumptions regex_attribute_checked.

(* what "in the language" means for the class patterns of the family: exactly the strings over the class - nothing may follow *)
Theorem regex_class_languages : forall cs v,
  (RL.lang (RX.Cat (RX.Plus (RX.Cls cs)) RX.Eps) v <-> forallb (RX.cmem cs) v = true /\ v <> []) /\
  (RL.lang (RX.Cat (RX.Star (RX.Cls cs)) RX.Eps) v <-> forallb (RX.cmem cs) v = true).
Proof. exact (fun cs v => conj (class_plus_language cs v) (class_star_language cs v)). Qed.
Print Assumptions regex_class_languages.

(* the class of the missed defect: under [a-z]+ a value followed by ANY byte outside a-z (line feed, CR, NUL, blank, ...) is refused *)
Theorem regex_rejects_trailing_byte : forall v c,
  ((c <? 97) || (122 <? c)) = true -> re_validate lower_plus (v ++ [c]) = Some false.
Proof. exact lower_plus_rejects_trailing_byte. Qed.
Print Assumptions regex_rejects_trailing_byte.

(* the scheme expression of a URI validator is applied the same way (booster::regex_match on the scheme range): with a pattern of the
   family, the scheme a browser reads is, as a whole, in the language of the scheme pattern *)
Theorem uri_scheme_in_pattern_language : forall re v sc,
  uri_validate UBoth (RX.full_match re) v = true -> visible_scheme v = Some sc -> RL.lang re sc.
Proof.
  exact (fun re v sc H V => proj1 (RL.full_match_spec sc re) (uri_both_scheme_checked (RX.full_match re) v sc H V)).
Qed.
Print Assumptions uri_scheme_in_pattern_language.

Example regex_nonvacuous :
  re_validate lower_plus [105;110;116;114;111] = Some true /\                          (* intro *)
  re_validate lower_plus [105;110;116;114;111;10] = Some false /\                       (* intro LF *)
  re_validate lower_plus [10;105;110;116;114;111] = Some false /\
  re_validate lower_plus [105;110;10;116;114;111] = Some false /\
  re_validate lower_plus [] = Some false /\
  re_validate [46;42] [97;32;98] = Some true /\ re_validate [46;42] [97;10] = Some false /\         (* .* : a dot is not a line feed *)
  re_validate [91;97;45;122;32;93;42] [97;32;98] = Some true /\ re_validate [91;97;45;122;32;93;42] [97;9;98] = Some false /\
  re_validate [40;104;116;116;112;124;104;116;116;112;115;41] [104;116;116;112;115] = Some true /\ (* (http|https) https *)
  re_validate [40;104;116;116;112;124;104;116;116;112;115;41] [104;116;116;112;115;10] = Some false /\
  re_validate [97;40;63;61;98;41] [97] = None.                                                     (* a(?=b): outside the family *)
Proof. vm_compute. repeat split. Qed.

(* numeric character references: the conversion as the code performs it (long code_point = strtol(...), saturating at LONG_MAX;
   DefsN.v) gives, for every text, the verdict of the mathematical value of the digit string (Defs.v: parse_entity) *)
Theorem numeric_reference_conversion_exact : forall text, parse_entity_c text = parse_entity text.
Proof. exact entity_conversion_exact. Qed.
Print Assumptions numeric_reference_conversion_exact.

(* ... so a numeric reference is recognised iff the mathematical value of its digit string - of ANY length - is a permitted
   code point (cp_ok: at most 0x10FFFF, not D800..DBFF, FFFE, FFFF, 7F..9F, no C0 control other than tab LF CR) *)
Theorem numeric_reference_accepted_iff :
  (forall ds, ds <> [] -> forallb is_digit ds = true ->
     (fst (parse_entity_c (38 :: [35] ++ ds ++ [59])) = NumEntity <-> cp_ok (num_val 10 ds) = true)) /\
  (forall x ds, x = 120 \/ x = 88 -> ds <> [] -> forallb is_xdigit ds = true ->
     (fst (parse_entity_c (38 :: [35; x] ++ ds ++ [59])) = NumEntity <-> cp_ok (num_val 16 ds) = true)).
Proof. exact (conj decimal_reference_iff hex_reference_iff). Qed.
Print Assumptions numeric_reference_accepted_iff.

(* &#4294967356; = 2^32 + 60, &#x10000003C;, &#x10010FFFF;, 2^64 + 65, forty digits: refused, although the low 32 bits are an
   allowed code point (what a 32 bit variable would have held) *)
Example numeric_reference_nonvacuous :
  fst (parse_entity_c [38;35;52;50;57;52;57;54;55;51;53;54;59]) = Invalid /\ cp_ok (as_int32 4294967356) = true /\
  fst (parse_entity_c [38;35;120;49;48;48;48;48;48;48;51;67;59]) = Invalid /\
  fst (parse_entity_c [38;35;120;49;48;48;49;48;70;70;70;70;59]) = Invalid /\
  fst (parse_entity_c [38;35;49;56;52;52;54;55;52;52;48;55;51;55;48;57;53;53;49;54;56;49;59]) = Invalid /\        (* 2^64 + 65 *)
  fst (parse_entity_c ([38;35] ++ repeat 48 38 ++ [54;48;59])) = NumEntity /\                                      (* &#000...060; *)
  fst (parse_entity_c ([38;35] ++ repeat 57 40 ++ [59])) = Invalid /\
  fst (parse_entity_c [38;35;54;48;59]) = NumEntity /\ fst (parse_entity_c [38;35;120;49;48;70;70;70;70;59]) = NumEntity.
Proof. vm_compute. repeat split. Qed.
