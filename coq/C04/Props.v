(* C04 -- XSS filter output contains only white-listed markup and is stable.
   Only property theorems here, each closed by `exact <lemma>`; proofs are in Proofs*.v.
   Rule sets are universally quantified through the functions tag_kind / entity_ok / bool_ok / val_ok
   (rules::valid_tag, valid_entity, valid_boolean_property, valid_property) and the three flags;
   the encoding validators enc_valid / enc_vof (cppcms::encoding::valid / validate_or_filter) are
   universally quantified functions constrained only by the stated premises. *)
From CppcmsV Require Import Base.Tac Base.Sweep C04.Defs C04.Proofs1.
Local Open Scope N_scope.

(* ---- 1. verdicts: both entry points agree, valid input is returned unchanged, validation implies
        well-formedness in the declared encoding ---- *)
Theorem validate_iff_flag :
  forall xhtml comments numeric tag_kind entity_ok bool_ok val_ok has_enc enc_valid enc_vof,
  enc_agree enc_valid enc_vof -> forall m x,
  fst (validate_and_filter xhtml comments numeric tag_kind entity_ok bool_ok val_ok has_enc enc_vof m x)
  = validate xhtml comments numeric tag_kind entity_ok bool_ok val_ok has_enc enc_valid x.
Proof. exact validate_flag. Qed.
Print Assumptions validate_iff_flag.

Theorem valid_unchanged :
  forall xhtml comments numeric tag_kind entity_ok bool_ok val_ok has_enc enc_valid enc_vof,
  enc_agree enc_valid enc_vof -> forall m x,
  validate xhtml comments numeric tag_kind entity_ok bool_ok val_ok has_enc enc_valid x = true ->
  filter xhtml comments numeric tag_kind entity_ok bool_ok val_ok has_enc enc_vof m x = x.
Proof. exact valid_unchanged_l. Qed.
Print Assumptions valid_unchanged.

Theorem validate_encoding :
  forall xhtml comments numeric tag_kind entity_ok bool_ok val_ok has_enc enc_valid x,
  has_enc = true ->
  validate xhtml comments numeric tag_kind entity_ok bool_ok val_ok has_enc enc_valid x = true ->
  enc_valid x = true.
Proof. exact validate_encoding_l. Qed.
Print Assumptions validate_encoding.

(* ---- 2. tokeniser: the tokens are consecutive pieces of the input, each of the shape its type says;
        in particular every < > & of the input is inside a token that is an entity, a tag, a comment
        or invalid - a plain token has none ---- *)
Theorem tokens_partition_input : forall x, concat (map snd (split x)) = x.
Proof. exact split_partition. Qed.
Print Assumptions tokens_partition_input.

Theorem tokens_have_their_shape : forall x, Forall (fun tk => tok_form (fst tk) (snd tk)) (split x).
Proof. exact split_forms. Qed.
Print Assumptions tokens_have_their_shape.
