(* C04 -- placeholder while the pipeline is brought up *)
From CppcmsV Require Import Base.Tac C04.Defs.
Local Open Scope N_scope.
Theorem split_nil : split [] = [].
Proof. reflexivity. Qed.
Print Assumptions split_nil.
