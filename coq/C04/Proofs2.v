(* C04 proofs, part 2: validate_nesting (nest) keeps the entries in order with their text, name and
   properties; it only changes types: open -> invalid / open_and_close_tag_without_slash, close -> invalid. *)
From CppcmsV Require Import Base.Tac Base.Sweep C04.Defs C04.Proofs1.
Local Open Scope N_scope.

Definition trel (a b : etype) : Prop :=
  a = b \/ (a = Open /\ (b = Invalid \/ b = OpenNoSlash)) \/ (a = Close /\ b = Invalid).
Definition erel (p n : entry) : Prop :=
  e_text n = e_text p /\ e_name n = e_name p /\ e_props n = e_props p /\ trel (e_type p) (e_type n).

Lemma erel_refl e : erel e e.
Proof. repeat split. left. reflexivity. Qed.

Lemma erel_open_retype p o t : erel p o -> e_type o = Open -> t = Invalid \/ t = OpenNoSlash ->
  erel p (with_type t o).
Proof.
  intros (H1 & H2 & H3 & H4) Ho Ht. repeat split; try assumption. cbn [with_type e_type].
  rewrite Ho in H4. right. left. split; [|exact Ht].
  destruct H4 as [H|[[H _]|[_ H]]]; [exact H|exact H|discriminate].
Qed.

Lemma erel_open_paired p o e : erel p o -> erel p (paired o e).
Proof. intros (H1 & H2 & H3 & H4). repeat split; assumption. Qed.

Lemma erel_close_invalid e : e_type e = Close -> erel e (with_type Invalid e).
Proof. intros H. repeat split. cbn [with_type e_type]. right. right. split; [exact H|reflexivity]. Qed.

(* the sequence of entries represented by a stack of frames, newest first *)
Fixpoint flat (fs : list frame) (base : list entry) : list entry :=
  match fs with [] => base | (o, its) :: fs' => its ++ o :: flat fs' base end.

Definition opens (fs : list frame) : Prop := Forall (fun f : frame => e_type (fst f) = Open) fs.

Lemma emit_to_flat items fs base :
  flat (fst (emit_to items fs base)) (snd (emit_to items fs base)) = items ++ flat fs base /\
  (opens fs -> opens (fst (emit_to items fs base))).
Proof.
  destruct fs as [|[o its] fs']; cbn [emit_to fst snd flat].
  - split; [reflexivity|exact (fun H => H)].
  - split; [rewrite <- app_assoc; reflexivity|].
    intros H. inversion H; subst. constructor; assumption.
Qed.

Lemma Forall2_split_frame (R : entry -> entry -> Prop) d its o tail :
  Forall2 R d (its ++ o :: tail) ->
  exists da p dc, d = da ++ p :: dc /\ Forall2 R da its /\ R p o /\ Forall2 R dc tail.
Proof.
  intros H. apply Forall2_app_inv_r in H. destruct H as (da & db & Ha & Hb & Hd).
  inversion Hb as [|p o' dc tail' Hp Hc]; subst.
  exists da, p, dc. repeat split; assumption.
Qed.

Lemma flush_rel t : t = Invalid \/ t = OpenNoSlash ->
  forall fs base acc d1 d2, opens fs -> Forall2 erel d1 acc -> Forall2 erel d2 (flat fs base) ->
  Forall2 erel (d1 ++ d2) (flush t fs acc ++ base).
Proof.
  intros Ht fs. induction fs as [|[o its] fs' IH]; intros base acc d1 d2 Ho H1 H2; cbn [flush flat] in *.
  - apply Forall2_app; assumption.
  - destruct (Forall2_split_frame _ _ _ _ _ H2) as (da & p & dc & Hd & Ha & Hp & Hc). subst d2.
    inversion Ho as [|f fs'' Hof Hofs]; subst. cbn [fst] in Hof.
    replace (d1 ++ da ++ p :: dc) with ((d1 ++ da ++ [p]) ++ dc)
      by (rewrite <- !app_assoc; reflexivity).
    apply IH; [exact Hofs| |exact Hc].
    apply Forall2_app; [exact H1|]. apply Forall2_app; [exact Ha|].
    constructor; [|constructor]. apply erel_open_retype; assumption.
Qed.

Lemma html_close_rel e pe : erel pe e -> e_type e = Close -> e_type pe = Close ->
  forall fs popped base dp d, opens fs -> Forall2 erel dp popped -> Forall2 erel d (flat fs base) ->
  Forall2 erel (pe :: dp ++ d) (flat (fst (html_close e fs popped base)) (snd (html_close e fs popped base)))
  /\ opens (fst (html_close e fs popped base)).
Proof.
  intros Hpe He Hpc fs. induction fs as [|[o its] fs' IH]; intros popped base dp d Ho Hp Hd; cbn [html_close].
  - cbn [fst snd flat] in *. split; [|constructor].
    constructor.
    + destruct Hpe as (H1 & H2 & H3 & H4). repeat split; try assumption. cbn [with_type e_type].
      right. right. split; [exact Hpc|reflexivity].
    + apply Forall2_app; assumption.
  - cbn [flat] in Hd. destruct (Forall2_split_frame _ _ _ _ _ Hd) as (da & p & dc & Hdd & Ha & Hpo & Hc). subst d.
    inversion Ho as [|f fs'' Hof Hofs]; subst. cbn [fst] in Hof.
    destruct (name_eq false (e_name o) (e_name e)).
    + destruct (emit_to_flat (paired e o :: popped ++ its ++ [paired o e]) fs' base) as [Hf Hopen].
      rewrite Hf. split; [|exact (Hopen Hofs)].
      replace (pe :: dp ++ da ++ p :: dc) with ((pe :: dp ++ da ++ [p]) ++ dc)
        by (cbn [app]; rewrite <- !app_assoc; reflexivity).
      apply Forall2_app; [|exact Hc]. constructor.
      * destruct Hpe as (H1 & H2 & H3 & H4). repeat split; assumption.
      * apply Forall2_app; [exact Hp|]. apply Forall2_app; [exact Ha|]. constructor; [|constructor].
        apply erel_open_paired. exact Hpo.
    + replace (pe :: dp ++ da ++ p :: dc) with (pe :: (dp ++ da ++ [p]) ++ dc)
        by (rewrite <- !app_assoc; reflexivity).
      apply IH; [exact Hofs| |exact Hc].
      apply Forall2_app; [exact Hp|]. apply Forall2_app; [exact Ha|]. constructor; [|constructor].
      apply erel_open_retype; [exact Hpo|exact Hof|right; reflexivity].
Qed.

Lemma xhtml_close_rel e : e_type e = Close ->
  forall fs base d, opens fs -> Forall2 erel d (flat fs base) ->
  Forall2 erel (e :: d) (flat (fst (xhtml_close e fs base)) (snd (xhtml_close e fs base)))
  /\ opens (fst (xhtml_close e fs base)).
Proof.
  intros He fs base d Ho Hd. destruct fs as [|[o its] fs']; cbn [xhtml_close].
  - cbn [fst snd flat] in *. split; [|constructor]. constructor; [|exact Hd].
    apply erel_close_invalid. exact He.
  - cbn [flat] in Hd. destruct (Forall2_split_frame _ _ _ _ _ Hd) as (da & p & dc & Hdd & Ha & Hpo & Hc). subst d.
    inversion Ho as [|f fs'' Hof Hofs]; subst. cbn [fst] in Hof.
    replace (e :: da ++ p :: dc) with ((e :: da ++ [p]) ++ dc)
      by (cbn [app]; rewrite <- !app_assoc; reflexivity).
    destruct (name_eq true (e_name o) (e_name e)).
    + destruct (emit_to_flat (paired e o :: its ++ [paired o e]) fs' base) as [Hf Hopen].
      rewrite Hf. split; [|exact (Hopen Hofs)].
      apply Forall2_app; [|exact Hc]. constructor; [repeat split; left; reflexivity|].
      apply Forall2_app; [exact Ha|]. constructor; [|constructor]. apply erel_open_paired. exact Hpo.
    + destruct (emit_to_flat (with_type Invalid e :: its ++ [with_type Invalid o]) fs' base) as [Hf Hopen].
      rewrite Hf. split; [|exact (Hopen Hofs)].
      apply Forall2_app; [|exact Hc]. constructor; [apply erel_close_invalid; exact He|].
      apply Forall2_app; [exact Ha|]. constructor; [|constructor].
      apply erel_open_retype; [exact Hpo|exact Hof|left; reflexivity].
Qed.

Lemma Forall2_rev_l {A B} (R : A -> B -> Prop) l1 l2 : Forall2 R l1 l2 -> Forall2 R (rev l1) (rev l2).
Proof.
  induction 1 as [|a b l1 l2 Hab H IH]; [constructor|]. cbn [rev].
  apply Forall2_app; [exact IH|]. constructor; [exact Hab|constructor].
Qed.

Lemma nest_loop_rel xhtml : forall todo fs base d, opens fs -> Forall2 erel d (flat fs base) ->
  Forall2 erel (rev d ++ todo) (nest_loop xhtml todo fs base).
Proof.
  induction todo as [|cur todo IH]; intros fs base d Ho Hd.
  - cbn [nest_loop]. rewrite app_nil_r. apply Forall2_rev_l.
    change d with ([] ++ d). apply flush_rel; [destruct xhtml; [left|right]; reflexivity|exact Ho|constructor|exact Hd].
  - assert (Hstep : forall fs' base', opens fs' -> Forall2 erel (cur :: d) (flat fs' base') ->
                    Forall2 erel (rev d ++ cur :: todo) (nest_loop xhtml todo fs' base')).
    { intros fs' base' Ho' Hd'. specialize (IH fs' base' (cur :: d) Ho' Hd').
      cbn [rev] in IH. rewrite <- app_assoc in IH. exact IH. }
    assert (Hother : Forall2 erel (rev d ++ cur :: todo)
                       (let (fs', base') := emit_to [cur] fs base in nest_loop xhtml todo fs' base')).
    { destruct (emit_to_flat [cur] fs base) as [Hf Hopen].
      destruct (emit_to [cur] fs base) as [fs' base']. cbn [fst snd] in *.
      apply Hstep; [exact (Hopen Ho)|]. rewrite Hf. constructor; [apply erel_refl|exact Hd]. }
    cbn [nest_loop]. destruct (e_type cur) eqn:Et; try exact Hother.
    + (* Open *)
      apply Hstep.
      * constructor; [exact Et|exact Ho].
      * cbn [flat app]. constructor; [apply erel_refl|exact Hd].
    + (* Close *)
      destruct xhtml.
      * destruct (xhtml_close_rel cur Et fs base d Ho Hd) as [H1 H2].
        destruct (xhtml_close cur fs base) as [fs' base']. cbn [fst snd] in *. apply Hstep; assumption.
      * destruct (html_close_rel cur cur (erel_refl cur) Et Et fs [] base [] d Ho (Forall2_nil _) Hd) as [H1 H2].
        destruct (html_close cur fs [] base) as [fs' base']. cbn [fst snd app] in *. apply Hstep; assumption.
Qed.

Lemma nest_rel xhtml es : Forall2 erel es (nest xhtml es).
Proof. exact (nest_loop_rel xhtml es [] [] [] (Forall_nil _) (Forall2_nil _)). Qed.

Lemma Forall2_map_eq {A B C} (R : A -> B -> Prop) (f : A -> C) (g : B -> C) l1 l2 :
  (forall a b, R a b -> g b = f a) -> Forall2 R l1 l2 -> map g l2 = map f l1.
Proof.
  intros HR. induction 1 as [|a b l1 l2 Hab H IH]; [reflexivity|]. cbn [map]. rewrite (HR _ _ Hab), IH. reflexivity.
Qed.

Lemma nest_texts xhtml es : map e_text (nest xhtml es) = map e_text es.
Proof. apply (Forall2_map_eq erel); [|apply nest_rel]. intros a b (H & _). exact H. Qed.
