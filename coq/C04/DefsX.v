(* C04: executable model, second part: the path of validate / validate_and_filter_if_invalid for an
   encoding that is not "ASCII compatible" (cppcms::encoding::is_ascii_compatible(enc) == false):
   the text is converted to UTF-8 (booster::locale::conv::to_utf, method stop; on failure: method skip
   and the verdict is "invalid"), the UTF-8 pipeline runs with replacement character 0, and the
   output is converted back (from_utf, stop; if that throws the output string is left as it was - the
   filter() wrappers then return the empty string).  The conversions are abstract functions.
   In this path enc_valid / enc_vof stand for encoding::valid("UTF-8",.) and
   validate_or_filter("UTF-8",.,0).  No proofs here. *)
From Coq Require Import NArith List Bool.
From CppcmsV Require Import Base.Sweep C04.Defs.
Import ListNotations.
Local Open Scope N_scope.

Section RulesX.
  Variable xhtml comments numeric : bool.
  Variable tag_kind : list N -> tkind.
  Variable entity_ok : list N -> bool.
  Variable bool_ok : list N -> list N -> bool.
  Variable val_ok : list N -> list N -> list N -> bool.
  Variable has_enc : bool.
  Variable ascii_compat : bool.                        (* encoding::is_ascii_compatible(rules::encoding()) *)
  Variable enc_valid : list N -> bool.                 (* encoding::valid(work encoding, .) *)
  Variable enc_vof : list N -> option (list N).        (* validate_or_filter(work encoding, ., work replacement char) *)
  Variable to_utf_stop : list N -> option (list N).    (* conv::to_utf(.,enc,stop); None = exception *)
  Variable to_utf_skip : list N -> list N.             (* conv::to_utf(.,enc,skip) *)
  Variable from_utf_stop : list N -> option (list N).  (* conv::from_utf(.,enc,stop); None = exception *)

  Definition validate_x (x : list N) : bool :=
    if has_enc && negb ascii_compat then
      match to_utf_stop x with
      | None => false
      | Some u => if enc_valid u then validate_core xhtml comments numeric tag_kind entity_ok bool_ok val_ok u else false
      end
    else validate xhtml comments numeric tag_kind entity_ok bool_ok val_ok has_enc enc_valid x.

  Definition validate_and_filter_x (m : fmethod) (x : list N) : bool * list N :=
    if has_enc && negb ascii_compat then
      let (v0, w) := match to_utf_stop x with Some u => (true, u) | None => (false, to_utf_skip x) end in
      let (v1, y) := match enc_vof w with None => (v0, w) | Some y => (false, y) end in
      let (valid, out) := vf_core xhtml comments numeric tag_kind entity_ok bool_ok val_ok m y in
      if v1 && valid then (true, x)
      else (false, match from_utf_stop out with Some o => o | None => [] end)
    else validate_and_filter xhtml comments numeric tag_kind entity_ok bool_ok val_ok has_enc enc_vof m x.

  Definition filter_x (m : fmethod) (x : list N) : list N := snd (validate_and_filter_x m x).
End RulesX.

Section ConcreteX.
  Variable r : crules.
  Variable vfun : N -> list N -> bool.
  Definition c_validate_x :=
    validate_x (c_xhtml r) (c_comments r) (c_numeric r) (c_tag_kind r) (c_entity_ok r) (c_bool_ok r) (c_val_ok r vfun).
  Definition c_validate_and_filter_x :=
    validate_and_filter_x (c_xhtml r) (c_comments r) (c_numeric r) (c_tag_kind r) (c_entity_ok r) (c_bool_ok r) (c_val_ok r vfun).
End ConcreteX.
