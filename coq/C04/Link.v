(* C04: the character classes regenerated from src/xss.cpp by cxx2v (coq/gen/Gen_xss.v) are the
   model's leaf functions.  The C++ parameter is a (signed) char: byte b is passed as wraps 8 b.
   Each fact is a 256-point sweep (vm_compute) lifted by sweep256. *)
From CppcmsV Require Import Base.Tac Base.CSem Base.Sweep C04.Defs gen.Gen_xss gen.Gen_xss2.
Local Open Scope N_scope.

Definition sch (b : N) : Z := wraps 8 (Z.of_N b).

Lemma link_isalpha b : b < 256 -> g_xss_isalpha (sch b) = is_alpha b.
Proof.
  intros H. apply eqb_prop.
  apply (sweep256 (fun b => eqb (g_xss_isalpha (sch b)) (is_alpha b))); [vm_compute; reflexivity|exact H].
Qed.
Lemma link_isdigit b : b < 256 -> g_xss_isdigit (sch b) = is_digit b.
Proof.
  intros H. apply eqb_prop.
  apply (sweep256 (fun b => eqb (g_xss_isdigit (sch b)) (is_digit b))); [vm_compute; reflexivity|exact H].
Qed.
Lemma link_isalnum b : b < 256 -> g_xss_isalnum (sch b) = is_alnum b.
Proof.
  intros H. apply eqb_prop.
  apply (sweep256 (fun b => eqb (g_xss_isalnum (sch b)) (is_alnum b))); [vm_compute; reflexivity|exact H].
Qed.
Lemma link_isxdigit b : b < 256 -> g_xss_isxdigit (sch b) = is_xdigit b.
Proof.
  intros H. apply eqb_prop.
  apply (sweep256 (fun b => eqb (g_xss_isxdigit (sch b)) (is_xdigit b))); [vm_compute; reflexivity|exact H].
Qed.
Lemma link_isspace b : b < 256 -> g_xss_isspace (sch b) = is_space b.
Proof.
  intros H. apply eqb_prop.
  apply (sweep256 (fun b => eqb (g_xss_isspace (sch b)) (is_space b))); [vm_compute; reflexivity|exact H].
Qed.
(* ascii_tolower returns a char: compare as unsigned bytes *)
Lemma link_tolower b : b < 256 -> Z.to_N (wrapu 8 (g_xss_tolower (sch b))) = to_lower b.
Proof.
  intros H. apply N.eqb_eq.
  apply (sweep256 (fun b => Z.to_N (wrapu 8 (g_xss_tolower (sch b))) =? to_lower b)); [vm_compute; reflexivity|exact H].
Qed.

(* Gen_xss2.v is produced by checks/C04.py with the cxx2v primitives from pieces that are not
   stand-alone functions: the escaping loop body of validate_and_filter_if_invalid, the code point
   test of parse_html_entity (all disjuncts that mention code_point) and the entity spellings that
   validate_property_value accepts inside attribute values. *)
Lemma link_escape_step b : b < 256 -> map Z.to_N (g_xss_escape_step (Z.of_N b)) = esc4 b.
Proof.
  intros H. apply leqb_eq.
  apply (sweep256 (fun b => leqb (map Z.to_N (g_xss_escape_step (Z.of_N b))) (esc4 b))); [vm_compute; reflexivity|exact H].
Qed.

(* for every code point (unbounded): the source rejects it iff the model does *)
Lemma link_cp_ok cp : g_xss_cp_rejected (Z.of_N cp) = negb (cp_ok cp).
Proof. unfold g_xss_cp_rejected, cp_ok. rewrite negb_involutive. lia. Qed.

Lemma link_value_entities : map (map Z.to_N) g_xss_value_entities = value_entities.
Proof. vm_compute. reflexivity. Qed.

(* class uri_parser: static helpers (Gen_uri.v), the case labels and entity spellings of sub_delims and
   the test of unreserved (Gen_xss2.v) *)
From CppcmsV Require Import C04.DefsU gen.Gen_uri.
Lemma link_uri_isdigit b : b < 256 -> g_uri_isdigit (sch b) = u_digit b.
Proof.
  intros H. apply eqb_prop.
  apply (sweep256 (fun b => eqb (g_uri_isdigit (sch b)) (u_digit b))); [vm_compute; reflexivity|exact H].
Qed.
Lemma link_uri_isalpha b : b < 256 -> g_uri_isalpha (sch b) = u_alpha b.
Proof.
  intros H. apply eqb_prop.
  apply (sweep256 (fun b => eqb (g_uri_isalpha (sch b)) (u_alpha b))); [vm_compute; reflexivity|exact H].
Qed.
Lemma link_uri_ishex b : b < 256 -> g_uri_ishex (sch b) = u_hex b.
Proof.
  intros H. apply eqb_prop.
  apply (sweep256 (fun b => eqb (g_uri_ishex (sch b)) (u_hex b))); [vm_compute; reflexivity|exact H].
Qed.
(* one byte tokens of the model against the source: unreserved; sub_delims = the two words or one of the case labels *)
Lemma link_uri_unreserved b : b < 256 -> g_uri_unreserved (sch b) = negb (Nat.eqb (unreserved_len [b]) 0).
Proof.
  intros H. apply eqb_prop.
  apply (sweep256 (fun b => eqb (g_uri_unreserved (sch b)) (negb (Nat.eqb (unreserved_len [b]) 0)))); [vm_compute; reflexivity|exact H].
Qed.
Lemma link_uri_subdelims b : b < 256 ->
  existsb (Z.eqb (Z.of_N b)) g_uri_subdelim_chars = negb (Nat.eqb (subdelim_len [b]) 0).
Proof.
  intros H. apply eqb_prop.
  apply (sweep256 (fun b => eqb (existsb (Z.eqb (Z.of_N b)) g_uri_subdelim_chars) (negb (Nat.eqb (subdelim_len [b]) 0)))); [vm_compute; reflexivity|exact H].
Qed.
Lemma link_uri_subdelim_words : map (map Z.to_N) g_uri_subdelim_words = [amp_s; apos_s].
Proof. vm_compute. reflexivity. Qed.

(* private/c_string.h: icompare_c_string orders by ilt; two bytes are equivalent for the html maps and
   sets iff the model's to_lower agrees on them *)
From CppcmsV Require Import gen.Gen_cstr.
Lemma link_cstr_ilt a b : a < 256 -> b < 256 -> g_cstr_ilt (sch a) (sch b) = (to_lower a <? to_lower b).
Proof.
  intros Ha Hb. apply eqb_prop.
  apply (sweep256_2 (fun a b => eqb (g_cstr_ilt (sch a) (sch b)) (to_lower a <? to_lower b))); [vm_compute; reflexivity|exact Ha|exact Hb].
Qed.
Lemma link_cstr_equiv a b : a < 256 -> b < 256 ->
  (g_cstr_ilt (sch a) (sch b) = false /\ g_cstr_ilt (sch b) (sch a) = false) <-> to_lower a = to_lower b.
Proof.
  intros Ha Hb. rewrite (link_cstr_ilt a b Ha Hb), (link_cstr_ilt b a Hb Ha). rewrite !N.ltb_ge. lia.
Qed.

(* integer_property_functor: the test that rejects a character *)
Lemma link_int_reject b : b < 256 -> g_xss_int_reject (sch b) = negb (is_digit b).
Proof.
  intros H. apply eqb_prop.
  apply (sweep256 (fun b => eqb (g_xss_int_reject (sch b)) (negb (is_digit b)))); [vm_compute; reflexivity|exact H].
Qed.

(* ---- class uri_parser, the parts written as alternatives of calls (checks/C04.py:gen_extra (6), (7)) ---- *)
From Coq Require Import String.
Lemma link_uri_schemech b : b < 256 -> g_uri_schemech (sch b) = schemech b.
Proof.
  intros H. apply Bool.eqb_prop.
  apply (sweep256 (fun b => Bool.eqb (g_uri_schemech (sch b)) (schemech b))); [vm_compute; reflexivity|exact H].
Qed.

(* the operands of g_uri_grammar read as the token matchers of the model *)
Definition tok_of (a : string) : list N -> nat :=
  if String.eqb a "unreserved()" then unreserved_len else
  if String.eqb a "pct_encoded()" then pct_len else
  if String.eqb a "sub_delims()" then subdelim_len else
  if String.eqb a "pchar()" then pchar_len else
  if String.eqb a "follows(58)" then char_len 58 else
  if String.eqb a "follows(64)" then char_len 64 else
  if String.eqb a "follows(47)" then char_len 47 else
  if String.eqb a "follows(63)" then char_len 63 else fun _ => 0%nat.
Fixpoint alts (l : list string) (s : list N) : nat :=
  match l with [] => 0%nat | a :: r => orl (tok_of a s) (alts r s) end.
Definition rule (name : string) : list string :=
  match find (fun p => String.eqb (fst p) name) g_uri_grammar with Some p => snd p | None => [] end.

Lemma orl_assoc a b c : orl (orl a b) c = orl a (orl b c).
Proof. destruct a; reflexivity. Qed.
Lemma orl_0_r a : orl a 0 = a.
Proof. destruct a; reflexivity. Qed.

Lemma tok_of_names :
  tok_of "unreserved()" = unreserved_len /\ tok_of "pct_encoded()" = pct_len /\ tok_of "sub_delims()" = subdelim_len /\
  tok_of "pchar()" = pchar_len /\ tok_of "follows(58)" = char_len 58 /\ tok_of "follows(64)" = char_len 64 /\
  tok_of "follows(47)" = char_len 47 /\ tok_of "follows(63)" = char_len 63.
Proof. repeat split; reflexivity. Qed.

Ltac alts_solve :=
  destruct tok_of_names as (T1 & T2 & T3 & T4 & T5 & T6 & T7 & T8);
  cbn [alts]; rewrite ?T1, ?T2, ?T3, ?T4, ?T5, ?T6, ?T7, ?T8;
  unfold qchar_len, pchar_len, nc_len, ui_len, reg_len; rewrite ?orl_assoc, ?orl_0_r; reflexivity.

(* pchar(): unreserved() || pct_encoded() || sub_delims() || follows(':') || follows('@') *)
Lemma link_uri_pchar s : rule "pchar" = "||"%string :: tl (rule "pchar") /\ alts (tl (rule "pchar")) s = pchar_len s.
Proof.
  assert (E : rule "pchar" = ["||"; "unreserved()"; "pct_encoded()"; "sub_delims()"; "follows(58)"; "follows(64)"]%string)
    by (vm_compute; reflexivity).
  rewrite E. split; [reflexivity|]. cbn [tl]. alts_solve.
Qed.
(* query(): while(pchar() || follows('/') || follows('?')) *)
Lemma link_uri_query s : rule "query" = "||"%string :: tl (rule "query") /\ alts (tl (rule "query")) s = qchar_len s.
Proof.
  assert (E : rule "query" = ["||"; "pchar()"; "follows(47)"; "follows(63)"]%string) by (vm_compute; reflexivity).
  rewrite E. split; [reflexivity|]. cbn [tl]. alts_solve.
Qed.
(* segment(): while(pchar()) *)
Lemma link_uri_segment s : rule "segment" = "-"%string :: tl (rule "segment") /\ alts (tl (rule "segment")) s = pchar_len s.
Proof.
  assert (E : rule "segment" = ["-"; "pchar()"]%string) by (vm_compute; reflexivity).
  rewrite E. split; [reflexivity|]. cbn [tl]. alts_solve.
Qed.
(* segment_nz_nc(): while(unreserved() || pct_encoded() || sub_delims() || follows('@')) *)
Lemma link_uri_segment_nz_nc s :
  rule "segment_nz_nc" = "||"%string :: tl (rule "segment_nz_nc") /\ alts (tl (rule "segment_nz_nc")) s = nc_len s.
Proof.
  assert (E : rule "segment_nz_nc" = ["||"; "unreserved()"; "pct_encoded()"; "sub_delims()"; "follows(64)"]%string)
    by (vm_compute; reflexivity).
  rewrite E. split; [reflexivity|]. cbn [tl]. alts_solve.
Qed.
(* reg_name(): while(unreserved() || pct_encoded() || sub_delims()) *)
Lemma link_uri_reg_name s : rule "reg_name" = "||"%string :: tl (rule "reg_name") /\ alts (tl (rule "reg_name")) s = reg_len s.
Proof.
  assert (E : rule "reg_name" = ["||"; "unreserved()"; "pct_encoded()"; "sub_delims()"]%string) by (vm_compute; reflexivity).
  rewrite E. split; [reflexivity|]. cbn [tl]. alts_solve.
Qed.
(* userinfo(): while(unreserved() || pct_encoded() || sub_delims() || follows(':')) *)
Lemma link_uri_userinfo s : rule "userinfo" = "||"%string :: tl (rule "userinfo") /\ alts (tl (rule "userinfo")) s = ui_len s.
Proof.
  assert (E : rule "userinfo" = ["||"; "unreserved()"; "pct_encoded()"; "sub_delims()"; "follows(58)"]%string)
    by (vm_compute; reflexivity).
  rewrite E. split; [reflexivity|]. cbn [tl]. alts_solve.
Qed.
(* the entry points and two one-line methods, as written:
     parse()          uri_reference() && begin_ == end_     DefsU.parse_uri (ok = everything consumed)
     parse_relative() relative_ref() && begin_ == end_      (not used by uri_validator_functor)
     parse_full()     uri() && begin_ == end_               DefsU.parse_full: uri s = Some []
     host()           ipv4addr() || reg_name()              DefsU.host
     fragment()       query()                               DefsU.opt_fragment uses query *)
Definition uri_entry_points_as_modelled : Prop :=
  rule "parse" = ["&&"; "uri_reference()"; "begin_==end_"]%string /\
  rule "parse_relative" = ["&&"; "relative_ref()"; "begin_==end_"]%string /\
  rule "parse_full" = ["&&"; "uri()"; "begin_==end_"]%string /\
  rule "host" = ["||"; "ipv4addr()"; "reg_name()"]%string /\
  rule "fragment" = ["-"; "query()"]%string.
Lemma link_uri_entry_points : uri_entry_points_as_modelled.
Proof. vm_compute. repeat split. Qed.

(* names for the operand lists, so that statements about them need no string literals *)
Definition alts_pchar := alts (tl (rule "pchar")).
Definition alts_query := alts (tl (rule "query")).
Definition alts_segment := alts (tl (rule "segment")).
Definition alts_segment_nz_nc := alts (tl (rule "segment_nz_nc")).
Definition alts_reg_name := alts (tl (rule "reg_name")).
Definition alts_userinfo := alts (tl (rule "userinfo")).
Lemma link_uri_alternatives s :
  alts_pchar s = pchar_len s /\ alts_query s = qchar_len s /\ alts_segment s = pchar_len s /\
  alts_segment_nz_nc s = nc_len s /\ alts_reg_name s = reg_len s /\ alts_userinfo s = ui_len s.
Proof.
  exact (conj (proj2 (link_uri_pchar s)) (conj (proj2 (link_uri_query s)) (conj (proj2 (link_uri_segment s))
          (conj (proj2 (link_uri_segment_nz_nc s)) (conj (proj2 (link_uri_reg_name s)) (proj2 (link_uri_userinfo s))))))).
Qed.

(* the control skeleton of the composite rules (conditions of the if / while statements and operands of the return statements in
   source order), as the model assumes it:
     uri            scheme ":" hier-part, then optional "?" query, optional "#" fragment          DefsU.uri
     relative_ref   relative-part, then the same two options                                     DefsU.relative_ref
     relative_part  authority() && path_abempty() tried first WITHOUT looking for "//" (authority never fails, so the
                    alternatives path_absolute / path_noscheme are dead code)                     DefsU.relative_ref
     hier_part      "//" authority path-abempty | path-absolute | path-rootless | empty           DefsU.hier_part
     authority      userinfo "@" host | host, then optional ":" port                             DefsU.authority
     path_*         DefsU.path_absolute, path_rootless, path_noscheme, path_abempty (slash_segs), segment_nz *)
Definition uri_control_as_modelled : Prop :=
  g_uri_control =
  ([("uri", [["if"; "||"; "!scheme()"; "!follows(58)"; "!hier_part()"]; ["return"; "-"; "false"]; ["if"; "&&"; "follows(63)"; "query()"]; ["if"; "&&"; "follows(35)"; "fragment()"]; ["return"; "-"; "true"]]);
   ("relative_ref", [["if"; "-"; "!relative_part()"]; ["return"; "-"; "false"]; ["if"; "&&"; "follows(63)"; "query()"]; ["if"; "&&"; "follows(35)"; "fragment()"]; ["return"; "-"; "true"]]);
   ("relative_part", [["if"; "&&"; "authority()"; "path_abempty()"]; ["return"; "-"; "true"]; ["return"; "||"; "path_absolute()"; "path_noscheme()"; "true"]]);
   ("hier_part", [["if"; "-"; "follows(s47.47)"]; ["if"; "||"; "!authority()"; "!path_abempty()"]; ["return"; "-"; "false"]; ["return"; "-"; "true"]; ["return"; "||"; "path_absolute()"; "path_rootless()"; "true"]]);
   ("authority", [["if"; "&&"; "userinfo()"; "follows(64)"; "host()"]; ["if"; "-"; "host()"]; ["return"; "-"; "false"]; ["if"; "&&"; "follows(58)"; "port()"]; ["return"; "-"; "true"]; ["return"; "-"; "true"]]);
   ("path_absolute", [["if"; "-"; "!follows(47)"]; ["return"; "-"; "false"]; ["if"; "-"; "segment_nz()"]; ["while"; "&&"; "follows(47)"; "segment()"]; ["return"; "-"; "true"]]);
   ("path_rootless", [["if"; "-"; "!segment_nz()"]; ["return"; "-"; "false"]; ["while"; "&&"; "follows(47)"; "segment()"]; ["return"; "-"; "true"]]);
   ("path_noscheme", [["if"; "-"; "!segment_nz_nc()"]; ["return"; "-"; "false"]; ["while"; "&&"; "follows(47)"; "segment()"]; ["return"; "-"; "true"]]);
   ("path_abempty", [["while"; "&&"; "follows(47)"; "segment()"]; ["return"; "-"; "true"]]);
   ("segment_nz", [["if"; "-"; "!pchar()"]; ["return"; "-"; "false"]; ["while"; "-"; "pchar()"]; ["return"; "-"; "true"]])])%string.
Lemma link_uri_control : uri_control_as_modelled.
Proof. vm_compute. reflexivity. Qed.
