(* C04: the character classes regenerated from src/xss.cpp by cxx2v (coq/gen/Gen_xss.v) are the
   model's leaf functions.  The C++ parameter is a (signed) char: byte b is passed as wraps 8 b.
   Each fact is a 256-point sweep (vm_compute) lifted by sweep256. *)
From CppcmsV Require Import Base.Tac Base.CSem Base.Sweep C04.Defs gen.Gen_xss gen.Gen_xss2.
Local Open Scope N_scope.

Definition sch (b : N) : Z := wraps 8 (Z.of_N b).

Lemma link_isalpha b : b < 256 -> g_xss_isalpha (sch b) = is_alpha b.
Proof.
  intros H. apply eqb_prop.
  apply (sweep256 (fun b => eqb (g_xss_isalpha (sch b)) (is_alpha b))); [vm_compute; reflexivity|exact H].
Qed.
Lemma link_isdigit b : b < 256 -> g_xss_isdigit (sch b) = is_digit b.
Proof.
  intros H. apply eqb_prop.
  apply (sweep256 (fun b => eqb (g_xss_isdigit (sch b)) (is_digit b))); [vm_compute; reflexivity|exact H].
Qed.
Lemma link_isalnum b : b < 256 -> g_xss_isalnum (sch b) = is_alnum b.
Proof.
  intros H. apply eqb_prop.
  apply (sweep256 (fun b => eqb (g_xss_isalnum (sch b)) (is_alnum b))); [vm_compute; reflexivity|exact H].
Qed.
Lemma link_isxdigit b : b < 256 -> g_xss_isxdigit (sch b) = is_xdigit b.
Proof.
  intros H. apply eqb_prop.
  apply (sweep256 (fun b => eqb (g_xss_isxdigit (sch b)) (is_xdigit b))); [vm_compute; reflexivity|exact H].
Qed.
Lemma link_isspace b : b < 256 -> g_xss_isspace (sch b) = is_space b.
Proof.
  intros H. apply eqb_prop.
  apply (sweep256 (fun b => eqb (g_xss_isspace (sch b)) (is_space b))); [vm_compute; reflexivity|exact H].
Qed.
(* ascii_tolower returns a char: compare as unsigned bytes *)
Lemma link_tolower b : b < 256 -> Z.to_N (wrapu 8 (g_xss_tolower (sch b))) = to_lower b.
Proof.
  intros H. apply N.eqb_eq.
  apply (sweep256 (fun b => Z.to_N (wrapu 8 (g_xss_tolower (sch b))) =? to_lower b)); [vm_compute; reflexivity|exact H].
Qed.

(* Gen_xss2.v is produced by checks/C04.py with the cxx2v primitives from pieces that are not
   stand-alone functions: the escaping loop body of validate_and_filter_if_invalid, the code point
   test of parse_html_entity (all disjuncts that mention code_point) and the entity spellings that
   validate_property_value accepts inside attribute values. *)
Lemma link_escape_step b : b < 256 -> map Z.to_N (g_xss_escape_step (Z.of_N b)) = esc4 b.
Proof.
  intros H. apply leqb_eq.
  apply (sweep256 (fun b => leqb (map Z.to_N (g_xss_escape_step (Z.of_N b))) (esc4 b))); [vm_compute; reflexivity|exact H].
Qed.

(* for every code point (unbounded): the source rejects it iff the model does *)
Lemma link_cp_ok cp : g_xss_cp_rejected (Z.of_N cp) = negb (cp_ok cp).
Proof. unfold g_xss_cp_rejected, cp_ok. rewrite negb_involutive. lia. Qed.

Lemma link_value_entities : map (map Z.to_N) g_xss_value_entities = value_entities.
Proof. vm_compute. reflexivity. Qed.

(* class uri_parser: static helpers (Gen_uri.v), the case labels and entity spellings of sub_delims and
   the test of unreserved (Gen_xss2.v) *)
From CppcmsV Require Import C04.DefsU gen.Gen_uri.
Lemma link_uri_isdigit b : b < 256 -> g_uri_isdigit (sch b) = u_digit b.
Proof.
  intros H. apply eqb_prop.
  apply (sweep256 (fun b => eqb (g_uri_isdigit (sch b)) (u_digit b))); [vm_compute; reflexivity|exact H].
Qed.
Lemma link_uri_isalpha b : b < 256 -> g_uri_isalpha (sch b) = u_alpha b.
Proof.
  intros H. apply eqb_prop.
  apply (sweep256 (fun b => eqb (g_uri_isalpha (sch b)) (u_alpha b))); [vm_compute; reflexivity|exact H].
Qed.
Lemma link_uri_ishex b : b < 256 -> g_uri_ishex (sch b) = u_hex b.
Proof.
  intros H. apply eqb_prop.
  apply (sweep256 (fun b => eqb (g_uri_ishex (sch b)) (u_hex b))); [vm_compute; reflexivity|exact H].
Qed.
(* one byte tokens of the model against the source: unreserved; sub_delims = the two words or one of the case labels *)
Lemma link_uri_unreserved b : b < 256 -> g_uri_unreserved (sch b) = negb (Nat.eqb (unreserved_len [b]) 0).
Proof.
  intros H. apply eqb_prop.
  apply (sweep256 (fun b => eqb (g_uri_unreserved (sch b)) (negb (Nat.eqb (unreserved_len [b]) 0)))); [vm_compute; reflexivity|exact H].
Qed.
Lemma link_uri_subdelims b : b < 256 ->
  existsb (Z.eqb (Z.of_N b)) g_uri_subdelim_chars = negb (Nat.eqb (subdelim_len [b]) 0).
Proof.
  intros H. apply eqb_prop.
  apply (sweep256 (fun b => eqb (existsb (Z.eqb (Z.of_N b)) g_uri_subdelim_chars) (negb (Nat.eqb (subdelim_len [b]) 0)))); [vm_compute; reflexivity|exact H].
Qed.
Lemma link_uri_subdelim_words : map (map Z.to_N) g_uri_subdelim_words = [amp_s; apos_s].
Proof. vm_compute. reflexivity. Qed.

(* private/c_string.h: icompare_c_string orders by ilt; two bytes are equivalent for the html maps and
   sets iff the model's to_lower agrees on them *)
From CppcmsV Require Import gen.Gen_cstr.
Lemma link_cstr_ilt a b : a < 256 -> b < 256 -> g_cstr_ilt (sch a) (sch b) = (to_lower a <? to_lower b).
Proof.
  intros Ha Hb. apply eqb_prop.
  apply (sweep256_2 (fun a b => eqb (g_cstr_ilt (sch a) (sch b)) (to_lower a <? to_lower b))); [vm_compute; reflexivity|exact Ha|exact Hb].
Qed.
Lemma link_cstr_equiv a b : a < 256 -> b < 256 ->
  (g_cstr_ilt (sch a) (sch b) = false /\ g_cstr_ilt (sch b) (sch a) = false) <-> to_lower a = to_lower b.
Proof.
  intros Ha Hb. rewrite (link_cstr_ilt a b Ha Hb), (link_cstr_ilt b a Hb Ha). rewrite !N.ltb_ge. lia.
Qed.
