(* C04: the regex validators made concrete for the pattern family the rule sets of the check use.
   rules::add_property(tag, attr, booster::regex r) installs regex_functor: value accepted iff booster::regex_match(b,e,r), and
   booster::regex_match is a FULL match: regex::assign compiles "(?:" pattern ")\z" and regex::match runs it anchored at the
   start (LinkR.v ties this text).  So the meaning of a regex-typed attribute is: the WHOLE value, as it stands between the
   quotes, is in the language of the pattern.
   Pattern family (a subset of PCRE in which the PCRE reading and the textbook reading coincide; bytes, no UTF mode):
     alt  ::= cat ( "|" cat )*          cat ::= rep*            rep ::= atom ( "*" | "+" | "?" )*
     atom ::= "(" [ "?:" ] alt ")"  |  "[" [ "^" ] ( c | c "-" c )+ "]"  |  "."  |  "\" c (c not alphanumeric)  |  c (not special)
   "." is any byte except line feed (no DOTALL).  The regular expression type, the derivative matcher full_match and its
   correctness proof full_match_spec : full_match r s = true <-> lang r s are property C20's (coq/C20/Defs.v, coq/C20/Regex.v,
   imported read-only).  Patterns outside the family (None) stay abstract: answered by the real validator.
   During correspondence the verdict of this model is compared with the real regex_functor's for every value the library asked
   about (REGEX-MODEL-DIFFERS).  No proofs here. *)
From Coq Require Import NArith List Bool.
From CppcmsV Require C20.Defs.
Import ListNotations.
Local Open Scope N_scope.


Definition re_special (c : N) : bool :=
  existsb (N.eqb c) [40; 41; 124; 42; 43; 63; 91; 93; 46; 92; 94; 36; 123; 125].     (* ( ) | * + ? [ ] . \ ^ $ { } *)
Definition re_alnum (c : N) : bool :=
  ((48 <=? c) && (c <=? 57)) || ((65 <=? c) && (c <=? 90)) || ((97 <=? c) && (c <=? 122)).

(* the items of a character class up to the closing bracket: (ranges, rest after "]"); a "-" is a range operator only between
   two characters; "\" c is the literal c when c is not alphanumeric *)
Fixpoint p_items (fuel : nat) (s : list N) (acc : list (N * N)) : option (list (N * N) * list N) :=
  match fuel with
  | O => None
  | S f =>
      match s with
      | [] => None
      | 93 :: r => match acc with [] => None | _ :: _ => Some (rev acc, r) end
      | c0 :: r0 =>
          let lit := if c0 =? 92 then match r0 with c :: r => if re_alnum c then None else Some (c, r) | [] => None end
                     else if (c0 =? 91) || (c0 =? 94) then None else Some (c0, r0) in
          match lit with
          | None => None
          | Some (c, r) =>
              match r with
              | 45 :: d :: r' =>
                  if d =? 93 then p_items f r ((c, c) :: acc)                    (* "a-]" : the "-" is literal, handled next round *)
                  else if (d =? 92) || (d =? 91) then None
                  else if c <=? d then p_items f r' ((c, d) :: acc) else None
              | _ => p_items f r ((c, c) :: acc)
              end
          end
      end
  end.

Definition p_class (fuel : nat) (s : list N) : option (C20.Defs.cset * list N) :=
  match s with
  | 94 :: r => match p_items fuel r [] with Some (rs, rest) => Some (C20.Defs.CS true rs, rest) | None => None end
  | _ => match p_items fuel s [] with Some (rs, rest) => Some (C20.Defs.CS false rs, rest) | None => None end
  end.

Fixpoint p_post (fuel : nat) (a : C20.Defs.re) (s : list N) : C20.Defs.re * list N :=
  match fuel with
  | O => (a, s)
  | S f =>
      match s with
      | 42 :: r => p_post f (C20.Defs.Star a) r
      | 43 :: r => p_post f (C20.Defs.Plus a) r
      | 63 :: r => p_post f (C20.Defs.Opt a) r
      | _ => (a, s)
      end
  end.

Fixpoint p_alt (fuel : nat) (s : list N) : option (C20.Defs.re * list N) :=
  match fuel with
  | O => None
  | S f =>
      match p_cat f s with
      | Some (a, 124 :: r) => match p_alt f r with Some (b, r') => Some (C20.Defs.Alt a b, r') | None => None end
      | other => other
      end
  end
with p_cat (fuel : nat) (s : list N) : option (C20.Defs.re * list N) :=
  match fuel with
  | O => None
  | S f =>
      match s with
      | [] => Some (C20.Defs.Eps, [])
      | 124 :: _ => Some (C20.Defs.Eps, s)
      | 41 :: _ => Some (C20.Defs.Eps, s)
      | _ =>
          match p_atom f s with
          | Some (a, r) =>
              let (a', r') := p_post f a r in
              match p_cat f r' with Some (b, r'') => Some (C20.Defs.Cat a' b, r'') | None => None end
          | None => None
          end
      end
  end
with p_atom (fuel : nat) (s : list N) : option (C20.Defs.re * list N) :=
  match fuel with
  | O => None
  | S f =>
      match s with
      | [] => None
      | 40 :: r =>
          let r1 := match r with 63 :: 58 :: r' => r' | _ => r end in
          match r with
          | 63 :: c :: _ => if c =? 58 then
                              match p_alt f r1 with Some (a, 41 :: r2) => Some (C20.Defs.Grp a, r2) | _ => None end
                            else None
          | _ => match p_alt f r1 with Some (a, 41 :: r2) => Some (C20.Defs.Grp a, r2) | _ => None end
          end
      | 91 :: r => match p_class f r with Some (cs, r') => Some (C20.Defs.Cls cs, r') | None => None end
      | 46 :: r => Some (C20.Defs.Cls C20.Defs.cs_dot, r)
      | 92 :: c :: r => if re_alnum c then None else Some (C20.Defs.Chr c, r)
      | c :: r => if re_special c then None else Some (C20.Defs.Chr c, r)
      end
  end.

(* the whole pattern text *)
Definition parse_pattern (p : list N) : option C20.Defs.re :=
  match p_alt (S (S (3 * length p))) p with
  | Some (r, []) => Some r
  | _ => None
  end.

(* regex_functor for a pattern of the family: Some verdict; None = pattern outside the family *)
Definition re_validate (p v : list N) : option bool :=
  match parse_pattern p with
  | Some r => Some (C20.Defs.full_match r v)
  | None => None
  end.
