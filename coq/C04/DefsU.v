(* C04: executable model, third part: class uri_parser and uri_validator_functor of src/xss.cpp
   (the RFC 3986 recursive descent parser behind rules::uri_validator / relative_uri_validator).
   A parsing function maps the remaining input to the remaining input (option = it can fail).
   Loops that repeat a one-token matcher are structural recursions with a skip counter; the token
   matchers are given as "length consumed" functions (0 = no match).  The scheme regular expression
   is an abstract function sre.  The code is modelled as it is, including
     - dec_octet never advances its cursor, so ipv4addr cannot succeed and host = reg-name,
     - relative_part calls authority() without looking for "//",
     - authority() tries host() after userinfo() without restoring the cursor,
     - parse_full() is uri() && begin_ == end_ (since /repo 92a72e6; before that commit it was
       uri_reference() like parse(): uri_validate_full_old below, kept for the regression example only).
   No proofs here. *)
From Coq Require Import NArith List Bool.
From CppcmsV Require Import Base.Sweep C04.Defs.
Import ListNotations.
Local Open Scope N_scope.

Definition u_digit (c : N) : bool := (48 <=? c) && (c <=? 57).
Definition u_alpha (c : N) : bool := ((97 <=? c) && (c <=? 122)) || ((65 <=? c) && (c <=? 90)).
Definition u_hex (c : N) : bool := u_digit c || ((97 <=? c) && (c <=? 102)) || ((65 <=? c) && (c <=? 70)).

Definition follows_c (c : N) (s : list N) : option (list N) :=
  match s with x :: r => if x =? c then Some r else None | [] => None end.
Definition follows_s (p s : list N) : option (list N) :=
  if starts p s then Some (skipn (length p) s) else None.

(* token matchers: number of bytes consumed, 0 = no match *)
Definition amp_s : list N := [38;97;109;112;59].          (* &amp;  *)
Definition apos_s : list N := [38;97;112;111;115;59].      (* &apos; *)
Definition subdelim_len (s : list N) : nat :=
  if starts amp_s s then 5%nat else if starts apos_s s then 6%nat
  else match s with
       | c :: _ => if (c =? 33) || (c =? 36) || (c =? 40) || (c =? 41) || (c =? 42) || (c =? 43)
                      || (c =? 44) || (c =? 59) || (c =? 61) || (c =? 39) then 1%nat else 0%nat
       | [] => 0%nat
       end.
Definition unreserved_len (s : list N) : nat :=
  match s with
  | c :: _ => if u_alpha c || u_digit c || (c =? 45) || (c =? 46) || (c =? 95) || (c =? 126) then 1%nat else 0%nat
  | [] => 0%nat
  end.
Definition pct_len (s : list N) : nat :=
  match s with
  | c0 :: c1 :: c2 :: _ => if (c0 =? 37) && u_hex c1 && u_hex c2 then 3%nat else 0%nat
  | _ => 0%nat
  end.
Definition char_len (c : N) (s : list N) : nat :=
  match s with x :: _ => if x =? c then 1%nat else 0%nat | [] => 0%nat end.
Definition orl (a b : nat) : nat := match a with O => b | _ => a end.

Definition reg_len (s : list N) : nat := orl (unreserved_len s) (orl (pct_len s) (subdelim_len s)).
Definition nc_len (s : list N) : nat := orl (reg_len s) (char_len 64 s).              (* segment-nz-nc token *)
Definition pchar_len (s : list N) : nat := orl (reg_len s) (orl (char_len 58 s) (char_len 64 s)).
Definition qchar_len (s : list N) : nat := orl (pchar_len s) (orl (char_len 47 s) (char_len 63 s)).
Definition pslash_len (s : list N) : nat := orl (pchar_len s) (char_len 47 s).
Definition ui_len (s : list N) : nat := orl (reg_len s) (char_len 58 s).              (* userinfo token *)
Definition digit_len (s : list N) : nat :=
  match s with c :: _ => if u_digit c then 1%nat else 0%nat | [] => 0%nat end.

(* while(token()) ; -- returns the remaining input *)
Fixpoint star_aux (f : list N -> nat) (skip : nat) (s : list N) : list N :=
  match s with
  | [] => []
  | _ :: r =>
      match skip with
      | S k => star_aux f k r
      | O => match f s with O => s | S k => star_aux f k r end
      end
  end.
Definition star (f : list N -> nat) (s : list N) : list N := star_aux f 0 s.

Definition query (s : list N) : list N := star qchar_len s.
Definition segment (s : list N) : list N := star pchar_len s.
Definition segment_nz (s : list N) : option (list N) :=
  match pchar_len s with O => None | _ => Some (star pchar_len s) end.
Definition segment_nz_nc (s : list N) : option (list N) :=
  match nc_len s with O => None | _ => Some (star nc_len s) end.
(* while(follows('/') && segment()) sp.commit();  -- segment() cannot fail: everything that is a
   pchar or a slash is consumed as soon as the text starts with a slash *)
Definition slash_segs (s : list N) : list N :=
  match s with 47 :: _ => star pslash_len s | _ => s end.
Definition path_rootless (s : list N) : option (list N) :=
  match segment_nz s with Some r => Some (slash_segs r) | None => None end.
Definition path_noscheme (s : list N) : option (list N) :=
  match segment_nz_nc s with Some r => Some (slash_segs r) | None => None end.
Definition path_absolute (s : list N) : option (list N) :=
  match follows_c 47 s with
  | None => None
  | Some r => Some (match segment_nz r with Some r2 => slash_segs r2 | None => r end)
  end.
Definition path_abempty (s : list N) : list N := slash_segs s.

(* the digit under the cursor is read up to three times, the cursor does not move *)
Definition dec_octet (s : list N) : bool :=
  match s with
  | c :: _ =>
      if u_digit c then
        let value := 111 * (c - 48) in
        negb (value <=? 9) && negb (value <=? 99) && negb (255 <? value)
      else false
  | [] => false
  end.
Definition ipv4addr (s : list N) : option (list N) :=
  if dec_octet s then
    match follows_c 46 s with
    | Some s1 => if dec_octet s1 then
        match follows_c 46 s1 with
        | Some s2 => if dec_octet s2 then
            match follows_c 46 s2 with
            | Some s3 => if dec_octet s3 then Some s3 else None
            | None => None
            end else None
        | None => None
        end else None
    | None => None
    end
  else None.
Definition host (s : list N) : list N :=
  match ipv4addr s with Some r => r | None => star reg_len s end.
Definition authority (s : list N) : list N :=
  let s1 := star ui_len s in
  let s3 := match follows_c 64 s1 with Some s2 => host s2 | None => host s1 end in
  match follows_c 58 s3 with Some s4 => star digit_len s4 | None => s3 end.
Definition opt_query (s : list N) : list N :=
  match follows_c 63 s with Some r => query r | None => s end.
Definition opt_fragment (s : list N) : list N :=
  match follows_c 35 s with Some r => query r | None => s end.
Definition relative_ref (s : list N) : list N :=
  opt_fragment (opt_query (path_abempty (authority s))).
Definition hier_part (s : list N) : list N :=
  match follows_s [47;47] s with
  | Some r => path_abempty (authority r)
  | None => match path_absolute s with
            | Some r => r
            | None => match path_rootless s with Some r => r | None => s end
            end
  end.
Definition schemech (c : N) : bool := u_alpha c || u_digit c || (c =? 43) || (c =? 45) || (c =? 46).
(* (scheme range, rest) *)
Definition scheme (s : list N) : option (list N * list N) :=
  match s with
  | c :: r => if u_alpha c then Some (c :: takew schemech r, dropw schemech r) else None
  | [] => None
  end.
Definition uri (s : list N) : option (list N) :=
  match scheme s with
  | None => None
  | Some (_, r) => match follows_c 58 r with
                   | None => None
                   | Some r2 => Some (opt_fragment (opt_query (hier_part r2)))
                   end
  end.

(* parse() / parse_full(): (everything consumed, is_relative_, [scheme_start_, scheme_end_) ) *)
Definition parse_uri (s : list N) : bool * bool * list N :=
  let range := match scheme s with Some (sc, _) => sc | None => [] end in
  match uri s with
  | Some rest => (match rest with [] => true | _ => false end, false, range)
  | None => (match relative_ref s with [] => true | _ => false end, true, range)
  end.

(* parse_full(): uri() && begin_ == end_.  Some range = success, range = [scheme_start_, scheme_end_) *)
Definition parse_full (s : list N) : option (list N) :=
  match scheme s, uri s with
  | Some (sc, _), Some [] => Some sc
  | _, _ => None
  end.

Inductive ukind := UBoth | URelative | UFull.
(* uri_validator_functor::operator() *)
Definition uri_validate (k : ukind) (sre : list N -> bool) (v : list N) : bool :=
  match k with
  | UBoth => let '(ok, rel, range) := parse_uri v in if ok then (if rel then true else sre range) else false
  | URelative => let '(ok, rel, _) := parse_uri v in if ok then rel else false
  | UFull => match parse_full v with Some range => sre range | None => false end
  end.

(* NOT the code: case full of the functor as it was before /repo commit 92a72e6, when parse_full() was
   uri_reference() && begin_ == end_ (a relative reference parsed, and the scheme range remembered by the failed
   uri() attempt was matched without asking has_scheme()).  Used by the regression examples only. *)
Definition uri_validate_full_old (sre : list N -> bool) (v : list N) : bool :=
  let '(ok, _, range) := parse_uri v in if ok then sre range else false.

(* what a browser takes for the scheme of a URI reference: ALPHA *( ALPHA / DIGIT / + - . ) followed by a colon *)
Definition visible_scheme (v : list N) : option (list N) :=
  match scheme v with
  | Some (sc, 58 :: _) => Some sc
  | _ => None
  end.
