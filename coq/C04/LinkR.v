(* C04: RIGID ties (the text below must be, literally, what the clang AST of the checked tree renders to; checks/C04.py:gen_control,
   coq/gen/Gen_C04ctl.v: g_c04_rigid_control).  Two places where a one-token edit changes what the white list accepts while every
   translated leaf stays the same:
   (a) booster::regex full match (booster/lib/regex/src/pcre_regex.cpp): regex::assign compiles "(?:" pattern ")" BACKSLASH "z"
       (rendered here with / for the backslash: str<)/z>) into d->are; regex::match runs pcre_exec on d->are with PCRE_ANCHORED (16);
       booster::regex_match(begin,end,r) is r.match(begin,end,flags); the regex_functor of src/xss.cpp calls regex_match (not
       regex_search); uri_validator_functor::operator() (the three kinds; the scheme range is matched with regex_match as well, after
       parse() / parse_full() and has_scheme() - DefsU.v: uri_validate).  \z = only at the very end of the subject.  With \Z (also before a final newline), $ or regex_search, a value
       followed by a line feed / any value that CONTAINS a match would pass a regex-typed attribute.  The model (DefsR.v) takes
       "the whole value is in the language of the pattern" as the meaning of such an attribute; this text is why.
   (b) parse_html_entity (src/xss.cpp): the variable that receives the value of a numeric character reference is a `long`
       and is assigned the result of strtol(begin,&endptr,16) / strtol(begin,&endptr,10) directly.  strtol saturates at
       LONG_MAX = 2^63-1 > 0x10FFFF, so comparing the long is comparing the mathematical value of the digit string
       (DefsN.v: strtol_sat, ProofsN.v: entity_conversion_exact).  With `int code_point` the value would be cut to 32 bits before
       the range test (&#4294967356; = 2^32 + 60 would be read as 60); with strtoul / unsigned types the saturation value changes. *)
From Coq Require Import List String.
From CppcmsV Require Import gen.Gen_C04ctl.
Import ListNotations.

Definition rigid_control_as_modelled : list (string * list string) :=
  [("regex::assign"%string,
    ["d.reset(new(new<booster::regex::data>()))"%string;
     "operator=(operator->(d).expression,pattern)"%string;
     "(operator->(d).flags = flags)"%string;
     "var const char * err_ptr = 0"%string;
     "var int offset = 0"%string;
     "var int pcre_flags = 0"%string;
     "if (flags & icase) {"%string;
     "(pcre_flags |= 1)"%string;
     "}"%string;
     "if (flags & utf8) {"%string;
     "(pcre_flags |= 2048)"%string;
     "}"%string;
     "var pcre * p = pcre_compile(pattern.c_str(),pcre_flags,(&err_ptr),(&offset),0)"%string;
     "if (!p) {"%string;
     "var ostringstream ss = new<ostringstream>()"%string;
     "operator<<(operator<<(operator<<(operator<<(ss,str<booster::regex:>),err_ptr),str<, at offset >),offset)"%string;
     "throw(cast<booster::regex_error>(ss.str()))"%string;
     "}"%string;
     "(operator->(d).re = p)"%string;
     "if ((pcre_fullinfo(operator->(d).re,null,1,(&operator->(d).re_size)) < 0) || (pcre_fullinfo(operator->(d).re,null,2,(&operator->(d).match_size)) < 0)) {"%string;
     "throw(cast<booster::regex_error>(str<booster::regex: Internal error>))"%string;
     "}"%string;
     "var string anchored = new<string>()"%string;
     "anchored.reserve((pattern.size() + 6))"%string;
     "operator+=(anchored,str<(?:>)"%string;
     "operator+=(anchored,pattern)"%string;
     "operator+=(anchored,str<)/z>)"%string;
     "(p = pcre_compile(anchored.c_str(),pcre_flags,(&err_ptr),(&offset),0))"%string;
     "if (!p) {"%string;
     "throw(cast<booster::regex_error>(str<booster::regex: Internal error>))"%string;
     "}"%string;
     "(operator->(d).are = p)"%string;
     "if (pcre_fullinfo(operator->(d).are,null,1,(&operator->(d).are_size)) != 0) {"%string;
     "throw(cast<booster::regex_error>(str<booster::regex: Internal error>))"%string;
     "}"%string]);
   ("regex::match"%string,
    ["if (!operator->(d).are) {"%string;
     "throw(cast<booster::regex_error>(str<booster::regex: Empty expression>))"%string;
     "}"%string;
     "var int res = pcre_exec(operator->(d).are,0,begin,(end - begin),0,16,0,0)"%string;
     "if (res < 0) {"%string;
     "return false"%string;
     "}"%string;
     "return true"%string]);
   ("booster::regex_match"%string,
    ["return r.match(begin,end,flags)"%string]);
   ("regex_functor::operator()"%string,
    ["return regex_match(b,e,r_)"%string]);
   ("uri_validator_functor::operator()"%string,
    ["var cppcms::xss::uri_parser parser = new<cppcms::xss::uri_parser>(begin,end)"%string;
     "switch type_ {"%string;
     "case both"%string;
     "if (!parser.parse()) {"%string;
     "return false"%string;
     "}"%string;
     "if parser.has_scheme() {"%string;
     "var string scheme = new<string>(parser.scheme_begin(),parser.scheme_end())"%string;
     "return regex_match(parser.scheme_begin(),parser.scheme_end(),scheme_)"%string;
     "}"%string;
     "return true"%string;
     "case relative"%string;
     "if (!parser.parse()) {"%string;
     "return false"%string;
     "}"%string;
     "if parser.has_scheme() {"%string;
     "return false"%string;
     "}"%string;
     "return true"%string;
     "case full"%string;
     "if (!parser.parse_full()) {"%string;
     "return false"%string;
     "}"%string;
     "return regex_match(parser.scheme_begin(),parser.scheme_end(),scheme_)"%string;
     "}"%string;
     "return false"%string]);
   ("parse_html_entity: code_point"%string,
    ["var long code_point = 0"%string;
     "(code_point = strtol(begin,(&endptr),16))"%string;
     "(code_point = strtol(begin,(&endptr),10))"%string])].


Lemma link_rigid_control : g_c04_rigid_control = rigid_control_as_modelled.
Proof. vm_compute. reflexivity. Qed.
