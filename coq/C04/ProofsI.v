(* C04: integer_property_functor (rules::add_integer_property) accepts exactly an optional minus sign followed by
   one or more decimal digits. *)
From CppcmsV Require Import Base.Tac Base.Sweep C04.Defs.
Local Open Scope N_scope.

Lemma int_ok_spec v : int_ok v = true <->
  exists sign ds, v = sign ++ ds /\ (sign = [] \/ sign = [45]) /\ ds <> [] /\ forallb is_digit ds = true.
Proof.
  unfold int_ok. split.
  - intros H. destruct v as [|c r]; [discriminate|]. destruct (N.eqb_spec c 45) as [E|E].
    + subst c. destruct r as [|d r]; [discriminate|]. exists [45], (d :: r).
      split; [reflexivity|]. split; [right; reflexivity|]. split; [discriminate|exact H].
    + exists [], (c :: r). split; [reflexivity|]. split; [left; reflexivity|]. split; [discriminate|exact H].
  - intros (sign & ds & Hv & Hs & Hne & Hd). destruct ds as [|d ds]; [congruence|].
    destruct Hs as [Hs|Hs]; subst sign v; cbn [app].
    + destruct (N.eqb_spec d 45) as [E|E]; [|exact Hd]. subst d. cbn [forallb] in Hd.
      change (is_digit 45) with false in Hd. discriminate.
    + change (45 =? 45) with true. cbv iota. exact Hd.
Qed.

(* no markup character, blank or quote is a digit or the minus sign: an accepted value is inert *)
Lemma int_ok_chars v : int_ok v = true -> forallb (fun c => is_digit c || (c =? 45)) v = true.
Proof.
  intros H. apply int_ok_spec in H. destruct H as (sign & ds & Hv & Hs & _ & Hd). subst v. rewrite forallb_app.
  apply andb_true_iff. split.
  - destruct Hs; subst sign; reflexivity.
  - apply forallb_forall. intros c Hc. rewrite forallb_forall in Hd. rewrite (Hd c Hc). reflexivity.
Qed.

Lemma int_attribute r vfun tag pn v :
  find_prop r tag pn = Some VInt -> c_val_ok r vfun tag pn v = true ->
  exists sign ds, v = sign ++ ds /\ (sign = [] \/ sign = [45]) /\ ds <> [] /\ forallb is_digit ds = true.
Proof. intros Hf Hv. unfold c_val_ok in Hv. rewrite Hf in Hv. apply int_ok_spec. exact Hv. Qed.

(* boolean attributes of API-built rule sets: xhtml demands name="name" (exact bytes), html demands no value *)
Lemma bool_attribute_xhtml r vfun tag pn v :
  find_prop r tag pn = Some VBool -> c_val_ok r vfun tag pn v = true -> c_xhtml r = true /\ v = pn.
Proof.
  intros Hf Hv. unfold c_val_ok in Hv. rewrite Hf in Hv. destruct (c_xhtml r); [|discriminate].
  split; [reflexivity|]. symmetry. apply leqb_eq. exact Hv.
Qed.
Lemma bool_attribute_html r tag pn :
  c_bool_ok r tag pn = true -> c_xhtml r = false /\ find_prop r tag pn = Some VBool.
Proof.
  unfold c_bool_ok. destruct (c_xhtml r); [discriminate|]. destruct (find_prop r tag pn) as [[| |k]|]; try discriminate.
  intros _. split; reflexivity.
Qed.

(* ---- repeated registrations (std::map semantics of rules::add_tag / add_property): the last one decides ---- *)
From CppcmsV Require Import C04.Proofs11.

Lemma name_eq_refl x a : name_eq x a a = true.
Proof. apply name_eq_iff. reflexivity. Qed.

Lemma last_add_tag_wins x c nu e tags n k attrs : k <> TInvalid ->
  c_tag_kind (mkR x c nu e (tags ++ [((n, k), attrs)])) n = k.
Proof.
  intros Hk. unfold c_tag_kind, find_tag. cbn [c_tags c_xhtml]. rewrite rev_app_distr. cbn [rev app find fst snd].
  rewrite name_eq_refl. destruct k; [congruence| | |]; reflexivity.
Qed.

Lemma last_add_property_wins x c nu e tags n k attrs pn vk :
  find_prop (mkR x c nu e (tags ++ [((n, k), attrs ++ [(pn, vk)])])) n pn = Some vk.
Proof.
  unfold find_prop, tag_props. cbn [c_tags c_xhtml]. rewrite flat_map_app. cbn [flat_map fst snd].
  rewrite name_eq_refl, app_nil_r, rev_app_distr, rev_app_distr. cbn [rev app find fst snd].
  rewrite name_eq_refl. reflexivity.
Qed.

(* add_property never changes the kind of a tag, and a tag that was only given properties is not a valid tag *)
Lemma properties_only_is_invalid x c nu e tags n attrs :
  c_tag_kind (mkR x c nu e (tags ++ [((n, TInvalid), attrs)])) n = c_tag_kind (mkR x c nu e tags) n.
Proof.
  unfold c_tag_kind, find_tag. cbn [c_tags c_xhtml]. rewrite rev_app_distr. cbn [rev app find fst snd kind_set].
  rewrite andb_false_r. reflexivity.
Qed.

(* ---- stability for API-built rule sets on the conversion path (encodings that are not ASCII compatible) ---- *)
From CppcmsV Require Import C04.DefsX C04.ProofsX C04.Proofs1 C04.Proofs9 C04.Proofs10.
Lemma c_filter_validates_x r vfun has_enc ascii_compat enc_valid enc_vof to_utf_stop to_utf_skip from_utf_stop m x :
  enc_agree enc_valid enc_vof -> enc_vof_valid enc_valid enc_vof ->
  (has_enc = true -> enc_ascii_compatible enc_valid) -> conv_roundtrip enc_valid to_utf_stop from_utf_stop ->
  c_validate_x r vfun has_enc ascii_compat enc_valid to_utf_stop
    (filter_x (c_xhtml r) (c_comments r) (c_numeric r) (c_tag_kind r) (c_entity_ok r) (c_bool_ok r) (c_val_ok r vfun)
              has_enc ascii_compat enc_vof to_utf_stop to_utf_skip from_utf_stop m x) = true.
Proof.
  intros Ha Hv HE Hc. unfold c_validate_x.
  exact (filter_validates_x (c_xhtml r) (c_comments r) (c_numeric r) (c_tag_kind r) (c_entity_ok r) (c_bool_ok r)
           (c_val_ok r vfun) has_enc ascii_compat enc_valid enc_vof to_utf_stop to_utf_skip from_utf_stop Ha m x
           (c_kind_compat r) (fun _ => c_esc_entities_ok r) Hv HE Hc).
Qed.
