(* C04 proofs, part 8: re-tokenising.  A text that is the concatenation of self-delimiting tokens
   (plain pieces without < > &, entities, tags that do not start with "<!", comments) is split into
   exactly these tokens, adjacent plain pieces merged. *)
From CppcmsV Require Import Base.Tac Base.Sweep C04.Defs C04.Proofs1.
Local Open Scope N_scope.

Definition token := (etype * list N)%type.

Definition plain_cons (t : list N) (R : list token) : list token :=
  match R with
  | (Plain, q) :: R' => (Plain, t ++ q) :: R'
  | _ => (Plain, t) :: R
  end.
Fixpoint norm (T : list token) : list token :=
  match T with
  | [] => []
  | (ty, t) :: T' => match ty with Plain => plain_cons t (norm T') | _ => (ty, t) :: norm T' end
  end.

Definition stable (tk : token) : Prop :=
  match fst tk with
  | Plain => snd tk <> [] /\ existsb special (snd tk) = false
  | Entity => exists pre, snd tk = 38 :: pre ++ [59] /\ ~ In 59 pre
  | Tag => exists p0 pre, snd tk = 60 :: p0 :: pre ++ [62] /\ ~ In 62 (p0 :: pre) /\ p0 <> 33
  | Comment => exists body, snd tk = 60 :: 33 :: 45 :: 45 :: body ++ [45; 45; 62] /\ existsb special body = false /\
                            forall rest, comment_body (body ++ 45 :: 45 :: 62 :: rest) = Some body
  | _ => False
  end.

Lemma split_token c r ty t rest : token_at c r = (ty, t) -> c :: r = t ++ rest ->
  split (c :: r) = (ty, t) :: split rest.
Proof.
  intros Htk Heq. destruct (split_cons c r) as (rest' & H1 & H2 & _). rewrite Htk in H1, H2. cbn [snd] in H1.
  rewrite H2. f_equal. f_equal. rewrite Heq in H1. apply app_inv_head in H1. symmetry. exact H1.
Qed.

Lemma token_at_plain c r : special c = false -> token_at c r = (Plain, c :: take_plain r).
Proof.
  unfold special, token_at. intros H. apply orb_false_iff in H. destruct H as [H H38].
  apply orb_false_iff in H. destruct H as [H60 H62]. rewrite H38, H60, H62. reflexivity.
Qed.

Lemma take_plain_app p l : existsb special p = false -> take_plain (p ++ l) = p ++ take_plain l.
Proof.
  induction p as [|x p IH]; intros H; [reflexivity|]. cbn [existsb] in H. apply orb_false_iff in H.
  destruct H as [Hx Hp]. cbn [app take_plain]. rewrite Hx. f_equal. exact (IH Hp).
Qed.
Lemma take_plain_all p : existsb special p = false -> take_plain p = p.
Proof. intros H. rewrite <- (app_nil_r p) at 1. rewrite take_plain_app by exact H. apply app_nil_r. Qed.

Lemma split_plain_app t rest : t <> [] -> existsb special t = false ->
  split (t ++ rest) = plain_cons t (split rest).
Proof.
  intros Hne Hsp. destruct t as [|c p]; [congruence|]. cbn [existsb] in Hsp. apply orb_false_iff in Hsp.
  destruct Hsp as [Hc Hp]. cbn [app].
  destruct rest as [|c' r'].
  - rewrite app_nil_r.
    rewrite (split_token c p Plain (c :: p) []); [reflexivity| |rewrite app_nil_r; reflexivity].
    rewrite token_at_plain by exact Hc. rewrite take_plain_all by exact Hp. reflexivity.
  - pose proof (token_at_plain c (p ++ c' :: r') Hc) as Htk. rewrite take_plain_app in Htk by exact Hp.
    destruct (special c') eqn:Ec'.
    + cbn [take_plain] in Htk. rewrite Ec', app_nil_r in Htk.
      rewrite (split_token c (p ++ c' :: r') Plain (c :: p) (c' :: r') Htk eq_refl).
      destruct (split_cons c' r') as (rest' & _ & H2 & _). rewrite H2. unfold plain_cons.
      pose proof (split_first_special c' r' Ec') as Hnp.
      destruct (token_at c' r') as [ty q]. cbn [fst] in Hnp. destruct ty; try reflexivity. congruence.
    + cbn [take_plain] in Htk. rewrite Ec' in Htk.
      destruct (take_plain_spec r') as (rest2 & Hr' & _ & _).
      assert (Heq : c :: p ++ c' :: r' = (c :: p ++ c' :: take_plain r') ++ rest2).
      { cbn [app]. f_equal. rewrite <- app_assoc. cbn [app]. do 2 f_equal. exact Hr'. }
      rewrite (split_token c (p ++ c' :: r') Plain _ rest2 Htk Heq).
      assert (Heq2 : c' :: r' = (c' :: take_plain r') ++ rest2) by (cbn [app]; f_equal; exact Hr').
      rewrite (split_token c' r' Plain _ rest2 (token_at_plain c' r' Ec') Heq2). reflexivity.
Qed.

Lemma comment_start_not33 p0 l : p0 <> 33 -> comment_start (p0 :: l) = false.
Proof.
  intros H. apply N.eqb_neq in H. unfold comment_start.
  destruct l as [|c2 [|c3 [|c4 l]]]; try reflexivity. rewrite H. reflexivity.
Qed.

Lemma split_stable_token tk rest : stable tk -> fst tk <> Plain ->
  split (snd tk ++ rest) = tk :: split rest.
Proof.
  destruct tk as [ty t]. unfold stable. cbn [fst snd]. intros Hst Hnp.
  destruct ty; try contradiction; try congruence.
  - (* Entity *)
    destruct Hst as (pre & Ht & Hn). subst t. cbn [app].
    apply split_token; [|reflexivity]. unfold token_at. cbn [N.eqb Pos.eqb].
    rewrite <- app_assoc. cbn [app]. rewrite upto_app by exact Hn. reflexivity.
  - (* Tag *)
    destruct Hst as (p0 & pre & Ht & Hn & H33). subst t. cbn [app].
    apply split_token; [|reflexivity].
    assert (Hr : (pre ++ [62]) ++ rest = pre ++ 62 :: rest) by (rewrite <- app_assoc; reflexivity).
    rewrite Hr. unfold token_at. cbn [N.eqb Pos.eqb].
    rewrite comment_start_not33 by exact H33.
    change (p0 :: pre ++ 62 :: rest) with ((p0 :: pre) ++ 62 :: rest).
    rewrite (upto_app 62 (p0 :: pre) rest Hn). reflexivity.
  - (* Comment *)
    destruct Hst as (body & Ht & Hb & Hcb). subst t. cbn [app].
    apply split_token; [|reflexivity]. unfold token_at. cbn [N.eqb Pos.eqb].
    rewrite <- app_assoc. cbn [app].
    assert (Hcs : comment_start (33 :: 45 :: 45 :: body ++ 45 :: 45 :: 62 :: rest) = true).
    { unfold comment_start. destruct body; reflexivity. }
    rewrite Hcs. cbn [skipn firstn]. rewrite Hcb, Hb. reflexivity.
Qed.

Lemma split_stable T : Forall stable T -> split (concat (map snd T)) = norm T.
Proof.
  induction 1 as [|[ty t] T Hst H IH]; [reflexivity|]. cbn [map concat snd norm].
  destruct ty; try (rewrite (split_stable_token _ _ Hst) by discriminate; rewrite IH; reflexivity).
  destruct Hst as [Hne Hsp]. cbn [snd] in *. rewrite split_plain_app by assumption. rewrite IH. reflexivity.
Qed.

(* what norm does to the types: nothing but plain tokens is touched *)
Lemma norm_types (Q : token -> Prop) T :
  (forall q, Q (Plain, q)) -> Forall Q T -> Forall Q (norm T).
Proof.
  intros HQ. induction 1 as [|[ty t] T Hq H IH]; [constructor|]. cbn [norm].
  destruct ty; try (constructor; assumption).
  unfold plain_cons. destruct (norm T) as [|[ty' q] R]; [constructor; [apply HQ|constructor]|].
  inversion IH; subst. destruct ty'; constructor; try apply HQ; try assumption; constructor; assumption.
Qed.
