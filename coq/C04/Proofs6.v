(* C04 proofs, part 6: validate_nesting on a well-nested sequence of opening/closing tags (wf):
   no entry becomes invalid and every entry passes validate_entry_by_rules.  In html mode the pairing
   found may differ from the one that produced the sequence, but the verdict does not. *)
From CppcmsV Require Import Base.Tac Base.Sweep C04.Defs C04.Proofs1 C04.Proofs2.
Local Open Scope N_scope.

Section Forest.
  Variable xhtml comments numeric : bool.
  Variable tag_kind : list N -> tkind.
  Variable entity_ok : list N -> bool.
  Variable bool_ok : list N -> list N -> bool.
  Variable val_ok : list N -> list N -> list N -> bool.
  Notation rules_ok := (rules_ok xhtml comments numeric tag_kind entity_ok bool_ok val_ok).
  Notation rules_ok3 := (rules_ok3 xhtml comments numeric tag_kind entity_ok bool_ok val_ok).
  Notation props_ok := (props_ok xhtml bool_ok val_ok).

  (* rules::valid_tag does not distinguish names that ascii_streq identifies (std::map with the
     case-insensitive comparator in html mode) *)
  Definition kind_compat : Prop := forall a b, name_eq xhtml a b = true -> tag_kind a = tag_kind b.
  Hypothesis Hkind : kind_compat.

  Definition valid (n : entry) : Prop := is_invalid n = false /\ rules_ok n = true.
  Definition open_ok (o : entry) : Prop :=
    e_type o = Open /\ props_ok (e_name o) [] (e_props o) = true.
  Definition loose (o : entry) : Prop :=
    open_ok o /\ (tag_kind (e_name o) = TAlone \/ tag_kind (e_name o) = TAny).
  Definition node_ok (o c : entry) : Prop :=
    open_ok o /\ e_type c = Close /\ name_eq xhtml (e_name o) (e_name c) = true /\
    (tag_kind (e_name o) = TPair \/ tag_kind (e_name o) = TAny) /\
    (tag_kind (e_name c) = TPair \/ tag_kind (e_name c) = TAny).

  Inductive wf : list entry -> Prop :=
    | wf_nil : wf []
    | wf_leaf e l : xhtml = false -> loose e -> wf l -> wf (e :: l)
    | wf_node o kids c l : node_ok o c -> wf kids -> wf l -> wf (o :: kids ++ c :: l).

  Lemma wf_app a b : wf a -> wf b -> wf (a ++ b).
  Proof.
    induction 1 as [|e l Hx He Hl IH|o kids c l Hn Hk IHk Hl IHl]; intros Hb; cbn [app].
    - exact Hb.
    - apply wf_leaf; auto.
    - rewrite <- app_assoc. cbn [app]. apply wf_node; auto.
  Qed.

  Lemma valid_ons o : loose o -> valid (with_type OpenNoSlash o).
  Proof.
    intros [[Ht Hp] Hk]. split; [reflexivity|]. unfold Defs.rules_ok. cbn [with_type e_type e_name e_props Defs.rules_ok3].
    destruct Hk as [Hk|Hk]; rewrite Hk; cbn [etype_eqb orb]; exact Hp.
  Qed.
  Lemma valid_paired_open o c : open_ok o ->
    tag_kind (e_name o) = TPair \/ tag_kind (e_name o) = TAny -> valid (paired o c).
  Proof.
    intros [Ht Hp] Hk. split; [unfold is_invalid, paired; cbn [e_type]; rewrite Ht; reflexivity|].
    unfold Defs.rules_ok, paired. cbn [e_type e_name e_props]. rewrite Ht. cbn [Defs.rules_ok3].
    destruct Hk as [Hk|Hk]; rewrite Hk; cbn [etype_eqb orb]; exact Hp.
  Qed.
  Lemma valid_paired_close c o : e_type c = Close ->
    tag_kind (e_name c) = TPair \/ tag_kind (e_name c) = TAny -> valid (paired c o).
  Proof.
    intros Ht Hk. split; [unfold is_invalid, paired; cbn [e_type]; rewrite Ht; reflexivity|].
    unfold Defs.rules_ok, paired. cbn [e_type e_name e_props]. rewrite Ht. cbn [Defs.rules_ok3].
    destruct Hk as [Hk|Hk]; rewrite Hk; reflexivity.
  Qed.

  Definition frames_ok (ex : list frame) : Prop :=
    Forall (fun f : frame => loose (fst f) /\ Forall valid (snd f)) ex.

  Lemma emit_to_nil6 fs base : emit_to [] fs base = (fs, base).
  Proof. destruct fs as [|[o its] fs]; reflexivity. Qed.

  Lemma emit_to_emit_to items2 items1 fs base :
    emit_to items2 (fst (emit_to items1 fs base)) (snd (emit_to items1 fs base)) = emit_to (items2 ++ items1) fs base.
  Proof. destruct fs as [|[o its] fs]; cbn [emit_to fst snd]; rewrite app_assoc; reflexivity. Qed.

  (* st is reached from (fs, base) without touching the frames fs: some valid items were added to
     the top frame (or to base) and some frames with loose opening tags were pushed *)
  Definition reaches (fs : list frame) (base : list entry) (st : list frame * list entry) : Prop :=
    exists ex items, st = (ex ++ fst (emit_to items fs base), snd (emit_to items fs base)) /\
                     frames_ok ex /\ Forall valid items /\ (xhtml = true -> ex = []).

  Lemma reaches_refl fs base : reaches fs base (fs, base).
  Proof. exists [], []. rewrite emit_to_nil6. repeat split; constructor. Qed.

  Lemma reaches_trans fs base st1 st2 :
    reaches fs base st1 -> reaches (fst st1) (snd st1) st2 -> reaches fs base st2.
  Proof.
    intros (ex1 & it1 & H1 & F1 & V1 & X1) (ex2 & it2 & H2 & F2 & V2 & X2). subst st1. cbn [fst snd] in H2.
    destruct ex1 as [|[e its] ex1].
    - cbn [app] in H2. rewrite emit_to_emit_to in H2. exists ex2, (it2 ++ it1).
      repeat split; [exact H2|exact F2|apply Forall_app; split; assumption|exact X2].
    - cbn [app emit_to fst snd] in H2. exists (ex2 ++ (e, it2 ++ its) :: ex1), it1. subst st2.
      split; [rewrite <- app_assoc; reflexivity|]. split; [|split; [exact V1|]].
      + apply Forall_app. split; [exact F2|]. inversion F1 as [|f ex' [Hl Hv] Hrest]; subst. cbn [fst snd] in *.
        constructor; [|exact Hrest]. split; [exact Hl|]. cbn [snd]. apply Forall_app. split; assumption.
      + intros Hx. specialize (X1 Hx). discriminate.
  Qed.

  Lemma html_close_extras c o itk fs base :
    xhtml = false -> node_ok o c -> Forall valid itk ->
    forall exk popped, frames_ok exk -> Forall valid popped ->
    reaches fs base (html_close c (exk ++ (o, itk) :: fs) popped base).
  Proof.
    intros Hx (Hoo & Hc & Hne & Hko & Hkc) Hitk. rewrite Hx in Hne.
    assert (Hkoc : tag_kind (e_name o) = tag_kind (e_name c)) by (apply Hkind; rewrite Hx; exact Hne).
    induction exk as [|[e its] exk IH]; intros popped Hex Hp; cbn [app html_close].
    - rewrite Hne. exists [], (paired c o :: popped ++ itk ++ [paired o c]). cbn [app].
      split; [destruct (emit_to _ fs base); reflexivity|]. split; [constructor|]. split; [|intros H; congruence].
      constructor; [apply valid_paired_close; assumption|]. apply Forall_app. split; [exact Hp|].
      apply Forall_app. split; [exact Hitk|]. constructor; [|constructor]. apply valid_paired_open; assumption.
    - inversion Hex as [|f ex' [Hl Hv] Hrest]; subst. cbn [fst snd] in Hl, Hv.
      destruct (name_eq false (e_name e) (e_name c)) eqn:Eec.
      + (* the closing tag pairs with a loose opening tag above o: all three names have kind any_tag *)
        assert (Hkec : tag_kind (e_name e) = tag_kind (e_name c)) by (apply Hkind; rewrite Hx; exact Eec).
        assert (Hany : tag_kind (e_name c) = TAny).
        { destruct Hl as [_ [Hl|Hl]]; destruct Hkc as [Hkc|Hkc]; congruence. }
        assert (Hlo : loose o) by (split; [exact Hoo|right; congruence]).
        assert (Hnew : Forall valid (paired c e :: popped ++ its ++ [paired e c])).
        { constructor; [apply valid_paired_close; [exact Hc|right; exact Hany]|].
          apply Forall_app. split; [exact Hp|]. apply Forall_app. split; [exact Hv|]. constructor; [|constructor].
          apply valid_paired_open; [exact (proj1 Hl)|right; congruence]. }
        destruct exk as [|[e2 its2] exk].
        * cbn [app emit_to]. exists [(o, (paired c e :: popped ++ its ++ [paired e c]) ++ itk)], [].
          rewrite emit_to_nil6. cbn [fst snd app]. split; [reflexivity|]. split; [|split; [constructor|intros H; congruence]].
          constructor; [|constructor]. split; [exact Hlo|].
          change (Forall valid ((paired c e :: popped ++ its ++ [paired e c]) ++ itk)). apply Forall_app. split; assumption.
        * cbn [app emit_to]. exists ((e2, (paired c e :: popped ++ its ++ [paired e c]) ++ its2) :: exk ++ [(o, itk)]), [].
          rewrite emit_to_nil6. cbn [fst snd]. split; [cbn [app]; rewrite <- (app_assoc exk [(o, itk)] fs); reflexivity|].
          split; [|split; [constructor|intros H; congruence]].
          inversion Hrest as [|f2 ex2 [Hl2 Hv2] Hrest2]; subst. cbn [fst snd] in Hl2, Hv2.
          constructor; [split; [exact Hl2|]|].
          { change (Forall valid ((paired c e :: popped ++ its ++ [paired e c]) ++ its2)). apply Forall_app. split; assumption. }
          apply Forall_app. split; [exact Hrest2|]. constructor; [|constructor]. split; assumption.
      + apply IH; [exact Hrest|]. apply Forall_app. split; [exact Hp|]. apply Forall_app. split; [exact Hv|].
        constructor; [|constructor]. apply valid_ons. exact Hl.
  Qed.

  Lemma nest_wf l : wf l -> forall todo fs base, exists st, reaches fs base st /\
    nest_loop xhtml (l ++ todo) fs base = nest_loop xhtml todo (fst st) (snd st).
  Proof.
    induction 1 as [|e l Hx He Hl IH|o kids c l Hn Hk IHk Hl IHl]; intros todo fs base.
    - exists (fs, base). split; [apply reaches_refl|reflexivity].
    - destruct (IH todo ((e, []) :: fs) base) as (st & Hr & Heq). exists st. split.
      + apply (reaches_trans fs base ((e, []) :: fs, base)); [|exact Hr].
        exists [(e, [])], []. rewrite emit_to_nil6. cbn [fst snd app]. split; [reflexivity|].
        split; [constructor; [split; [exact He|constructor]|constructor]|]. split; [constructor|intros H; congruence].
      + cbn [app nest_loop]. rewrite (proj1 (proj1 He)). exact Heq.
    - destruct (IHk (c :: l ++ todo) ((o, []) :: fs) base) as (stk & (exk & itk & Hstk & Fk & Vk & Xk) & Heqk).
      cbn [emit_to fst snd] in Hstk. rewrite app_nil_r in Hstk. subst stk. cbn [fst snd] in Heqk.
      assert (Hstep : exists stc, reaches fs base stc /\
                nest_loop xhtml (c :: l ++ todo) (exk ++ (o, itk) :: fs) base = nest_loop xhtml (l ++ todo) (fst stc) (snd stc)).
      { destruct Hn as (Hoo & Hc & Hne & Hko & Hkc). cbn [nest_loop]. rewrite Hc. destruct xhtml eqn:Ex.
        - rewrite (Xk eq_refl). cbn [app xhtml_close]. rewrite Hne.
          exists (emit_to (paired c o :: itk ++ [paired o c]) fs base). split.
          + exists [], (paired c o :: itk ++ [paired o c]). cbn [app].
            split; [destruct (emit_to _ fs base); reflexivity|]. split; [constructor|]. split; [|reflexivity].
            constructor; [apply valid_paired_close; assumption|]. apply Forall_app. split; [exact Vk|].
            constructor; [|constructor]. apply valid_paired_open; assumption.
          + destruct (emit_to _ fs base). reflexivity.
        - exists (html_close c (exk ++ (o, itk) :: fs) [] base). split.
          + apply html_close_extras; [exact Ex| |exact Vk|exact Fk|constructor].
            split; [exact Hoo|]. split; [exact Hc|]. split; [rewrite Ex; exact Hne|]. split; assumption.
          + destruct (html_close c (exk ++ (o, itk) :: fs) [] base). reflexivity. }
      destruct Hstep as (stc & Hrc & Heqc).
      destruct (IHl todo (fst stc) (snd stc)) as (st & Hr & Heq). exists st. split.
      + apply (reaches_trans fs base stc); assumption.
      + cbn [app nest_loop]. rewrite (proj1 (proj1 Hn)).
        rewrite <- app_assoc. cbn [app]. rewrite Heqk, Heqc. exact Heq.
  Qed.

  Lemma flush_valid t ex : t = OpenNoSlash -> frames_ok ex -> forall acc, Forall valid acc -> Forall valid (flush t ex acc).
  Proof.
    intros Ht. induction 1 as [|[o its] ex [Hl Hv] Hrest IH]; intros acc Ha; cbn [flush]; [exact Ha|].
    cbn [fst snd] in *. apply IH. apply Forall_app. split; [exact Ha|]. apply Forall_app. split; [exact Hv|].
    constructor; [|constructor]. subst t. apply valid_ons. exact Hl.
  Qed.

  Lemma nest_wf_valid l : wf l -> Forall valid (nest xhtml l).
  Proof.
    intros Hwf. destruct (nest_wf l Hwf [] [] []) as (st & (ex & items & Hst & Fx & Vi & Xx) & Heq).
    unfold nest. rewrite app_nil_r in Heq. rewrite Heq. subst st. cbn [emit_to fst snd nest_loop].
    rewrite !app_nil_r. apply Forall_rev. apply Forall_app. split; [|exact Vi].
    destruct xhtml eqn:Ex.
    - rewrite (Xx eq_refl). constructor.
    - apply flush_valid; [reflexivity|exact Fx|constructor].
  Qed.
End Forest.
