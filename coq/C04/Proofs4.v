(* C04 proofs, part 4: shapes accepted by parse_html_entity and parse_html_tag; the white-list
   predicate on token texts; every entry that passes validate_entry_by_rules has a white-listed
   text; shape of the filter output. *)
From CppcmsV Require Import Base.Tac Base.Sweep C04.Defs C04.Proofs1 C04.Proofs2 C04.Proofs3.
Local Open Scope N_scope.

Definition name_form (nm : list N) : Prop :=
  exists c rest, nm = c :: rest /\ is_alpha c = true /\ forallb is_alnum rest = true.

Lemma forallb_last (p : N -> bool) l d : l <> [] -> forallb p l = true -> p (last l d) = true.
Proof.
  induction l as [|x l IH]; [congruence|]. intros _ H. cbn [forallb] in H. apply andb_true_iff in H.
  destruct H as [H1 H2]. destruct l as [|y l]; [exact H1|]. apply IH; [discriminate|exact H2].
Qed.
Lemma last_app_ne (a b : list N) d : b <> [] -> last (a ++ b) d = last b d.
Proof.
  intros Hb. induction a as [|x a IH]; [reflexivity|]. cbn [app].
  remember (a ++ b) as l eqn:El. destruct l as [|y l].
  - symmetry in El. apply app_eq_nil in El. destruct El as [_ El]. congruence.
  - change (last (x :: y :: l) d) with (last (y :: l) d). exact IH.
Qed.

Definition num_form (pre : list N) : Prop :=
  (exists ds, pre = 35 :: ds /\ ds <> [] /\ forallb is_digit ds = true /\ cp_ok (num_val 10 ds) = true) \/
  (exists xc ds, pre = 35 :: xc :: ds /\ (xc = 120 \/ xc = 88) /\ ds <> [] /\ forallb is_xdigit ds = true /\
                 cp_ok (num_val 16 ds) = true).

Lemma parse_entity_form pre :
  match fst (parse_entity (38 :: pre ++ [59])) with
  | Entity => snd (parse_entity (38 :: pre ++ [59])) = pre /\ pre <> [] /\ forallb is_alnum pre = true
  | NumEntity => num_form pre
  | Invalid => True
  | _ => False
  end.
Proof.
  unfold parse_entity. cbn [tl]. rewrite removelast_last.
  destruct pre as [|c r]; [exact I|].
  destruct (N.eqb_spec c 35) as [E|E].
  - subst c. destruct r as [|d r2]; [exact I|].
    destruct ((d =? 120) || (d =? 88)) eqn:Ex.
    + destruct r2 as [|d2 r3]; [exact I|].
      destruct (forallb is_xdigit (d2 :: r3) && cp_ok (num_val 16 (d2 :: r3))) eqn:Ok; [|exact I].
      apply andb_true_iff in Ok. destruct Ok as [O1 O2]. cbn [fst]. right. exists d, (d2 :: r3).
      repeat split; try assumption; [|discriminate].
      apply orb_true_iff in Ex. destruct Ex as [Ex|Ex]; apply N.eqb_eq in Ex; [left|right]; exact Ex.
    + destruct (forallb is_digit (d :: r2) && cp_ok (num_val 10 (d :: r2))) eqn:Ok; [|exact I].
      apply andb_true_iff in Ok. destruct Ok as [O1 O2]. cbn [fst]. left. exists (d :: r2).
      repeat split; try assumption. discriminate.
  - destruct (forallb is_alnum (c :: r)) eqn:Ea; [|exact I]. cbn [fst snd].
    split; [reflexivity|]. split; [discriminate|reflexivity].
Qed.

Lemma parse_tag_form pre :
  let res := parse_tag (60 :: pre ++ [62]) in
  let nm := snd (fst res) in let ps := snd res in
  match fst (fst res) with
  | Close => name_form nm /\ ps = [] /\ exists ws, forallb is_space ws = true /\ pre = 47 :: nm ++ ws
  | Open => name_form nm /\ exists seg, attrs_form ps seg /\ pre = nm ++ seg
  | OpenClose => name_form nm /\ exists seg, attrs_form ps seg /\ pre = nm ++ seg ++ [47]
  | Invalid => True
  | _ => False
  end.
Proof.
  unfold parse_tag. cbn [tl]. rewrite removelast_last.
  destruct pre as [|c r]; [exact I|].
  destruct (N.eqb_spec c 47) as [E|E].
  - subst c. destruct r as [|c1 r1]; [exact I|]. destruct (is_alpha c1) eqn:Ea; [|exact I].
    destruct (forallb is_space (dropw is_alnum r1)) eqn:Es; [|exact I]. cbn [fst snd].
    split; [exists c1, (takew is_alnum r1); repeat split; [exact Ea|apply takew_all]|].
    split; [reflexivity|]. exists (dropw is_alnum r1). split; [exact Es|].
    cbn [app]. do 2 f_equal. apply takew_dropw.
  - destruct (is_alpha c) eqn:Ea; [|exact I].
    assert (Hnm : name_form (c :: takew is_alnum r)).
    { exists c, (takew is_alnum r). repeat split; [exact Ea|apply takew_all]. }
    destruct (N.eqb_spec (last (c :: r) 0) 47) as [Esl|Esl].
    + destruct (parse_props (removelast (dropw is_alnum r))) as [ps|] eqn:Ep; [|exact I]. cbn [fst snd].
      split; [exact Hnm|]. exists (removelast (dropw is_alnum r)). split; [apply parse_props_form; exact Ep|].
      assert (Hne : dropw is_alnum r <> []).
      { intros Hnil. pose proof (takew_dropw is_alnum r) as Hr. rewrite Hnil, app_nil_r in Hr.
        assert (Hl : is_alpha (last (c :: r) 0) || is_alnum (last (c :: r) 0) = true).
        { apply (forallb_last (fun x => is_alpha x || is_alnum x) (c :: r) 0); [discriminate|]. cbn [forallb]. rewrite Ea. cbn [orb andb].
          rewrite Hr. pose proof (takew_all is_alnum r) as Ht. clear - Ht.
          induction (takew is_alnum r) as [|x l IH]; [reflexivity|]. cbn [forallb] in *.
          apply andb_true_iff in Ht. destruct Ht as [H1 H2]. rewrite H1, orb_true_r. exact (IH H2). }
        rewrite Esl in Hl. discriminate Hl. }
      cbn [app]. f_equal. rewrite (takew_dropw is_alnum r) at 1. f_equal.
      assert (Hlast : last (dropw is_alnum r) 0 = 47).
      { rewrite <- Esl. symmetry.
        pose proof (last_app_ne (c :: takew is_alnum r) (dropw is_alnum r) 0 Hne) as Hl.
        cbn [app] in Hl. rewrite <- (takew_dropw is_alnum r) in Hl. exact Hl. }
      rewrite <- Hlast at 1. apply app_removelast_last. exact Hne.
    + destruct (parse_props (dropw is_alnum r)) as [ps|] eqn:Ep; [|exact I]. cbn [fst snd].
      split; [exact Hnm|]. exists (dropw is_alnum r). split; [apply parse_props_form; exact Ep|].
      cbn [app]. f_equal. apply takew_dropw.
Qed.

Section White.
  Variable xhtml comments numeric : bool.
  Variable tag_kind : list N -> tkind.
  Variable entity_ok : list N -> bool.
  Variable bool_ok : list N -> list N -> bool.
  Variable val_ok : list N -> list N -> list N -> bool.
  Notation rules_ok := (rules_ok xhtml comments numeric tag_kind entity_ok bool_ok val_ok).
  Notation rules_ok3 := (rules_ok3 xhtml comments numeric tag_kind entity_ok bool_ok val_ok).
  Notation props_ok := (props_ok xhtml bool_ok val_ok).
  Notation pair_ok := (pair_ok xhtml comments numeric tag_kind entity_ok bool_ok val_ok).
  Notation inval := (inval xhtml comments numeric tag_kind entity_ok bool_ok val_ok).
  Notation fentries := (filter_entries xhtml comments numeric tag_kind entity_ok bool_ok val_ok).
  Notation vfcore := (vf_core xhtml comments numeric tag_kind entity_ok bool_ok val_ok).
  Notation vcore := (validate_core xhtml comments numeric tag_kind entity_ok bool_ok val_ok).

  (* every attribute is allowed for this tag with this value, no attribute name occurs twice *)
  Definition attr_allowed (tag : list N) (p : prop) : Prop :=
    match snd p with None => bool_ok tag (fst p) = true | Some v => val_ok tag (fst p) v = true end.
  Fixpoint attrs_distinct (ps : list prop) : Prop :=
    match ps with
    | [] => True
    | p :: r => Forall (fun q : prop => name_eq xhtml (fst q) (fst p) = false) r /\ attrs_distinct r
    end.

  Lemma props_ok_spec tag ps : forall seen, props_ok tag seen ps = true ->
    Forall (attr_allowed tag) ps /\ attrs_distinct ps /\
    Forall (fun q : prop => existsb (name_eq xhtml (fst q)) seen = false) ps.
  Proof.
    induction ps as [|[pn v] r IH]; intros seen H; [repeat split; constructor|].
    cbn [Defs.props_ok] in H. destruct (existsb (name_eq xhtml pn) seen) eqn:Es; [discriminate|].
    destruct (match v with None => bool_ok tag pn | Some x => val_ok tag pn x end) eqn:Ea; [|discriminate].
    destruct (IH _ H) as (I1 & I2 & I3). split; [|split].
    - constructor; [unfold attr_allowed; cbn [fst snd]; destruct v; exact Ea|exact I1].
    - cbn [attrs_distinct fst]. split; [|exact I2].
      eapply Forall_impl; [|exact I3]. intros q Hq. cbn [existsb] in Hq. apply orb_false_iff in Hq. tauto.
    - constructor; [exact Es|]. eapply Forall_impl; [|exact I3]. intros q Hq. cbn [existsb] in Hq.
      apply orb_false_iff in Hq. tauto.
  Qed.

  (* the white list, as a predicate on the text of a token *)
  Inductive whitelisted : list N -> Prop :=
    | W_plain t : existsb special t = false -> whitelisted t
    | W_entity nm : nm <> [] -> forallb is_alnum nm = true -> entity_ok nm = true ->
        whitelisted (38 :: nm ++ [59])
    | W_numeric pre : numeric = true -> num_form pre -> whitelisted (38 :: pre ++ [59])
    | W_comment body : comments = true -> existsb special body = false ->
        whitelisted (60 :: 33 :: 45 :: 45 :: body ++ [45; 45; 62])
    | W_close nm ws : name_form nm -> forallb is_space ws = true ->
        tag_kind nm = TPair \/ tag_kind nm = TAny ->
        whitelisted (60 :: 47 :: nm ++ ws ++ [62])
    | W_open nm ps seg : name_form nm -> attrs_form ps seg -> tag_kind nm <> TInvalid ->
        Forall (attr_allowed nm) ps -> attrs_distinct ps ->
        whitelisted (60 :: nm ++ seg ++ [62])
    | W_openclose nm ps seg : name_form nm -> attrs_form ps seg ->
        tag_kind nm = TAlone \/ tag_kind nm = TAny ->
        Forall (attr_allowed nm) ps -> attrs_distinct ps ->
        whitelisted (60 :: nm ++ seg ++ [47; 62]).

  Lemma trel_same a b : a <> Open -> a <> Close -> trel a b -> b = a.
  Proof. intros H1 H2 [H|[[H _]|[H _]]]; congruence. Qed.

  (* an entry that comes from parse_part (up to the retyping done by validate_nesting) and passes
     validate_entry_by_rules has a white-listed text *)
  Lemma parsed_whitelisted raw n :
    tok_form (fst raw) (snd raw) -> erel (parse_part raw) n -> rules_ok n = true ->
    whitelisted (e_text n).
  Proof.
    destruct raw as [ty text]. cbn [fst snd]. intros Hform (Htext & Hname & Hprops & Hty) Hok.
    unfold Defs.rules_ok in Hok. rewrite Hname, Hprops in Hok. rewrite Htext. clear Htext Hname Hprops.
    unfold parse_part in *. destruct ty; cbn [tok_form] in Hform; try contradiction.
    - (* Invalid *)
      cbn [e_type e_text] in *. apply trel_same in Hty; try discriminate. rewrite Hty in Hok. discriminate.
    - (* Plain *)
      cbn [e_type e_text] in *. apply W_plain. exact (proj2 Hform).
    - (* Entity *)
      destruct Hform as (pre & Ht & Hn59). subst text.
      pose proof (parse_entity_form pre) as Hpf.
      destruct (parse_entity (38 :: pre ++ [59])) as [t nm]. cbn [fst snd e_type e_text e_name e_props] in *.
      destruct t; try contradiction.
      + apply trel_same in Hty; try discriminate. rewrite Hty in Hok. discriminate.
      + apply trel_same in Hty; try discriminate. rewrite Hty in Hok. cbn [Defs.rules_ok3] in Hok.
        destruct Hpf as (Hnm & Hne & Hal). subst nm. apply W_entity; assumption.
      + apply trel_same in Hty; try discriminate. rewrite Hty in Hok. cbn [Defs.rules_ok3] in Hok.
        apply W_numeric; assumption.
    - (* Tag *)
      destruct Hform as (pre & Ht & Hn62). subst text.
      pose proof (parse_tag_form pre) as Hpf. cbv zeta in Hpf.
      destruct (parse_tag (60 :: pre ++ [62])) as [[t nm] ps]. cbn [fst snd e_type e_text e_name e_props] in *.
      destruct t; try contradiction.
      + apply trel_same in Hty; try discriminate. rewrite Hty in Hok. discriminate.
      + (* Open: stays Open, or becomes Invalid / OpenNoSlash *)
        destruct Hpf as (Hnm & seg & Hseg & Hpre). subst pre.
        assert (Hcases : e_type n = Open \/ e_type n = Invalid \/ e_type n = OpenNoSlash).
        { destruct Hty as [H|[[_ [H|H]]|[H _]]]; [left; symmetry; exact H|right; left; exact H|right; right; exact H|discriminate]. }
        rewrite <- app_assoc.
        destruct Hcases as [Hc|[Hc|Hc]]; rewrite Hc in Hok; cbn [Defs.rules_ok3 etype_eqb orb] in Hok; [|discriminate|].
        * destruct (tag_kind nm) eqn:Ek; try discriminate;
            (destruct (props_ok_spec nm ps [] Hok) as (P1 & P2 & _);
             eapply W_open; try eassumption; rewrite Ek; discriminate).
        * destruct (tag_kind nm) eqn:Ek; try discriminate;
            (destruct (props_ok_spec nm ps [] Hok) as (P1 & P2 & _);
             eapply W_open; try eassumption; rewrite Ek; discriminate).
      + (* Close *)
        destruct Hpf as (Hnm & Hps & ws & Hws & Hpre). subst pre ps.
        assert (Hcases : e_type n = Close \/ e_type n = Invalid).
        { destruct Hty as [H|[[H _]|[_ H]]]; [left; symmetry; exact H|discriminate|right; exact H]. }
        destruct Hcases as [Hc|Hc]; rewrite Hc in Hok; cbn [Defs.rules_ok3 etype_eqb orb] in Hok; [|discriminate].
        cbn [app]. rewrite <- app_assoc.
        apply W_close; try assumption.
        destruct (tag_kind nm); try discriminate; [left|right]; reflexivity.
      + (* OpenClose *)
        destruct Hpf as (Hnm & seg & Hseg & Hpre). subst pre.
        apply trel_same in Hty; try discriminate. rewrite Hty in Hok. cbn [Defs.rules_ok3 etype_eqb orb] in Hok.
        rewrite <- !app_assoc. cbn [app].
        destruct (tag_kind nm) eqn:Ek; try discriminate;
          destruct (props_ok_spec nm ps [] Hok) as (P1 & P2 & _).
        * eapply W_openclose; try eassumption. left. exact Ek.
        * eapply W_openclose; try eassumption. right. exact Ek.
    - (* Comment *)
      destruct Hform as (body & Ht & Hb & _). subst text. cbn [e_type e_text] in *.
      apply trel_same in Hty; try discriminate. rewrite Hty in Hok. cbn [Defs.rules_ok3] in Hok.
      apply W_comment; assumption.
  Qed.

  Lemma Forall2_in_r {A B} (R : A -> B -> Prop) l1 l2 b : Forall2 R l1 l2 -> In b l2 -> exists a, In a l1 /\ R a b.
  Proof.
    induction 1 as [|a' b' l1 l2 Hab H IH]; [intros []|]. intros [Hb|Hb].
    - subst. exists a'. split; [left; reflexivity|exact Hab].
    - destruct (IH Hb) as (a & Ha & HR). exists a. split; [right; exact Ha|exact HR].
  Qed.

  Definition nested (x : list N) : list entry := nest xhtml (map parse_part (split x)).

  Lemma nested_whitelisted x n : In n (nested x) -> rules_ok n = true -> whitelisted (e_text n).
  Proof.
    intros Hin Hok. unfold nested in Hin.
    destruct (Forall2_in_r _ _ _ _ (nest_rel xhtml (map parse_part (split x))) Hin) as (p & Hp & Hrel).
    apply in_map_iff in Hp. destruct Hp as (raw & Hraw & Hin').
    subst p. apply (parsed_whitelisted raw n); [|exact Hrel|exact Hok].
    pose proof (split_forms x) as Hf. rewrite Forall_forall in Hf. apply Hf. exact Hin'.
  Qed.

  Lemma parse_part_text raw : e_text (parse_part raw) = snd raw.
  Proof.
    destruct raw as [ty text]. unfold parse_part. destruct ty; try reflexivity.
    - destruct (parse_entity text). reflexivity.
    - destruct (parse_tag text) as [[t nm] ps]. reflexivity.
  Qed.

  Lemma nested_texts x : concat (map e_text (nested x)) = x.
  Proof.
    unfold nested. rewrite nest_texts, map_map.
    rewrite (map_ext _ snd parse_part_text). apply split_partition.
  Qed.

  Lemma inval_text e : e_text (inval e) = e_text e.
  Proof. unfold Defs.inval. destruct (rules_ok e); [destruct (pair_ok e)|]; reflexivity. Qed.

  Lemma inval_valid e : is_invalid (inval e) = false -> inval e = e /\ rules_ok e = true.
  Proof.
    unfold Defs.inval. destruct (rules_ok e) eqn:Er; [destruct (pair_ok e)|]; cbn; intros H; try discriminate.
    split; reflexivity.
  Qed.

  (* a piece of filter output: the unchanged text of a white-listed token, or harmless text *)
  Definition seg_ok (s : list N) : Prop := whitelisted s \/ val_form s.

  Lemma emit_inval_ok m x n : In n (nested x) -> seg_ok (emit m (inval n)).
  Proof.
    intros Hin. unfold emit. destruct (is_invalid (inval n)) eqn:Ei.
    - right. destruct m; [constructor|apply escape4_form].
    - destruct (inval_valid _ Ei) as [He Hok]. rewrite He. left. apply (nested_whitelisted x); assumption.
  Qed.

  (* filter_shape: the filter output, piece by piece *)
  Lemma vf_core_shape m y :
    let es := fst (fentries y) in
    snd (vfcore m y) = concat (map (emit m) es) /\
    concat (map e_text es) = y /\
    Forall (fun e => if is_invalid e
                     then emit m e = match m with RemoveInvalid => [] | EscapeInvalid => escape4 (e_text e) end
                     else emit m e = e_text e /\ rules_ok e = true /\ whitelisted (e_text e)) es.
  Proof.
    cbv zeta. split; [apply vf_core_out|]. unfold filter_entries. cbn [fst]. fold (nested y). split.
    - rewrite map_map. rewrite (map_ext _ e_text inval_text). apply nested_texts.
    - apply Forall_forall. intros e He. apply in_map_iff in He. destruct He as (n & Hn & Hin). subst e.
      unfold emit. destruct (is_invalid (inval n)) eqn:Ei; [reflexivity|].
      destruct (inval_valid _ Ei) as [He Hok]. rewrite He. split; [reflexivity|]. split; [exact Hok|].
      apply (nested_whitelisted y); assumption.
  Qed.

  Lemma vf_core_segs m y : exists segs, snd (vfcore m y) = concat segs /\ Forall seg_ok segs.
  Proof.
    exists (map (emit m) (fst (fentries y))). split; [apply vf_core_out|].
    unfold filter_entries. cbn [fst]. fold (nested y). rewrite map_map. apply Forall_forall.
    intros s Hs. apply in_map_iff in Hs. destruct Hs as (n & Hn & Hin). subst s.
    apply (emit_inval_ok m y). exact Hin.
  Qed.

  (* text accepted by validate consists of white-listed tokens only *)
  Lemma validate_core_whitelisted x : vcore x = true ->
    exists segs, x = concat segs /\ Forall whitelisted segs.
  Proof.
    unfold validate_core. fold (nested x).
    destruct (existsb (fun r => etype_eqb (fst r) Invalid) (split x)); [discriminate|].
    destruct (existsb is_invalid (map parse_part (split x))); [discriminate|].
    destruct (existsb is_invalid (nested x)); [discriminate|]. intros Hall.
    exists (map e_text (nested x)). split; [symmetry; apply nested_texts|].
    apply Forall_forall. intros s Hs. apply in_map_iff in Hs. destruct Hs as (n & Hn & Hin). subst s.
    apply (nested_whitelisted x); [exact Hin|]. rewrite forallb_forall in Hall. apply Hall. exact Hin.
  Qed.

  Variable has_enc : bool.
  Variable enc_valid : list N -> bool.
  Variable enc_vof : list N -> option (list N).
  Notation filter := (filter xhtml comments numeric tag_kind entity_ok bool_ok val_ok has_enc enc_vof).
  Notation validate := (validate xhtml comments numeric tag_kind entity_ok bool_ok val_ok has_enc enc_valid).

  Lemma filter_segs m x : exists segs, filter m x = concat segs /\ Forall seg_ok segs.
  Proof.
    unfold Defs.filter, validate_and_filter.
    set (pre := if has_enc then match enc_vof x with None => (true, x) | Some y => (false, y) end else (true, x)).
    assert (Hpre : fst pre = true -> snd pre = x).
    { unfold pre. destruct has_enc; [destruct (enc_vof x)|]; cbn; congruence. }
    destruct pre as [valid0 y]. cbn [fst snd] in Hpre.
    pose proof (vf_core_flag xhtml comments numeric tag_kind entity_ok bool_ok val_ok m y) as Hflag.
    pose proof (vf_core_segs m y) as Hsegs.
    destruct (vfcore m y) as [valid out]. cbn [fst snd] in *.
    destruct (valid0 && valid) eqn:Ev; cbn [snd]; [|exact Hsegs].
    apply andb_true_iff in Ev. destruct Ev as [E0 E1]. subst valid. rewrite (Hpre E0) in E1.
    destruct (validate_core_whitelisted x E1) as (segs & Hx & Hall). exists segs. split; [exact Hx|].
    eapply Forall_impl; [|exact Hall]. intros s Hs. left. exact Hs.
  Qed.

  Lemma validate_whitelisted x : validate x = true -> exists segs, x = concat segs /\ Forall whitelisted segs.
  Proof. intros H. apply validate_core_whitelisted. eapply validate_core_of_validate. exact H. Qed.
End White.
