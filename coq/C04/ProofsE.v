(* C04 proofs, part E: the encoding layer made concrete (DefsE.v).  The UTF-8 validator and the single byte validators
   are the models of property C14 (coq/C14/Defs.v, with C14's specification Spec.v and its proofs Proofs / Proofs2 /
   Proofs3, imported read-only; none of these depends on generated files).  Here: the premises that the theorems of
   Props.v put on the abstract functions enc_valid / enc_vof (enc_agree, enc_vof_valid, enc_ascii_compatible) are PROVED
   for them, and validation is shown to imply well-formedness: RFC 3629 for UTF-8 names, the byte table for the others. *)
From CppcmsV Require Import Base.Tac Base.Sweep C04.Defs C04.DefsX C04.DefsE C04.Proofs1 C04.Proofs10 C04.ProofsX.
From CppcmsV Require C14.Defs C14.Spec C14.Proofs C14.Proofs2 C14.Proofs3.
Local Open Scope N_scope.

Module D := C14.Defs.
Module S := C14.Spec.
Module P := C14.Proofs.
Module P2 := C14.Proofs2.
Module P3 := C14.Proofs3.

(* ---------- 1. a well-formed UTF-8 text can be cut at every ASCII byte ---------- *)
Lemma Seq_ascii_single c l cp : c < 128 -> S.Seq (c :: l) cp -> l = [] /\ cp = c.
Proof.
  intros Hc Sq. inversion Sq; subst; try lia. split; reflexivity.
Qed.

Lemma Seq_tail_bytes e cp : S.Seq e cp -> exists h ts, e = h :: ts /\ Forall S.tail ts.
Proof.
  intros Sq. destruct (P2.Seq_shape e cp Sq) as (a & ts & E & _ & F). exists a, ts. split; assumption.
Qed.

Lemma WF_nil_inv cps : S.WF [] cps -> cps = [].
Proof.
  intros W. inversion W as [|e c s cps' Sq W' E1 E2]; [reflexivity|].
  apply app_eq_nil in E1. destruct E1 as [E1 _]. subst e. exfalso. exact (P.Seq_nonempty [] c Sq eq_refl).
Qed.

Lemma WF_cut_ascii l cps : S.WF l cps -> forall a c b, l = a ++ c :: b -> c < 128 ->
  exists ca cb, S.WF a ca /\ S.WF b cb /\ cps = ca ++ c :: cb.
Proof.
  induction 1 as [|e cp s cps Sq W IH]; intros a c b E Hc.
  - destruct a; discriminate.
  - apply app_eq_app in E. destruct E as (l & [[E1 E2]|[E1 E2]]).
    + (* the cut is inside or right after e *)
      destruct l as [|c' l'].
      * rewrite app_nil_r in E1. subst a. cbn [app] in E2. symmetry in E2.
        destruct (IH [] c b E2 Hc) as (ca & cb & Wa & Wb & Ec).
        apply WF_nil_inv in Wa. subst ca. cbn [app] in Ec. subst cps.
        exists [cp], cb. split; [|split; [exact Wb|reflexivity]].
        rewrite <- (app_nil_r e). apply S.WF_cons; [exact Sq|constructor].
      * cbn [app] in E2. injection E2 as Ec Eb. subst c'.
        destruct a as [|h a'].
        -- cbn [app] in E1. subst e. destruct (Seq_ascii_single c l' cp Hc Sq) as [-> ->].
           cbn [app] in Eb. subst b. exists [], cps. split; [constructor|split; [exact W|reflexivity]].
        -- exfalso. destruct (Seq_tail_bytes e cp Sq) as (h' & ts & E & F). subst e.
           cbn [app] in E. injection E as _ Ets. subst ts.
           apply Forall_app in F. destruct F as [_ F]. inversion F as [|x y T _]; subst. unfold S.tail in T. lia.
    + (* e is a prefix of a *)
      subst a. destruct (IH l c b E2 Hc) as (ca & cb & Wa & Wb & Ec). subst cps.
      exists (cp :: ca), cb. split; [apply S.WF_cons; assumption|split; [exact Wb|reflexivity]].
Qed.

Lemma sync_ascii c : syncb c = true -> c < 128 /\ S.html_safe c.
Proof.
  unfold syncb, S.html_safe. intros H.
  repeat (apply orb_true_iff in H; destruct H as [H|H]); apply N.eqb_eq in H; subst c; lia.
Qed.

(* ---------- 2. enc_ascii_compatible for the UTF-8 validator ---------- *)
Lemma utf8_sync a c b : syncb c = true -> D.validate true (a ++ c :: b) = D.validate true a && D.validate true b.
Proof.
  intros Hs. destruct (sync_ascii c Hs) as [Hc Hsafe].
  destruct (D.validate true a) eqn:Va; destruct (D.validate true b) eqn:Vb; cbn [andb].
  - change (c :: b) with ([c] ++ b). apply P.validate_app; [exact Va|]. apply P.validate_app; [|exact Vb].
    apply P3.WFH_iff. exists [c]. split; [|constructor; [exact Hsafe|constructor]].
    rewrite <- (app_nil_r [c]). apply S.WF_cons; [apply S.Seq1; lia|constructor].
  - destruct (D.validate true (a ++ c :: b)) eqn:V; [|reflexivity]. exfalso.
    apply P3.WFH_iff in V. destruct V as (cps & W & F).
    destruct (WF_cut_ascii _ _ W a c b eq_refl Hc) as (ca & cb & Wa & Wb & Ec). subst cps.
    apply Forall_app in F. destruct F as [_ F]. inversion F; subst.
    assert (D.validate true b = true) by (apply P3.WFH_iff; exists cb; auto). congruence.
  - destruct (D.validate true (a ++ c :: b)) eqn:V; [|reflexivity]. exfalso.
    apply P3.WFH_iff in V. destruct V as (cps & W & F).
    destruct (WF_cut_ascii _ _ W a c b eq_refl Hc) as (ca & cb & Wa & Wb & Ec). subst cps.
    apply Forall_app in F. destruct F as [Fa _].
    assert (D.validate true a = true) by (apply P3.WFH_iff; exists ca; auto). congruence.
  - destruct (D.validate true (a ++ c :: b)) eqn:V; [|reflexivity]. exfalso.
    apply P3.WFH_iff in V. destruct V as (cps & W & F).
    destruct (WF_cut_ascii _ _ W a c b eq_refl Hc) as (ca & cb & Wa & Wb & Ec). subst cps.
    apply Forall_app in F. destruct F as [Fa _].
    assert (D.validate true a = true) by (apply P3.WFH_iff; exists ca; auto). congruence.
Qed.

Lemma utf8_ascii_compatible : enc_ascii_compatible (D.validate true).
Proof.
  constructor; try (vm_compute; reflexivity).
  - exact utf8_sync.
  - intros a b. apply P.validate_app.
Qed.

(* ---------- 3. encoding names: which validator a name selects ---------- *)
Lemma lex_lt_irrefl a : D.lex_lt a a = false.
Proof. induction a as [|x a IH]; [reflexivity|]. cbn [D.lex_lt]. rewrite N.ltb_irrefl. exact IH. Qed.

Lemma lex_lt_total a : forall b, D.lex_lt a b = false -> D.lex_lt b a = false -> a = b.
Proof.
  induction a as [|x a IH]; intros [|y b] H1 H2; cbn [D.lex_lt] in *; try reflexivity; try discriminate.
  destruct (N.ltb_spec x y); [discriminate|]. destruct (N.ltb_spec y x); [discriminate|].
  assert (x = y) by lia. subst y. f_equal. apply IH; assumption.
Qed.

Lemma enc_equiv_iff a b : D.enc_equiv a b = true <-> D.norm_name a = D.norm_name b.
Proof.
  unfold D.enc_equiv, D.enc_less. split.
  - intros H. apply andb_true_iff in H. destruct H as [H1 H2].
    apply negb_true_iff in H1. apply negb_true_iff in H2. apply lex_lt_total; assumption.
  - intros ->. rewrite lex_lt_irrefl. reflexivity.
Qed.

Lemma lookup_entry name v : D.lookup name = Some v ->
  exists n, In (n, v) D.enc_table /\ D.norm_name name = D.norm_name n.
Proof.
  unfold D.lookup. destruct (find (fun e => D.enc_equiv name (fst e)) D.enc_table) as [[n v']|] eqn:F; [|discriminate].
  intros H. inversion H; subst v'. apply find_some in F. destruct F as [I E]. cbn [fst] in E.
  exists n. split; [exact I|apply enc_equiv_iff; exact E].
Qed.

(* the table has one UTF-8 entry; all the others are single byte validators under other keys *)
Definition entry_kind_ok (e : list N * D.validator) : bool :=
  match snd e with
  | D.V_utf8 => leqb (D.norm_name (fst e)) D.utf8_name
  | D.V_sb _ => negb (leqb (D.norm_name (fst e)) D.utf8_name)
  end.
Lemma table_kinds : forallb entry_kind_ok D.enc_table = true.
Proof. vm_compute. reflexivity. Qed.

Lemma is_utf8_iff name : D.is_utf8 name = true <-> D.norm_name name = D.utf8_name.
Proof. unfold D.is_utf8. rewrite enc_equiv_iff. change (D.norm_name D.utf8_name) with D.utf8_name. reflexivity. Qed.

Lemma lookup_utf8_is_utf8 name : D.lookup name = Some D.V_utf8 -> D.is_utf8 name = true.
Proof.
  intros L. destruct (lookup_entry name _ L) as (n & I & E).
  pose proof table_kinds as T. rewrite forallb_forall in T. specialize (T _ I). unfold entry_kind_ok in T. cbn [fst snd] in T.
  apply leqb_eq in T. apply is_utf8_iff. congruence.
Qed.

Lemma lookup_sb_not_utf8 name k : D.lookup name = Some (D.V_sb k) -> D.is_utf8 name = false.
Proof.
  intros L. destruct (lookup_entry name _ L) as (n & I & E).
  pose proof table_kinds as T. rewrite forallb_forall in T. specialize (T _ I). unfold entry_kind_ok in T. cbn [fst snd] in T.
  destruct (D.is_utf8 name) eqn:U; [|reflexivity]. apply is_utf8_iff in U.
  apply negb_true_iff in T. assert (leqb (D.norm_name n) D.utf8_name = true) by (apply leqb_eq; congruence). congruence.
Qed.

(* every spelling that normalises to utf8 selects the UTF-8 validator (UTF-8, utf8, Utf_8, ...) *)
Lemma utf8_spellings name : D.norm_name name = D.utf8_name -> D.lookup name = Some D.V_utf8.
Proof.
  intros E. unfold D.lookup.
  destruct (find (fun e => D.enc_equiv name (fst e)) D.enc_table) as [[n v]|] eqn:F.
  - apply find_some in F. destruct F as [I Q]. cbn [fst] in Q. apply enc_equiv_iff in Q.
    pose proof table_kinds as T. rewrite forallb_forall in T. specialize (T _ I). unfold entry_kind_ok in T. cbn [fst snd] in T.
    destruct v as [|k]; [reflexivity|]. apply negb_true_iff in T.
    assert (leqb (D.norm_name n) D.utf8_name = true) by (apply leqb_eq; congruence). congruence.
  - exfalso. assert (I : In (D.utf8_name, D.V_utf8) D.enc_table) by (vm_compute; tauto).
    pose proof (find_none _ _ F _ I) as Q. cbn [fst] in Q.
    assert (D.enc_equiv name D.utf8_name = true) by (apply enc_equiv_iff; rewrite E; reflexivity). congruence.
Qed.

Lemma lookup_has_encoding name v : D.lookup name = Some v -> has_encoding name = true.
Proof. destruct name; [vm_compute; discriminate|reflexivity]. Qed.

Lemma lookup_compat name v : D.lookup name = Some v -> named_compat name = true.
Proof. unfold named_compat. intros ->. reflexivity. Qed.

Lemma named_valid_utf8 name x : D.lookup name = Some D.V_utf8 -> named_valid name x = D.validate true x.
Proof.
  intros L. unfold named_valid, D.valid_named, D.validate. rewrite L. cbn [D.tester].
  destruct (D.validate_count true x 0); reflexivity.
Qed.

Lemma sb_validate_fst k l : forall cnt, fst (D.sb_validate k l cnt) = D.sb_valid k l.
Proof.
  induction l as [|c l IH]; intros cnt; [reflexivity|]. cbn [D.sb_validate D.sb_valid forallb].
  destruct (D.byte_ok k c); [apply IH|reflexivity].
Qed.

Lemma named_valid_sb name k x : D.lookup name = Some (D.V_sb k) -> named_valid name x = D.sb_valid k x.
Proof.
  intros L. unfold named_valid, D.valid_named. rewrite L. cbn [D.tester].
  pose proof (sb_validate_fst k x 0) as F. destruct (D.sb_validate k x 0) as [ok n]. exact F.
Qed.

Lemma named_vof_utf8 name repl x : D.lookup name = Some D.V_utf8 ->
  named_vof name repl x = match D.vof_utf8 repl x with D.FFiltered o => Some o | _ => None end.
Proof. intros L. unfold named_vof, D.validate_or_filter. rewrite (lookup_utf8_is_utf8 name L). reflexivity. Qed.

Lemma named_vof_sb name k repl x : D.lookup name = Some (D.V_sb k) ->
  named_vof name repl x = match D.vof_sb (D.V_sb k) repl x with D.FFiltered o => Some o | _ => None end.
Proof. intros L. unfold named_vof, D.validate_or_filter. rewrite (lookup_sb_not_utf8 name k L), L. reflexivity. Qed.

(* ---------- 4. the premises of the abstract theorems, proved for the concrete validators ---------- *)
Lemma utf8_agree name repl : D.lookup name = Some D.V_utf8 -> enc_agree (named_valid name) (named_vof name repl).
Proof.
  intros L x. rewrite (named_valid_utf8 name x L), (named_vof_utf8 name repl x L).
  destruct (P3.vof_utf8_cases repl x) as [[E V]|(o & E & V & _)]; rewrite E, V; split; congruence.
Qed.

Lemma utf8_vof_valid name repl : D.lookup name = Some D.V_utf8 -> P3.repl_ok repl ->
  enc_vof_valid (named_valid name) (named_vof name repl).
Proof.
  intros L R x y. rewrite (named_valid_utf8 name y L), (named_vof_utf8 name repl x L).
  destruct (P3.vof_utf8_cases repl x) as [[E V]|(o & E & V & Vo)]; rewrite E; [discriminate|].
  intros H. inversion H; subst y. exact (Vo R).
Qed.

Lemma utf8_named_compatible name : D.lookup name = Some D.V_utf8 -> enc_ascii_compatible (named_valid name).
Proof.
  intros L. pose proof utf8_ascii_compatible as [A1 A2 A3 A4 A5 A6 A7].
  constructor; try (rewrite (named_valid_utf8 _ _ L); assumption).
  - intros a c b Hs. rewrite !(named_valid_utf8 _ _ L). apply A2. exact Hs.
  - intros a b. rewrite !(named_valid_utf8 _ _ L). apply A3.
Qed.

Lemma sb_agree name k repl : D.lookup name = Some (D.V_sb k) -> enc_agree (named_valid name) (named_vof name repl).
Proof.
  intros L x. rewrite (named_valid_sb name k x L), (named_vof_sb name k repl x L).
  destruct (P3.vof_sb_cases k repl x) as [[E V]|(o & E & V & _)]; rewrite E, V; split; congruence.
Qed.

Lemma sb_vof_valid name k repl : D.lookup name = Some (D.V_sb k) -> P3.sb_repl_ok k repl ->
  enc_vof_valid (named_valid name) (named_vof name repl).
Proof.
  intros L R x y. rewrite (named_valid_sb name k y L), (named_vof_sb name k repl x L).
  destruct (P3.vof_sb_cases k repl x) as [[E V]|(o & E & V & _ & Vo)]; rewrite E; [discriminate|].
  intros H. inversion H; subst y. exact (Vo R).
Qed.

Definition all_kinds : list D.sbkind :=
  [D.SB_ascii; D.SB_iso; D.SB_iso3; D.SB_iso6; D.SB_iso7; D.SB_iso8; D.SB_iso11; D.SB_1250; D.SB_1251; D.SB_1252; D.SB_1253;
   D.SB_1254; D.SB_1255; D.SB_1256; D.SB_1257; D.SB_1258; D.SB_koi8].
Lemma all_kinds_complete k : In k all_kinds.
Proof. destruct k; cbn; tauto. Qed.

(* the bytes at which the filter cuts and pastes, and the ASCII letters of lt gt amp quot, are accepted by every byte table *)
Lemma sb_sync_bytes : forallb (fun k => forallb (D.byte_ok k) [38;59;60;62;34;108;116;103;97;109;112;113;117;111]) all_kinds = true.
Proof. vm_compute. reflexivity. Qed.

Lemma sb_sync_ok k c : syncb c = true -> D.byte_ok k c = true.
Proof.
  intros H. pose proof sb_sync_bytes as A. rewrite forallb_forall in A. specialize (A k (all_kinds_complete k)).
  rewrite forallb_forall in A. apply A. unfold syncb in H.
  repeat (apply orb_true_iff in H; destruct H as [H|H]); apply N.eqb_eq in H; subst c; cbn; tauto.
Qed.

Lemma sb_ascii_compatible k : enc_ascii_compatible (D.sb_valid k).
Proof.
  pose proof sb_sync_bytes as A. rewrite forallb_forall in A. specialize (A k (all_kinds_complete k)).
  rewrite forallb_forall in A.
  constructor.
  - reflexivity.
  - intros a c b Hs. unfold D.sb_valid. rewrite forallb_app. cbn [forallb].
    change (D.byte_ok k c) with (D.byte_ok k c). rewrite (sb_sync_ok k c Hs). reflexivity.
  - intros a b Ha Hb. unfold D.sb_valid in *. rewrite forallb_app, Ha, Hb. reflexivity.
  - unfold D.sb_valid. cbn [forallb]. rewrite !A by (cbn; tauto). reflexivity.
  - unfold D.sb_valid. cbn [forallb]. rewrite !A by (cbn; tauto). reflexivity.
  - unfold D.sb_valid. cbn [forallb]. rewrite !A by (cbn; tauto). reflexivity.
  - unfold D.sb_valid. cbn [forallb]. rewrite !A by (cbn; tauto). reflexivity.
Qed.

Lemma sb_named_compatible name k : D.lookup name = Some (D.V_sb k) -> enc_ascii_compatible (named_valid name).
Proof.
  intros L. pose proof (sb_ascii_compatible k) as [A1 A2 A3 A4 A5 A6 A7].
  constructor; try (rewrite (named_valid_sb _ _ _ L); assumption).
  - intros a c b Hs. rewrite !(named_valid_sb _ _ _ L). apply A2. exact Hs.
  - intros a b. rewrite !(named_valid_sb _ _ _ L). apply A3.
Qed.

(* ---------- 5. the entry points with a named encoding ---------- *)
Definition WFH (l : list N) : Prop := exists cps, S.WF l cps /\ Forall S.html_safe cps.

Lemma utf8_literal_lookup : D.lookup utf8_literal = Some D.V_utf8.
Proof. vm_compute. reflexivity. Qed.

Section Named.
  Variable xhtml comments numeric : bool.
  Variable tag_kind : list N -> tkind.
  Variable entity_ok : list N -> bool.
  Variable bool_ok : list N -> list N -> bool.
  Variable val_ok : list N -> list N -> list N -> bool.
  Variable name : list N.
  Variable repl : N.
  Variable tus : list N -> option (list N).
  Variable tusk : list N -> list N.
  Variable fus : list N -> option (list N).

  Notation ve := (validate_e xhtml comments numeric tag_kind entity_ok bool_ok val_ok name tus).
  Notation vfe := (validate_and_filter_e xhtml comments numeric tag_kind entity_ok bool_ok val_ok name repl tus tusk fus).
  Notation fe := (filter_e xhtml comments numeric tag_kind entity_ok bool_ok val_ok name repl tus tusk fus).
  Notation v0 := (validate xhtml comments numeric tag_kind entity_ok bool_ok val_ok).
  Notation vf0 := (validate_and_filter xhtml comments numeric tag_kind entity_ok bool_ok val_ok).
  Notation f0 := (filter xhtml comments numeric tag_kind entity_ok bool_ok val_ok).

  (* a name of the validators_set table: no conversion, the named validator and the caller's replacement character *)
  Lemma validate_e_table v x : D.lookup name = Some v -> ve x = v0 true (named_valid name) x.
  Proof.
    intros L. unfold validate_e, validate_x, work_valid.
    rewrite (lookup_has_encoding name v L), (lookup_compat name v L). reflexivity.
  Qed.
  Lemma vaf_e_table v m x : D.lookup name = Some v -> vfe m x = vf0 true (named_vof name repl) m x.
  Proof.
    intros L. unfold validate_and_filter_e, validate_and_filter_x, work_vof.
    rewrite (lookup_has_encoding name v L), (lookup_compat name v L). reflexivity.
  Qed.
  Lemma filter_e_table v m x : D.lookup name = Some v -> fe m x = f0 true (named_vof name repl) m x.
  Proof. intros L. unfold filter_e, Defs.filter. rewrite (vaf_e_table v m x L). reflexivity. Qed.

  (* ---- UTF-8 ---- *)
  Hypothesis kind_ok : Proofs6.kind_compat xhtml tag_kind.

  Lemma utf8_validate_wellformed x : D.lookup name = Some D.V_utf8 -> ve x = true -> WFH x.
  Proof.
    intros L V. rewrite (validate_e_table _ x L) in V.
    apply validate_encoding_l in V; [|reflexivity]. rewrite (named_valid_utf8 name x L) in V.
    apply P3.WFH_iff in V. exact V.
  Qed.

  Lemma utf8_flag m x : D.lookup name = Some D.V_utf8 -> fst (vfe m x) = ve x.
  Proof.
    intros L. rewrite (vaf_e_table _ m x L), (validate_e_table _ x L). apply validate_flag. apply utf8_agree. exact L.
  Qed.

  Lemma utf8_unchanged m x : D.lookup name = Some D.V_utf8 -> ve x = true -> fe m x = x.
  Proof.
    intros L V. rewrite (filter_e_table _ m x L). rewrite (validate_e_table _ x L) in V.
    eapply valid_unchanged_l; [apply utf8_agree; exact L|exact V].
  Qed.

  Lemma utf8_filter_validates m x : D.lookup name = Some D.V_utf8 -> P3.repl_ok repl ->
    (m = EscapeInvalid -> Proofs9.esc_entities_ok entity_ok) -> ve (fe m x) = true.
  Proof.
    intros L R He. rewrite (filter_e_table _ m x L), (validate_e_table _ _ L).
    apply filter_validates_l; [exact kind_ok|exact He|apply utf8_agree; exact L|apply utf8_vof_valid; assumption|].
    intros _. apply utf8_named_compatible. exact L.
  Qed.

  Lemma utf8_filter_wellformed m x : D.lookup name = Some D.V_utf8 -> P3.repl_ok repl ->
    (m = EscapeInvalid -> Proofs9.esc_entities_ok entity_ok) -> WFH (fe m x).
  Proof. intros L R He. apply utf8_validate_wellformed; [exact L|]. apply utf8_filter_validates; assumption. Qed.

  (* ---- single byte code pages ---- *)
  Lemma sb_validate_wellformed k x : D.lookup name = Some (D.V_sb k) -> ve x = true -> D.sb_valid k x = true.
  Proof.
    intros L V. rewrite (validate_e_table _ x L) in V.
    apply validate_encoding_l in V; [|reflexivity]. rewrite (named_valid_sb name k x L) in V. exact V.
  Qed.

  Lemma sb_flag k m x : D.lookup name = Some (D.V_sb k) -> fst (vfe m x) = ve x.
  Proof.
    intros L. rewrite (vaf_e_table _ m x L), (validate_e_table _ x L). apply validate_flag. eapply sb_agree. exact L.
  Qed.

  Lemma sb_unchanged k m x : D.lookup name = Some (D.V_sb k) -> ve x = true -> fe m x = x.
  Proof.
    intros L V. rewrite (filter_e_table _ m x L). rewrite (validate_e_table _ x L) in V.
    eapply valid_unchanged_l; [eapply sb_agree; exact L|exact V].
  Qed.

  Lemma sb_filter_validates k m x : D.lookup name = Some (D.V_sb k) -> P3.sb_repl_ok k repl ->
    (m = EscapeInvalid -> Proofs9.esc_entities_ok entity_ok) -> ve (fe m x) = true.
  Proof.
    intros L R He. rewrite (filter_e_table _ m x L), (validate_e_table _ _ L).
    apply filter_validates_l; [exact kind_ok|exact He|eapply sb_agree; exact L|eapply sb_vof_valid; eassumption|].
    intros _. eapply sb_named_compatible. exact L.
  Qed.

  Lemma sb_filter_wellformed k m x : D.lookup name = Some (D.V_sb k) -> P3.sb_repl_ok k repl ->
    (m = EscapeInvalid -> Proofs9.esc_entities_ok entity_ok) -> D.sb_valid k (fe m x) = true.
  Proof. intros L R He. eapply sb_validate_wellformed; [exact L|]. eapply sb_filter_validates; eassumption. Qed.

  (* ---- a name without a built-in validator: converted to UTF-8, validated as UTF-8 ---- *)
  Lemma conv_work_valid u : D.lookup name = None -> work_valid name u = D.validate true u.
  Proof. intros L. unfold work_valid, named_compat. rewrite L. apply named_valid_utf8. exact utf8_literal_lookup. Qed.

  Lemma conv_validate_wellformed x : name <> [] -> D.lookup name = None -> ve x = true ->
    exists u, tus x = Some u /\ WFH u.
  Proof.
    intros Ne L V. unfold validate_e in V.
    apply validate_encoding_x in V.
    - destruct V as (u & Eu & Vu). exists u. split; [exact Eu|]. rewrite (conv_work_valid u L) in Vu.
      apply P3.WFH_iff in Vu. exact Vu.
    - destruct name; [contradiction|reflexivity].
    - unfold named_compat. rewrite L. reflexivity.
  Qed.

  Lemma conv_flag m x : D.lookup name = None -> fst (vfe m x) = ve x.
  Proof.
    intros L. unfold validate_and_filter_e, validate_e. apply validate_flag_x.
    unfold work_valid, work_vof, named_compat. rewrite L. apply utf8_agree. exact utf8_literal_lookup.
  Qed.

  Lemma conv_unchanged m x : D.lookup name = None -> ve x = true -> fe m x = x.
  Proof.
    intros L V. unfold filter_e, validate_and_filter_e. unfold validate_e in V.
    eapply (valid_unchanged_x _ _ _ _ _ _ _ _ _ (work_valid name)); [|exact V].
    unfold work_valid, work_vof, named_compat. rewrite L. apply utf8_agree. exact utf8_literal_lookup.
  Qed.

  Lemma conv_filter_validates m x : D.lookup name = None ->
    (m = EscapeInvalid -> Proofs9.esc_entities_ok entity_ok) ->
    conv_roundtrip (D.validate true) tus fus -> ve (fe m x) = true.
  Proof.
    intros L He [RT RN]. unfold filter_e, validate_and_filter_e, validate_e.
    apply (filter_validates_x _ _ _ _ _ _ _ _ _ (work_valid name)).
    - unfold work_valid, work_vof, named_compat. rewrite L. apply utf8_agree. exact utf8_literal_lookup.
    - exact kind_ok.
    - exact He.
    - unfold work_valid, work_vof, named_compat. rewrite L. apply utf8_vof_valid; [exact utf8_literal_lookup|left; reflexivity].
    - intros _. unfold work_valid, named_compat. rewrite L. apply utf8_named_compatible. exact utf8_literal_lookup.
    - split; [|exact RN]. intros o z Vo Fz. apply RT; [|exact Fz]. rewrite <- (conv_work_valid o L). exact Vo.
  Qed.
End Named.

(* ---------- 6. what WFH says, in the words of RFC 3629 section 3 ---------- *)
Lemma flat_map_encode cps : flat_map D.encode cps = flat_map S.rfc_encode cps.
Proof. induction cps as [|c cps IH]; [reflexivity|]. cbn [flat_map]. rewrite IH, P.encode_is_rfc_encode. reflexivity. Qed.

Lemma WFH_rfc3629 x : WFH x <->
  exists cps, Forall S.scalar cps /\ Forall S.html_safe cps /\ x = flat_map S.rfc_encode cps.
Proof.
  unfold WFH. split.
  - intros (cps & W & F). exists cps. apply P2.WF_iff_encode in W. destruct W as [Sc E].
    split; [exact Sc|split; [exact F|]]. rewrite <- flat_map_encode. exact E.
  - intros (cps & Sc & F & E). exists cps. split; [|exact F]. apply P2.WF_iff_encode. split; [exact Sc|].
    rewrite flat_map_encode. exact E.
Qed.

(* ---------- 7. what the byte tables refuse: the control characters ---------- *)
Definition iso_kind (k : D.sbkind) : bool :=
  match k with D.SB_iso | D.SB_iso3 | D.SB_iso6 | D.SB_iso7 | D.SB_iso8 | D.SB_iso11 => true | _ => false end.
Definition sb_control_rule (k : D.sbkind) (b : N) : bool :=
  negb (D.byte_ok k b) ||
  (((32 <=? b) || (b =? 9) || (b =? 10) || (b =? 13)) && negb (b =? 127) &&
   (if iso_kind k then negb ((128 <=? b) && (b <=? 159)) else true) &&
   (match k with D.SB_ascii => b <? 127 | _ => true end)).
Lemma sb_control_rule_all : forallb (fun k => forallb (sb_control_rule k) bytesN) all_kinds = true.
Proof. vm_compute. reflexivity. Qed.

Lemma sb_no_controls k b : b < 256 -> D.byte_ok k b = true ->
  (32 <= b \/ b = 9 \/ b = 10 \/ b = 13) /\ b <> 127 /\ (iso_kind k = true -> ~ (128 <= b <= 159)) /\ (k = D.SB_ascii -> b < 127).
Proof.
  intros Hb Ok. pose proof sb_control_rule_all as A. rewrite forallb_forall in A. specialize (A k (all_kinds_complete k)).
  pose proof (sweep256 _ A b Hb) as R. unfold sb_control_rule in R. rewrite Ok in R. cbn [negb orb] in R.
  apply andb_true_iff in R. destruct R as [R R4]. apply andb_true_iff in R. destruct R as [R R3].
  apply andb_true_iff in R. destruct R as [R1 R2]. apply negb_true_iff in R2. apply N.eqb_neq in R2.
  split; [|split; [exact R2|split]].
  - repeat (apply orb_true_iff in R1; destruct R1 as [R1|R1]); [apply N.leb_le in R1|apply N.eqb_eq in R1..]; lia.
  - intros Ik. rewrite Ik in R3. apply negb_true_iff in R3. intros [H1 H2].
    apply andb_false_iff in R3. destruct R3 as [R3|R3]; [apply N.leb_gt in R3|apply N.leb_gt in R3]; lia.
  - intros ->. apply N.ltb_lt in R4. exact R4.
Qed.

Lemma sb_valid_no_controls k x : bytes_ok x -> D.sb_valid k x = true ->
  Forall (fun b => (32 <= b \/ b = 9 \/ b = 10 \/ b = 13) /\ b <> 127 /\ (iso_kind k = true -> ~ (128 <= b <= 159)) /\
                   (k = D.SB_ascii -> b < 127)) x.
Proof.
  unfold D.sb_valid. intros Hb V. rewrite forallb_forall in V. apply Forall_forall. intros b I.
  apply sb_no_controls; [|apply V; exact I]. unfold bytes_ok in Hb. rewrite Forall_forall in Hb. apply Hb. exact I.
Qed.

(* ---------- 8. the table look-up done once: validate_sel / validate_and_filter_sel (what the extracted driver runs) ---------- *)
Lemma named_valid_sel name v x : D.lookup name = Some v -> named_valid name x = sel_valid v x.
Proof. intros L. unfold named_valid, D.valid_named, sel_valid. rewrite L. destruct (D.tester v x 0) as [[ok n]|]; reflexivity. Qed.

Lemma named_vof_sel name v repl x : D.lookup name = Some v -> named_vof name repl x = sel_vof v repl x.
Proof.
  intros L. destruct v as [|k].
  - rewrite (named_vof_utf8 name repl x L). reflexivity.
  - rewrite (named_vof_sb name k repl x L). reflexivity.
Qed.

Section Sel.
  Variable xhtml comments numeric : bool.
  Variable tag_kind : list N -> tkind.
  Variable entity_ok : list N -> bool.
  Variable bool_ok : list N -> list N -> bool.
  Variable val_ok : list N -> list N -> list N -> bool.

  Notation v0 := (validate xhtml comments numeric tag_kind entity_ok bool_ok val_ok).
  Notation vf0 := (validate_and_filter xhtml comments numeric tag_kind entity_ok bool_ok val_ok).
  Notation vx := (validate_x xhtml comments numeric tag_kind entity_ok bool_ok val_ok).
  Notation vfx := (validate_and_filter_x xhtml comments numeric tag_kind entity_ok bool_ok val_ok).

  (* the entry points ask the validators about finitely many texts; equal answers give equal results *)
  Lemma validate_ext he ev ev' x : (forall u, ev u = ev' u) -> v0 he ev x = v0 he ev' x.
  Proof. intros E. unfold validate. rewrite E. reflexivity. Qed.
  Lemma vaf_ext he eo eo' m x : (forall u, eo u = eo' u) -> vf0 he eo m x = vf0 he eo' m x.
  Proof. intros E. unfold validate_and_filter. rewrite E. reflexivity. Qed.
  Lemma validate_x_ext he ac ev ev' tus x : (forall u, ev u = ev' u) -> vx he ac ev tus x = vx he ac ev' tus x.
  Proof.
    intros E. unfold validate_x. destruct (he && negb ac).
    - destruct (tus x) as [u|]; [rewrite E|]; reflexivity.
    - apply validate_ext. exact E.
  Qed.
  Lemma vaf_x_ext he ac eo eo' tus tusk fus m x : (forall u, eo u = eo' u) ->
    vfx he ac eo tus tusk fus m x = vfx he ac eo' tus tusk fus m x.
  Proof.
    intros E. unfold validate_and_filter_x. destruct (he && negb ac).
    - destruct (tus x) as [u|]; rewrite E; reflexivity.
    - apply vaf_ext. exact E.
  Qed.

  Lemma validate_e_sel name tus x :
    validate_e xhtml comments numeric tag_kind entity_ok bool_ok val_ok name tus x =
    validate_sel xhtml comments numeric tag_kind entity_ok bool_ok val_ok (has_encoding name) (D.lookup name) tus x.
  Proof.
    unfold validate_e, validate_sel, work_valid, named_compat.
    destruct (D.lookup name) as [v|] eqn:L.
    - unfold validate_x. rewrite (lookup_has_encoding name v L). cbn [negb andb].
      apply validate_ext. intros u. apply named_valid_sel. exact L.
    - apply validate_x_ext. intros u. apply named_valid_sel. exact utf8_literal_lookup.
  Qed.

  Lemma validate_and_filter_e_sel name repl tus tusk fus m x :
    validate_and_filter_e xhtml comments numeric tag_kind entity_ok bool_ok val_ok name repl tus tusk fus m x =
    validate_and_filter_sel xhtml comments numeric tag_kind entity_ok bool_ok val_ok (has_encoding name) (D.lookup name)
                            repl tus tusk fus m x.
  Proof.
    unfold validate_and_filter_e, validate_and_filter_sel, work_vof, named_compat.
    destruct (D.lookup name) as [v|] eqn:L.
    - unfold validate_and_filter_x. rewrite (lookup_has_encoding name v L). cbn [negb andb].
      apply vaf_ext. intros u. apply named_vof_sel. exact L.
    - apply vaf_x_ext. intros u. apply named_vof_sel. exact utf8_literal_lookup.
  Qed.
End Sel.
