(* C04 proofs, part 7: the opening and closing tags that survive the first run of the filter (pass
   validate_entry_by_rules together with their partner), read back as freshly parsed entries, form
   a well-nested sequence (wf). *)
From CppcmsV Require Import Base.Tac Base.Sweep C04.Defs C04.Proofs1 C04.Proofs2 C04.Proofs6.
Local Open Scope N_scope.

Section Run1.
  Variable xhtml comments numeric : bool.
  Variable tag_kind : list N -> tkind.
  Variable entity_ok : list N -> bool.
  Variable bool_ok : list N -> list N -> bool.
  Variable val_ok : list N -> list N -> list N -> bool.
  Notation rules_ok := (rules_ok xhtml comments numeric tag_kind entity_ok bool_ok val_ok).
  Notation rules_ok3 := (rules_ok3 xhtml comments numeric tag_kind entity_ok bool_ok val_ok).
  Notation pair_ok := (pair_ok xhtml comments numeric tag_kind entity_ok bool_ok val_ok).
  Notation props_ok := (props_ok xhtml bool_ok val_ok).
  Notation wf := (wf xhtml tag_kind bool_ok val_ok).

  (* the entry is written to the output unchanged *)
  Definition surv (n : entry) : bool := rules_ok n && pair_ok n.
  Definition is_tagt (t : etype) : bool :=
    match t with Open | Close | OpenNoSlash => true | _ => false end.
  (* what parse_part gives for the text of a surviving entry *)
  Definition orig (n : entry) : entry :=
    mkE (e_text n) (match e_type n with OpenNoSlash => Open | t => t end) (e_name n) (e_props n) None.
  Definition tsel (n : entry) : bool := surv n && is_tagt (e_type n).
  Definition tagsurv (l : list entry) : list entry := map orig (List.filter tsel l).

  Lemma tagsurv_app a b : tagsurv (a ++ b) = tagsurv a ++ tagsurv b.
  Proof. unfold tagsurv. rewrite filter_app, map_app. reflexivity. Qed.

  Lemma tagsurv_invalid e : tagsurv [with_type Invalid e] = [].
  Proof. reflexivity. Qed.

  Lemma wf_ons o l : e_type o = Open -> e_pair o = None -> xhtml = false -> wf l ->
    wf (tagsurv [with_type OpenNoSlash o] ++ l).
  Proof.
    intros Ht Hp Hx Hl. unfold tagsurv. cbn [List.filter]. destruct (tsel (with_type OpenNoSlash o)) eqn:Es; [|exact Hl].
    cbn [map app]. assert (Ho : orig (with_type OpenNoSlash o) = o).
    { destruct o as [tx ty nm ps pr]. cbn in *. subst. reflexivity. }
    rewrite Ho. apply wf_leaf; [exact Hx| |exact Hl].
    unfold tsel, surv in Es. apply andb_true_iff in Es. destruct Es as [Es _]. apply andb_true_iff in Es.
    destruct Es as [Er _]. unfold Defs.rules_ok in Er. cbn [with_type e_type e_name e_props Defs.rules_ok3] in Er.
    unfold loose, open_ok. destruct (tag_kind (e_name o)); cbn [etype_eqb orb] in Er; try discriminate.
    - split; [split; [exact Ht|exact Er]|left; reflexivity].
    - split; [split; [exact Ht|exact Er]|right; reflexivity].
  Qed.

  Lemma wf_pair o c kids : e_type o = Open -> e_pair o = None -> e_type c = Close -> e_pair c = None ->
    name_eq xhtml (e_name o) (e_name c) = true -> wf kids ->
    wf (tagsurv [paired o c] ++ kids ++ tagsurv [paired c o]).
  Proof.
    intros Hto Hpo Htc Hpc Hne Hk.
    assert (Eo : tsel (paired o c) = rules_ok o && rules_ok c).
    { unfold tsel, surv, Defs.rules_ok, Defs.pair_ok, paired, info. cbn [e_type e_name e_props e_pair].
      rewrite Hto. cbn [is_tagt]. rewrite andb_true_r. reflexivity. }
    assert (Ec : tsel (paired c o) = rules_ok c && rules_ok o).
    { unfold tsel, surv, Defs.rules_ok, Defs.pair_ok, paired, info. cbn [e_type e_name e_props e_pair].
      rewrite Htc. cbn [is_tagt]. rewrite andb_true_r. reflexivity. }
    unfold tagsurv. cbn [List.filter]. rewrite Eo, Ec. rewrite (andb_comm (rules_ok c)).
    destruct (rules_ok o) eqn:Ro; [destruct (rules_ok c) eqn:Rc|]; cbn [andb map app];
      try (rewrite app_nil_r; exact Hk).
    assert (Ho : orig (paired o c) = o) by (destruct o as [tx ty nm ps pr]; cbn in *; subst; reflexivity).
    assert (Hc : orig (paired c o) = c) by (destruct c as [tx ty nm ps pr]; cbn in *; subst; reflexivity).
    rewrite Ho, Hc. apply wf_node; [|exact Hk|constructor].
    unfold Defs.rules_ok in Ro, Rc. rewrite Hto in Ro. rewrite Htc in Rc. cbn [Defs.rules_ok3] in Ro, Rc.
    unfold node_ok, open_ok.
    destruct (tag_kind (e_name o)) eqn:Ko; cbn [etype_eqb orb] in Ro; try discriminate;
      destruct (tag_kind (e_name c)) eqn:Kc; cbn [etype_eqb orb] in Rc; try discriminate;
      repeat split; try assumption; try (left; reflexivity); try (right; reflexivity).
  Qed.

  Definition finv (f : frame) : Prop :=
    e_type (fst f) = Open /\ e_pair (fst f) = None /\ wf (tagsurv (rev (snd f))).
  Definition tin (e : entry) : Prop := e_pair e = None /\ e_type e <> OpenNoSlash.

  Lemma emit_to_inv items fs base :
    wf (tagsurv (rev items)) -> Forall finv fs -> wf (tagsurv (rev base)) ->
    Forall finv (fst (emit_to items fs base)) /\ wf (tagsurv (rev (snd (emit_to items fs base)))).
  Proof.
    intros Hi Hf Hb. destruct Hf as [|[o its] fs (Ht & Hp & Hw) Hf]; cbn [emit_to fst snd].
    - split; [constructor|]. rewrite rev_app_distr, tagsurv_app. apply wf_app; assumption.
    - split; [|exact Hb]. constructor; [|exact Hf]. cbn [fst snd] in *. repeat split; try assumption.
      cbn [snd]. rewrite rev_app_distr, tagsurv_app. apply wf_app; assumption.
  Qed.

  Lemma rev_snoc (l : list entry) b : rev (l ++ [b]) = b :: rev l.
  Proof. rewrite rev_app_distr. reflexivity. Qed.

  Lemma xhtml_close_inv cur fs base : xhtml = true -> e_type cur = Close -> e_pair cur = None ->
    Forall finv fs -> wf (tagsurv (rev base)) ->
    Forall finv (fst (xhtml_close cur fs base)) /\ wf (tagsurv (rev (snd (xhtml_close cur fs base)))).
  Proof.
    intros Hx Ht Hp Hf Hb. destruct Hf as [|[o its] fs (Hto & Hpo & Hw) Hf]; cbn [xhtml_close].
    - cbn [fst snd rev]. split; [constructor|]. rewrite tagsurv_app, tagsurv_invalid, app_nil_r. exact Hb.
    - cbn [fst snd] in *. destruct (name_eq true (e_name o) (e_name cur)) eqn:En.
      + apply emit_to_inv; [|exact Hf|exact Hb]. cbn [rev]. rewrite rev_snoc. cbn [app].
        change (paired o cur :: rev its ++ [paired cur o]) with ([paired o cur] ++ rev its ++ [paired cur o]).
        rewrite !tagsurv_app. apply wf_pair; try assumption. rewrite Hx. exact En.
      + apply emit_to_inv; [|exact Hf|exact Hb]. cbn [rev]. rewrite rev_snoc. cbn [app].
        change (with_type Invalid o :: rev its ++ [with_type Invalid cur])
          with ([with_type Invalid o] ++ rev its ++ [with_type Invalid cur]).
        rewrite !tagsurv_app, !tagsurv_invalid, app_nil_r. exact Hw.
  Qed.

  Lemma html_close_inv cur : xhtml = false -> e_type cur = Close -> e_pair cur = None ->
    forall fs popped base, Forall finv fs -> wf (tagsurv (rev popped)) -> wf (tagsurv (rev base)) ->
    Forall finv (fst (html_close cur fs popped base)) /\ wf (tagsurv (rev (snd (html_close cur fs popped base)))).
  Proof.
    intros Hx Ht Hp fs. induction fs as [|[o its] fs IH]; intros popped base Hf Hpo Hb; cbn [html_close].
    - cbn [fst snd rev]. split; [constructor|]. rewrite tagsurv_app, tagsurv_invalid, app_nil_r.
      rewrite rev_app_distr, tagsurv_app. apply wf_app; assumption.
    - inversion Hf as [|f fs' (Hto & Hpo' & Hw) Hf']; subst. cbn [fst snd] in *.
      destruct (name_eq false (e_name o) (e_name cur)) eqn:En.
      + apply emit_to_inv; [|exact Hf'|exact Hb]. cbn [rev]. rewrite rev_app_distr, rev_snoc.
        change ((paired o cur :: rev its) ++ rev popped) with ([paired o cur] ++ rev its ++ rev popped).
        rewrite <- !app_assoc. rewrite tagsurv_app. rewrite (tagsurv_app (rev its)). rewrite (tagsurv_app (rev popped)).
        rewrite (app_assoc (tagsurv (rev its))).
        apply wf_pair; try assumption; [rewrite Hx; exact En|]. apply wf_app; assumption.
      + apply IH; [exact Hf'| |exact Hb]. rewrite rev_app_distr, rev_snoc.
        change ((with_type OpenNoSlash o :: rev its) ++ rev popped) with ([with_type OpenNoSlash o] ++ rev its ++ rev popped).
        rewrite tagsurv_app. apply wf_ons; try assumption. rewrite tagsurv_app. apply wf_app; assumption.
  Qed.

  Lemma flush_inv t : t = Invalid \/ (t = OpenNoSlash /\ xhtml = false) ->
    forall fs acc, Forall finv fs -> wf (tagsurv (rev acc)) -> wf (tagsurv (rev (flush t fs acc))).
  Proof.
    intros Ht fs. induction fs as [|[o its] fs IH]; intros acc Hf Ha; cbn [flush]; [exact Ha|].
    inversion Hf as [|f fs' (Hto & Hpo & Hw) Hf']; subst. cbn [fst snd] in *.
    apply IH; [exact Hf'|]. rewrite rev_app_distr, rev_snoc.
    change ((with_type t o :: rev its) ++ rev acc) with ([with_type t o] ++ rev its ++ rev acc).
    rewrite tagsurv_app. destruct Ht as [Ht|[Ht Hx]]; subst t.
    - rewrite tagsurv_invalid. cbn [app]. rewrite tagsurv_app. apply wf_app; assumption.
    - apply wf_ons; try assumption. rewrite tagsurv_app. apply wf_app; assumption.
  Qed.

  Lemma nest_loop_inv : forall todo fs base, Forall tin todo -> Forall finv fs -> wf (tagsurv (rev base)) ->
    wf (tagsurv (nest_loop xhtml todo fs base)).
  Proof.
    induction todo as [|cur todo IH]; intros fs base Ht Hf Hb.
    - cbn [nest_loop]. rewrite rev_app_distr, tagsurv_app. apply wf_app; [exact Hb|].
      apply flush_inv; [|exact Hf|constructor].
      destruct (Bool.bool_dec xhtml true) as [Ex|Ex]; [left; rewrite Ex; reflexivity|].
      apply not_true_is_false in Ex. right. split; [rewrite Ex; reflexivity|exact Ex].
    - inversion Ht as [|c t' [Hp Hns] Ht']; subst.
      assert (Hother : is_tagt (e_type cur) = false ->
                wf (tagsurv (let (fs', base') := emit_to [cur] fs base in nest_loop xhtml todo fs' base'))).
      { intros Hnt. assert (Hi : wf (tagsurv (rev [cur]))).
        { cbn [rev app]. unfold tagsurv, tsel. cbn [List.filter]. rewrite Hnt, andb_false_r. constructor. }
        destruct (emit_to_inv [cur] fs base Hi Hf Hb) as [H1 H2].
        destruct (emit_to [cur] fs base) as [fs' base']. apply IH; assumption. }
      cbn [nest_loop]. destruct (e_type cur) eqn:Et; try (apply Hother; reflexivity).
      + apply IH; [exact Ht'| |exact Hb]. constructor; [|exact Hf]. cbn [fst snd rev]. repeat split; try assumption. constructor.
      + destruct (Bool.bool_dec xhtml true) as [Ex|Ex].
        * replace (if xhtml then xhtml_close cur fs base else html_close cur fs [] base)
            with (xhtml_close cur fs base) by (rewrite Ex; reflexivity).
          destruct (xhtml_close_inv cur fs base Ex Et Hp Hf Hb) as [H1 H2].
          destruct (xhtml_close cur fs base) as [fs' base']. apply IH; assumption.
        * apply not_true_is_false in Ex.
          replace (if xhtml then xhtml_close cur fs base else html_close cur fs [] base)
            with (html_close cur fs [] base) by (rewrite Ex; reflexivity).
          assert (Hnil : wf (tagsurv (rev []))) by constructor.
          destruct (html_close_inv cur Ex Et Hp fs [] base Hf Hnil Hb) as [H1 H2].
          destruct (html_close cur fs [] base) as [fs' base']. apply IH; assumption.
      + congruence.
  Qed.

  Lemma nest_tagsurv_wf es : Forall tin es -> wf (tagsurv (nest xhtml es)).
  Proof. intros H. apply nest_loop_inv; [exact H|constructor|constructor]. Qed.
End Run1.
