(* C04: executable model, the encoding layer made concrete.  In Defs.v / DefsX.v the functions enc_valid / enc_vof
   (cppcms::encoding::valid / validate_or_filter) are parameters; here they are the model of these functions that
   property C14 owns (coq/C14/Defs.v, imported read-only: utf8::next / validate over utf::valid, is_trail, trail_length,
   width; the single byte validators of private/encoding_validators.h; the validators_set table and the name
   comparator of src/encoding.cpp), selected by the encoding NAME the rule set carries, exactly as
   xss::validate / validate_and_filter_if_invalid do:
     enc.empty()                          no encoding layer
     encoding::is_ascii_compatible(enc)   (= the name is in the validators_set table) valid(enc,.) / validate_or_filter(enc,.,repl)
     otherwise                            conv::to_utf, then valid("UTF-8",.) / validate_or_filter("UTF-8",.,0), conv::from_utf
   Only the iconv conversions of the third case stay abstract.  No proofs here. *)
From Coq Require Import NArith ZArith List Bool.
From CppcmsV Require Import C04.Defs C04.DefsX.
From CppcmsV Require C14.Defs.
Import ListNotations.
Local Open Scope N_scope.

(* !rules::encoding().empty() *)
Definition has_encoding (name : list N) : bool := match name with [] => false | _ :: _ => true end.
(* encoding::is_ascii_compatible(name): all_validators.get(name) != 0 *)
Definition named_compat (name : list N) : bool :=
  match C14.Defs.lookup name with Some _ => true | None => false end.
(* encoding::valid(name, begin, end, count) for a name with a built-in validator (count starts at 0, result only) *)
Definition named_valid (name x : list N) : bool :=
  match C14.Defs.valid_named name x 0 with C14.Defs.NRes ok _ => ok | _ => false end.
(* encoding::validate_or_filter(name, begin, end, output, repl): None = returned true, Some y = returned false with output y *)
Definition named_vof (name : list N) (repl : N) (x : list N) : option (list N) :=
  match C14.Defs.validate_or_filter name repl x with C14.Defs.FFiltered o => Some o | _ => None end.

(* the literal "UTF-8" that xss.cpp passes in the conversion path *)
Definition utf8_literal : list N := [85;84;70;45;56].

(* the encoding the tokeniser input is validated in, and the replacement character in force *)
Definition work_valid (name : list N) : list N -> bool :=
  if named_compat name then named_valid name else named_valid utf8_literal.
Definition work_vof (name : list N) (repl : N) : list N -> option (list N) :=
  if named_compat name then named_vof name repl else named_vof utf8_literal 0.

Section RulesE.
  Variable xhtml comments numeric : bool.
  Variable tag_kind : list N -> tkind.
  Variable entity_ok : list N -> bool.
  Variable bool_ok : list N -> list N -> bool.
  Variable val_ok : list N -> list N -> list N -> bool.
  Variable name : list N.                              (* rules::encoding() *)
  Variable repl : N.                                   (* repl_ch *)
  Variable to_utf_stop : list N -> option (list N).    (* conversions: only asked when the name has no built-in validator *)
  Variable to_utf_skip : list N -> list N.
  Variable from_utf_stop : list N -> option (list N).

  (* xss::validate(begin,end,rules) *)
  Definition validate_e : list N -> bool :=
    validate_x xhtml comments numeric tag_kind entity_ok bool_ok val_ok
               (has_encoding name) (named_compat name) (work_valid name) to_utf_stop.
  (* xss::validate_and_filter_if_invalid (flag, what filter() returns) *)
  Definition validate_and_filter_e : fmethod -> list N -> bool * list N :=
    validate_and_filter_x xhtml comments numeric tag_kind entity_ok bool_ok val_ok
               (has_encoding name) (named_compat name) (work_vof name repl) to_utf_stop to_utf_skip from_utf_stop.
  Definition filter_e (m : fmethod) (x : list N) : list N := snd (validate_and_filter_e m x).
End RulesE.

(* ---- the same entry points with the table look-up done once.  xss.cpp / encoding.cpp look the name up again in every call
   (is_ascii_compatible, valid, validate_or_filter); the look-up is a pure function of the name, so the verdicts depend on the
   name only through has_encoding name and D.lookup name.  ProofsE.v proves validate_e = validate_sel and
   validate_and_filter_e = validate_and_filter_sel at these two values; the extracted driver runs the _sel forms. ---- *)
Definition sel_valid (v : C14.Defs.validator) (x : list N) : bool :=
  match C14.Defs.tester v x 0 with Some (ok, _) => ok | None => false end.
Definition sel_vof (v : C14.Defs.validator) (repl : N) (x : list N) : option (list N) :=
  match (match v with C14.Defs.V_utf8 => C14.Defs.vof_utf8 repl x | C14.Defs.V_sb _ => C14.Defs.vof_sb v repl x end) with
  | C14.Defs.FFiltered o => Some o
  | _ => None
  end.

Section RulesSel.
  Variable xhtml comments numeric : bool.
  Variable tag_kind : list N -> tkind.
  Variable entity_ok : list N -> bool.
  Variable bool_ok : list N -> list N -> bool.
  Variable val_ok : list N -> list N -> list N -> bool.
  Variable has_enc : bool.
  Variable sel : option C14.Defs.validator.
  Variable repl : N.
  Variable to_utf_stop : list N -> option (list N).
  Variable to_utf_skip : list N -> list N.
  Variable from_utf_stop : list N -> option (list N).

  Definition validate_sel : list N -> bool :=
    match sel with
    | Some v => validate xhtml comments numeric tag_kind entity_ok bool_ok val_ok has_enc (sel_valid v)
    | None => validate_x xhtml comments numeric tag_kind entity_ok bool_ok val_ok has_enc false
                         (sel_valid C14.Defs.V_utf8) to_utf_stop
    end.
  Definition validate_and_filter_sel : fmethod -> list N -> bool * list N :=
    match sel with
    | Some v => validate_and_filter xhtml comments numeric tag_kind entity_ok bool_ok val_ok has_enc (sel_vof v repl)
    | None => validate_and_filter_x xhtml comments numeric tag_kind entity_ok bool_ok val_ok has_enc false
                         (sel_vof C14.Defs.V_utf8 0) to_utf_stop to_utf_skip from_utf_stop
    end.
End RulesSel.

Section ConcreteE.
  Variable r : crules.
  Variable vfun : N -> list N -> bool.
  Definition c_validate_e :=
    validate_e (c_xhtml r) (c_comments r) (c_numeric r) (c_tag_kind r) (c_entity_ok r) (c_bool_ok r) (c_val_ok r vfun).
  Definition c_validate_and_filter_e :=
    validate_and_filter_e (c_xhtml r) (c_comments r) (c_numeric r) (c_tag_kind r) (c_entity_ok r) (c_bool_ok r) (c_val_ok r vfun).
  Definition c_validate_sel :=
    validate_sel (c_xhtml r) (c_comments r) (c_numeric r) (c_tag_kind r) (c_entity_ok r) (c_bool_ok r) (c_val_ok r vfun).
  Definition c_validate_and_filter_sel :=
    validate_and_filter_sel (c_xhtml r) (c_comments r) (c_numeric r) (c_tag_kind r) (c_entity_ok r) (c_bool_ok r) (c_val_ok r vfun).
End ConcreteE.
