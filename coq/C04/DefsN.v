(* C04: the digit string -> number conversion of parse_html_entity (src/xss.cpp), modelled as the code does it:
     long code_point = strtol(begin,&endptr,16 or 10);     (LinkR.v ties this text: the type long, strtol, the bases)
   and then the range test on the long.  At this point the text between "&#" / "&#x" and the final ';' is a non-empty
   string of digits of the base (checked by the loops before), so strtol reads all of it (endptr points at the ';') and
   returns its value, or LONG_MAX (errno = ERANGE) when the value does not fit a long - strtol saturates, it does not
   wrap.  long is 64 bits on the target (x86-64, LP64; clang reports the same).  Defs.v:parse_entity tests the
   mathematical value of the digit string (num_val, unbounded); ProofsN.v proves that the two agree on every text.
   No proofs here. *)
From Coq Require Import NArith List Bool.
From CppcmsV Require Import C04.Defs.
Import ListNotations.
Local Open Scope N_scope.

Definition LONG_MAX : N := 9223372036854775807.          (* 2^63 - 1 *)
(* strtol on a string of digits of the base: the value, saturated *)
Definition strtol_sat (base : N) (ds : list N) : N := N.min (num_val base ds) LONG_MAX.

(* parse_html_entity with the conversion as the code performs it *)
Definition parse_entity_c (text : list N) : etype * list N :=
  let body := removelast (tl text) in
  match body with
  | [] => (Invalid, [])
  | c :: r =>
      if c =? 35 then
        match r with
        | [] => (Invalid, [])
        | d :: r2 =>
            if (d =? 120) || (d =? 88) then
              match r2 with
              | [] => (Invalid, [])
              | _ :: _ => if forallb is_xdigit r2 && cp_ok (strtol_sat 16 r2) then (NumEntity, [])
                          else (Invalid, [])
              end
            else if forallb is_digit r && cp_ok (strtol_sat 10 r) then (NumEntity, [])
            else (Invalid, [])
        end
      else if forallb is_alnum body then (Entity, body) else (Invalid, [])
  end.

(* what a 32 bit variable would hold (the defect class the rigid tie and the generators guard against): for the examples only *)
Definition as_int32 (v : N) : N := v mod 4294967296.
