(* C04 proofs, part 9: stability.  The text written by the filter passes validation under the same
   rules (remove_invalid and escape_invalid, xhtml and html). *)
From CppcmsV Require Import Base.Tac Base.Sweep C04.Defs C04.Proofs1 C04.Proofs2 C04.Proofs3 C04.Proofs4
  C04.Proofs5 C04.Proofs6 C04.Proofs7 C04.Proofs8.
Local Open Scope N_scope.

(* ---------- facts about parse_part that do not depend on the rules ---------- *)
Lemma parse_part_pair raw : e_pair (parse_part raw) = None.
Proof.
  destruct raw as [ty text]. unfold parse_part. destruct ty; try reflexivity.
  - destruct (parse_entity text). reflexivity.
  - destruct (parse_tag text) as [[t nm] ps]. reflexivity.
Qed.

Lemma parse_entity_type text : fst (parse_entity text) <> OpenNoSlash.
Proof.
  unfold parse_entity. cbv zeta.
  repeat match goal with |- context [match ?x with _ => _ end] => destruct x end; cbn [fst]; discriminate.
Qed.
Lemma parse_tag_type text : fst (fst (parse_tag text)) <> OpenNoSlash.
Proof.
  unfold parse_tag. cbv zeta.
  repeat match goal with |- context [match ?x with _ => _ end] => destruct x end; cbn [fst]; discriminate.
Qed.
Lemma parse_part_not_ons raw : tok_form (fst raw) (snd raw) -> e_type (parse_part raw) <> OpenNoSlash.
Proof.
  destruct raw as [ty text]. unfold parse_part. cbn [fst snd]. intros Hf.
  destruct ty; cbn [e_type]; try discriminate; try contradiction.
  - pose proof (parse_entity_type text) as H. destruct (parse_entity text) as [t nm]. exact H.
  - pose proof (parse_tag_type text) as H. destruct (parse_tag text) as [[t nm] ps]. exact H.
Qed.

(* the tokens written for an invalid part in escape mode *)
Definition esc_tok (c : N) : token :=
  if c =? 60 then (Entity, [38;108;116;59])
  else if c =? 62 then (Entity, [38;103;116;59])
  else if c =? 38 then (Entity, [38;97;109;112;59])
  else if c =? 34 then (Entity, [38;113;117;111;116;59])
  else (Plain, [c]).

Lemma esc_tok_text c : snd (esc_tok c) = esc4 c.
Proof.
  unfold esc_tok, esc4. destruct (c =? 60); [reflexivity|]. destruct (c =? 62); [reflexivity|].
  destruct (c =? 38); [reflexivity|]. destruct (c =? 34); reflexivity.
Qed.
Lemma esc_toks_text t : concat (map snd (map esc_tok t)) = escape4 t.
Proof.
  unfold escape4. rewrite flat_map_concat_map, map_map. f_equal. apply map_ext. exact esc_tok_text.
Qed.
Lemma esc_tok_stable c : stable (esc_tok c).
Proof.
  unfold esc_tok.
  destruct (N.eqb_spec c 60); [exists [108;116]; split; [reflexivity|cbn; intuition discriminate]|].
  destruct (N.eqb_spec c 62); [exists [103;116]; split; [reflexivity|cbn; intuition discriminate]|].
  destruct (N.eqb_spec c 38); [exists [97;109;112]; split; [reflexivity|cbn; intuition discriminate]|].
  destruct (N.eqb_spec c 34); [exists [113;117;111;116]; split; [reflexivity|cbn; intuition discriminate]|].
  split; [discriminate|]. cbn [snd existsb]. unfold special.
  repeat match goal with H : _ <> _ |- _ => apply N.eqb_neq in H; rewrite H; clear H end. reflexivity.
Qed.

Section Stable.
  Variable xhtml comments numeric : bool.
  Variable tag_kind : list N -> tkind.
  Variable entity_ok : list N -> bool.
  Variable bool_ok : list N -> list N -> bool.
  Variable val_ok : list N -> list N -> list N -> bool.
  Notation rules_ok := (rules_ok xhtml comments numeric tag_kind entity_ok bool_ok val_ok).
  Notation pair_ok := (pair_ok xhtml comments numeric tag_kind entity_ok bool_ok val_ok).
  Notation inval := (inval xhtml comments numeric tag_kind entity_ok bool_ok val_ok).
  Notation fentries := (filter_entries xhtml comments numeric tag_kind entity_ok bool_ok val_ok).
  Notation vfcore := (vf_core xhtml comments numeric tag_kind entity_ok bool_ok val_ok).
  Notation vcore := (validate_core xhtml comments numeric tag_kind entity_ok bool_ok val_ok).
  Notation surv := (surv xhtml comments numeric tag_kind entity_ok bool_ok val_ok).
  Notation tagsurv := (tagsurv xhtml comments numeric tag_kind entity_ok bool_ok val_ok).
  Notation valid := (valid xhtml comments numeric tag_kind entity_ok bool_ok val_ok).
  Notation wf := (wf xhtml tag_kind bool_ok val_ok).

  Hypothesis Hkind : kind_compat xhtml tag_kind.

  (* the four entities produced by the escaping are allowed (rules::rules() registers them) *)
  Definition esc_entities_ok : Prop :=
    entity_ok [108;116] = true /\ entity_ok [103;116] = true /\
    entity_ok [97;109;112] = true /\ entity_ok [113;117;111;116] = true.

  (* entries that may be deleted without changing the fate of the others: not a tag, valid as they are *)
  Definition P (x : entry) : Prop := e_type x <> Open /\ e_type x <> Close /\ valid x.
  Lemma P_inert x : P x -> e_type x <> Open /\ e_type x <> Close.
  Proof. intros (H1 & H2 & _). split; assumption. Qed.
  Notation sub := (sub P).

  Lemma P_plain q : P (parse_part (Plain, q)).
  Proof. cbn [parse_part]. repeat split; discriminate. Qed.

  Lemma P_esc c : esc_entities_ok -> P (parse_part (esc_tok c)).
  Proof.
    intros (E1 & E2 & E3 & E4). unfold esc_tok.
    destruct (c =? 60); [repeat split; try discriminate; exact E1|].
    destruct (c =? 62); [repeat split; try discriminate; exact E2|].
    destruct (c =? 38); [repeat split; try discriminate; exact E3|].
    destruct (c =? 34); [repeat split; try discriminate; exact E4|].
    apply P_plain.
  Qed.

  (* raw token / nested entry correspondence *)
  Definition R (raw : token) (n : entry) : Prop := tok_form (fst raw) (snd raw) /\ erel (parse_part raw) n.

  Lemma rules_ok_not_invalid n : rules_ok n = true -> is_invalid n = false.
  Proof. unfold Defs.rules_ok, is_invalid. destruct (e_type n); try reflexivity. discriminate. Qed.

  Lemma raw_stable raw n : R raw n -> rules_ok n = true -> stable raw.
  Proof.
    destruct raw as [ty text]. intros [Hform (Htext & Hname & Hprops & Hty)] Hok.
    pose proof (rules_ok_not_invalid n Hok) as Hni. unfold is_invalid in Hni.
    cbn [fst snd] in Hform. unfold stable. cbn [fst snd].
    destruct ty; cbn [tok_form] in Hform; try contradiction.
    - cbn [parse_part e_type] in Hty. apply trel_same in Hty; try discriminate. rewrite Hty in Hni. discriminate.
    - exact Hform.
    - exact Hform.
    - destruct Hform as (pre & Ht & Hn62). subst text.
      pose proof (parse_tag_form pre) as Hpf. cbv zeta in Hpf. unfold parse_part in Hty.
      destruct (parse_tag (60 :: pre ++ [62])) as [[t nm] ps]. cbn [fst snd e_type] in *.
      assert (Hhd : exists p0 pre', pre = p0 :: pre' /\ p0 <> 33).
      { destruct t; try contradiction.
        - apply trel_same in Hty; try discriminate. rewrite Hty in Hni. discriminate.
        - destruct Hpf as ((c0 & rest & Hnm & Hal & _) & seg & _ & Hpre). subst nm pre.
          exists c0, (rest ++ seg). split; [reflexivity|]. intros E. subst c0. discriminate Hal.
        - destruct Hpf as (_ & _ & ws & _ & Hpre). subst pre. exists 47, (nm ++ ws). split; [reflexivity|discriminate].
        - destruct Hpf as ((c0 & rest & Hnm & Hal & _) & seg & _ & Hpre). subst nm pre.
          exists c0, (rest ++ seg ++ [47]). split; [reflexivity|]. intros E. subst c0. discriminate Hal. }
      destruct Hhd as (p0 & pre' & Hp & H33). subst pre. exists p0, pre'. repeat split; assumption.
    - exact Hform.
  Qed.

  Variable m : fmethod.
  Hypothesis Hesc : m = EscapeInvalid -> esc_entities_ok.

  Definition piece (raw : token) (n : entry) : list token :=
    if surv n then [raw]
    else match m with RemoveInvalid => [] | EscapeInvalid => map esc_tok (snd raw) end.
  Fixpoint pieces (raws : list token) (ns : list entry) : list token :=
    match raws, ns with
    | raw :: raws', n :: ns' => piece raw n ++ pieces raws' ns'
    | _, _ => []
    end.

  Lemma piece_text raw n : R raw n -> concat (map snd (piece raw n)) = emit m (inval n).
  Proof.
    intros [_ (Htext & _)]. rewrite parse_part_text in Htext. unfold piece, Proofs7.surv, Defs.inval, emit.
    destruct (rules_ok n) eqn:Er; [destruct (pair_ok n) eqn:Ep|]; cbn [andb].
    - rewrite (rules_ok_not_invalid n Er). cbn [map concat]. rewrite app_nil_r. symmetry. exact Htext.
    - cbn [is_invalid with_type e_type etype_eqb e_text]. destruct m; [reflexivity|]. rewrite esc_toks_text, Htext. reflexivity.
    - cbn [is_invalid with_type e_type etype_eqb e_text]. destruct m; [reflexivity|]. rewrite esc_toks_text, Htext. reflexivity.
  Qed.

  Lemma pieces_text raws ns : Forall2 R raws ns ->
    concat (map snd (pieces raws ns)) = concat (map (emit m) (map inval ns)).
  Proof.
    induction 1 as [|raw n raws ns Hr H IH]; [reflexivity|]. cbn [pieces map concat].
    rewrite map_app, concat_app. f_equal; [apply piece_text; exact Hr|exact IH].
  Qed.

  Lemma surv_rules n : surv n = true -> rules_ok n = true.
  Proof. unfold Proofs7.surv. intros H. apply andb_true_iff in H. tauto. Qed.

  Lemma pieces_stable raws ns : Forall2 R raws ns -> Forall stable (pieces raws ns).
  Proof.
    induction 1 as [|raw n raws ns Hr H IH]; [constructor|]. cbn [pieces]. apply Forall_app. split; [|exact IH].
    unfold piece. destruct (surv n) eqn:Es.
    - constructor; [|constructor]. apply (raw_stable raw n Hr). apply surv_rules. exact Es.
    - destruct m; [constructor|]. apply Forall_forall. intros tk Hin. apply in_map_iff in Hin.
      destruct Hin as (c & Hc & _). subst tk. apply esc_tok_stable.
  Qed.

  (* a surviving entry read back by parse_part *)
  Lemma orig_of_rel raw n : R raw n -> rules_ok n = true ->
    (is_tagt (e_type n) = true -> orig n = parse_part raw) /\
    (is_tagt (e_type n) = false -> P (parse_part raw)).
  Proof.
    intros [Hform (Htext & Hname & Hprops & Hty)] Hok.
    pose proof (rules_ok_not_invalid n Hok) as Hni. unfold is_invalid in Hni.
    pose proof (parse_part_pair raw) as Hpair. pose proof (parse_part_not_ons raw Hform) as Hons.
    set (p := parse_part raw) in *. split; intros Htag.
    - unfold orig. destruct p as [tx ty nm ps pr]. cbn [e_text e_type e_name e_props e_pair] in *. subst.
      f_equal. destruct Hty as [H|[[H [H2|H2]]|[H H2]]].
      + subst ty. destruct (e_type n); try reflexivity. congruence.
      + rewrite H2 in Hni. discriminate.
      + rewrite H2, H. reflexivity.
      + rewrite H2 in Hni. discriminate.
    - assert (Hsame : e_type p = e_type n).
      { destruct Hty as [H|[[H [H2|H2]]|[H H2]]]; [exact H| | |]; rewrite H2 in *; discriminate. }
      unfold P, Proofs6.valid, is_invalid, Defs.rules_ok. rewrite Hsame. unfold Defs.rules_ok in Hok.
      rewrite <- Hname, <- Hprops. rewrite Hni.
      repeat split; try assumption; intros E; rewrite E in Htag; discriminate.
  Qed.

  Lemma tagsurv_cons n ns : tagsurv (n :: ns) = (if tsel xhtml comments numeric tag_kind entity_ok bool_ok val_ok n then [orig n] else []) ++ tagsurv ns.
  Proof.
    unfold Proofs7.tagsurv. cbn [List.filter].
    destruct (tsel xhtml comments numeric tag_kind entity_ok bool_ok val_ok n); reflexivity.
  Qed.

  Lemma pieces_sub raws ns : Forall2 R raws ns -> sub (map parse_part (pieces raws ns)) (tagsurv ns).
  Proof.
    induction 1 as [|raw n raws ns Hr H IH]; [constructor|]. cbn [pieces]. rewrite map_app, tagsurv_cons.
    unfold piece, tsel. destruct (surv n) eqn:Es; cbn [andb].
    - destruct (orig_of_rel raw n Hr (surv_rules n Es)) as [H1 H2].
      destruct (is_tagt (e_type n)) eqn:Et; cbn [map app].
      + rewrite (H1 eq_refl). apply sub_keep. exact IH.
      + apply sub_drop; [exact (H2 eq_refl)|exact IH].
    - cbn [app]. destruct m eqn:Em; [exact IH|]. apply sub_drop_all; [|exact IH].
      apply Forall_forall. intros x Hx. apply in_map_iff in Hx. destruct Hx as (tk & Htk & Hin).
      apply in_map_iff in Hin. destruct Hin as (c & Hc & _). subst tk x. apply P_esc. apply Hesc. reflexivity.
  Qed.

  Lemma sub_norm T : forall K, Forall (fun e => e_type e <> Plain) K ->
    sub (map parse_part T) K -> sub (map parse_part (norm T)) K.
  Proof.
    induction T as [|[ty t] T IH]; intros K HK Hs; [exact Hs|]. cbn [map norm] in *.
    assert (Hnp : ty <> Plain -> sub (map parse_part ((ty, t) :: norm T)) K).
    { intros _. cbn [map]. inversion Hs; subst.
      - apply sub_keep. apply IH; [inversion HK; assumption|assumption].
      - apply sub_drop; [assumption|]. apply IH; assumption. }
    destruct ty; try (apply Hnp; discriminate). clear Hnp.
    inversion Hs as [|x l l' Hs'|x l l' Hx Hs']; subst.
    - inversion HK as [|e K' He HK']; subst. exfalso. apply He. reflexivity.
    - specialize (IH K HK Hs'). unfold plain_cons.
      destruct (norm T) as [|[ty' q] Rst]; [cbn [map]; apply sub_drop; [apply P_plain|exact IH]|].
      assert (Hgen : sub (map parse_part ((Plain, t) :: (ty', q) :: Rst)) K).
      { cbn [map]. apply sub_drop; [apply P_plain|exact IH]. }
      destruct ty'; try exact Hgen. clear Hgen. cbn [map] in *.
      inversion IH as [|x l l' Hs2|x l l' Hx2 Hs2]; subst.
      + inversion HK as [|e K' He HK']; subst. exfalso. apply He. reflexivity.
      + apply sub_drop; [apply P_plain|exact Hs2].
  Qed.

  Lemma tagsurv_types ns : Forall (fun e => e_type e <> Plain) (tagsurv ns).
  Proof.
    unfold Proofs7.tagsurv. apply Forall_forall. intros e He. apply in_map_iff in He.
    destruct He as (n & Hn & Hin). apply filter_In in Hin. destruct Hin as [_ Hsel]. unfold tsel in Hsel.
    apply andb_true_iff in Hsel. destruct Hsel as [_ Ht]. subst e. unfold orig. cbn [e_type].
    destruct (e_type n); try discriminate.
  Qed.

  Lemma Forall2_R y : Forall2 R (split y) (nested xhtml y).
  Proof.
    unfold nested. pose proof (nest_rel xhtml (map parse_part (split y))) as Hrel.
    pose proof (split_forms y) as Hf. revert Hrel Hf. generalize (nest xhtml (map parse_part (split y))).
    induction (split y) as [|raw raws IH]; intros ns Hrel Hf; cbn [map] in Hrel; inversion Hrel; subst; [constructor|].
    inversion Hf; subst. constructor; [split; assumption|]. apply IH; assumption.
  Qed.

  Lemma parsed_tin y : Forall (tin) (map parse_part (split y)).
  Proof.
    apply Forall_forall. intros e He. apply in_map_iff in He. destruct He as (raw & Hr & Hin). subst e.
    split; [apply parse_part_pair|apply parse_part_not_ons].
    pose proof (split_forms y) as Hf. rewrite Forall_forall in Hf. apply Hf. exact Hin.
  Qed.

  (* filter_validates, without the encoding layer *)
  Lemma vf_core_validates y : vcore (snd (vfcore m y)) = true.
  Proof.
    rewrite vf_core_out. unfold filter_entries. cbn [fst]. fold (nested xhtml y).
    pose proof (Forall2_R y) as HR.
    rewrite <- (pieces_text _ _ HR).
    set (T := pieces (split y) (nested xhtml y)).
    pose proof (pieces_stable _ _ HR) as Hst. fold T in Hst.
    unfold validate_core. rewrite (split_stable T Hst).
    (* no invalid raw token *)
    assert (Hv1 : existsb (fun r : token => etype_eqb (fst r) Invalid) (norm T) = false).
    { apply existsb_false_forall. intros tk Hin.
      assert (Hq : Forall (fun tk : token => etype_eqb (fst tk) Invalid = false) (norm T)).
      { apply norm_types; [reflexivity|]. eapply Forall_impl; [|exact Hst]. intros [ty t] Hs.
        unfold stable in Hs. cbn [fst] in *. destruct ty; try reflexivity. contradiction. }
      rewrite Forall_forall in Hq. apply Hq. exact Hin. }
    (* the tags of the second run are the surviving tags of the first; everything else is inert and valid *)
    set (K := tagsurv (nested xhtml y)).
    assert (Hsub : sub (map parse_part (norm T)) K).
    { apply sub_norm; [apply tagsurv_types|]. apply pieces_sub. exact HR. }
    assert (Hwf : wf K) by (apply nest_tagsurv_wf; apply parsed_tin).
    pose proof (nest_wf_valid xhtml comments numeric tag_kind entity_ok bool_ok val_ok Hkind K Hwf) as HvK.
    pose proof (nest_sub P P_inert xhtml _ _ Hsub) as Hsub2.
    assert (Hall : Forall valid (nest xhtml (map parse_part (norm T)))).
    { apply (sub_Forall P valid _ _ Hsub2); [|exact HvK]. intros x (_ & _ & Hx). exact Hx. }
    assert (Hv2 : existsb is_invalid (map parse_part (norm T)) = false).
    { apply existsb_false_forall. intros e He.
      assert (Hq : Forall (fun e => is_invalid e = false) (map parse_part (norm T))).
      { apply (sub_Forall P _ _ _ Hsub); [intros x (_ & _ & [Hx _]); exact Hx|].
        apply Forall_forall. intros k Hk. unfold K, Proofs7.tagsurv in Hk. apply in_map_iff in Hk.
        destruct Hk as (n & Hn & Hin). apply filter_In in Hin. destruct Hin as [_ Hsel]. unfold tsel in Hsel.
        apply andb_true_iff in Hsel. destruct Hsel as [_ Ht]. subst k. unfold orig, is_invalid. cbn [e_type].
        destruct (e_type n); try discriminate; reflexivity. }
      rewrite Forall_forall in Hq. apply Hq. exact He. }
    assert (Hv3 : existsb is_invalid (nest xhtml (map parse_part (norm T))) = false).
    { apply existsb_false_forall. intros e He. rewrite Forall_forall in Hall. exact (proj1 (Hall e He)). }
    assert (Hv4 : forallb rules_ok (nest xhtml (map parse_part (norm T))) = true).
    { apply forallb_forall. intros e He. rewrite Forall_forall in Hall. exact (proj2 (Hall e He)). }
    assert (Hifs : forall a b c d : bool, a = false -> b = false -> c = false -> d = true ->
                   (if a then false else if b then false else if c then false else d) = true).
    { intros a b c d Ha Hb Hc Hd. subst. reflexivity. }
    apply Hifs; [exact Hv1|exact Hv2|exact Hv3|exact Hv4].
  Qed.
End Stable.
