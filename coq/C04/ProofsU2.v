(* C04, URI validators, second part: the scheme that a browser reads from an attribute value is not changed
   by decoding the character references that validate_property_value permits inside a value.
   A browser decodes character references in an attribute value before it interprets the value as a URI.
   validate_property_value lets & through only as the start of one of 8 spellings (value_entities, tied to the
   source by Link.v), which stand for & < > dquote and apostrophe.  None of these is a scheme character or a
   colon, so the scheme prefix of the decoded value is the scheme prefix of the raw value: what
   uri_scheme_whitelisted / absolute_uri_requires_scheme / relative_uri_has_no_scheme say about the raw value
   holds for the value the browser sees. *)
From CppcmsV Require Import Base.Tac Base.Sweep C04.Defs C04.DefsU C04.Proofs3 C04.ProofsU.
Local Open Scope N_scope.

(* what the spellings of value_entities stand for, in the order of value_entities *)
Definition ent_chars : list N := [38; 60; 62; 34; 39; 39; 39; 39].

Fixpoint first_match_ch (ps : list (list N)) (chs : list N) (s : list N) : option (nat * N) :=
  match ps, chs with
  | p :: ps', ch :: chs' => if starts p s then Some (length p, ch) else first_match_ch ps' chs' s
  | _, _ => None
  end.

(* same scan as value_ok_aux: after an ampersand the 8 spellings are tried in order *)
Fixpoint decode_aux (skip : nat) (v : list N) : list N :=
  match v with
  | [] => []
  | c :: r =>
      match skip with
      | S k => decode_aux k r
      | O => if c =? 38 then
               match first_match_ch value_entities ent_chars r with
               | Some (n, ch) => ch :: decode_aux n r
               | None => c :: decode_aux 0 r
               end
             else c :: decode_aux 0 r
      end
  end.
Definition decode_value (v : list N) : list N := decode_aux 0 v.

(* the decoder recognises a spelling exactly where value_ok does *)
Lemma first_match_ch_agrees s :
  match first_match_ch value_entities ent_chars s with Some (n, _) => Some n | None => None end
  = first_match value_entities s.
Proof.
  unfold value_entities, ent_chars. cbn [first_match_ch first_match].
  repeat match goal with |- context [if starts ?p s then _ else _] => destruct (starts p s); [reflexivity|] end.
  reflexivity.
Qed.

Lemma first_match_ch_char s n ch : first_match_ch value_entities ent_chars s = Some (n, ch) ->
  schemech ch = false /\ u_alpha ch = false /\ (ch =? 58) = false.
Proof.
  unfold value_entities, ent_chars. cbn [first_match_ch].
  repeat match goal with |- context [if starts ?p s then _ else _] =>
    destruct (starts p s); [intros H; inversion H; subst; repeat split; vm_compute; reflexivity|] end.
  discriminate.
Qed.

Definition hd_is (c : N) (l : list N) : bool := match l with x :: _ => x =? c | [] => false end.

Lemma visible_scheme_hd v :
  visible_scheme v = match scheme v with Some (sc, r) => if hd_is 58 r then Some sc else None | None => None end.
Proof.
  unfold visible_scheme. destruct (scheme v) as [[sc r]|]; [|reflexivity].
  destruct r as [|c r]; [reflexivity|]. cbn [hd_is]. destruct (N.eqb_spec c 58) as [E|E]; [subst c; reflexivity|].
  destruct c as [|p]; [reflexivity|].
  do 6 (try (destruct p as [p|p|]; try reflexivity)). exfalso. apply E. reflexivity.
Qed.

Lemma decode_tail s :
  takew schemech (decode_aux 0 s) = takew schemech s /\
  hd_is 58 (dropw schemech (decode_aux 0 s)) = hd_is 58 (dropw schemech s).
Proof.
  induction s as [|c r IH]; [split; reflexivity|]. cbn [decode_aux].
  destruct (N.eqb_spec c 38) as [E|E].
  - subst c. destruct (first_match_ch value_entities ent_chars r) as [[n ch]|] eqn:Ef.
    + destruct (first_match_ch_char r n ch Ef) as (H1 & _ & H3). cbn [takew dropw]. rewrite H1.
      change (schemech 38) with false. cbn [hd_is]. rewrite H3. split; reflexivity.
    + cbn [takew dropw]. change (schemech 38) with false. split; reflexivity.
  - cbn [takew dropw]. destruct (schemech c); [|split; reflexivity].
    destruct IH as [I1 I2]. rewrite I1, I2. split; reflexivity.
Qed.

Lemma decode_scheme v : visible_scheme (decode_value v) = visible_scheme v.
Proof.
  rewrite !visible_scheme_hd. unfold decode_value, scheme. destruct v as [|c r]; [reflexivity|]. cbn [decode_aux].
  destruct (N.eqb_spec c 38) as [E|E].
  - subst c. change (u_alpha 38) with false. cbv iota.
    destruct (first_match_ch value_entities ent_chars r) as [[n ch]|] eqn:Ef.
    + destruct (first_match_ch_char r n ch Ef) as (_ & H2 & _). rewrite H2. reflexivity.
    + reflexivity.
  - destruct (u_alpha c); [|reflexivity]. destruct (decode_tail r) as [I1 I2]. rewrite I1, I2. reflexivity.
Qed.

(* a value that passes validate_property_value is decoded completely: no & is left that is not the result of
   decoding &amp; - stated as: decoding removes exactly the spellings value_ok walks over, so the two scans stay
   in step.  (Used as documentation of decode_aux; the theorem above needs no premise.) *)
Example decode_example :
  decode_value [106;97;118;97;38;35;120;50;55;59;58;120] = [106;97;118;97;39;58;120] /\      (* java&#x27;:x *)
  decode_value [104;116;116;112;58;47;47;104;47;63;97;38;97;109;112;59;98] = [104;116;116;112;58;47;47;104;47;63;97;38;98] /\  (* http://h/?a&amp;b *)
  visible_scheme (decode_value [104;116;116;112;58;47;47;104;47;63;97;38;97;109;112;59;98]) = Some [104;116;116;112].
Proof. vm_compute. repeat split. Qed.

(* the three validators, on the value as the browser sees it *)
Lemma decoded_scheme_policy k sre v : uri_validate k sre v = true ->
  match visible_scheme (decode_value v) with
  | Some sc => k <> URelative /\ sre sc = true
  | None => k <> UFull
  end.
Proof.
  intros H. rewrite decode_scheme. destruct (visible_scheme v) as [sc|] eqn:Es.
  - destruct k.
    + split; [discriminate|exact (uri_both_scheme_checked sre v sc H Es)].
    + rewrite (uri_relative_no_scheme sre v H) in Es. discriminate.
    + split; [discriminate|exact (uri_full_scheme_checked sre v sc H Es)].
  - destruct k; try discriminate. destruct (uri_full_has_scheme sre v H) as (sc & rest & _ & _ & _ & Hs & _). congruence.
Qed.

(* the validator for absolute and relative references accepts exactly what one of the other two accepts *)
Lemma uri_both_is_full_or_relative sre v :
  uri_validate UBoth sre v = uri_validate UFull sre v || uri_validate URelative sre v.
Proof.
  unfold uri_validate, parse_full, parse_uri. destruct (uri v) as [rest|] eqn:Eu.
  - unfold uri in Eu. destruct (scheme v) as [[sc r]|]; [|discriminate].
    destruct rest as [|c rest]; cbv beta iota; [rewrite orb_false_r; reflexivity|reflexivity].
  - destruct (scheme v) as [[sc r]|]; cbv beta iota; destruct (relative_ref v); reflexivity.
Qed.

(* the relative validator accepts exactly the values without a visible scheme that relative-ref consumes to the last byte *)
Lemma uri_relative_exact sre v :
  uri_validate URelative sre v = true <-> visible_scheme v = None /\ relative_ref v = [].
Proof.
  split.
  - intros H. split; [exact (uri_relative_no_scheme sre v H)|].
    unfold uri_validate, parse_uri in H. destruct (uri v) as [rest|].
    + destruct rest; discriminate.
    + destruct (relative_ref v); [reflexivity|discriminate].
  - intros [Hs Hr]. unfold uri_validate, parse_uri. destruct (uri v) as [rest|] eqn:Eu.
    + destruct (uri_visible_scheme v rest Eu) as (sc & Hsc). congruence.
    + rewrite Hr. reflexivity.
Qed.
