(* C04: the glue around the UTF-8 decoder and the byte tables - the loops and dispatch functions that the model describes by
   hand (coq/C14/Defs.v: validate_f / validate_count, scan_f + filter2_f = the two loops of validate_or_filter_utf8, vof_sb,
   valid_named, validate_or_filter, lookup / is_utf8; coq/C04/DefsE.v + DefsX.v: the encoding prologue and epilogue of
   xss::validate and xss::validate_and_filter_if_invalid) - as their statement skeleton is read from the clang AST of the
   checked tree on every run (coq/gen/Gen_C04ctl.v, checks/C04.py:gen_control: control structure, calls, arguments and
   constants, expressions in a normalised textual form).  link_encoding_control: the skeleton is, literally, the one below,
   from which the hand model was written.  A FINGERPRINT: it detects every change of these functions (a changed constant such
   as the html flag `true` that utf8_valid passes, the replacement character 0 of the conversion path, a dropped
   `ptr = prev + 1`, a reordered dispatch), it does not interpret them; their behaviour is tied by correspondence on the
   encoding boundary material.  How to read it against the model:
     utf8_valid / utf8::validate            D.tester V_utf8 = validate_count true ; validate_f: next = Cp -> count+1, else VBad
     validate_or_filter_utf8                D.vof_utf8: first loop = scan_f (good prefix up to prev), second loop = filter2_f
                                            (html-valid: copied; well-formed but not html-safe: replaced; else replaced, ptr = prev+1)
     validate_or_filter_single_byte_charset D.vof_sb: whole text first, then byte by byte with the same tester
     encoding::valid                        D.valid_named (table entry) / DefsX: conversion path for names outside the table
     encoding::validate_or_filter           D.validate_or_filter: is_utf8 first, then the table
     is_ascii_compatible / get / is_utf8    DefsE.named_compat = lookup <> None ; D.lookup ; D.is_utf8
     xss::validate prologue                 DefsE.validate_e = DefsX.validate_x with has_encoding / named_compat / work_valid
     xss::validate_and_filter.. prologue    DefsX.validate_and_filter_x: work encoding UTF-8 and repl_ch = 0 when not ASCII compatible,
                                            to_utf stop, on failure valid = false and to_utf skip; then validate_or_filter
     ... epilogue                           output = filtered, or from_utf(filtered, stop) and nothing on failure (filter() then
                                            returns the empty string) *)
From Coq Require Import List String.
From CppcmsV Require Import gen.Gen_C04ctl.
Import ListNotations.

Definition encoding_control_as_modelled : list (string * list string) :=
  [("utf8_valid"%string,
    ["return validate(p,e,count,true)"%string]);
   ("utf8::validate"%string,
    ["while (p != e) {"%string;
     "if (next(p,e,html) == illegal) {"%string;
     "return false"%string;
     "}"%string;
     "(count++)"%string;
     "}"%string;
     "return true"%string]);
   ("validate_or_filter_utf8"%string,
    ["var bool valid = true"%string;
     "var const char * ptr = begin"%string;
     "var const char * prev = ptr"%string;
     "while (ptr < end) {"%string;
     "(prev = ptr)"%string;
     "if (next(ptr,end,true,false) == illegal) {"%string;
     "(valid = false)"%string;
     "break"%string;
     "}"%string;
     "}"%string;
     "if valid {"%string;
     "return true"%string;
     "}"%string;
     "output.clear()"%string;
     "output.reserve((end - begin))"%string;
     "output.append(begin,prev)"%string;
     "(ptr = prev)"%string;
     "while (ptr < end) {"%string;
     "(prev = ptr)"%string;
     "if (next(ptr,end,true,false) != illegal) {"%string;
     "output.append(prev,ptr)"%string;
     "continue"%string;
     "}"%string;
     "(ptr = prev)"%string;
     "if (next(ptr,end,false,false) == illegal) {"%string;
     "if replace {"%string;
     "operator+=(output,replace)"%string;
     "}"%string;
     "(ptr = (prev + 1))"%string;
     "} else {"%string;
     "if replace {"%string;
     "operator+=(output,replace)"%string;
     "}"%string;
     "}"%string;
     "}"%string;
     "return false"%string]);
   ("validate_or_filter_single_byte_charset"%string,
    ["var size_t count = 0"%string;
     "if tester(begin,end,count) {"%string;
     "return true"%string;
     "}"%string;
     "output.clear()"%string;
     "output.reserve((end - begin))"%string;
     "for var const char * p = begin ; (p < end) ; (p++) {"%string;
     "var size_t n = 0"%string;
     "var const char * ptr = p"%string;
     "if tester(ptr,(ptr + 1),n) {"%string;
     "operator+=(output,(*p))"%string;
     "} else {"%string;
     "if repl {"%string;
     "operator+=(output,repl)"%string;
     "}"%string;
     "}"%string;
     "}"%string;
     "return false"%string]);
   ("encoding::valid"%string,
    ["var impl::validators_set::encoding_tester_type tester = all_validators.get(encoding)"%string;
     "if tester {"%string;
     "return tester(begin,end,count)"%string;
     "}"%string;
     "try {"%string;
     "var string utf8_string = between(begin,end,str<UTF-8>,encoding,stop)"%string;
     "return all_validators.get(str<utf-8>)(utf8_string.c_str(),(utf8_string.c_str() + utf8_string.size()),count)"%string;
     "} catch const runtime_error & {"%string;
     "return false"%string;
     "}"%string]);
   ("encoding::validate_or_filter"%string,
    ["if is_utf8(encoding.c_str()) {"%string;
     "return validate_or_filter_utf8(begin,end,output,replace)"%string;
     "}"%string;
     "var impl::validators_set::encoding_tester_type tester = all_validators.get(encoding)"%string;
     "if tester {"%string;
     "return validate_or_filter_single_byte_charset(tester,begin,end,output,replace)"%string;
     "}"%string;
     "var size_t tmp_count = 0"%string;
     "if valid(encoding,begin,end,tmp_count) {"%string;
     "return true"%string;
     "}"%string;
     "var string utf8_string = between(begin,end,str<UTF-8>,encoding,skip)"%string;
     "var string tmp_out = new<string>()"%string;
     "if validate_or_filter_utf8(utf8_string.c_str(),(utf8_string.c_str() + utf8_string.size()),tmp_out,0) {"%string;
     "tmp_out.swap(utf8_string)"%string;
     "}"%string;
     "operator=(output,between(tmp_out.c_str(),(tmp_out.c_str() + tmp_out.size()),encoding,str<UTF-8>,skip))"%string;
     "return false"%string]);
   ("is_ascii_compatible"%string,
    ["return (all_validators.get(encoding) != 0)"%string]);
   ("is_utf8"%string,
    ["var impl::encodings_comparator cmp = new<impl::encodings_comparator>()"%string;
     "return ((!operator()(cmp,c_encoding,str<utf8>)) && (!operator()(cmp,str<utf8>,c_encoding)))"%string]);
   ("validators_set::get"%string,
    ["var predefined_type::const_iterator p = predefined_.find(name)"%string;
     "if operator==(p,predefined_.end()) {"%string;
     "return 0"%string;
     "}"%string;
     "return operator->(p).second"%string]);
   ("xss::validate prologue"%string,
    ["var string enc = r.encoding()"%string;
     "var size_t dummy_count = 0"%string;
     "var string temp_input = new<string>()"%string;
     "if (!enc.empty()) {"%string;
     "if is_ascii_compatible(enc) {"%string;
     "if (!valid(enc,begin,end,dummy_count)) {"%string;
     "return false"%string;
     "}"%string;
     "} else {"%string;
     "try {"%string;
     "var string tmp = to_utf(begin,end,enc,stop)"%string;
     "temp_input.swap(tmp)"%string;
     "(begin = temp_input.c_str())"%string;
     "(end = (begin + temp_input.size()))"%string;
     "} catch ... {"%string;
     "return false"%string;
     "}"%string;
     "if (!valid(str<UTF-8>,begin,end,dummy_count)) {"%string;
     "return false"%string;
     "}"%string;
     "}"%string;
     "}"%string]);
   ("xss::validate_and_filter_if_invalid prologue"%string,
    ["var bool valid = true"%string;
     "var string real_encoding = r.encoding()"%string;
     "var string work_encoding = real_encoding"%string;
     "var string work_input = new<string>()"%string;
     "var string filtered_input = new<string>()"%string;
     "var string filtered = new<string>()"%string;
     "if (!real_encoding.empty()) {"%string;
     "if (!is_ascii_compatible(real_encoding)) {"%string;
     "operator=(work_encoding,str<UTF-8>)"%string;
     "(repl_ch = 0)"%string;
     "try {"%string;
     "var string tmp = to_utf(begin,end,real_encoding,stop)"%string;
     "work_input.swap(tmp)"%string;
     "} catch ... {"%string;
     "(valid = false)"%string;
     "var string tmp = to_utf(begin,end,real_encoding,skip)"%string;
     "work_input.swap(tmp)"%string;
     "}"%string;
     "(begin = work_input.c_str())"%string;
     "(end = (begin + work_input.size()))"%string;
     "}"%string;
     "if (!validate_or_filter(work_encoding,begin,end,filtered_input,repl_ch)) {"%string;
     "(valid = false)"%string;
     "(begin = filtered_input.c_str())"%string;
     "(end = (begin + filtered_input.size()))"%string;
     "}"%string;
     "}"%string]);
   ("xss::validate_and_filter_if_invalid epilogue"%string,
    ["if operator==(work_encoding,real_encoding) {"%string;
     "output.swap(filtered)"%string;
     "} else {"%string;
     "try {"%string;
     "var string tmp = from_utf(filtered,real_encoding,stop)"%string;
     "output.swap(tmp)"%string;
     "} catch ... {"%string;
     "}"%string;
     "}"%string;
     "return false"%string])].


Lemma link_encoding_control : g_c04_control = encoding_control_as_modelled.
Proof. vm_compute. reflexivity. Qed.
