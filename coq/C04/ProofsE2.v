(* C04 proofs, part E2: the statements of sections 9 and 10 of Props.v (encoding layer made concrete), assembled from ProofsE.v. *)
From CppcmsV Require Import Base.Tac Base.Sweep C04.Defs C04.DefsX C04.DefsE C04.Proofs1 C04.Proofs4 C04.Proofs6 C04.Proofs9 C04.Proofs10 C04.Proofs11 C04.ProofsX C04.ProofsE.
From CppcmsV Require C14.Defs C14.Spec C14.Proofs3.
Local Open Scope N_scope.
Module D := C14.Defs. Module S := C14.Spec. Module P3 := C14.Proofs3.

Lemma validate_implies_wellformed_utf8_l :
  forall xhtml comments numeric tag_kind entity_ok bool_ok val_ok name tus x,
  D.lookup name = Some D.V_utf8 ->
  validate_e xhtml comments numeric tag_kind entity_ok bool_ok val_ok name tus x = true ->
  (exists cps, S.WF x cps /\ Forall S.html_safe cps) /\
  (exists cps, Forall S.scalar cps /\ Forall S.html_safe cps /\ x = flat_map S.rfc_encode cps).
Proof.
  intros xhtml comments numeric tag_kind entity_ok bool_ok val_ok name tus x L V.
  pose proof (utf8_validate_wellformed xhtml comments numeric tag_kind entity_ok bool_ok val_ok name tus x L V) as W.
  exact (conj W (proj1 (WFH_rfc3629 x) W)).
Qed.

Lemma filter_output_wellformed_utf8_l :
  forall xhtml comments numeric tag_kind entity_ok bool_ok val_ok name repl tus tusk fus m x,
  kind_compat xhtml tag_kind -> (m = EscapeInvalid -> esc_entities_ok entity_ok) ->
  D.lookup name = Some D.V_utf8 -> P3.repl_ok repl ->
  let out := filter_e xhtml comments numeric tag_kind entity_ok bool_ok val_ok name repl tus tusk fus m x in
  validate_e xhtml comments numeric tag_kind entity_ok bool_ok val_ok name tus out = true /\
  exists cps, Forall S.scalar cps /\ Forall S.html_safe cps /\ out = flat_map S.rfc_encode cps.
Proof.
  intros xhtml comments numeric tag_kind entity_ok bool_ok val_ok name repl tus tusk fus m x Hk He L R out. split.
  - exact (utf8_filter_validates xhtml comments numeric tag_kind entity_ok bool_ok val_ok name repl tus tusk fus Hk m x L R He).
  - apply WFH_rfc3629.
    exact (utf8_filter_wellformed xhtml comments numeric tag_kind entity_ok bool_ok val_ok name repl tus tusk fus Hk m x L R He).
Qed.

Lemma utf8_validate_iff_flag_and_unchanged_l :
  forall xhtml comments numeric tag_kind entity_ok bool_ok val_ok name repl tus tusk fus m x,
  D.lookup name = Some D.V_utf8 ->
  fst (validate_and_filter_e xhtml comments numeric tag_kind entity_ok bool_ok val_ok name repl tus tusk fus m x)
    = validate_e xhtml comments numeric tag_kind entity_ok bool_ok val_ok name tus x /\
  (validate_e xhtml comments numeric tag_kind entity_ok bool_ok val_ok name tus x = true ->
   filter_e xhtml comments numeric tag_kind entity_ok bool_ok val_ok name repl tus tusk fus m x = x).
Proof.
  intros xhtml comments numeric tag_kind entity_ok bool_ok val_ok name repl tus tusk fus m x L. split.
  - exact (utf8_flag xhtml comments numeric tag_kind entity_ok bool_ok val_ok name repl tus tusk fus m x L).
  - exact (utf8_unchanged xhtml comments numeric tag_kind entity_ok bool_ok val_ok name repl tus tusk fus m x L).
Qed.

Lemma validate_implies_wellformed_single_byte_l :
  forall xhtml comments numeric tag_kind entity_ok bool_ok val_ok name k tus x,
  D.lookup name = Some (D.V_sb k) -> bytes_ok x ->
  validate_e xhtml comments numeric tag_kind entity_ok bool_ok val_ok name tus x = true ->
  forallb (D.byte_ok k) x = true /\
  Forall (fun b => (32 <= b \/ b = 9 \/ b = 10 \/ b = 13) /\ b <> 127 /\ (iso_kind k = true -> ~ (128 <= b <= 159)) /\
                   (k = D.SB_ascii -> b < 127)) x.
Proof.
  intros xhtml comments numeric tag_kind entity_ok bool_ok val_ok name k tus x L Hb V.
  pose proof (sb_validate_wellformed xhtml comments numeric tag_kind entity_ok bool_ok val_ok name tus k x L V) as W.
  exact (conj W (sb_valid_no_controls k x Hb W)).
Qed.

Lemma single_byte_filter_validates_l :
  forall xhtml comments numeric tag_kind entity_ok bool_ok val_ok name k repl tus tusk fus m x,
  kind_compat xhtml tag_kind -> (m = EscapeInvalid -> esc_entities_ok entity_ok) ->
  D.lookup name = Some (D.V_sb k) -> (repl = 0 \/ D.byte_ok k repl = true) ->
  let out := filter_e xhtml comments numeric tag_kind entity_ok bool_ok val_ok name repl tus tusk fus m x in
  fst (validate_and_filter_e xhtml comments numeric tag_kind entity_ok bool_ok val_ok name repl tus tusk fus m x)
    = validate_e xhtml comments numeric tag_kind entity_ok bool_ok val_ok name tus x /\
  validate_e xhtml comments numeric tag_kind entity_ok bool_ok val_ok name tus out = true /\
  forallb (D.byte_ok k) out = true.
Proof.
  intros xhtml comments numeric tag_kind entity_ok bool_ok val_ok name k repl tus tusk fus m x Hk He L R out.
  split; [|split].
  - exact (sb_flag xhtml comments numeric tag_kind entity_ok bool_ok val_ok name repl tus tusk fus k m x L).
  - exact (sb_filter_validates xhtml comments numeric tag_kind entity_ok bool_ok val_ok name repl tus tusk fus Hk k m x L R He).
  - exact (sb_filter_wellformed xhtml comments numeric tag_kind entity_ok bool_ok val_ok name repl tus tusk fus Hk k m x L R He).
Qed.

Lemma converted_validate_implies_wellformed_utf8_l :
  forall xhtml comments numeric tag_kind entity_ok bool_ok val_ok name tus x,
  name <> [] -> D.lookup name = None ->
  validate_e xhtml comments numeric tag_kind entity_ok bool_ok val_ok name tus x = true ->
  exists u, tus x = Some u /\ exists cps, Forall S.scalar cps /\ Forall S.html_safe cps /\ u = flat_map S.rfc_encode cps.
Proof.
  intros xhtml comments numeric tag_kind entity_ok bool_ok val_ok name tus x Ne L V.
  destruct (conv_validate_wellformed xhtml comments numeric tag_kind entity_ok bool_ok val_ok name tus x Ne L V) as (u & E & W).
  exists u. split; [exact E|]. apply WFH_rfc3629. exact W.
Qed.

Lemma converted_named_filter_validates_l :
  forall xhtml comments numeric tag_kind entity_ok bool_ok val_ok name repl tus tusk fus m x,
  kind_compat xhtml tag_kind -> (m = EscapeInvalid -> esc_entities_ok entity_ok) ->
  D.lookup name = None -> conv_roundtrip (D.validate true) tus fus ->
  fst (validate_and_filter_e xhtml comments numeric tag_kind entity_ok bool_ok val_ok name repl tus tusk fus m x)
    = validate_e xhtml comments numeric tag_kind entity_ok bool_ok val_ok name tus x /\
  validate_e xhtml comments numeric tag_kind entity_ok bool_ok val_ok name tus
    (filter_e xhtml comments numeric tag_kind entity_ok bool_ok val_ok name repl tus tusk fus m x) = true.
Proof.
  intros xhtml comments numeric tag_kind entity_ok bool_ok val_ok name repl tus tusk fus m x Hk He L RT. split.
  - exact (conv_flag xhtml comments numeric tag_kind entity_ok bool_ok val_ok name repl tus tusk fus m x L).
  - exact (conv_filter_validates xhtml comments numeric tag_kind entity_ok bool_ok val_ok name repl tus tusk fus Hk m x L He RT).
Qed.

Lemma concrete_utf8_filter_l :
  forall r vfun name repl tus tusk fus m x,
  D.norm_name name = D.utf8_name -> P3.repl_ok repl ->
  let out := snd (c_validate_and_filter_e r vfun name repl tus tusk fus m x) in
  fst (c_validate_and_filter_e r vfun name repl tus tusk fus m x) = c_validate_e r vfun name tus x /\
  (c_validate_e r vfun name tus x = true -> out = x) /\
  c_validate_e r vfun name tus out = true /\
  exists cps, Forall S.scalar cps /\ Forall S.html_safe cps /\ out = flat_map S.rfc_encode cps.
Proof.
  intros r vfun name repl tus tusk fus m x En R out. pose proof (utf8_spellings name En) as L.
  split; [|split; [|split]].
  - exact (utf8_flag _ _ _ _ _ _ _ name repl tus tusk fus m x L).
  - exact (utf8_unchanged _ _ _ _ _ _ _ name repl tus tusk fus m x L).
  - exact (utf8_filter_validates _ _ _ _ _ _ _ name repl tus tusk fus (c_kind_compat r) m x L R (fun _ => c_esc_entities_ok r)).
  - apply WFH_rfc3629.
    exact (utf8_filter_wellformed _ _ _ _ _ _ _ name repl tus tusk fus (c_kind_compat r) m x L R (fun _ => c_esc_entities_ok r)).
Qed.

Lemma lookup_once_l :
  forall xhtml comments numeric tag_kind entity_ok bool_ok val_ok name repl tus tusk fus m x,
  validate_e xhtml comments numeric tag_kind entity_ok bool_ok val_ok name tus x =
    validate_sel xhtml comments numeric tag_kind entity_ok bool_ok val_ok (has_encoding name) (D.lookup name) tus x /\
  validate_and_filter_e xhtml comments numeric tag_kind entity_ok bool_ok val_ok name repl tus tusk fus m x =
    validate_and_filter_sel xhtml comments numeric tag_kind entity_ok bool_ok val_ok (has_encoding name) (D.lookup name)
                            repl tus tusk fus m x.
Proof.
  intros. split; [apply validate_e_sel|apply validate_and_filter_e_sel].
Qed.

Lemma c04_utf8_rule_sets_l :
  forall r vfun name repl tus tusk fus m x,
  D.norm_name name = D.utf8_name -> P3.repl_ok repl ->
  let validate_ := c_validate_e r vfun name tus in
  let out := snd (c_validate_and_filter_e r vfun name repl tus tusk fus m x) in
  validate_ out = true /\
  (exists segs, out = concat segs /\
     Forall (seg_ok (c_xhtml r) (c_comments r) (c_numeric r) (c_tag_kind r) (c_entity_ok r) (c_bool_ok r) (c_val_ok r vfun)) segs) /\
  (exists cps, Forall S.scalar cps /\ Forall S.html_safe cps /\ out = flat_map S.rfc_encode cps) /\
  (validate_ x = true ->
     out = x /\
     (exists segs, x = concat segs /\
        Forall (whitelisted (c_xhtml r) (c_comments r) (c_numeric r) (c_tag_kind r) (c_entity_ok r) (c_bool_ok r) (c_val_ok r vfun)) segs) /\
     (exists cps, Forall S.scalar cps /\ Forall S.html_safe cps /\ x = flat_map S.rfc_encode cps)).
Proof.
  intros r vfun name repl tus tusk fus m x En R validate_ out.
  pose proof (utf8_spellings name En) as L.
  destruct (concrete_utf8_filter_l r vfun name repl tus tusk fus m x En R) as (_ & Hun & Hval & Hwf).
  split; [exact Hval|]. split; [|split; [exact Hwf|]].
  - unfold out, c_validate_and_filter_e.
    change (snd (validate_and_filter_e (c_xhtml r) (c_comments r) (c_numeric r) (c_tag_kind r) (c_entity_ok r) (c_bool_ok r)
                   (c_val_ok r vfun) name repl tus tusk fus m x))
      with (filter_e (c_xhtml r) (c_comments r) (c_numeric r) (c_tag_kind r) (c_entity_ok r) (c_bool_ok r)
                   (c_val_ok r vfun) name repl tus tusk fus m x).
    rewrite (filter_e_table _ _ _ _ _ _ _ name repl tus tusk fus _ m x L). apply filter_segs.
  - intros V. split; [exact (Hun V)|]. split.
    + unfold validate_, c_validate_e in V. rewrite (validate_e_table _ _ _ _ _ _ _ name tus _ x L) in V.
      exact (validate_whitelisted _ _ _ _ _ _ _ _ _ x V).
    + exact (proj2 (validate_implies_wellformed_utf8_l _ _ _ _ _ _ _ name tus x L V)).
Qed.

(* the same for a single byte code page (one of the 36 other names of the validators_set table; k = the validator body it
   selects): output validates, is a concatenation of white-listed tokens and harmless text, and consists of bytes the table
   accepts; valid input is returned unchanged, is a concatenation of white-listed tokens and consists of accepted bytes.
   Replacement character: none or a byte the table accepts. *)
Lemma c04_single_byte_rule_sets_l :
  forall r vfun name k repl tus tusk fus m x,
  D.lookup name = Some (D.V_sb k) -> (repl = 0 \/ D.byte_ok k repl = true) ->
  let validate_ := c_validate_e r vfun name tus in
  let out := snd (c_validate_and_filter_e r vfun name repl tus tusk fus m x) in
  validate_ out = true /\
  (exists segs, out = concat segs /\
     Forall (seg_ok (c_xhtml r) (c_comments r) (c_numeric r) (c_tag_kind r) (c_entity_ok r) (c_bool_ok r) (c_val_ok r vfun)) segs) /\
  forallb (D.byte_ok k) out = true /\
  (validate_ x = true ->
     out = x /\
     (exists segs, x = concat segs /\
        Forall (whitelisted (c_xhtml r) (c_comments r) (c_numeric r) (c_tag_kind r) (c_entity_ok r) (c_bool_ok r) (c_val_ok r vfun)) segs) /\
     forallb (D.byte_ok k) x = true).
Proof.
  intros r vfun name k repl tus tusk fus m x L R validate_ out.
  split; [|split; [|split]].
  - exact (sb_filter_validates _ _ _ _ _ _ _ name repl tus tusk fus (c_kind_compat r) k m x L R (fun _ => c_esc_entities_ok r)).
  - unfold out, c_validate_and_filter_e.
    change (snd (validate_and_filter_e (c_xhtml r) (c_comments r) (c_numeric r) (c_tag_kind r) (c_entity_ok r) (c_bool_ok r)
                   (c_val_ok r vfun) name repl tus tusk fus m x))
      with (filter_e (c_xhtml r) (c_comments r) (c_numeric r) (c_tag_kind r) (c_entity_ok r) (c_bool_ok r)
                   (c_val_ok r vfun) name repl tus tusk fus m x).
    rewrite (filter_e_table _ _ _ _ _ _ _ name repl tus tusk fus _ m x L). apply filter_segs.
  - exact (sb_filter_wellformed _ _ _ _ _ _ _ name repl tus tusk fus (c_kind_compat r) k m x L R (fun _ => c_esc_entities_ok r)).
  - intros V. split; [|split].
    + exact (sb_unchanged _ _ _ _ _ _ _ name repl tus tusk fus k m x L V).
    + unfold validate_, c_validate_e in V. rewrite (validate_e_table _ _ _ _ _ _ _ name tus _ x L) in V.
      exact (validate_whitelisted _ _ _ _ _ _ _ _ _ x V).
    + exact (sb_validate_wellformed _ _ _ _ _ _ _ name tus k x L V).
Qed.

(* the same for an encoding without a built-in validator (UTF-16, UTF-32, Shift_JIS, ...): the text is converted to UTF-8, filtered
   there and converted back; tus / tusk / fus = conv::to_utf (stop / skip) and conv::from_utf (stop) as arbitrary functions, constrained
   only by the round-trip premise.  The UTF-8 text that is converted back is a concatenation of white-listed tokens and harmless
   text; what validation accepts converts to well-formed UTF-8. *)
Lemma c04_converted_rule_sets_l :
  forall r vfun name repl tus tusk fus m x,
  name <> [] -> D.lookup name = None -> conv_roundtrip (D.validate true) tus fus ->
  let validate_ := c_validate_e r vfun name tus in
  let out := snd (c_validate_and_filter_e r vfun name repl tus tusk fus m x) in
  validate_ out = true /\
  (exists segs,
     Forall (seg_ok (c_xhtml r) (c_comments r) (c_numeric r) (c_tag_kind r) (c_entity_ok r) (c_bool_ok r) (c_val_ok r vfun)) segs /\
     ((out = x /\ tus x = Some (concat segs)) \/ fus (concat segs) = Some out \/ out = [])) /\
  (validate_ x = true ->
     out = x /\
     exists u, tus x = Some u /\ exists cps, Forall S.scalar cps /\ Forall S.html_safe cps /\ u = flat_map S.rfc_encode cps).
Proof.
  intros r vfun name repl tus tusk fus m x Ne L RT validate_ out.
  split; [|split].
  - exact (conv_filter_validates _ _ _ _ _ _ _ name repl tus tusk fus (c_kind_compat r) m x L (fun _ => c_esc_entities_ok r) RT).
  - unfold out, c_validate_and_filter_e, validate_and_filter_e.
    apply (filter_segs_x (c_xhtml r) (c_comments r) (c_numeric r) (c_tag_kind r) (c_entity_ok r) (c_bool_ok r) (c_val_ok r vfun)
                         (has_encoding name) (named_compat name) (work_vof name repl) tus tusk fus m x).
    + destruct name; [contradiction|reflexivity].
    + unfold named_compat. rewrite L. reflexivity.
  - intros V. split.
    + exact (conv_unchanged _ _ _ _ _ _ _ name repl tus tusk fus m x L V).
    + destruct (conv_validate_wellformed _ _ _ _ _ _ _ name tus x Ne L V) as (u & E & W).
      exists u. split; [exact E|]. apply WFH_rfc3629. exact W.
Qed.
