(* C04 proofs, part 1: verdict lemmas (validate = flag of validate_and_filter, valid input unchanged,
   validation implies encoding validity) and the tokeniser (split): the token texts partition the
   input, every token has the shape its type promises. *)
From CppcmsV Require Import Base.Tac Base.Sweep C04.Defs.
Local Open Scope N_scope.

(* ---------- generic list helpers ---------- *)
Lemma existsb_false_forall {A} (p : A -> bool) l :
  existsb p l = false <-> forall x, In x l -> p x = false.
Proof.
  induction l as [|a l IH]; cbn [existsb]; split; intros H.
  - intros x [].
  - reflexivity.
  - apply orb_false_iff in H. destruct H as [H1 H2]. intros x [Hx|Hx]; [subst; exact H1|].
    apply IH; assumption.
  - apply orb_false_iff. split; [apply H; left; reflexivity|]. apply IH. intros x Hx. apply H. right. exact Hx.
Qed.

(* ---------- verdicts ---------- *)
Section Verdict.
  Variable xhtml comments numeric : bool.
  Variable tag_kind : list N -> tkind.
  Variable entity_ok : list N -> bool.
  Variable bool_ok : list N -> list N -> bool.
  Variable val_ok : list N -> list N -> list N -> bool.
  Notation vcore := (validate_core xhtml comments numeric tag_kind entity_ok bool_ok val_ok).
  Notation fentries := (filter_entries xhtml comments numeric tag_kind entity_ok bool_ok val_ok).
  Notation vfcore := (vf_core xhtml comments numeric tag_kind entity_ok bool_ok val_ok).

  Lemma filter_entries_flag x : snd (fentries x) = vcore x.
  Proof.
    unfold filter_entries, validate_core. cbn [snd].
    destruct (existsb (fun r => etype_eqb (fst r) Invalid) (split x)); [reflexivity|].
    destruct (existsb is_invalid (map parse_part (split x))); [reflexivity|].
    destruct (existsb is_invalid (nest xhtml (map parse_part (split x)))); reflexivity.
  Qed.

  Lemma vf_core_flag m x : fst (vfcore m x) = vcore x.
  Proof.
    unfold vf_core. rewrite <- filter_entries_flag.
    destruct (fentries x) as [final valid]. reflexivity.
  Qed.

  Lemma vf_core_out m x :
    snd (vfcore m x) = concat (map (emit m) (fst (fentries x))).
  Proof. unfold vf_core. destruct (fentries x) as [final valid]. reflexivity. Qed.

  Variable has_enc : bool.
  Variable enc_valid : list N -> bool.
  Variable enc_vof : list N -> option (list N).
  Notation validate := (validate xhtml comments numeric tag_kind entity_ok bool_ok val_ok has_enc enc_valid).
  Notation vaf := (validate_and_filter xhtml comments numeric tag_kind entity_ok bool_ok val_ok has_enc enc_vof).
  Notation filter := (filter xhtml comments numeric tag_kind entity_ok bool_ok val_ok has_enc enc_vof).

  (* cppcms::encoding::valid and validate_or_filter give the same verdict (property C14) *)
  Definition enc_agree : Prop := forall x, enc_valid x = true <-> enc_vof x = None.

  Lemma validate_flag (Hag : enc_agree) m x : fst (vaf m x) = validate x.
  Proof.
    unfold validate_and_filter, Defs.validate.
    destruct has_enc.
    - destruct (enc_vof x) as [y|] eqn:Ev.
      + assert (Hv : enc_valid x = false).
        { destruct (enc_valid x) eqn:E; [|reflexivity]. apply Hag in E. congruence. }
        rewrite Hv. destruct (vfcore m y) as [valid out]. reflexivity.
      + apply Hag in Ev. rewrite Ev.
        pose proof (vf_core_flag m x) as Hf. destruct (vfcore m x) as [valid out].
        cbn [fst] in Hf. subst valid. cbn [andb]. destruct (vcore x); reflexivity.
    - pose proof (vf_core_flag m x) as Hf. destruct (vfcore m x) as [valid out].
      cbn [fst] in Hf. subst valid. cbn [andb]. destruct (vcore x); reflexivity.
  Qed.

  Lemma valid_unchanged_l (Hag : enc_agree) m x : validate x = true -> filter m x = x.
  Proof.
    intros Hv. rewrite <- (validate_flag Hag m x) in Hv. unfold Defs.filter.
    revert Hv. unfold validate_and_filter.
    destruct (if has_enc then match enc_vof x with None => (true, x) | Some y => (false, y) end else (true, x)) as [valid0 y].
    destruct (vfcore m y) as [valid out].
    destruct (valid0 && valid); cbn [fst snd]; [reflexivity|discriminate].
  Qed.

  Lemma invalid_filtered_l (Hag : enc_agree) m x : validate x = false -> fst (vaf m x) = false.
  Proof. intros Hv. rewrite (validate_flag Hag). exact Hv. Qed.

  Lemma validate_encoding_l x : has_enc = true -> validate x = true -> enc_valid x = true.
  Proof.
    intros He. unfold Defs.validate. rewrite He. destruct (enc_valid x); [reflexivity|discriminate].
  Qed.

  Lemma validate_core_of_validate x : validate x = true -> vcore x = true.
  Proof.
    unfold Defs.validate. destruct has_enc; [|exact (fun H => H)].
    destruct (enc_valid x); [exact (fun H => H)|discriminate].
  Qed.
End Verdict.

(* ---------- the tokeniser ---------- *)
Lemma split_aux_skip k s : split_aux k s = split_aux 0 (skipn k s).
Proof.
  revert k. induction s as [|c r IH]; intros k.
  - destruct k; reflexivity.
  - destruct k as [|k]; [reflexivity|]. cbn [split_aux skipn]. apply IH.
Qed.

Lemma upto_spec c s a : upto c s = Some a ->
  exists pre rest, a = pre ++ [c] /\ s = a ++ rest /\ ~ In c pre.
Proof.
  revert a. induction s as [|x r IH]; intros a H; cbn [upto] in H; [discriminate|].
  destruct (N.eqb_spec x c) as [E|E].
  - inversion H; subst. exists [], r. repeat split. intros [].
  - destruct (upto c r) as [a'|] eqn:Eu; [|discriminate]. inversion H; subst.
    destruct (IH a' eq_refl) as (pre & rest & Ha & Hs & Hn). subst a'.
    exists (x :: pre), rest. split; [reflexivity|]. split; [cbn; f_equal; exact Hs|].
    intros [Hx|Hx]; [congruence|exact (Hn Hx)].
Qed.

Lemma upto_none c s : upto c s = None -> ~ In c s.
Proof.
  induction s as [|x r IH]; intros H; cbn [upto] in H; [intros []|].
  destruct (N.eqb_spec x c) as [E|E]; [discriminate|].
  destruct (upto c r); [discriminate|]. intros [Hx|Hx]; [congruence|exact (IH eq_refl Hx)].
Qed.

(* scanning for the terminator does not depend on what follows it *)
Lemma upto_app c pre rest : ~ In c pre -> upto c (pre ++ c :: rest) = Some (pre ++ [c]).
Proof.
  induction pre as [|x pre IH]; intros Hn; cbn [app upto].
  - rewrite N.eqb_refl. reflexivity.
  - destruct (N.eqb_spec x c) as [E|E]; [exfalso; apply Hn; left; exact E|].
    rewrite IH; [reflexivity|]. intros H; apply Hn; right; exact H.
Qed.

Lemma take_plain_spec r :
  exists rest, r = take_plain r ++ rest /\ existsb special (take_plain r) = false /\
               match rest with [] => True | y :: _ => special y = true end.
Proof.
  induction r as [|x r IH]; cbn [take_plain].
  - exists []. repeat split.
  - destruct (special x) eqn:E.
    + exists (x :: r). repeat split. exact E.
    + destruct IH as (rest & H1 & H2 & H3). exists rest. split; [cbn; f_equal; exact H1|].
      split; [cbn [existsb]; rewrite E; exact H2|exact H3].
Qed.

Lemma comment_body_spec s body : comment_body s = Some body ->
  exists rest, s = body ++ 45 :: 45 :: 62 :: rest.
Proof.
  revert body. induction s as [|x r IH]; intros body H; [discriminate|].
  cbn [comment_body] in H. destruct r as [|y r2]; [discriminate|].
  destruct ((x =? 45) && (y =? 45)) eqn:E.
  - destruct r2 as [|z r3]; [discriminate|]. destruct (N.eqb_spec z 62) as [Ez|Ez]; [|discriminate].
    inversion H; subst. apply andb_true_iff in E. destruct E as [E1 E2].
    apply N.eqb_eq in E1, E2. subst. exists r3. reflexivity.
  - destruct (comment_body (y :: r2)) as [b|] eqn:Eb; [|discriminate]. inversion H; subst.
    destruct (IH b eq_refl) as (rest & Hr). exists rest. cbn [app]. f_equal. exact Hr.
Qed.

(* the end of a comment is found at the same place whatever follows it *)
Lemma comment_body_ext s body : comment_body s = Some body ->
  forall rest, comment_body (body ++ 45 :: 45 :: 62 :: rest) = Some body.
Proof.
  revert body. induction s as [|x r IH]; intros body H rest; [discriminate|].
  cbn [comment_body] in H. destruct r as [|y r2]; [discriminate|].
  destruct ((x =? 45) && (y =? 45)) eqn:E.
  - destruct r2 as [|z r3]; [discriminate|]. destruct (N.eqb_spec z 62) as [Ez|Ez]; [|discriminate].
    inversion H; subst. reflexivity.
  - destruct (comment_body (y :: r2)) as [b|] eqn:Eb; [|discriminate]. inversion H; subst.
    specialize (IH b eq_refl rest).
    destruct (comment_body_spec _ _ Eb) as (rest0 & Hr).
    assert (Hhd : exists t', b ++ 45 :: 45 :: 62 :: rest = y :: t').
    { destruct b as [|b0 b']; cbn [app] in *; inversion Hr; subst; eexists; reflexivity. }
    destruct Hhd as (t' & Ht). cbn [app]. rewrite Ht in *. cbn [comment_body]. rewrite E.
    cbn [comment_body] in IH. rewrite IH. reflexivity.
Qed.

Lemma comment_start_spec r : comment_start r = true ->
  exists r4, r = 33 :: 45 :: 45 :: r4 /\ r4 <> [].
Proof.
  unfold comment_start. destruct r as [|c1 [|c2 [|c3 [|c4 r5]]]]; try discriminate.
  intros H. apply andb_true_iff in H. destruct H as [H H3]. apply andb_true_iff in H. destruct H as [H1 H2].
  apply N.eqb_eq in H1, H2, H3. subst. exists (c4 :: r5). split; [reflexivity|discriminate].
Qed.

(* what a token of each type looks like *)
Definition tok_form (ty : etype) (text : list N) : Prop :=
  match ty with
  | Plain => text <> [] /\ existsb special text = false
  | Entity => exists pre, text = 38 :: pre ++ [59] /\ ~ In 59 pre
  | Tag => exists pre, text = 60 :: pre ++ [62] /\ ~ In 62 pre
  | Comment => exists body, text = 60 :: 33 :: 45 :: 45 :: body ++ [45; 45; 62] /\ existsb special body = false /\
                            forall rest, comment_body (body ++ 45 :: 45 :: 62 :: rest) = Some body
  | Invalid => text <> []
  | _ => False
  end.

Lemma token_at_spec c r :
  exists rest, c :: r = snd (token_at c r) ++ rest /\ tok_form (fst (token_at c r)) (snd (token_at c r)) /\
    (fst (token_at c r) = Plain -> match rest with [] => True | y :: _ => special y = true end).
Proof.
  unfold token_at.
  destruct (N.eqb_spec c 38) as [E38|E38].
  { subst c. destruct (upto 59 r) as [a|] eqn:Eu.
    - destruct (upto_spec _ _ _ Eu) as (pre & rest & Ha & Hs & Hn). exists rest. cbn [fst snd].
      split; [cbn [app]; f_equal; exact Hs|]. split; [|discriminate]. exists pre. subst a. split; [reflexivity|exact Hn].
    - exists []. cbn [fst snd]. rewrite app_nil_r. split; [reflexivity|]. split; [discriminate|discriminate]. }
  destruct (N.eqb_spec c 60) as [E60|E60].
  { subst c. destruct (comment_start r) eqn:Ecs.
    - destruct (comment_start_spec _ Ecs) as (r4 & Hr & Hne). subst r. cbn [skipn firstn].
      destruct (comment_body r4) as [body|] eqn:Eb.
      + destruct (comment_body_spec _ _ Eb) as (rest & Hr4). exists rest. cbn [fst snd]. split.
        { subst r4. cbn [app]. rewrite <- app_assoc. reflexivity. }
        split; [|destruct (existsb special body); discriminate].
        destruct (existsb special body) eqn:Es; cbn [tok_form]; [discriminate|].
        exists body. split; [reflexivity|]. split; [exact Es|]. exact (comment_body_ext _ _ Eb).
      + exists []. cbn [fst snd]. rewrite app_nil_r. split; [reflexivity|]. split; [discriminate|discriminate].
    - destruct (upto 62 r) as [a|] eqn:Eu.
      + destruct (upto_spec _ _ _ Eu) as (pre & rest & Ha & Hs & Hn). exists rest. cbn [fst snd].
        split; [cbn [app]; f_equal; exact Hs|]. split; [|discriminate]. exists pre. subst a.
        split; [reflexivity|exact Hn].
      + exists []. cbn [fst snd]. rewrite app_nil_r. split; [reflexivity|]. split; [discriminate|discriminate]. }
  destruct (N.eqb_spec c 62) as [E62|E62].
  { exists r. cbn [fst snd]. split; [reflexivity|]. split; [discriminate|discriminate]. }
  destruct (take_plain_spec r) as (rest & H1 & H2 & H3). exists rest. cbn [fst snd].
  split; [cbn [app]; f_equal; exact H1|]. split; [|intros _; exact H3].
  split; [discriminate|]. cbn [existsb]. rewrite H2.
  unfold special. apply N.eqb_neq in E38, E60, E62. rewrite E38, E60, E62. reflexivity.
Qed.

Lemma tok_form_nonempty ty text : tok_form ty text -> text <> [].
Proof.
  destruct ty; cbn [tok_form]; try (intros []; fail).
  - exact (fun H => H).
  - intros [H _]. exact H.
  - intros (pre & H & _). subst. discriminate.
  - intros (pre & H & _). subst. discriminate.
  - intros (pre & H & _). subst. discriminate.
Qed.

Lemma split_cons c r : exists rest,
  c :: r = snd (token_at c r) ++ rest /\ split (c :: r) = token_at c r :: split rest /\
  (length rest <= length r)%nat /\
  tok_form (fst (token_at c r)) (snd (token_at c r)) /\
  (fst (token_at c r) = Plain -> match rest with [] => True | y :: _ => special y = true end).
Proof.
  destruct (token_at_spec c r) as (rest & H1 & H2 & H3). exists rest.
  pose proof (tok_form_nonempty _ _ H2) as Hne.
  destruct (snd (token_at c r)) as [|c' t'] eqn:Et; [congruence|].
  cbn [app] in H1. injection H1 as Hc Hr. subst c'.
  assert (Hskip : skipn (length (c :: t') - 1) r = rest).
  { cbn [length]. rewrite Nat.sub_1_r. cbn [pred]. rewrite Hr. rewrite skipn_app, skipn_all, Nat.sub_diag. reflexivity. }
  repeat split.
  - cbn [app]. f_equal. exact Hr.
  - unfold split. cbn [split_aux]. f_equal. rewrite split_aux_skip. rewrite Et, Hskip. reflexivity.
  - rewrite Hr, app_length. lia.
  - exact H2.
  - exact H3.
Qed.

(* induction principle: the tokeniser cuts the input into consecutive tokens *)
Lemma split_induction (P : list N -> list (etype * list N) -> Prop) :
  P [] [] ->
  (forall c r rest,
     c :: r = snd (token_at c r) ++ rest ->
     tok_form (fst (token_at c r)) (snd (token_at c r)) ->
     (fst (token_at c r) = Plain -> match rest with [] => True | y :: _ => special y = true end) ->
     P rest (split rest) -> P (c :: r) (token_at c r :: split rest)) ->
  forall x, P x (split x).
Proof.
  intros H0 Hs x. remember (length x) as n eqn:Hn.
  assert (Hle : (length x <= n)%nat) by lia. clear Hn. revert x Hle.
  induction n as [|n IH]; intros x Hle.
  - destruct x; [exact H0|cbn in Hle; lia].
  - destruct x as [|c r]; [exact H0|].
    destruct (split_cons c r) as (rest & H1 & H2 & H3 & H4 & H5). rewrite H2.
    apply Hs; try assumption. apply IH. cbn [length] in Hle. lia.
Qed.

Lemma split_partition x : concat (map snd (split x)) = x.
Proof.
  apply (split_induction (fun x toks => concat (map snd toks) = x)); [reflexivity|].
  intros c r rest H1 _ _ IH. cbn [map concat]. rewrite IH. symmetry. exact H1.
Qed.

Lemma split_forms x : Forall (fun tk => tok_form (fst tk) (snd tk)) (split x).
Proof.
  apply (split_induction (fun x toks => Forall (fun tk => tok_form (fst tk) (snd tk)) toks)); [constructor|].
  intros c r rest _ H2 _ IH. constructor; assumption.
Qed.

(* two plain tokens are never adjacent: a plain token extends up to the next < > & *)
Fixpoint no_adjacent_plain (toks : list (etype * list N)) : Prop :=
  match toks with
  | [] => True
  | (t1, _) :: rest =>
      match rest with
      | (t2, _) :: _ => ~ (t1 = Plain /\ t2 = Plain)
      | [] => True
      end /\ no_adjacent_plain rest
  end.

Lemma split_first_special c r : special c = true -> fst (token_at c r) <> Plain.
Proof.
  unfold special, token_at. intros H.
  destruct (N.eqb_spec c 38); [destruct (upto 59 r); discriminate|].
  destruct (N.eqb_spec c 60).
  { destruct (comment_start r).
    - destruct (comment_body (skipn 3 r)); [|discriminate]. destruct (existsb special l); discriminate.
    - destruct (upto 62 r); discriminate. }
  destruct (N.eqb_spec c 62); [discriminate|]. discriminate.
Qed.
