(* C04: cppcms::utf8::next (private/utf_iterator.h), the decoder behind encoding::valid("UTF-8",.) and validate_or_filter, as
   REGENERATED from the source on every run of this check (coq/gen/Gen_C04next.v: every expression of the body of the
   instantiation for char const * as a Gallina function g_c04_next_e0 .. e9 of (html, lead, trail_size, c, tmp), and the statement
   skeleton of the body in source order as a list of strings), against the decoder model of coq/C14/Defs.v that the C04 model
   uses:
     1. the skeleton is the literal from which src_next below was transcribed by hand (any added / dropped / reordered test,
        assignment, case label or return breaks link_next_skeleton);
     2. src_next - the skeleton transcribed into Gallina over the GENERATED expressions - equals D.cppcms_next on every byte
        string, in both modes (link_next).
   So a change of any constant or comparison inside utf8::next, or of utf::valid / is_trail / trail_length / width, breaks a
   lemma here unless it leaves the decoder's behaviour unchanged. *)
From Coq Require Import String.
From CppcmsV Require Import Base.Tac Base.CSem Base.CSemFacts Base.Sweep gen.Gen_C04utf gen.Gen_C04next C04.LinkE.
From CppcmsV Require C14.Defs C14.Spec C14.Proofs.
Local Open Scope N_scope.
Module D := C14.Defs.

Definition next_skeleton_as_transcribed : list string :=
  ["if eof {"; "ret illegal"; "}";
   "lead := read";
   "trail_size := e0";
   "if e1 {"; "ret illegal"; "}";
   "if e2 {"; "if e3 {"; "ret lead"; "}"; "ret illegal"; "}";
   "c := e4";
   "decl tmp";
   "switch trail_size {";
   "case 3"; "if eof {"; "ret illegal"; "}"; "tmp := read"; "if e5 {"; "ret illegal"; "}"; "c := e6";
   "case 2"; "if eof {"; "ret illegal"; "}"; "tmp := read"; "if e5 {"; "ret illegal"; "}"; "c := e6";
   "case 1"; "if eof {"; "ret illegal"; "}"; "tmp := read"; "if e5 {"; "ret illegal"; "}"; "c := e6";
   "}";
   "if e7 {"; "ret illegal"; "}";
   "if e8 {"; "ret illegal"; "}";
   "if e9 {"; "ret illegal"; "}";
   "ret c"]%string.

Lemma link_next_skeleton : g_c04_next_skeleton = next_skeleton_as_transcribed.
Proof. vm_compute. reflexivity. Qed.

(* one case of the switch: if(p==e) return illegal; tmp = *p++; if(e5) return illegal; c = e6; *)
Definition step (html : bool) (lead ts : Z) (st : Z * list N) : (Z * list N) + (D.dres * list N) :=
  let (c, r) := st in
  match r with
  | [] => inr (D.Illegal, [])
  | t :: r' =>
      let tmp := Z.of_N t in
      if g_c04_next_e5 html lead ts c tmp then inr (D.Illegal, r')
      else inl (g_c04_next_e6 html lead ts c tmp, r')
  end.
Fixpoint steps (k : nat) (html : bool) (lead ts : Z) (st : Z * list N) : (Z * list N) + (D.dres * list N) :=
  match k with
  | O => inl st
  | S k' => match step html lead ts st with inl st' => steps k' html lead ts st' | inr e => inr e end
  end.
(* switch(trail_size) { case 3: .. case 2: .. case 1: .. } with fall-through and no default: how many cases run *)
Definition cases_run (ts : Z) : nat :=
  if (ts =? 3)%Z then 3%nat else if (ts =? 2)%Z then 2%nat else if (ts =? 1)%Z then 1%nat else 0%nat.

(* the skeleton, transcribed; variables that are not yet assigned at a program point are passed as 0 (the lemmas below
   hold for every value of the parameters an expression does not use) *)
Definition src_next (html : bool) (l : list N) : D.dres * list N :=
  match l with
  | [] => (D.Illegal, [])
  | b :: r =>
      let lead := Z.of_N b in
      let ts := g_c04_next_e0 html lead 0 0 0 in
      if g_c04_next_e1 html lead ts 0 0 then (D.Illegal, r)
      else if g_c04_next_e2 html lead ts 0 0 then
        ((if g_c04_next_e3 html lead ts 0 0 then D.Cp (Z.to_N lead) else D.Illegal), r)
      else
        match steps (cases_run ts) html lead ts (g_c04_next_e4 html lead ts 0 0, r) with
        | inr e => e
        | inl (c, r') =>
            if g_c04_next_e7 html lead ts c 0 then (D.Illegal, r')
            else if g_c04_next_e8 html lead ts c 0 then (D.Illegal, r')
            else if g_c04_next_e9 html lead ts c 0 then (D.Illegal, r')
            else (D.Cp (Z.to_N c), r')
        end
  end.

(* ---- the generated expressions are the model's ---- *)
Lemma e0_model html b ts c tmp : b < 256 -> g_c04_next_e0 html (Z.of_N b) ts c tmp = D.trail_length b.
Proof. intros H. unfold g_c04_next_e0. apply link_trail_length. exact H. Qed.

Lemma e1_model html lead ts c tmp : g_c04_next_e1 html lead ts c tmp = (ts <? 0)%Z.
Proof. unfold g_c04_next_e1. zcmp. Qed.

Lemma e2_model html lead ts c tmp : g_c04_next_e2 html lead ts c tmp = (ts =? 0)%Z.
Proof. unfold g_c04_next_e2. zcmp. Qed.

Lemma e3_model html b ts c tmp : b < 256 ->
  g_c04_next_e3 html (Z.of_N b) ts c tmp = negb html || D.ascii_html_ok b.
Proof.
  intros H. unfold g_c04_next_e3. apply eqb_prop. destruct html.
  - apply (sweep256 (fun b => eqb (g_c04_next_e3 true (Z.of_N b) 0 0 0) (negb true || D.ascii_html_ok b))); [vm_compute; reflexivity|exact H].
  - reflexivity.
Qed.

Lemma e4_model html b ts c tmp : b < 256 -> (1 <= ts <= 3)%Z ->
  g_c04_next_e4 html (Z.of_N b) ts c tmp = Z.of_N (D.lead_bits ts b).
Proof.
  intros H Hts. unfold g_c04_next_e4.
  assert (ts = 1 \/ ts = 2 \/ ts = 3)%Z as [-> | [-> | ->]] by lia; apply Z.eqb_eq.
  - apply (sweep256 (fun b => (g_c04_next_e4 true (Z.of_N b) 1 0 0 =? Z.of_N (D.lead_bits 1 b))%Z)); [vm_compute; reflexivity|exact H].
  - apply (sweep256 (fun b => (g_c04_next_e4 true (Z.of_N b) 2 0 0 =? Z.of_N (D.lead_bits 2 b))%Z)); [vm_compute; reflexivity|exact H].
  - apply (sweep256 (fun b => (g_c04_next_e4 true (Z.of_N b) 3 0 0 =? Z.of_N (D.lead_bits 3 b))%Z)); [vm_compute; reflexivity|exact H].
Qed.

Lemma e5_model html lead ts c t : t < 256 -> g_c04_next_e5 html lead ts c (Z.of_N t) = negb (D.is_trail t).
Proof. intros H. unfold g_c04_next_e5. rewrite link_is_trail by exact H. reflexivity. Qed.

Lemma lor_shift6 a b : (0 <= a)%Z -> (0 <= b < 64)%Z -> Z.lor (Z.shiftl a 6) b = (a * 64 + b)%Z.
Proof.
  intros Ha Hb.
  assert (L : Z.land (Z.shiftl a 6) b = 0%Z).
  { apply Z.bits_inj'. intros n Hn. rewrite Z.land_spec, Z.bits_0.
    destruct (Z.ltb_spec n 6) as [Hlt|Hge].
    - rewrite Z.shiftl_spec_low by lia. reflexivity.
    - replace b with (b mod 2 ^ 6)%Z by (apply Z.mod_small; lia).
      rewrite Z.mod_pow2_bits_high by lia. apply andb_false_r. }
  rewrite <- Z.lxor_lor by exact L. rewrite <- Z.add_nocarry_lxor by exact L.
  rewrite Z.shiftl_mul_pow2 by lia. reflexivity.
Qed.

Lemma e6_model html lead ts c t : c < 67108864 -> t < 256 ->
  g_c04_next_e6 html lead ts (Z.of_N c) (Z.of_N t) = Z.of_N (c * 64 + t mod 64).
Proof.
  intros Hc Ht. unfold g_c04_next_e6.
  change 63%Z with (Z.ones 6). rewrite Z.land_ones by lia. change (2 ^ 6)%Z with 64%Z.
  assert (S6 : Z.shiftl (Z.of_N c) 6 = (Z.of_N c * 64)%Z) by (rewrite Z.shiftl_mul_pow2 by lia; reflexivity).
  rewrite (wrapu32_small (Z.shiftl (Z.of_N c) 6)) by (rewrite S6; lia).
  rewrite (wrapu32_small (Z.of_N t mod 64)) by lia.
  rewrite lor_shift6 by lia. rewrite wrapu32_small by lia. lia.
Qed.

Lemma e7_model html lead ts c tmp : g_c04_next_e7 html lead ts (Z.of_N c) tmp = negb (D.cp_valid c).
Proof. unfold g_c04_next_e7. rewrite link_utf_valid. reflexivity. Qed.

Lemma e8_model html lead ts c tmp : g_c04_next_e8 html lead ts (Z.of_N c) tmp = negb (Z.eqb (D.width c) (ts + 1)).
Proof. unfold g_c04_next_e8. rewrite link_width. zcmp. Qed.

Lemma e9_model html lead ts c tmp : g_c04_next_e9 html lead ts (Z.of_N c) tmp = html && (c <? 160).
Proof. unfold g_c04_next_e9. destruct html; cbn [andb]; zcmp. Qed.

(* ---- the switch is read_trail ---- *)
Definition rt_result (x : D.dres * list N) : (Z * list N) + (D.dres * list N) :=
  match x with (D.Cp c, r) => inl (Z.of_N c, r) | other => inr other end.

Lemma step_model html lead ts c t r : c < 67108864 -> t < 256 ->
  step html lead ts (Z.of_N c, t :: r) =
  if D.is_trail t then inl (Z.of_N (c * 64 + t mod 64), r) else inr (D.Illegal, r).
Proof.
  intros Hc Ht. unfold step. rewrite e5_model by exact Ht. destruct (D.is_trail t); cbn [negb].
  - rewrite e6_model by assumption. reflexivity.
  - reflexivity.
Qed.

Lemma steps1_model html lead ts c r : c < 67108864 -> bytes_ok r ->
  steps 1 html lead ts (Z.of_N c, r) = rt_result (D.read_trail D.Illegal 1 c r).
Proof.
  intros Hc Hr. destruct r as [|t r]; [reflexivity|]. inversion Hr; subst.
  cbn [steps D.read_trail]. rewrite step_model by assumption. destruct (D.is_trail t); reflexivity.
Qed.

Lemma steps2_model html lead ts c r : c < 1048576 -> bytes_ok r ->
  steps 2 html lead ts (Z.of_N c, r) = rt_result (D.read_trail D.Illegal 2 c r).
Proof.
  intros Hc Hr. destruct r as [|t r]; [reflexivity|]. inversion Hr; subst.
  change (steps 2 html lead ts (Z.of_N c, t :: r)) with
    (match step html lead ts (Z.of_N c, t :: r) with inl st' => steps 1 html lead ts st' | inr e => inr e end).
  rewrite step_model by (try assumption; lia). cbn [D.read_trail]. destruct (D.is_trail t); [|reflexivity].
  apply steps1_model; [|assumption]. assert (t mod 64 < 64) by (apply N.mod_lt; lia). lia.
Qed.

Lemma steps3_model html lead ts c r : c < 16384 -> bytes_ok r ->
  steps 3 html lead ts (Z.of_N c, r) = rt_result (D.read_trail D.Illegal 3 c r).
Proof.
  intros Hc Hr. destruct r as [|t r]; [reflexivity|]. inversion Hr; subst.
  change (steps 3 html lead ts (Z.of_N c, t :: r)) with
    (match step html lead ts (Z.of_N c, t :: r) with inl st' => steps 2 html lead ts st' | inr e => inr e end).
  rewrite step_model by (try assumption; lia). cbn [D.read_trail]. destruct (D.is_trail t); [|reflexivity].
  apply steps2_model; [|assumption]. assert (t mod 64 < 64) by (apply N.mod_lt; lia). lia.
Qed.

Lemma lead_bits_bound ts b : (1 <= ts <= 3)%Z -> D.lead_bits ts b < 32.
Proof.
  intros H. unfold D.lead_bits.
  assert (ts = 1 \/ ts = 2 \/ ts = 3)%Z as [-> | [-> | ->]] by lia; cbn.
  - assert (b mod 32 < 32) by (apply N.mod_lt; lia). lia.
  - assert (b mod 16 < 16) by (apply N.mod_lt; lia). lia.
  - assert (b mod 8 < 8) by (apply N.mod_lt; lia). lia.
Qed.

Lemma finish_model html lead ts c (r : list N) tmp :
  (if g_c04_next_e7 html lead ts (Z.of_N c) tmp then (D.Illegal, r)
   else if g_c04_next_e8 html lead ts (Z.of_N c) tmp then (D.Illegal, r)
   else if g_c04_next_e9 html lead ts (Z.of_N c) tmp then (D.Illegal, r)
   else (D.Cp (Z.to_N (Z.of_N c)), r)) = (D.finish html ts c, r).
Proof.
  rewrite e7_model, e8_model, e9_model, N2Z.id. unfold D.finish.
  destruct (negb (D.cp_valid c)); [reflexivity|].
  destruct (negb (D.width c =? ts + 1)%Z); [reflexivity|].
  destruct (html && (c <? 160)); reflexivity.
Qed.

(* ---- the regenerated decoder is the model's decoder, on every byte string, in both modes ---- *)
Theorem link_next html l : bytes_ok l -> src_next html l = D.cppcms_next html l.
Proof.
  intros Hl. destruct l as [|b r]; [reflexivity|]. inversion Hl as [|x y Hb Hr]; subst.
  unfold src_next, D.cppcms_next, D.next_gen.
  rewrite (e0_model html b 0 0 0 Hb), e1_model, e2_model.
  destruct (C14.Proofs.trail_length_cases b) as [[E R]|[[E R]|[[E R]|[[E R]|[E R]]]]]; rewrite E.
  - cbn [Z.ltb Z.eqb Z.compare]. rewrite e3_model by exact Hb. rewrite N2Z.id. reflexivity.
  - reflexivity.
  - change (1 <? 0)%Z with false. change (1 =? 0)%Z with false. cbv iota.
    rewrite e4_model by (try exact Hb; lia). change (cases_run 1) with 1%nat. change (Z.to_nat 1) with 1%nat.
    rewrite steps1_model; [|pose proof (lead_bits_bound 1 b ltac:(lia)); lia|exact Hr].
    destruct (D.read_trail D.Illegal 1 (D.lead_bits 1 b) r) as [[| |c] r']; cbn [rt_result]; try reflexivity.
    apply finish_model.
  - change (2 <? 0)%Z with false. change (2 =? 0)%Z with false. cbv iota.
    rewrite e4_model by (try exact Hb; lia). change (cases_run 2) with 2%nat. change (Z.to_nat 2) with 2%nat.
    rewrite steps2_model; [|pose proof (lead_bits_bound 2 b ltac:(lia)); lia|exact Hr].
    destruct (D.read_trail D.Illegal 2 (D.lead_bits 2 b) r) as [[| |c] r']; cbn [rt_result]; try reflexivity.
    apply finish_model.
  - change (3 <? 0)%Z with false. change (3 =? 0)%Z with false. cbv iota.
    rewrite e4_model by (try exact Hb; lia). change (cases_run 3) with 3%nat. change (Z.to_nat 3) with 3%nat.
    rewrite steps3_model; [|pose proof (lead_bits_bound 3 b ltac:(lia)); lia|exact Hr].
    destruct (D.read_trail D.Illegal 3 (D.lead_bits 3 b) r) as [[| |c] r']; cbn [rt_result]; try reflexivity.
    apply finish_model.
Qed.

(* ---- consequence, stated on the REGENERATED decoder: utf8::next as it stands in the source accepts exactly one UTF8-char of the
        RFC 3629 section 4 ABNF (C14.Spec.Seq: shortest form, no surrogate, at most U+10FFFF) followed by an arbitrary rest, returns
        its scalar value, and in HTML mode only if the value is no forbidden control ---- *)
Theorem src_next_is_rfc3629 html l c r : bytes_ok l ->
  (src_next html l = (D.Cp c, r) <->
   exists e, C14.Spec.Seq e c /\ l = e ++ r /\ (html = true -> C14.Spec.html_safe c)).
Proof.
  intros Hl. rewrite (link_next html l Hl). unfold D.cppcms_next.
  apply C14.Proofs.next_spec. exact C14.Proofs.not_cp_Illegal.
Qed.
