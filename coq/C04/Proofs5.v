(* C04 proofs, part 5: entries that are neither opening nor closing tags are inert for
   validate_nesting: deleting some of them from the input deletes exactly them from the output. *)
From CppcmsV Require Import Base.Tac Base.Sweep C04.Defs C04.Proofs1 C04.Proofs2.
Local Open Scope N_scope.

Section Inert.
  Variable P : entry -> Prop.
  Hypothesis P_inert : forall x, P x -> e_type x <> Open /\ e_type x <> Close.

  (* sub l l': l' is l with some entries that satisfy P deleted *)
  Inductive sub : list entry -> list entry -> Prop :=
    | sub_nil : sub [] []
    | sub_keep x l l' : sub l l' -> sub (x :: l) (x :: l')
    | sub_drop x l l' : P x -> sub l l' -> sub (x :: l) l'.

  Lemma sub_refl l : sub l l.
  Proof. induction l; constructor; assumption. Qed.

  Lemma sub_app a a' b b' : sub a a' -> sub b b' -> sub (a ++ b) (a' ++ b').
  Proof. induction 1; intros Hb; cbn [app]; [exact Hb|apply sub_keep; auto|apply sub_drop; auto]. Qed.

  Lemma sub_rev l l' : sub l l' -> sub (rev l) (rev l').
  Proof.
    induction 1 as [|x l l' H IH|x l l' Hx H IH]; cbn [rev].
    - constructor.
    - apply sub_app; [exact IH|apply sub_keep; constructor].
    - rewrite <- (app_nil_r (rev l')). apply sub_app; [exact IH|apply sub_drop; [exact Hx|constructor]].
  Qed.

  Lemma sub_drop_all l : Forall P l -> forall l' k, sub l' k -> sub (l ++ l') k.
  Proof. induction 1 as [|x l Hx H IH]; intros l' k Hk; cbn [app]; [exact Hk|apply sub_drop; auto]. Qed.

  Lemma sub_Forall (Q : entry -> Prop) l l' : sub l l' -> (forall x, P x -> Q x) -> Forall Q l' -> Forall Q l.
  Proof.
    intros Hs HPQ. induction Hs as [|x l l' H IH|x l l' Hx H IH]; intros HQ.
    - constructor.
    - inversion HQ; subst. constructor; auto.
    - constructor; auto.
  Qed.

  Definition fsub (fs fs' : list frame) : Prop :=
    Forall2 (fun f f' : frame => fst f = fst f' /\ sub (snd f) (snd f')) fs fs'.

  Lemma emit_to_sub items items' fs fs' base base' :
    sub items items' -> fsub fs fs' -> sub base base' ->
    fsub (fst (emit_to items fs base)) (fst (emit_to items' fs' base')) /\
    sub (snd (emit_to items fs base)) (snd (emit_to items' fs' base')).
  Proof.
    intros Hi Hf Hb. destruct Hf as [|[o its] [o' its'] fs fs' [Ho Hs] Hf]; cbn [emit_to fst snd] in *.
    - split; [constructor|apply sub_app; assumption].
    - subst o'. split; [|exact Hb]. constructor; [|exact Hf]. split; [reflexivity|]. cbn [snd]. apply sub_app; assumption.
  Qed.

  Lemma emit_to_nil fs base : emit_to [] fs base = (fs, base).
  Proof. destruct fs as [|[o its] fs]; reflexivity. Qed.

  Lemma html_close_sub e : forall fs fs' popped popped' base base',
    fsub fs fs' -> sub popped popped' -> sub base base' ->
    fsub (fst (html_close e fs popped base)) (fst (html_close e fs' popped' base')) /\
    sub (snd (html_close e fs popped base)) (snd (html_close e fs' popped' base')).
  Proof.
    intros fs fs' popped popped' base base' Hf. revert popped popped' base base'.
    induction Hf as [|[o its] [o' its'] fs fs' [Ho Hs] Hf IH]; intros popped popped' base base' Hp Hb; cbn [html_close].
    - cbn [fst snd]. split; [constructor|]. apply sub_keep. apply sub_app; assumption.
    - cbn [fst snd] in Ho, Hs. subst o'. destruct (name_eq false (e_name o) (e_name e)).
      + apply emit_to_sub; [|exact Hf|exact Hb]. apply sub_keep. apply sub_app; [exact Hp|].
        apply sub_app; [exact Hs|apply sub_refl].
      + apply IH; [|exact Hb]. apply sub_app; [exact Hp|]. apply sub_app; [exact Hs|apply sub_refl].
  Qed.

  Lemma xhtml_close_sub e fs fs' base base' :
    fsub fs fs' -> sub base base' ->
    fsub (fst (xhtml_close e fs base)) (fst (xhtml_close e fs' base')) /\
    sub (snd (xhtml_close e fs base)) (snd (xhtml_close e fs' base')).
  Proof.
    intros Hf Hb. destruct Hf as [|[o its] [o' its'] fs fs' [Ho Hs] Hf]; cbn [xhtml_close].
    - cbn [fst snd]. split; [constructor|]. apply sub_keep. exact Hb.
    - cbn [fst snd] in Ho, Hs. subst o'. destruct (name_eq true (e_name o) (e_name e)).
      + apply emit_to_sub; [|exact Hf|exact Hb]. apply sub_keep. apply sub_app; [exact Hs|apply sub_refl].
      + apply emit_to_sub; [|exact Hf|exact Hb]. apply sub_keep. apply sub_app; [exact Hs|apply sub_refl].
  Qed.

  Lemma flush_sub t : forall fs fs' acc acc', fsub fs fs' -> sub acc acc' -> sub (flush t fs acc) (flush t fs' acc').
  Proof.
    intros fs fs' acc acc' Hf. revert acc acc'.
    induction Hf as [|[o its] [o' its'] fs fs' [Ho Hs] Hf IH]; intros acc acc' Ha; cbn [flush]; [exact Ha|].
    cbn [fst snd] in Ho, Hs. subst o'. apply IH. apply sub_app; [exact Ha|]. apply sub_app; [exact Hs|apply sub_refl].
  Qed.

  Lemma nest_loop_inert xhtml x todo fs base : e_type x <> Open -> e_type x <> Close ->
    nest_loop xhtml (x :: todo) fs base =
    nest_loop xhtml todo (fst (emit_to [x] fs base)) (snd (emit_to [x] fs base)).
  Proof.
    intros H1 H2. cbn [nest_loop]. destruct (emit_to [x] fs base) as [fs1 base1]. cbn [fst snd].
    destruct (e_type x); try reflexivity; congruence.
  Qed.

  Lemma nest_loop_sub xhtml todo todo' : sub todo todo' -> forall fs fs' base base',
    fsub fs fs' -> sub base base' ->
    sub (nest_loop xhtml todo fs base) (nest_loop xhtml todo' fs' base').
  Proof.
    induction 1 as [|x todo todo' H IH|x todo todo' Hx H IH]; intros fs fs' base base' Hf Hb.
    - cbn [nest_loop]. apply sub_rev. apply sub_app; [|exact Hb]. apply flush_sub; [exact Hf|constructor].
    - cbn [nest_loop].
      assert (Hother : sub (let (fs1, base1) := emit_to [x] fs base in nest_loop xhtml todo fs1 base1)
                           (let (fs1, base1) := emit_to [x] fs' base' in nest_loop xhtml todo' fs1 base1)).
      { destruct (emit_to_sub [x] [x] fs fs' base base' (sub_refl _) Hf Hb) as [H1 H2].
        destruct (emit_to [x] fs base) as [fs1 base1]. destruct (emit_to [x] fs' base') as [fs1' base1'].
        apply IH; assumption. }
      destruct (e_type x); try exact Hother.
      + apply IH; [|exact Hb]. constructor; [|exact Hf]. split; [reflexivity|constructor].
      + destruct xhtml.
        * destruct (xhtml_close_sub x fs fs' base base' Hf Hb) as [H1 H2].
          destruct (xhtml_close x fs base) as [fs1 base1]. destruct (xhtml_close x fs' base') as [fs1' base1'].
          apply IH; assumption.
        * destruct (html_close_sub x fs fs' [] [] base base' Hf sub_nil Hb) as [H1 H2].
          destruct (html_close x fs [] base) as [fs1 base1]. destruct (html_close x fs' [] base') as [fs1' base1'].
          apply IH; assumption.
    - destruct (P_inert x Hx) as [H1 H2]. rewrite nest_loop_inert by assumption.
      assert (Hd : sub [x] []) by (apply sub_drop; [exact Hx|constructor]).
      destruct (emit_to_sub [x] [] fs fs' base base' Hd Hf Hb) as [H3 H4].
      rewrite emit_to_nil in H3, H4. cbn [fst snd] in H3, H4. apply IH; assumption.
  Qed.

  Lemma nest_sub xhtml l l' : sub l l' -> sub (nest xhtml l) (nest xhtml l').
  Proof. intros H. apply nest_loop_sub; [exact H|constructor|constructor]. Qed.
End Inert.
