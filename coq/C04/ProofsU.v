(* C04 proofs about the URI validators (DefsU.v): what is accepted consists of URI characters only;
   a value that a browser would read as having a scheme is accepted only if the scheme expression
   matches that scheme; the relative validator accepts nothing with a scheme; the absolute-only
   validator accepts exactly scheme ":" hier-part [ "?" query ] [ "#" fragment ] with a scheme that the
   scheme expression matches (the variant of parse_full() before /repo 92a72e6 accepted relative
   references: regression example). *)
From CppcmsV Require Import Base.Tac Base.Sweep C04.Defs C04.DefsU C04.Proofs3.
Local Open Scope N_scope.

(* ---------- schemes ---------- *)
Lemma visible_scheme_uri v sc : visible_scheme v = Some sc ->
  exists r rest, scheme v = Some (sc, 58 :: r) /\ uri v = Some rest.
Proof.
  unfold visible_scheme, uri. destruct (scheme v) as [[sc' r]|]; [|discriminate].
  destruct r as [|c r]; [discriminate|]. destruct (N.eqb_spec c 58) as [E|E].
  - subst c. intros H. inversion H; subst. exists r. eexists. split; [reflexivity|].
    cbn [follows_c N.eqb Pos.eqb]. reflexivity.
  - destruct c as [|p]; try discriminate.
    do 6 (destruct p as [p|p|]; try discriminate). congruence.
Qed.

Lemma uri_visible_scheme v rest : uri v = Some rest -> exists sc, visible_scheme v = Some sc.
Proof.
  unfold uri, visible_scheme. destruct (scheme v) as [[sc r]|]; [|discriminate].
  unfold follows_c. destruct r as [|c r]; [discriminate|]. destruct (N.eqb_spec c 58) as [E|E]; [|discriminate].
  subst c. intros _. exists sc. reflexivity.
Qed.

Definition scheme_form (sc : list N) : Prop :=
  exists c t, sc = c :: t /\ u_alpha c = true /\ forallb schemech t = true.

Lemma scheme_split s sc r : scheme s = Some (sc, r) -> s = sc ++ r /\ scheme_form sc.
Proof.
  unfold scheme. destruct s as [|c s']; [discriminate|]. destruct (u_alpha c) eqn:Ea; [|discriminate].
  intros H. inversion H; subst. split.
  - cbn [app]. f_equal. apply takew_dropw.
  - exists c, (takew schemech s'). split; [reflexivity|]. split; [exact Ea|apply takew_all].
Qed.

Section Schemes.
  Variable sre : list N -> bool.

  Lemma parse_uri_scheme v sc : visible_scheme v = Some sc ->
    exists ok, parse_uri v = (ok, false, sc).
  Proof.
    intros H. destruct (visible_scheme_uri v sc H) as (r & rest & Hs & Hu). unfold parse_uri. rewrite Hs, Hu.
    eexists. reflexivity.
  Qed.

  Lemma uri_both_scheme_checked v sc :
    uri_validate UBoth sre v = true -> visible_scheme v = Some sc -> sre sc = true.
  Proof.
    intros Hv Hs. destruct (parse_uri_scheme v sc Hs) as (ok & Hp). unfold uri_validate in Hv. rewrite Hp in Hv.
    cbv beta iota in Hv. destruct ok; [exact Hv|discriminate].
  Qed.

  Lemma uri_relative_no_scheme v :
    uri_validate URelative sre v = true -> visible_scheme v = None.
  Proof.
    intros Hv. destruct (visible_scheme v) as [sc|] eqn:Hs; [|reflexivity].
    destruct (parse_uri_scheme v sc Hs) as (ok & Hp). unfold uri_validate in Hv. rewrite Hp in Hv.
    cbv beta iota in Hv. destruct ok; discriminate.
  Qed.

  (* parse_full(): success means scheme ":" hier-part [ "?" query ] [ "#" fragment ] covering the whole value *)
  Lemma parse_full_spec v sc : parse_full v = Some sc ->
    exists rest, v = sc ++ 58 :: rest /\ scheme_form sc /\ visible_scheme v = Some sc /\
                 opt_fragment (opt_query (hier_part rest)) = [].
  Proof.
    unfold parse_full, uri, visible_scheme. destruct (scheme v) as [[sc' r]|] eqn:Es; [|discriminate].
    destruct (scheme_split v sc' r Es) as (Hv & Hf).
    unfold follows_c. destruct r as [|c r]; [discriminate|]. destruct (N.eqb_spec c 58) as [E|E]; [|discriminate].
    subst c. destruct (opt_fragment (opt_query (hier_part r))) as [|x y] eqn:Er; [|discriminate].
    intros H. inversion H; subst sc'. exists r. split; [exact Hv|]. split; [exact Hf|]. split; [reflexivity|exact Er].
  Qed.

  (* the absolute-only validator: every accepted value is scheme ":" hier-part ..., the scheme is the one a browser
     reads, and the scheme expression matches it *)
  Lemma uri_full_has_scheme v : uri_validate UFull sre v = true ->
    exists sc rest, v = sc ++ 58 :: rest /\ scheme_form sc /\ sre sc = true /\ visible_scheme v = Some sc /\
                    opt_fragment (opt_query (hier_part rest)) = [].
  Proof.
    unfold uri_validate. destruct (parse_full v) as [sc|] eqn:Ep; [|discriminate]. intros Hs.
    destruct (parse_full_spec v sc Ep) as (rest & H1 & H2 & H3 & H4). exists sc, rest.
    exact (conj H1 (conj H2 (conj Hs (conj H3 H4)))).
  Qed.

  Lemma uri_full_scheme_checked v sc :
    uri_validate UFull sre v = true -> visible_scheme v = Some sc -> sre sc = true.
  Proof.
    intros Hv Hs. destruct (uri_full_has_scheme v Hv) as (sc' & rest & _ & _ & Hm & Hs' & _).
    rewrite Hs in Hs'. inversion Hs'; subst. exact Hm.
  Qed.

  (* conversely: scheme ":" rest with the rest consumed by hier-part [?query] [#fragment] is accepted when the
     scheme expression matches - the description above is exact *)
  Lemma scheme_of_form sc rest : scheme_form sc -> scheme (sc ++ 58 :: rest) = Some (sc, 58 :: rest).
  Proof.
    intros (c & t & Hsc & Ha & Ht). subst sc. cbn [app scheme]. rewrite Ha.
    assert (Hw : forall t, forallb schemech t = true ->
                 takew schemech (t ++ 58 :: rest) = t /\ dropw schemech (t ++ 58 :: rest) = 58 :: rest).
    { clear. induction t as [|x t IH]; intros H.
      - split; reflexivity.
      - cbn [forallb] in H. apply andb_true_iff in H. destruct H as [Hx Ht]. destruct (IH Ht) as [I1 I2].
        cbn [app takew dropw]. rewrite Hx, I1, I2. split; reflexivity. }
    destruct (Hw t Ht) as [W1 W2]. rewrite W1, W2. reflexivity.
  Qed.

  Lemma uri_full_complete sc rest : scheme_form sc -> sre sc = true ->
    opt_fragment (opt_query (hier_part rest)) = [] -> uri_validate UFull sre (sc ++ 58 :: rest) = true.
  Proof.
    intros Hf Hm Hr. unfold uri_validate, parse_full, uri. rewrite (scheme_of_form sc rest Hf).
    cbn [follows_c N.eqb Pos.eqb]. rewrite Hr. exact Hm.
  Qed.
End Schemes.

Lemma uri_full_exact sre v :
  uri_validate UFull sre v = true <->
  exists sc rest, v = sc ++ 58 :: rest /\ scheme_form sc /\ sre sc = true /\
                  opt_fragment (opt_query (hier_part rest)) = [].
Proof.
  split.
  - intros H. destruct (uri_full_has_scheme sre v H) as (sc & rest & H1 & H2 & H3 & _ & H5).
    exists sc, rest. exact (conj H1 (conj H2 (conj H3 H5))).
  - intros (sc & rest & H1 & H2 & H3 & H4). subst v. exact (uri_full_complete sre sc rest H2 H3 H4).
Qed.

(* through the rule set: attributes registered with a URI validator *)
Lemma uri_both_attribute r vfun k sre tag pn v sc :
  find_prop r tag pn = Some (VFun k) -> vfun k = uri_validate UBoth sre ->
  c_val_ok r vfun tag pn v = true -> visible_scheme v = Some sc -> sre sc = true.
Proof.
  intros Hf Hk Hv Hs. unfold c_val_ok in Hv. rewrite Hf, Hk in Hv. exact (uri_both_scheme_checked sre v sc Hv Hs).
Qed.

Lemma uri_full_attribute r vfun k sre tag pn v :
  find_prop r tag pn = Some (VFun k) -> vfun k = uri_validate UFull sre ->
  c_val_ok r vfun tag pn v = true ->
  exists sc rest, v = sc ++ 58 :: rest /\ scheme_form sc /\ sre sc = true /\ visible_scheme v = Some sc /\
                  opt_fragment (opt_query (hier_part rest)) = [].
Proof.
  intros Hf Hk Hv. unfold c_val_ok in Hv. rewrite Hf, Hk in Hv. exact (uri_full_has_scheme sre v Hv).
Qed.

Lemma uri_relative_attribute r vfun k sre tag pn v :
  find_prop r tag pn = Some (VFun k) -> vfun k = uri_validate URelative sre ->
  c_val_ok r vfun tag pn v = true -> visible_scheme v = None.
Proof.
  intros Hf Hk Hv. unfold c_val_ok in Hv. rewrite Hf, Hk in Hv. exact (uri_relative_no_scheme sre v Hv).
Qed.

(* regression (the defect repaired by /repo 92a72e6): with the scheme expression (http|https) the value http/evil
   was accepted by the absolute-only validator; it is rejected now, an absolute URI is still accepted *)
Definition ex_http_https (sc : list N) : bool := leqb sc [104;116;116;112] || leqb sc [104;116;116;112;115].
Lemma uri_full_regression :
  uri_validate UFull ex_http_https [104;116;116;112;47;101;118;105;108] = false /\
  uri_validate_full_old ex_http_https [104;116;116;112;47;101;118;105;108] = true /\
  visible_scheme [104;116;116;112;47;101;118;105;108] = None /\
  uri_validate UFull ex_http_https [104;116;116;112;58;47;47;104;47] = true.
Proof. repeat split; vm_compute; reflexivity. Qed.

(* ---------- alphabet ---------- *)
Definition uchar (c : N) : bool :=
  u_alpha c || u_digit c ||
  existsb (N.eqb c) [45;46;95;126; 37; 33;36;40;41;42;43;44;59;61;39; 58;64;47;63;35; 38].

(* r is what is left of s after a prefix of URI characters *)
Definition consumed (s r : list N) : Prop := exists p, s = p ++ r /\ forallb uchar p = true.

Ltac uchar_solve H :=
  repeat (apply orb_true_iff in H; destruct H as [H|H]);
  first [ rewrite H; reflexivity | rewrite H, orb_true_r; reflexivity
        | unfold u_alpha, u_digit; rewrite H; repeat rewrite orb_true_r; reflexivity
        | apply N.eqb_eq in H; subst; reflexivity ].

Lemma consumed_refl s : consumed s s.
Proof. exists []. split; reflexivity. Qed.
Lemma consumed_trans a b c : consumed a b -> consumed b c -> consumed a c.
Proof.
  intros (p & Hp & Hu) (q & Hq & Hv). exists (p ++ q). subst. rewrite <- app_assoc. split; [reflexivity|].
  rewrite forallb_app, Hu, Hv. reflexivity.
Qed.

Definition tok_ok (f : list N -> nat) : Prop :=
  forall s k, f s = S k -> exists p r, s = p ++ r /\ length p = S k /\ forallb uchar p = true.

Lemma orl_ok a b : tok_ok a -> tok_ok b -> tok_ok (fun s => orl (a s) (b s)).
Proof. intros Ha Hb s k H. unfold orl in H. destruct (a s) eqn:E; [exact (Hb s k H)|exact (Ha s k (eq_trans E H))]. Qed.

Lemma one_ok (test : N -> bool) : (forall c, test c = true -> uchar c = true) ->
  tok_ok (fun s => match s with c :: _ => if test c then 1%nat else 0%nat | [] => 0%nat end).
Proof.
  intros Ht s k H. destruct s as [|c r]; [discriminate|]. destruct (test c) eqn:E; [|discriminate].
  inversion H; subst. exists [c], r. repeat split. cbn [forallb]. rewrite (Ht c E). reflexivity.
Qed.

Lemma char_len_ok c : uchar c = true -> tok_ok (char_len c).
Proof.
  intros Hc. unfold char_len. apply (one_ok (fun x => x =? c)). intros x Hx. apply N.eqb_eq in Hx. subst. exact Hc.
Qed.

Lemma unreserved_ok : tok_ok unreserved_len.
Proof.
  unfold unreserved_len. apply (one_ok (fun c => u_alpha c || u_digit c || (c =? 45) || (c =? 46) || (c =? 95) || (c =? 126))).
  intros c H. unfold uchar. uchar_solve H.
Qed.

Lemma pct_ok : tok_ok pct_len.
Proof.
  intros s k H. unfold pct_len in H. destruct s as [|c0 [|c1 [|c2 r]]]; try discriminate.
  destruct ((c0 =? 37) && u_hex c1 && u_hex c2) eqn:E; [|discriminate]. inversion H; subst.
  apply andb_true_iff in E. destruct E as [E E2]. apply andb_true_iff in E. destruct E as [E0 E1].
  exists [c0; c1; c2], r. repeat split. cbn [forallb].
  assert (Hh : forall c, u_hex c = true -> uchar c = true).
  { intros c Hc. unfold u_hex in Hc. unfold uchar, u_alpha.
    apply orb_true_iff in Hc. destruct Hc as [Hc|Hc]; [apply orb_true_iff in Hc; destruct Hc as [Hc|Hc]|].
    - rewrite Hc. repeat rewrite orb_true_r. reflexivity.
    - apply andb_true_iff in Hc. destruct Hc as [H1 H2]. apply N.leb_le in H1, H2.
      assert (H3 : (97 <=? c) && (c <=? 122) = true) by (apply andb_true_iff; split; apply N.leb_le; lia).
      rewrite H3. reflexivity.
    - apply andb_true_iff in Hc. destruct Hc as [H1 H2]. apply N.leb_le in H1, H2.
      assert (H3 : (65 <=? c) && (c <=? 90) = true) by (apply andb_true_iff; split; apply N.leb_le; lia).
      rewrite H3. repeat rewrite orb_true_r. reflexivity. }
  rewrite (Hh _ E1), (Hh _ E2). apply N.eqb_eq in E0. subst c0. reflexivity.
Qed.

Lemma subdelim_ok : tok_ok subdelim_len.
Proof.
  intros s k H. unfold subdelim_len in H.
  destruct (starts amp_s s) eqn:Ea.
  { inversion H; subst. apply starts_spec in Ea. exists amp_s, (skipn (length amp_s) s). repeat split. exact Ea. }
  destruct (starts apos_s s) eqn:Eb.
  { inversion H; subst. apply starts_spec in Eb. exists apos_s, (skipn (length apos_s) s). repeat split. exact Eb. }
  destruct s as [|c r]; [discriminate|].
  destruct ((c =? 33) || (c =? 36) || (c =? 40) || (c =? 41) || (c =? 42) || (c =? 43) || (c =? 44) || (c =? 59) || (c =? 61) || (c =? 39)) eqn:E;
    [|discriminate].
  inversion H; subst. exists [c], r. repeat split. cbn [forallb]. rewrite andb_true_r. unfold uchar. uchar_solve E.
Qed.

Lemma reg_ok : tok_ok reg_len.
Proof. unfold reg_len. apply orl_ok; [exact unreserved_ok|]. apply orl_ok; [exact pct_ok|exact subdelim_ok]. Qed.
Lemma nc_ok : tok_ok nc_len.
Proof. unfold nc_len. apply orl_ok; [exact reg_ok|apply char_len_ok; reflexivity]. Qed.
Lemma pchar_ok : tok_ok pchar_len.
Proof. unfold pchar_len. apply orl_ok; [exact reg_ok|]. apply orl_ok; apply char_len_ok; reflexivity. Qed.
Lemma qchar_ok : tok_ok qchar_len.
Proof. unfold qchar_len. apply orl_ok; [exact pchar_ok|]. apply orl_ok; apply char_len_ok; reflexivity. Qed.
Lemma pslash_ok : tok_ok pslash_len.
Proof. unfold pslash_len. apply orl_ok; [exact pchar_ok|apply char_len_ok; reflexivity]. Qed.
Lemma ui_ok : tok_ok ui_len.
Proof. unfold ui_len. apply orl_ok; [exact reg_ok|apply char_len_ok; reflexivity]. Qed.
Lemma digit_ok : tok_ok digit_len.
Proof.
  unfold digit_len. apply (one_ok u_digit). intros c H. unfold uchar. rewrite H. rewrite orb_true_r. reflexivity.
Qed.

Lemma star_aux_skip f k s : star_aux f k s = star_aux f 0 (skipn k s).
Proof.
  revert k. induction s as [|c r IH]; intros k; [destruct k; reflexivity|].
  destruct k as [|k]; [reflexivity|]. cbn [star_aux skipn]. apply IH.
Qed.

Lemma star_unfold f s : star f s =
  match s with [] => [] | _ :: _ => match f s with O => s | S k => star f (skipn (S k) s) end end.
Proof.
  unfold star. destruct s as [|c r]; [reflexivity|]. cbn [star_aux]. destruct (f (c :: r)) as [|k]; [reflexivity|].
  rewrite star_aux_skip. reflexivity.
Qed.

Lemma star_ok f : tok_ok f -> forall s, consumed s (star f s).
Proof.
  intros Hf s. remember (length s) as n eqn:Hn. assert (Hle : (length s <= n)%nat) by lia. clear Hn. revert s Hle.
  induction n as [|n IH]; intros s Hle.
  - destruct s; [apply consumed_refl|cbn in Hle; lia].
  - rewrite star_unfold. destruct s as [|c r]; [apply consumed_refl|].
    destruct (f (c :: r)) as [|k] eqn:Ef; [apply consumed_refl|].
    destruct (Hf _ _ Ef) as (p & rest & Hs & Hl & Hu). rewrite Hs. rewrite <- Hl.
    rewrite skipn_app, skipn_all, Nat.sub_diag. cbn [skipn app].
    apply (consumed_trans _ rest); [exists p; split; [reflexivity|exact Hu]|].
    apply IH. rewrite Hs in Hle. rewrite app_length in Hle. lia.
Qed.

Lemma follows_c_ok c s r : uchar c = true -> follows_c c s = Some r -> consumed s r.
Proof.
  intros Hc. unfold follows_c. destruct s as [|x s']; [discriminate|]. destruct (N.eqb_spec x c); [|discriminate].
  intros H. inversion H; subst. exists [c]. split; [reflexivity|]. cbn [forallb]. rewrite Hc. reflexivity.
Qed.

Lemma slash_segs_ok s : consumed s (slash_segs s).
Proof.
  unfold slash_segs. destruct s as [|c r]; [apply consumed_refl|].
  destruct c as [|p]; [apply consumed_refl|].
  do 6 (destruct p as [p|p|]; try apply consumed_refl). apply (star_ok _ pslash_ok).
Qed.

Lemma segment_nz_ok s r : segment_nz s = Some r -> consumed s r.
Proof. unfold segment_nz. destruct (pchar_len s); [discriminate|]. intros H. inversion H. apply (star_ok _ pchar_ok). Qed.

Lemma path_absolute_ok s r : path_absolute s = Some r -> consumed s r.
Proof.
  unfold path_absolute. destruct (follows_c 47 s) as [r1|] eqn:E; [|discriminate]. intros H. inversion H; subst.
  apply (consumed_trans _ r1); [apply (follows_c_ok 47); [reflexivity|exact E]|].
  destruct (segment_nz r1) as [r2|] eqn:E2; [|apply consumed_refl].
  apply (consumed_trans _ r2); [apply segment_nz_ok; exact E2|apply slash_segs_ok].
Qed.

Lemma path_rootless_ok s r : path_rootless s = Some r -> consumed s r.
Proof.
  unfold path_rootless. destruct (segment_nz s) as [r1|] eqn:E; [|discriminate]. intros H. inversion H; subst.
  apply (consumed_trans _ r1); [apply segment_nz_ok; exact E|apply slash_segs_ok].
Qed.

Lemma ipv4addr_ok s r : ipv4addr s = Some r -> consumed s r.
Proof.
  unfold ipv4addr. destruct (dec_octet s); [|discriminate].
  destruct (follows_c 46 s) as [s1|] eqn:E1; [|discriminate]. destruct (dec_octet s1); [|discriminate].
  destruct (follows_c 46 s1) as [s2|] eqn:E2; [|discriminate]. destruct (dec_octet s2); [|discriminate].
  destruct (follows_c 46 s2) as [s3|] eqn:E3; [|discriminate]. destruct (dec_octet s3); [|discriminate].
  intros H. inversion H; subst.
  apply (consumed_trans _ s1); [apply (follows_c_ok 46); [reflexivity|exact E1]|].
  apply (consumed_trans _ s2); [apply (follows_c_ok 46); [reflexivity|exact E2]|].
  apply (follows_c_ok 46); [reflexivity|exact E3].
Qed.

Lemma host_ok s : consumed s (host s).
Proof. unfold host. destruct (ipv4addr s) as [r|] eqn:E; [apply ipv4addr_ok; exact E|apply (star_ok _ reg_ok)]. Qed.

Lemma authority_ok s : consumed s (authority s).
Proof.
  unfold authority. set (s1 := star ui_len s).
  assert (H1 : consumed s s1) by apply (star_ok _ ui_ok).
  set (s3 := match follows_c 64 s1 with Some s2 => host s2 | None => host s1 end).
  assert (H3 : consumed s s3).
  { unfold s3. destruct (follows_c 64 s1) as [s2|] eqn:E.
    - apply (consumed_trans _ s1); [exact H1|]. apply (consumed_trans _ s2); [apply (follows_c_ok 64); [reflexivity|exact E]|apply host_ok].
    - apply (consumed_trans _ s1); [exact H1|apply host_ok]. }
  destruct (follows_c 58 s3) as [s4|] eqn:E; [|exact H3].
  apply (consumed_trans _ s3); [exact H3|]. apply (consumed_trans _ s4); [apply (follows_c_ok 58); [reflexivity|exact E]|].
  apply (star_ok _ digit_ok).
Qed.

Lemma opt_query_ok s : consumed s (opt_query s).
Proof.
  unfold opt_query. destruct (follows_c 63 s) as [r|] eqn:E; [|apply consumed_refl].
  apply (consumed_trans _ r); [apply (follows_c_ok 63); [reflexivity|exact E]|apply (star_ok _ qchar_ok)].
Qed.
Lemma opt_fragment_ok s : consumed s (opt_fragment s).
Proof.
  unfold opt_fragment. destruct (follows_c 35 s) as [r|] eqn:E; [|apply consumed_refl].
  apply (consumed_trans _ r); [apply (follows_c_ok 35); [reflexivity|exact E]|apply (star_ok _ qchar_ok)].
Qed.

Lemma relative_ref_ok s : consumed s (relative_ref s).
Proof.
  unfold relative_ref, path_abempty.
  apply (consumed_trans _ (authority s)); [apply authority_ok|].
  apply (consumed_trans _ (slash_segs (authority s))); [apply slash_segs_ok|].
  apply (consumed_trans _ (opt_query (slash_segs (authority s)))); [apply opt_query_ok|apply opt_fragment_ok].
Qed.

Lemma hier_part_ok s : consumed s (hier_part s).
Proof.
  unfold hier_part, follows_s, path_abempty. destruct (starts [47;47] s) eqn:E.
  - apply starts_spec in E. set (r := skipn (length [47;47]) s) in *.
    apply (consumed_trans _ r); [exists [47;47]; split; [exact E|reflexivity]|].
    apply (consumed_trans _ (authority r)); [apply authority_ok|apply slash_segs_ok].
  - destruct (path_absolute s) as [r|] eqn:E1; [apply path_absolute_ok; exact E1|].
    destruct (path_rootless s) as [r|] eqn:E2; [apply path_rootless_ok; exact E2|apply consumed_refl].
Qed.

Lemma schemech_uchar l : forallb schemech l = true -> forallb uchar l = true.
Proof.
  induction l as [|x l IH]; [reflexivity|]. cbn [forallb]. intros H. apply andb_true_iff in H. destruct H as [Hx Hl].
  rewrite (IH Hl), andb_true_r. unfold schemech in Hx. unfold uchar. uchar_solve Hx.
Qed.

Lemma scheme_ok s sc r : scheme s = Some (sc, r) -> consumed s r.
Proof.
  unfold scheme. destruct s as [|c s']; [discriminate|]. destruct (u_alpha c) eqn:Ea; [|discriminate].
  intros H. inversion H; subst. exists (c :: takew schemech s'). split; [cbn [app]; f_equal; apply takew_dropw|].
  cbn [forallb]. unfold uchar at 1. rewrite Ea. cbn [orb andb]. apply schemech_uchar. apply takew_all.
Qed.

Lemma uri_ok s rest : uri s = Some rest -> consumed s rest.
Proof.
  unfold uri. destruct (scheme s) as [[sc r]|] eqn:Es; [|discriminate].
  destruct (follows_c 58 r) as [r2|] eqn:E; [|discriminate]. intros H. inversion H; subst.
  apply (consumed_trans _ r); [apply (scheme_ok s sc); exact Es|].
  apply (consumed_trans _ r2); [apply (follows_c_ok 58); [reflexivity|exact E]|].
  apply (consumed_trans _ (hier_part r2)); [apply hier_part_ok|].
  apply (consumed_trans _ (opt_query (hier_part r2))); [apply opt_query_ok|apply opt_fragment_ok].
Qed.

Lemma parse_uri_alphabet v rel range : parse_uri v = (true, rel, range) -> forallb uchar v = true.
Proof.
  unfold parse_uri. destruct (uri v) as [rest|] eqn:Eu.
  - destruct rest as [|c r]; [|intros H; discriminate]. intros _.
    destruct (uri_ok v [] Eu) as (p & Hp & Hu). rewrite app_nil_r in Hp. subst. exact Hu.
  - destruct (relative_ref v) as [|c r] eqn:Er; [|intros H; discriminate]. intros _.
    pose proof (relative_ref_ok v) as Hc. rewrite Er in Hc. destruct Hc as (p & Hp & Hu). rewrite app_nil_r in Hp. subst. exact Hu.
Qed.

Lemma parse_full_alphabet v sc : parse_full v = Some sc -> forallb uchar v = true.
Proof.
  unfold parse_full. destruct (scheme v) as [[sc' r]|]; [|discriminate].
  destruct (uri v) as [rest|] eqn:Eu; [|discriminate]. destruct rest as [|c r']; [|discriminate]. intros _.
  destruct (uri_ok v [] Eu) as (p & Hp & Hu). rewrite app_nil_r in Hp. subst. exact Hu.
Qed.

Lemma uri_validate_alphabet k sre v : uri_validate k sre v = true -> forallb uchar v = true.
Proof.
  unfold uri_validate. destruct k.
  - destruct (parse_uri v) as [[ok rel] range] eqn:Ep. destruct ok; [|discriminate]. intros _.
    exact (parse_uri_alphabet v rel range Ep).
  - destruct (parse_uri v) as [[ok rel] range] eqn:Ep. destruct ok; [|discriminate]. intros _.
    exact (parse_uri_alphabet v rel range Ep).
  - destruct (parse_full v) as [sc|] eqn:Ep; [|discriminate]. intros _. exact (parse_full_alphabet v sc Ep).
Qed.
