(* C19 tie to the source: coq/gen/Gen_C19.v is regenerated on every run from the CURRENT text of
   src/archive.cpp (checks/C19.py cuts the conditions and pointer updates of eof, next_chunk_size,
   read_chunk, read_chunk_as_string and write_chunk verbatim into loop-free functions, tools/cxx2v.py
   translates them with explicit size_t / uint32_t wrap-around).  Here they are proved equal to the
   leafs of the model, and the model's chunk reader is proved equal to the reader assembled from the
   generated leafs.  A change of a bound, a comparison operator or an increment in archive.cpp
   breaks these lemmas. *)
From CppcmsV Require Import Base.Tac Base.CSem Base.CSemFacts C19.Defs gen.Gen_C19.
Local Open Scope N_scope.

Lemma wrapu64_sub a b : a < M64 -> b < M64 ->
  wrapu 64 (Z.of_N a - Z.of_N b) = Z.of_N (sub64 a b).
Proof.
  unfold wrapu, sub64, M64. intros Ha Hb.
  change (2 ^ 64)%Z with 18446744073709551616%Z. lia.
Qed.

Lemma wrapu64_add a b : wrapu 64 (Z.of_N a + Z.of_N b) = Z.of_N (add64 a b).
Proof.
  unfold wrapu, add64, M64. change (2 ^ 64)%Z with 18446744073709551616%Z. lia.
Qed.

Lemma sub64_lt a b : sub64 a b < M64.
Proof. unfold sub64, M64. lia. Qed.
Lemma add64_lt a b : add64 a b < M64.
Proof. unfold add64, M64. lia. Qed.

(* bool archive::eof() : ptr_ >= buffer_.size() *)
Lemma link_eof bsz ptr : g_c19_eof (Z.of_N bsz) (Z.of_N ptr) = (bsz <=? ptr).
Proof. unfold g_c19_eof. lia. Qed.

(* next_chunk_size: buffer_.size() - ptr_ < 4 *)
Lemma link_hdr_short bsz ptr : bsz < M64 -> ptr < M64 ->
  g_c19_hdr_short (Z.of_N bsz) (Z.of_N ptr) = (sub64 bsz ptr <? 4).
Proof. intros Hb Hp. unfold g_c19_hdr_short. rewrite (wrapu64_sub _ _ Hb Hp). lia. Qed.

(* next_chunk_size: size > buffer_.size() - ptr_ - 4   (the repaired bounds test) *)
Lemma link_overrun bsz ptr size : bsz < M64 -> ptr < M64 ->
  g_c19_overrun (Z.of_N bsz) (Z.of_N ptr) (Z.of_N size) = (sub64 (sub64 bsz ptr) 4 <? size).
Proof.
  intros Hb Hp. unfold g_c19_overrun. rewrite (wrapu64_sub _ _ Hb Hp).
  change 4%Z with (Z.of_N 4). rewrite (wrapu64_sub _ _ (sub64_lt _ _)) by (unfold M64; lia). lia.
Qed.

(* read_chunk: next != len *)
Lemma link_badlen next len : g_c19_badlen (Z.of_N next) (Z.of_N len) = negb (next =? len).
Proof. unfold g_c19_badlen. lia. Qed.

(* read_chunk: ptr_ += 4 ... ptr_ += len *)
Lemma link_rc_start ptr : g_c19_rc_start (Z.of_N ptr) = Z.of_N (add64 ptr 4).
Proof. unfold g_c19_rc_start. cbv zeta. change 4%Z with (Z.of_N 4). apply wrapu64_add. Qed.
Lemma link_rc_end ptr len : g_c19_rc_end (Z.of_N ptr) (Z.of_N len) = Z.of_N (add64 (add64 ptr 4) len).
Proof.
  unfold g_c19_rc_end. cbv zeta. change 4%Z with (Z.of_N 4). rewrite wrapu64_add. apply wrapu64_add.
Qed.

(* read_chunk_as_string: copies from ptr_ + 4, then ptr_ += 4 + size *)
Lemma link_rs_start ptr : g_c19_rs_start (Z.of_N ptr) = Z.of_N (add64 ptr 4).
Proof. unfold g_c19_rs_start. change 4%Z with (Z.of_N 4). apply wrapu64_add. Qed.
Lemma link_rs_end ptr size : g_c19_rs_end (Z.of_N ptr) (Z.of_N size) = Z.of_N (add64 ptr (add64 4 size)).
Proof.
  unfold g_c19_rs_end. cbv zeta. change 4%Z with (Z.of_N 4). rewrite wrapu64_add. apply wrapu64_add.
Qed.

(* write_chunk: uint32_t size = len *)
Lemma link_wc_size len : g_c19_wc_size (Z.of_N len) = Z.of_N (len mod M32).
Proof.
  unfold g_c19_wc_size, wrapu, M32. cbv zeta. change (2 ^ 32)%Z with 4294967296%Z. lia.
Qed.

(* the chunk reader assembled from the generated leafs ... *)
Definition gen_next_chunk_size (buf : list N) (ptr : N) : res N :=
  let bsz := Z.of_N (blen buf) in
  if g_c19_eof bsz (Z.of_N ptr) then Err EEof
  else if g_c19_hdr_short bsz (Z.of_N ptr) then Err EFmtHdr
  else match slice buf ptr 4 with
       | None => Err EOob
       | Some h =>
           let size := le_val h in
           if g_c19_overrun bsz (Z.of_N ptr) (Z.of_N size) then Err EFmtSize else Ok size
       end.

Definition gen_read_chunk (buf : list N) (ptr n : N) : res (list N * N) :=
  match gen_next_chunk_size buf ptr with
  | Err e => Err e
  | Ok next =>
      if g_c19_badlen (Z.of_N next) (Z.of_N n) then Err EBlockLen
      else match slice buf (Z.to_N (g_c19_rc_start (Z.of_N ptr))) n with
           | None => Err EOob
           | Some b => Ok (b, Z.to_N (g_c19_rc_end (Z.of_N ptr) (Z.of_N n)))
           end
  end.

Definition gen_read_string (buf : list N) (ptr : N) : res (list N * N) :=
  match gen_next_chunk_size buf ptr with
  | Err e => Err e
  | Ok size =>
      match slice buf (Z.to_N (g_c19_rs_start (Z.of_N ptr))) size with
      | None => Err EOob
      | Some b => Ok (b, Z.to_N (g_c19_rs_end (Z.of_N ptr) (Z.of_N size)))
      end
  end.

Definition gen_chunk (b : list N) : list N := le_bytes 4 (Z.to_N (g_c19_wc_size (Z.of_N (blen b)))) ++ b.

(* ... is the model's chunk reader *)
Theorem link_next_chunk_size buf ptr : blen buf < M64 -> ptr < M64 ->
  gen_next_chunk_size buf ptr = next_chunk_size buf ptr.
Proof.
  intros Hb Hp. unfold gen_next_chunk_size, next_chunk_size. cbv zeta.
  rewrite link_eof, (link_hdr_short _ _ Hb Hp).
  destruct (blen buf <=? ptr); [reflexivity|].
  destruct (sub64 (blen buf) ptr <? 4); [reflexivity|].
  destruct (slice buf ptr 4) as [h|]; [|reflexivity].
  rewrite (link_overrun _ _ _ Hb Hp). reflexivity.
Qed.

Theorem link_read_chunk buf ptr n : blen buf < M64 -> ptr < M64 ->
  gen_read_chunk buf ptr n = read_chunk buf ptr n.
Proof.
  intros Hb Hp. unfold gen_read_chunk, read_chunk. rewrite (link_next_chunk_size _ _ Hb Hp).
  destruct (next_chunk_size buf ptr) as [next|e]; [|reflexivity].
  rewrite link_badlen, link_rc_start, link_rc_end, !N2Z.id. reflexivity.
Qed.

Theorem link_read_string buf ptr : blen buf < M64 -> ptr < M64 ->
  gen_read_string buf ptr = read_string buf ptr.
Proof.
  intros Hb Hp. unfold gen_read_string, read_string. rewrite (link_next_chunk_size _ _ Hb Hp).
  destruct (next_chunk_size buf ptr) as [size|e]; [|reflexivity].
  rewrite link_rs_start, link_rs_end, !N2Z.id. reflexivity.
Qed.

Theorem link_chunk b : gen_chunk b = chunk b.
Proof. unfold gen_chunk, chunk. rewrite link_wc_size, N2Z.id. reflexivity. Qed.

(* the comparison before the repair is NOT the generated one: on the replayed witness the reader
   assembled from the current source rejects what the old comparison accepted *)
Example link_distinguishes_the_repair :
  gen_next_chunk_size [7;0;0;0;97;98;99;100] 0 = Err EFmtSize
  /\ next_chunk_size_old [7;0;0;0;97;98;99;100] 0 = Ok 7.
Proof. split; vm_compute; reflexivity. Qed.
