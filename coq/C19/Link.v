(* C19 tie to the source: coq/gen/Gen_C19.v is regenerated on every run from the CURRENT text of
   src/archive.cpp (checks/C19.py cuts the conditions and pointer updates of eof, next_chunk_size,
   read_chunk, read_chunk_as_string and write_chunk verbatim into loop-free functions, tools/cxx2v.py
   translates them with explicit size_t / uint32_t wrap-around).  Here they are proved equal to the
   leafs of the model, and the model's chunk reader is proved equal to the reader assembled from the
   generated leafs.  A change of a bound, a comparison operator or an increment in archive.cpp
   breaks these lemmas. *)
From CppcmsV Require Import Base.Tac Base.CSem Base.CSemFacts C19.Defs gen.Gen_C19.
Local Open Scope N_scope.

Lemma wrapu64_sub a b : a < M64 -> b < M64 ->
  wrapu 64 (Z.of_N a - Z.of_N b) = Z.of_N (sub64 a b).
Proof.
  unfold wrapu, sub64, M64. intros Ha Hb.
  change (2 ^ 64)%Z with 18446744073709551616%Z. lia.
Qed.

Lemma wrapu64_add a b : wrapu 64 (Z.of_N a + Z.of_N b) = Z.of_N (add64 a b).
Proof.
  unfold wrapu, add64, M64. change (2 ^ 64)%Z with 18446744073709551616%Z. lia.
Qed.

Lemma sub64_lt a b : sub64 a b < M64.
Proof. unfold sub64, M64. lia. Qed.
Lemma add64_lt a b : add64 a b < M64.
Proof. unfold add64, M64. lia. Qed.

(* bool archive::eof() : ptr_ >= buffer_.size() *)
Lemma link_eof bsz ptr : g_c19_eof (Z.of_N bsz) (Z.of_N ptr) = (bsz <=? ptr).
Proof. unfold g_c19_eof. lia. Qed.

(* next_chunk_size: buffer_.size() - ptr_ < 4 *)
Lemma link_hdr_short bsz ptr : bsz < M64 -> ptr < M64 ->
  g_c19_hdr_short (Z.of_N bsz) (Z.of_N ptr) = (sub64 bsz ptr <? 4).
Proof. intros Hb Hp. unfold g_c19_hdr_short. rewrite (wrapu64_sub _ _ Hb Hp). lia. Qed.

(* next_chunk_size: size > buffer_.size() - ptr_ - 4   (the repaired bounds test) *)
Lemma link_overrun bsz ptr size : bsz < M64 -> ptr < M64 ->
  g_c19_overrun (Z.of_N bsz) (Z.of_N ptr) (Z.of_N size) = (sub64 (sub64 bsz ptr) 4 <? size).
Proof.
  intros Hb Hp. unfold g_c19_overrun. rewrite (wrapu64_sub _ _ Hb Hp).
  change 4%Z with (Z.of_N 4). rewrite (wrapu64_sub _ _ (sub64_lt _ _)) by (unfold M64; lia). lia.
Qed.

(* read_chunk: next != len *)
Lemma link_badlen next len : g_c19_badlen (Z.of_N next) (Z.of_N len) = negb (next =? len).
Proof. unfold g_c19_badlen. lia. Qed.

(* read_chunk: ptr_ += 4 ... ptr_ += len *)
Lemma link_rc_start ptr : g_c19_rc_start (Z.of_N ptr) = Z.of_N (add64 ptr 4).
Proof. unfold g_c19_rc_start. cbv zeta. change 4%Z with (Z.of_N 4). apply wrapu64_add. Qed.
Lemma link_rc_end ptr len : g_c19_rc_end (Z.of_N ptr) (Z.of_N len) = Z.of_N (add64 (add64 ptr 4) len).
Proof.
  unfold g_c19_rc_end. cbv zeta. change 4%Z with (Z.of_N 4). rewrite wrapu64_add. apply wrapu64_add.
Qed.

(* read_chunk_as_string: copies from ptr_ + 4, then ptr_ += 4 + size *)
Lemma link_rs_start ptr : g_c19_rs_start (Z.of_N ptr) = Z.of_N (add64 ptr 4).
Proof. unfold g_c19_rs_start. change 4%Z with (Z.of_N 4). apply wrapu64_add. Qed.
Lemma link_rs_end ptr size : g_c19_rs_end (Z.of_N ptr) (Z.of_N size) = Z.of_N (add64 ptr (add64 4 size)).
Proof.
  unfold g_c19_rs_end. cbv zeta. change 4%Z with (Z.of_N 4). rewrite wrapu64_add. apply wrapu64_add.
Qed.

(* write_chunk: uint32_t size = len *)
Lemma link_wc_size len : g_c19_wc_size (Z.of_N len) = Z.of_N (len mod M32).
Proof.
  unfold g_c19_wc_size, wrapu, M32. cbv zeta. change (2 ^ 32)%Z with 4294967296%Z. lia.
Qed.

(* the chunk reader assembled from the generated leafs ... *)
Definition gen_next_chunk_size (buf : list N) (ptr : N) : res N :=
  let bsz := Z.of_N (blen buf) in
  if g_c19_eof bsz (Z.of_N ptr) then Err EEof
  else if g_c19_hdr_short bsz (Z.of_N ptr) then Err EFmtHdr
  else match slice buf ptr 4 with
       | None => Err EOob
       | Some h =>
           let size := le_val h in
           if g_c19_overrun bsz (Z.of_N ptr) (Z.of_N size) then Err EFmtSize else Ok size
       end.

Definition gen_read_chunk (buf : list N) (ptr n : N) : res (list N * N) :=
  match gen_next_chunk_size buf ptr with
  | Err e => Err e
  | Ok next =>
      if g_c19_badlen (Z.of_N next) (Z.of_N n) then Err EBlockLen
      else match slice buf (Z.to_N (g_c19_rc_start (Z.of_N ptr))) n with
           | None => Err EOob
           | Some b => Ok (b, Z.to_N (g_c19_rc_end (Z.of_N ptr) (Z.of_N n)))
           end
  end.

Definition gen_read_string (buf : list N) (ptr : N) : res (list N * N) :=
  match gen_next_chunk_size buf ptr with
  | Err e => Err e
  | Ok size =>
      match slice buf (Z.to_N (g_c19_rs_start (Z.of_N ptr))) size with
      | None => Err EOob
      | Some b => Ok (b, Z.to_N (g_c19_rs_end (Z.of_N ptr) (Z.of_N size)))
      end
  end.

Definition gen_chunk (b : list N) : list N := le_bytes 4 (Z.to_N (g_c19_wc_size (Z.of_N (blen b)))) ++ b.

(* ... is the model's chunk reader *)
Theorem link_next_chunk_size buf ptr : blen buf < M64 -> ptr < M64 ->
  gen_next_chunk_size buf ptr = next_chunk_size buf ptr.
Proof.
  intros Hb Hp. unfold gen_next_chunk_size, next_chunk_size. cbv zeta.
  rewrite link_eof, (link_hdr_short _ _ Hb Hp).
  destruct (blen buf <=? ptr); [reflexivity|].
  destruct (sub64 (blen buf) ptr <? 4); [reflexivity|].
  destruct (slice buf ptr 4) as [h|]; [|reflexivity].
  rewrite (link_overrun _ _ _ Hb Hp). reflexivity.
Qed.

Theorem link_read_chunk buf ptr n : blen buf < M64 -> ptr < M64 ->
  gen_read_chunk buf ptr n = read_chunk buf ptr n.
Proof.
  intros Hb Hp. unfold gen_read_chunk, read_chunk. rewrite (link_next_chunk_size _ _ Hb Hp).
  destruct (next_chunk_size buf ptr) as [next|e]; [|reflexivity].
  rewrite link_badlen, link_rc_start, link_rc_end, !N2Z.id. reflexivity.
Qed.

Theorem link_read_string buf ptr : blen buf < M64 -> ptr < M64 ->
  gen_read_string buf ptr = read_string buf ptr.
Proof.
  intros Hb Hp. unfold gen_read_string, read_string. rewrite (link_next_chunk_size _ _ Hb Hp).
  destruct (next_chunk_size buf ptr) as [size|e]; [|reflexivity].
  rewrite link_rs_start, link_rs_end, !N2Z.id. reflexivity.
Qed.

Theorem link_chunk b : gen_chunk b = chunk b.
Proof. unfold gen_chunk, chunk. rewrite link_wc_size, N2Z.id. reflexivity. Qed.

(* the comparison before the repair is NOT the generated one: on the replayed witness the reader
   assembled from the current source rejects what the old comparison accepted *)
Example link_distinguishes_the_repair :
  gen_next_chunk_size [7;0;0;0;97;98;99;100] 0 = Err EFmtSize
  /\ next_chunk_size_old [7;0;0;0;97;98;99;100] 0 = Ok 7.
Proof. split; vm_compute; reflexivity. Qed.

(* ---------- src/session_interface.cpp: struct packed, save_data, load_data ---------- *)
From CppcmsV Require Import C19.SessDefs C19.Proofs.

(* packed(ks,exp,ds): if(ks >= 1024) throw ...; if(ds >= 1024*1024*2) throw ... *)
Lemma link_s_keylong ks : g_c19_s_keylong (Z.of_N ks) = (1024 <=? ks).
Proof. unfold g_c19_s_keylong. lia. Qed.
Lemma link_s_vallong ds : g_c19_s_vallong (Z.of_N ds) = (2097152 <=? ds).
Proof.
  unfold g_c19_s_vallong.
  replace (wrapu 32 (Z.mul (Z.mul 1024 1024) 2)) with 2097152%Z by (vm_compute; reflexivity). lia.
Qed.

(* packed(start,end): start + 4 <= end;  load_data: while(begin < end), end - begin >= int(key_size + data_size)
   (pointers as byte offsets into the buffer) *)
Lemma link_s_hdr pos bl : g_c19_s_hdr (Z.of_N pos) (Z.of_N bl) = (pos + 4 <=? bl).
Proof. unfold g_c19_s_hdr. lia. Qed.
Lemma link_s_more pos bl : g_c19_s_more (Z.of_N pos) (Z.of_N bl) = negb (bl <=? pos).
Proof. unfold g_c19_s_more. lia. Qed.
Lemma link_s_fits p1 bl ks ds : p1 <= bl -> ks < 1024 -> ds < 2097152 ->
  g_c19_s_fits (Z.of_N p1) (Z.of_N bl) (Z.of_N ks) (Z.of_N ds) = (ks + ds <=? bl - p1).
Proof.
  intros Hp Hk Hd. unfold g_c19_s_fits.
  rewrite (wrapu32_small (Z.of_N ks + Z.of_N ds)) by lia.
  rewrite (wraps32_small (Z.of_N ks + Z.of_N ds)) by lia. lia.
Qed.

(* the header word: bit fields key_size:10, exposed:1, data_size:21 allocated from bit 0 upwards *)
Lemma land_shiftl_disjoint a b n : (0 <= n)%Z -> (0 <= a < 2 ^ n)%Z -> Z.land a (Z.shiftl b n) = 0%Z.
Proof.
  intros Hn Ha. apply Z.bits_inj'. intros i Hi. rewrite Z.land_spec, Z.bits_0.
  destruct (Z.lt_ge_cases i n) as [L|G].
  - rewrite (Z.shiftl_spec_low b n i L). apply andb_false_r.
  - replace a with (a mod 2 ^ n)%Z by (apply Z.mod_small; exact Ha).
    rewrite (Z.mod_pow2_bits_high a n i) by lia. reflexivity.
Qed.
Lemma lor_shiftl_add a b n : (0 <= n)%Z -> (0 <= a < 2 ^ n)%Z -> Z.lor a (Z.shiftl b n) = (a + b * 2 ^ n)%Z.
Proof.
  intros Hn Ha. rewrite <- Z.lxor_lor by (apply land_shiftl_disjoint; assumption).
  rewrite <- Z.add_nocarry_lxor by (apply land_shiftl_disjoint; assumption).
  rewrite Z.shiftl_mul_pow2 by exact Hn. reflexivity.
Qed.
Lemma land_ones_small a n : (0 <= n)%Z -> (0 <= a < 2 ^ n)%Z -> Z.land a (2 ^ n - 1) = a.
Proof.
  intros Hn Ha. replace (2 ^ n - 1)%Z with (Z.ones n) by (rewrite Z.ones_equiv; lia).
  rewrite Z.land_ones by exact Hn. apply Z.mod_small. exact Ha.
Qed.

Lemma link_s_word ks (ex : bool) ds : ks < 1024 -> ds < 2097152 ->
  g_c19_s_word (Z.of_N ks) (if ex then 1 else 0)%Z (Z.of_N ds) = Z.of_N (pack_hdr ks ex ds).
Proof.
  intros Hk Hd. unfold g_c19_s_word.
  replace (wrapu 32 (Z.sub (wrapu 32 (Z.shiftl 1 10)) 1)) with (2 ^ 10 - 1)%Z by (vm_compute; reflexivity).
  replace (wrapu 32 (Z.sub (wrapu 32 (Z.shiftl 1 1)) 1)) with (2 ^ 1 - 1)%Z by (vm_compute; reflexivity).
  replace (wrapu 32 (Z.sub (wrapu 32 (Z.shiftl 1 21)) 1)) with (2 ^ 21 - 1)%Z by (vm_compute; reflexivity).
  rewrite (land_ones_small (Z.of_N ks) 10) by lia.
  rewrite (land_ones_small (Z.of_N ds) 21) by lia.
  rewrite (land_ones_small (if ex then 1 else 0)%Z 1) by (destruct ex; lia).
  rewrite (wrapu32_small (Z.of_N ks)) by lia.
  rewrite (wrapu32_small (Z.of_N ds)) by lia.
  rewrite (wrapu32_small (if ex then 1 else 0)%Z) by (destruct ex; lia).
  rewrite (Z.shiftl_mul_pow2 _ 10), (Z.shiftl_mul_pow2 _ 11) by lia.
  rewrite (wrapu32_small ((if ex then 1 else 0) * 2 ^ 10)%Z) by (destruct ex; lia).
  rewrite (wrapu32_small (Z.of_N ds * 2 ^ 11)%Z) by lia.
  rewrite <- (Z.shiftl_mul_pow2 _ 10), <- (Z.shiftl_mul_pow2 _ 11) by lia.
  rewrite (lor_shiftl_add (Z.of_N ks) (if ex then 1 else 0)%Z 10%Z) by lia.
  rewrite (wrapu32_small (Z.of_N ks + (if ex then 1 else 0) * 2 ^ 10)%Z) by (destruct ex; lia).
  rewrite (lor_shiftl_add (Z.of_N ks + (if ex then 1 else 0) * 2 ^ 10)%Z (Z.of_N ds) 11%Z) by (destruct ex; lia).
  rewrite wrapu32_small by (destruct ex; lia).
  unfold pack_hdr. destruct ex; lia.
Qed.

(* the record header written by save_data is the word of the source's bit-field declaration *)
Theorem link_session_header ks (ex : bool) ds : ks < 1024 -> ds < 2097152 ->
  le_bytes 4 (Z.to_N (g_c19_s_word (Z.of_N ks) (if ex then 1 else 0)%Z (Z.of_N ds))) = le_bytes 4 (pack_hdr ks ex ds).
Proof. intros Hk Hd. rewrite (link_s_word _ _ _ Hk Hd), N2Z.id. reflexivity. Qed.

(* load_data assembled from the generated tests is the model's load_data (buffers of bytes) *)
Fixpoint gen_load_data_aux (fuel : nat) (buf : list N) (pos : N) (acc : list sentry) {struct fuel} : sres (list sentry) :=
  let bl := Z.of_N (blen buf) in
  if negb (g_c19_s_more (Z.of_N pos) bl) then SOk (rev acc)
  else match fuel with
       | O => SErr SFuel
       | S f =>
           if negb (g_c19_s_hdr (Z.of_N pos) bl) then SErr SPack
           else match slice buf pos 4 with
                | None => SErr SOob
                | Some h =>
                    let w := le_val h in
                    let ks := w mod 1024 in
                    let ex := (w / 1024) mod 2 =? 1 in
                    let ds := w / 2048 in
                    let p1 := pos + 4 in
                    if negb (g_c19_s_fits (Z.of_N p1) bl (Z.of_N ks) (Z.of_N ds)) then SErr SData
                    else match slice buf p1 ks, slice buf (p1 + ks) ds with
                         | Some k, Some v => gen_load_data_aux f buf (p1 + ks + ds) ((k, ex, v) :: acc)
                         | _, _ => SErr SOob
                         end
                end
       end.

Definition bytes_ok (l : list N) : Prop := Forall (fun b => b < 256) l.

Lemma bytes_ok_skipn n l : bytes_ok l -> bytes_ok (skipn n l).
Proof.
  revert l. induction n as [|n IH]; intros l H; [exact H|].
  destruct l as [|x r]; [exact H|]. cbn [skipn]. apply IH. inversion H; assumption.
Qed.
Lemma bytes_ok_firstn n l : bytes_ok l -> bytes_ok (firstn n l).
Proof.
  revert l. induction n as [|n IH]; intros l H; [constructor|].
  destruct l as [|x r]; [constructor|]. cbn [firstn]. inversion H; subst. constructor; [assumption|apply IH; assumption].
Qed.
Lemma le_val_bound l : bytes_ok l -> le_val l < 256 ^ blen l.
Proof.
  induction l as [|x r IH]; intros H.
  - cbn. lia.
  - inversion H as [|? ? Hx Hr]; subst. specialize (IH Hr). cbn [le_val]. rewrite blen_cons.
    replace (1 + blen r) with (N.succ (blen r)) by lia. rewrite N.pow_succ_r by lia. lia.
Qed.
Lemma slice_bytes_ok buf off len h : bytes_ok buf -> slice buf off len = Some h -> bytes_ok h.
Proof.
  intros Hb Hs. unfold slice in Hs. destruct (off + len <=? blen buf); [|discriminate].
  injection Hs as <-. apply bytes_ok_firstn, bytes_ok_skipn. exact Hb.
Qed.
Lemma slice4_bound buf pos h : bytes_ok buf -> slice buf pos 4 = Some h -> le_val h < M32.
Proof.
  intros Hb Hs. pose proof (slice_some _ _ _ _ Hs) as [_ Hl].
  pose proof (le_val_bound h (slice_bytes_ok _ _ _ _ Hb Hs)) as B. rewrite Hl in B. exact B.
Qed.

Theorem link_load_data_aux : forall fuel buf pos acc,
  bytes_ok buf -> pos <= blen buf ->
  gen_load_data_aux fuel buf pos acc = load_data_aux fuel buf pos acc.
Proof.
  induction fuel as [|f IH]; intros buf pos acc Hb Hp.
  - cbn [gen_load_data_aux load_data_aux]. cbv zeta. rewrite link_s_more, negb_involutive.
    destruct (blen buf <=? pos); reflexivity.
  - cbn [gen_load_data_aux load_data_aux]. cbv zeta. rewrite link_s_more, negb_involutive, link_s_hdr.
    destruct (blen buf <=? pos); [reflexivity|].
    destruct (N.leb_spec (pos + 4) (blen buf)) as [C|C]; cbn [negb]; [|reflexivity].
    destruct (slice buf pos 4) as [h|] eqn:Sh; [|reflexivity].
    pose proof (slice4_bound _ _ _ Hb Sh) as Bw. unfold M32 in Bw.
    rewrite link_s_fits by lia.
    destruct (N.leb_spec (le_val h mod 1024 + le_val h / 2048) (blen buf - (pos + 4))) as [C3|C3]; cbn [negb]; [|reflexivity].
    destruct (slice buf (pos + 4) (le_val h mod 1024)); [|reflexivity].
    destruct (slice buf (pos + 4 + le_val h mod 1024) (le_val h / 2048)); [|reflexivity].
    apply IH; [exact Hb|lia].
Qed.

Theorem link_load_data buf : bytes_ok buf ->
  gen_load_data_aux (S (length buf)) buf 0 [] = load_data buf.
Proof. intros Hb. unfold load_data. apply link_load_data_aux; [exact Hb|lia]. Qed.
