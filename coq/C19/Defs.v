(* C19: executable model of cppcms::archive (src/archive.cpp) and of the archive_traits
   (cppcms/archive_traits.h) over a recursively defined type universe.
   Bytes are N, buffers are list N, the read position ptr_ is an N.  All size_t arithmetic of the
   chunk reader is written mod 2^64 (sub64/add64/mul64) exactly where the C++ computes it.
   Every access to the buffer goes through [slice], which fails when the range is not inside the
   buffer; the loader turns such a failure into the distinct error EOob (never produced by the
   C++: there it would be an out-of-bounds read).  No proofs here. *)
From Coq Require Import NArith List Bool.
Import ListNotations.
Local Open Scope N_scope.

Definition M32 : N := 4294967296.
Definition M64 : N := 18446744073709551616.

Definition blen {A : Type} (l : list A) : N := N.of_nat (length l).

(* little-endian integers (x86-64 memory image of uint32_t / size_t) *)
Fixpoint le_bytes (k : nat) (n : N) : list N :=
  match k with
  | O => []
  | S k' => (n mod 256) :: le_bytes k' (n / 256)
  end.
Fixpoint le_val (l : list N) : N :=
  match l with
  | [] => 0
  | b :: r => b + 256 * le_val r
  end.

(* size_t arithmetic *)
Definition sub64 (a b : N) : N := (a + M64 - b) mod M64.
Definition add64 (a b : N) : N := (a + b) mod M64.
Definition mul64 (a b : N) : N := (a * b) mod M64.

(* the only way the model touches buffer contents: bytes [off, off+len) if they exist *)
Definition slice (buf : list N) (off len : N) : option (list N) :=
  if off + len <=? blen buf
  then Some (firstn (N.to_nat len) (skipn (N.to_nat off) buf))
  else None.

Inductive err : Type :=
| EEof        (* "At end of archive" *)
| EFmtHdr     (* "Invalid archive format"  : fewer than 4 bytes left *)
| EFmtSize    (* "Invalid archive_format"  : chunk size exceeds what is left *)
| EBlockLen   (* "Invalid block length" *)
| EJson       (* "Invalid json" *)
| EFuel       (* model only: element loop ran out of fuel (elements of size 0) *)
| EOob.       (* model only: a read outside the buffer *)

Inductive res (A : Type) : Type :=
| Ok (a : A)
| Err (e : err).
Arguments Ok {A} a.
Arguments Err {A} e.

(* archive::write_chunk : uint32_t size = len (truncating), then the bytes *)
Definition chunk (b : list N) : list N := le_bytes 4 (blen b mod M32) ++ b.

(* archive::next_chunk_size, as repaired:
     if(eof()) throw; if(buffer_.size() - ptr_ < 4) throw; memcpy(&size, buf+ptr_, 4);
     if(size > buffer_.size() - ptr_ - 4) throw; return size; *)
Definition next_chunk_size (buf : list N) (ptr : N) : res N :=
  if blen buf <=? ptr then Err EEof
  else if sub64 (blen buf) ptr <? 4 then Err EFmtHdr
  else match slice buf ptr 4 with
       | None => Err EOob
       | Some h =>
           let size := le_val h in
           if sub64 (sub64 (blen buf) ptr) 4 <? size then Err EFmtSize else Ok size
       end.

(* the comparison before the repair (ptr_ + size >= buffer_.size() was the only test):
   kept to show that the bounds theorem distinguishes the two *)
Definition next_chunk_size_old (buf : list N) (ptr : N) : res N :=
  if blen buf <=? ptr then Err EEof
  else if sub64 (blen buf) ptr <? 4 then Err EFmtHdr
  else match slice buf ptr 4 with
       | None => Err EOob
       | Some h =>
           let size := le_val h in
           if blen buf <=? add64 ptr size then Err EFmtSize else Ok size
       end.

(* archive::read_chunk(void *begin, size_t len) *)
Definition read_chunk (buf : list N) (ptr n : N) : res (list N * N) :=
  match next_chunk_size buf ptr with
  | Err e => Err e
  | Ok next =>
      if negb (next =? n) then Err EBlockLen
      else
        let p1 := add64 ptr 4 in
        match slice buf p1 n with
        | None => Err EOob
        | Some b => Ok (b, add64 p1 n)
        end
  end.

(* archive::read_chunk_as_string *)
Definition read_string (buf : list N) (ptr : N) : res (list N * N) :=
  match next_chunk_size buf ptr with
  | Err e => Err e
  | Ok size =>
      match slice buf (add64 ptr 4) size with
      | None => Err EOob
      | Some b => Ok (b, add64 ptr (add64 4 size))
      end
  end.

(* ---------- type universe ----------
   TPod n      arithmetic type with sizeof = n (CPPCMS_TRIVIAL_ARCHIVE)
   TStr        std::string
   TPodVec n   std::vector<POD of size n> : one chunk, count derived from the chunk size
   TSeq t      std::vector<T> / std::list<T> : size_t count chunk, then the elements
   TSet t      std::set<T> : same wire format, loaded by insertion (duplicates dropped)
   TMap k v    std::map<K,V> : count, then pairs; insert keeps the first value of a key
   TPair a b   std::pair<A,B>; also a user class with serialize(a){ a & f1 & f2 ...} is the
               right-nested pair of its fields (no header of its own); TUnit = no fields
   TPtr t      smart pointer: 1-byte chunk (non-zero = null), then the pointee if not null
   TJson       json::value : one chunk holding the compact text *)
Inductive ty : Type :=
| TUnit
| TPod (n : N)
| TStr
| TPodVec (n : N)
| TSeq (t : ty)
| TSet (t : ty)
| TMap (k v : ty)
| TPair (a b : ty)
| TPtr (t : ty)
| TJson.

(* values; a set / map is the list of its distinct elements / entries (C++ iteration order is not
   modelled: the harness and the driver print sets and maps in a canonical order) *)
Inductive value : Type :=
| VUnit
| VBytes (b : list N)
| VJson (text : list N)
| VList (l : list value)
| VPair (a b : value)
| VPtr (o : option value).

Fixpoint leqb (a b : list N) : bool :=
  match a, b with
  | [], [] => true
  | x :: a', y :: b' => (x =? y) && leqb a' b'
  | _, _ => false
  end.

Fixpoint value_eqb (a b : value) {struct a} : bool :=
  match a, b with
  | VUnit, VUnit => true
  | VBytes x, VBytes y => leqb x y
  | VJson x, VJson y => leqb x y
  | VList x, VList y =>
      (fix go (x y : list value) {struct x} : bool :=
         match x, y with
         | [], [] => true
         | u :: x', w :: y' => value_eqb u w && go x' y'
         | _, _ => false
         end) x y
  | VPair a1 a2, VPair b1 b2 => value_eqb a1 b1 && value_eqb a2 b2
  | VPtr None, VPtr None => true
  | VPtr (Some u), VPtr (Some w) => value_eqb u w
  | _, _ => false
  end.

Definition mem (v : value) (l : list value) : bool := existsb (value_eqb v) l.
Definition key_of (p : value) : value := match p with VPair k _ => k | _ => p end.
Definition mem_key (k : value) (l : list value) : bool := existsb (fun p => value_eqb k (key_of p)) l.

(* insertion policies; acc is the reversed list of what the container holds so far *)
Definition ins_seq (v : value) (acc : list value) : list value := v :: acc.
Definition ins_set (v : value) (acc : list value) : list value := if mem v acc then acc else v :: acc.
Definition ins_map (v : value) (acc : list value) : list value := if mem_key (key_of v) acc then acc else v :: acc.

(* ---------- writer ---------- *)
Definition count_chunk (n : N) : list N := chunk (le_bytes 8 (n mod M64)).

Fixpoint enc (t : ty) (v : value) {struct t} : list N :=
  match t, v with
  | TPod _, VBytes b => chunk b
  | TStr, VBytes b => chunk b
  | TPodVec _, VBytes b => chunk b
  | TJson, VJson b => chunk b
  | TSeq e, VList l => count_chunk (blen l) ++ flat_map (enc e) l
  | TSet e, VList l => count_chunk (blen l) ++ flat_map (enc e) l
  | TMap k x, VList l =>
      count_chunk (blen l) ++
      flat_map (fun p => match p with VPair a b => enc k a ++ enc x b | _ => [] end) l
  | TPair a b, VPair x y => enc a x ++ enc b y
  | TPtr e, VPtr None => chunk [1]
  | TPtr e, VPtr (Some x) => chunk [0] ++ enc e x
  | _, _ => []
  end.

(* ---------- reader ---------- *)
Fixpoint loop (step : N -> res (value * N)) (ins : value -> list value -> list value)
         (fuel : nat) (cnt ptr : N) (acc : list value) {struct fuel} : res (list value * N) :=
  if cnt =? 0 then Ok (rev acc, ptr)
  else match fuel with
       | O => Err EFuel
       | S f =>
           match step ptr with
           | Err e => Err e
           | Ok (v, p) => loop step ins f (cnt - 1) p (ins v acc)
           end
       end.

(* archive_load_container: size_t n; load(n); clear; for(i<n) { load(tmp); insert } *)
Definition load_container (step : N -> res (value * N)) (ins : value -> list value -> list value)
           (buf : list N) (ptr : N) : res (value * N) :=
  match read_chunk buf ptr 8 with
  | Err e => Err e
  | Ok (b, p) =>
      match loop step ins (S (length buf)) (le_val b) p [] with
      | Err e => Err e
      | Ok (l, p') => Ok (VList l, p')
      end
  end.

Section Load.
  (* external: json::value::load(text, full=true) followed by save(compact); None = parse error.
     (property C11 is about this function; here it is a parameter) *)
  Variable json_parse : list N -> option (list N).

  Fixpoint load (t : ty) (buf : list N) (ptr : N) {struct t} : res (value * N) :=
    match t with
    | TUnit => Ok (VUnit, ptr)
    | TPod n =>
        match read_chunk buf ptr n with
        | Err e => Err e
        | Ok (b, p) => Ok (VBytes b, p)
        end
    | TStr =>
        match read_string buf ptr with
        | Err e => Err e
        | Ok (b, p) => Ok (VBytes b, p)
        end
    | TPodVec n =>
        (* size_t n = a.next_chunk_size()/sizeof(Type); v.resize(n); a.read_chunk(p, n*sizeof(Type)) *)
        match next_chunk_size buf ptr with
        | Err e => Err e
        | Ok sz =>
            match read_chunk buf ptr (mul64 (sz / n) n) with
            | Err e => Err e
            | Ok (b, p) => Ok (VBytes b, p)
            end
        end
    | TJson =>
        match read_string buf ptr with
        | Err e => Err e
        | Ok (b, p) =>
            match json_parse b with
            | None => Err EJson
            | Some c => Ok (VJson c, p)
            end
        end
    | TSeq e => load_container (load e buf) ins_seq buf ptr
    | TSet e => load_container (load e buf) ins_set buf ptr
    | TMap k x =>
        load_container
          (fun p0 =>
             match load k buf p0 with
             | Err e => Err e
             | Ok (a, p1) =>
                 match load x buf p1 with
                 | Err e => Err e
                 | Ok (b, p2) => Ok (VPair a b, p2)
                 end
             end) ins_map buf ptr
    | TPair a b =>
        match load a buf ptr with
        | Err e => Err e
        | Ok (x, p1) =>
            match load b buf p1 with
            | Err e => Err e
            | Ok (y, p2) => Ok (VPair x y, p2)
            end
        end
    | TPtr e =>
        match read_chunk buf ptr 1 with
        | Err e' => Err e'
        | Ok (b, p) =>
            if negb (le_val b =? 0) then Ok (VPtr None, p)
            else match load e buf p with
                 | Err e' => Err e'
                 | Ok (x, p') => Ok (VPtr (Some x), p')
                 end
        end
    end.

  (* ---------- well-formed values (what a C++ object of that type can hold and the writer can
     represent: chunk sizes fit uint32_t, sets/maps hold distinct elements/keys, a json value is
     one whose text the parser reproduces) ---------- *)
  Fixpoint nodupb (l : list value) : bool :=
    match l with
    | [] => true
    | x :: r => negb (mem x r) && nodupb r
    end.
  Fixpoint nodup_keysb (l : list value) : bool :=
    match l with
    | [] => true
    | x :: r => negb (mem_key (key_of x) r) && nodup_keysb r
    end.

  Definition json_fix (b : list N) : bool :=
    match json_parse b with
    | Some c => leqb c b
    | None => false
    end.

  Fixpoint wt (t : ty) (v : value) {struct t} : bool :=
    match t, v with
    | TUnit, VUnit => true
    | TPod n, VBytes b => (blen b =? n) && (0 <? n) && (n <? M32)
    | TStr, VBytes b => blen b <? M32
    | TPodVec n, VBytes b => (0 <? n) && (blen b <? M32) && (blen b mod n =? 0)
    | TJson, VJson b => (blen b <? M32) && json_fix b
    | TSeq e, VList l => (blen l <? M64) && forallb (wt e) l
    | TSet e, VList l => (blen l <? M64) && forallb (wt e) l && nodupb l
    | TMap k x, VList l =>
        (blen l <? M64)
        && forallb (fun p => match p with VPair a b => wt k a && wt x b | _ => false end) l
        && nodup_keysb l
    | TPair a b, VPair x y => wt a x && wt b y
    | TPtr e, VPtr None => true
    | TPtr e, VPtr (Some x) => wt e x
    | _, _ => false
    end.
End Load.

(* least number of bytes a successful load of the type consumes (lower bound) *)
Fixpoint min_size (t : ty) : N :=
  match t with
  | TUnit => 0
  | TPair a b => min_size a + min_size b
  | _ => 4
  end.

(* every container element type consumes at least one byte (false only for containers of user
   classes without fields; for those the C++ element loop is not bounded by the archive size) *)
Fixpoint elems_ok (t : ty) : bool :=
  match t with
  | TSeq e | TSet e => (0 <? min_size e) && elems_ok e
  | TMap k x => (0 <? min_size k + min_size x) && elems_ok k && elems_ok x
  | TPair a b => elems_ok a && elems_ok b
  | TPtr e => elems_ok e
  | _ => true
  end.

(* bytes of archive content held by a value (json excluded: its text is re-generated) *)
Fixpoint payload (v : value) : N :=
  match v with
  | VBytes b => blen b
  | VList l => (fix go (l : list value) : N := match l with [] => 0 | x :: r => payload x + go r end) l
  | VPair a b => payload a + payload b
  | VPtr (Some x) => payload x
  | _ => 0
  end.
