(* C19: load (save v) = v for every type of the universe and every well-formed value;
   truncations of a valid archive are rejected *)
From CppcmsV Require Import Base.Tac C19.Defs C19.Proofs C19.Loader.
Local Open Scope N_scope.

(* ---------- equality test on values ---------- *)
Lemma leqb_eq a b : leqb a b = true <-> a = b.
Proof.
  revert b. induction a as [|x a IH]; intros [|y b]; cbn [leqb]; split; intros H; try reflexivity; try discriminate.
  - apply andb_true_iff in H. destruct H as [H1 H2]. apply N.eqb_eq in H1. apply IH in H2. subst. reflexivity.
  - inversion H; subst. rewrite N.eqb_refl. apply IH. reflexivity.
Qed.

Section value_ind2.
  Variable P : value -> Prop.
  Hypothesis HU : P VUnit.
  Hypothesis HB : forall b, P (VBytes b).
  Hypothesis HJ : forall b, P (VJson b).
  Hypothesis HL : forall l, Forall P l -> P (VList l).
  Hypothesis HP : forall a b, P a -> P b -> P (VPair a b).
  Hypothesis HN : P (VPtr None).
  Hypothesis HS : forall x, P x -> P (VPtr (Some x)).
  Fixpoint value_ind2 (v : value) : P v :=
    match v with
    | VUnit => HU
    | VBytes b => HB b
    | VJson b => HJ b
    | VList l =>
        HL l ((fix go (l : list value) : Forall P l :=
                 match l with
                 | [] => Forall_nil P
                 | x :: r => Forall_cons x (value_ind2 x) (go r)
                 end) l)
    | VPair a b => HP a b (value_ind2 a) (value_ind2 b)
    | VPtr None => HN
    | VPtr (Some x) => HS x (value_ind2 x)
    end.
End value_ind2.

Definition list_eqb (x y : list value) : bool :=
  (fix go (x y : list value) {struct x} : bool :=
     match x, y with
     | [], [] => true
     | u :: x', w :: y' => value_eqb u w && go x' y'
     | _, _ => false
     end) x y.
Lemma value_eqb_list x y : value_eqb (VList x) (VList y) = list_eqb x y.
Proof. reflexivity. Qed.
Lemma list_eqb_cons u x w y : list_eqb (u :: x) (w :: y) = value_eqb u w && list_eqb x y.
Proof. reflexivity. Qed.

Lemma value_eqb_spec a : forall b, value_eqb a b = true <-> a = b.
Proof.
  induction a as [|x|x|l IH|a1 a2 IH1 IH2| |x IH] using value_ind2; intros b.
  - destruct b; cbn [value_eqb]; split; intros H; try reflexivity; discriminate.
  - destruct b; cbn [value_eqb]; split; intros H; try discriminate.
    + apply leqb_eq in H. subst. reflexivity.
    + inversion H; subst. apply leqb_eq. reflexivity.
  - destruct b; cbn [value_eqb]; split; intros H; try discriminate.
    + apply leqb_eq in H. subst. reflexivity.
    + inversion H; subst. apply leqb_eq. reflexivity.
  - destruct b as [| | |l2| |]; try (cbn [value_eqb]; split; intros H; discriminate).
    rewrite value_eqb_list.
    revert l2. induction IH as [|u l Hu Hl IHl]; intros l2.
    + destruct l2; cbn; split; intros H; try reflexivity; discriminate.
    + destruct l2 as [|w l2]; [cbn; split; intros H; discriminate|].
      rewrite list_eqb_cons. split; intros H.
      * apply andb_true_iff in H. destruct H as [H1 H2].
        apply Hu in H1. apply IHl in H2. inversion H2; subst. reflexivity.
      * inversion H; subst. apply andb_true_iff. split; [apply Hu; reflexivity|apply IHl; reflexivity].
  - destruct b; cbn [value_eqb]; split; intros H; try discriminate.
    + apply andb_true_iff in H. destruct H as [H1 H2]. apply IH1 in H1. apply IH2 in H2. subst. reflexivity.
    + inversion H; subst. apply andb_true_iff. split; [apply IH1|apply IH2]; reflexivity.
  - destruct b as [| | | | |[y|]]; cbn [value_eqb]; split; intros H; try reflexivity; discriminate.
  - destruct b as [| | | | |[y|]]; cbn [value_eqb]; split; intros H; try discriminate.
    + apply IH in H. subst. reflexivity.
    + inversion H; subst. apply IH. reflexivity.
Qed.

Lemma mem_false x l : ~ In x l -> mem x l = false.
Proof.
  intros H. unfold mem. destruct (existsb (value_eqb x) l) eqn:E; [|reflexivity].
  apply existsb_exists in E. destruct E as (y & Hy & He). apply value_eqb_spec in He. subst. contradiction.
Qed.
Lemma mem_true x l : In x l -> mem x l = true.
Proof.
  intros H. unfold mem. apply existsb_exists. exists x. split; [exact H|apply value_eqb_spec; reflexivity].
Qed.
Lemma mem_key_false k l : ~ In k (map key_of l) -> mem_key k l = false.
Proof.
  intros H. unfold mem_key. destruct (existsb _ l) eqn:E; [|reflexivity].
  apply existsb_exists in E. destruct E as (y & Hy & He). apply value_eqb_spec in He. subst.
  exfalso. apply H. apply in_map. exact Hy.
Qed.
Lemma mem_key_true k l : In k (map key_of l) -> mem_key k l = true.
Proof.
  intros H. unfold mem_key. apply in_map_iff in H. destruct H as (y & Hy & Hi).
  apply existsb_exists. exists y. split; [exact Hi|apply value_eqb_spec; symmetry; exact Hy].
Qed.

Lemma nodupb_NoDup l : nodupb l = true -> NoDup l.
Proof.
  induction l as [|x l IH]; cbn [nodupb]; intros H; [constructor|].
  apply andb_true_iff in H. destruct H as [H1 H2]. constructor; [|apply IH; exact H2].
  intros Hin. rewrite (mem_true _ _ Hin) in H1. discriminate.
Qed.
Lemma nodup_keysb_NoDup l : nodup_keysb l = true -> NoDup (map key_of l).
Proof.
  induction l as [|x l IH]; cbn [nodup_keysb map]; intros H; [constructor|].
  apply andb_true_iff in H. destruct H as [H1 H2]. constructor; [|apply IH; exact H2].
  intros Hin. rewrite (mem_key_true _ _ Hin) in H1. discriminate.
Qed.

(* inserting distinct elements one by one keeps all of them, in order of arrival *)
Definition ins_all (ins : value -> list value -> list value) (l acc : list value) : list value :=
  fold_left (fun a x => ins x a) l acc.

Lemma ins_all_seq l acc : ins_all ins_seq l acc = rev l ++ acc.
Proof.
  revert acc. induction l as [|x l IH]; intros acc; [reflexivity|].
  cbn [ins_all fold_left] in *. unfold ins_all in IH. rewrite IH. unfold ins_seq. cbn [rev]. rewrite <- app_assoc. reflexivity.
Qed.
Lemma ins_all_set l : forall acc, NoDup (rev acc ++ l) -> ins_all ins_set l acc = rev l ++ acc.
Proof.
  induction l as [|x l IH]; intros acc H; [reflexivity|].
  cbn [ins_all fold_left]. unfold ins_set at 2.
  rewrite mem_false.
  - unfold ins_all in IH. rewrite IH; [cbn [rev]; rewrite <- app_assoc; reflexivity|].
    cbn [rev]. rewrite <- app_assoc. exact H.
  - apply NoDup_remove_2 in H. intros Hin. apply H. apply in_or_app. left. apply in_rev in Hin. exact Hin.
Qed.
Lemma ins_all_map l : forall acc, NoDup (map key_of (rev acc ++ l)) -> ins_all ins_map l acc = rev l ++ acc.
Proof.
  induction l as [|x l IH]; intros acc H; [reflexivity|].
  cbn [ins_all fold_left]. unfold ins_map at 2.
  rewrite mem_key_false.
  - unfold ins_all in IH. rewrite IH; [cbn [rev]; rewrite <- app_assoc; reflexivity|].
    cbn [rev]. rewrite <- app_assoc. exact H.
  - rewrite map_app in H. cbn [map] in H. apply NoDup_remove_2 in H. intros Hin. apply H.
    apply in_or_app. left. rewrite map_rev. apply in_rev in Hin. exact Hin.
Qed.

(* ---------- the element loop on an archive that holds the encodings of l ---------- *)
Lemma blen_flat_map_ge (f : value -> list N) l :
  (forall x, In x l -> 1 <= blen (f x)) -> blen l <= blen (flat_map f l).
Proof.
  induction l as [|x l IH]; intros H; [cbn; lia|].
  cbn [flat_map]. rewrite blen_cons, blen_app.
  pose proof (H x (or_introl eq_refl)). pose proof (IH (fun y Hy => H y (or_intror Hy))). lia.
Qed.

Lemma loop_enc (B : list N) (f : value -> list N) step ins :
  forall l pre post acc fuel,
    B = pre ++ flat_map f l ++ post ->
    (forall x pre' post', In x l -> B = pre' ++ f x ++ post' -> step (blen pre') = Ok (x, blen pre' + blen (f x))) ->
    (length l <= fuel)%nat -> blen l < M64 ->
    loop step ins fuel (blen l) (blen pre) acc
    = Ok (rev (ins_all ins l acc), blen pre + blen (flat_map f l)).
Proof.
  induction l as [|x l IH]; intros pre post acc fuel HB Hstep Hf Hl.
  - cbn [flat_map ins_all fold_left]. rewrite blen_nil, N.add_0_r.
    destruct fuel; cbn [loop]; reflexivity.
  - destruct fuel as [|fuel]; [cbn in Hf; lia|].
    cbn [loop]. rewrite blen_cons in *.
    destruct (N.eqb_spec (1 + blen l) 0) as [H0|H0]; [lia|].
    cbn [flat_map] in HB. rewrite <- app_assoc in HB.
    rewrite (Hstep x pre (flat_map f l ++ post) (or_introl eq_refl) HB).
    replace (1 + blen l - 1) with (blen l) by lia.
    replace (blen pre + blen (f x)) with (blen (pre ++ f x)) by (rewrite blen_app; reflexivity).
    rewrite (IH (pre ++ f x) post (ins x acc) fuel).
    + cbn [flat_map ins_all fold_left]. f_equal. f_equal. rewrite !blen_app. lia.
    + rewrite <- app_assoc. exact HB.
    + intros y pre' post' Hy. apply Hstep. right. exact Hy.
    + cbn [length] in Hf. lia.
    + lia.
Qed.

Lemma count_chunk_eq n : count_chunk n = chunk (le_bytes 8 (n mod M64)).
Proof. reflexivity. Qed.

(* load_container on  pre ++ count ++ elements ++ post *)
Lemma container_enc (f : value -> list N) step ins l pre post :
  let B := pre ++ (count_chunk (blen l) ++ flat_map f l) ++ post in
  blen B < M64 -> blen l < M64 ->
  (forall x pre' post', In x l -> B = pre' ++ f x ++ post' -> step (blen pre') = Ok (x, blen pre' + blen (f x))) ->
  (forall x, In x l -> 1 <= blen (f x)) ->
  load_container step ins B (blen pre)
  = Ok (VList (rev (ins_all ins l [])), blen pre + blen (count_chunk (blen l) ++ flat_map f l)).
Proof.
  intros B HB Hl Hstep Hsz. unfold load_container.
  assert (B = pre ++ chunk (le_bytes 8 (blen l mod M64)) ++ (flat_map f l ++ post)) as EB
    by (unfold B; rewrite count_chunk_eq, <- app_assoc; reflexivity).
  pose proof (read_chunk_chunk pre (le_bytes 8 (blen l mod M64)) (flat_map f l ++ post)) as Hr.
  rewrite <- EB in Hr. rewrite blen_le_bytes in Hr. change (N.of_nat 8) with 8 in Hr.
  rewrite Hr by (try exact HB; unfold M32; lia).
  rewrite N.mod_small by exact Hl. rewrite le_val_le_bytes8 by exact Hl.
  replace (blen pre + 4 + 8) with (blen (pre ++ chunk (le_bytes 8 (blen l))))
    by (rewrite blen_app, blen_chunk, blen_le_bytes; change (N.of_nat 8) with 8; lia).
  rewrite N.mod_small in EB by exact Hl.
  rewrite (loop_enc B f step ins l (pre ++ chunk (le_bytes 8 (blen l))) post [] (S (length B))).
  - f_equal. f_equal. rewrite count_chunk_eq, N.mod_small by exact Hl. rewrite !blen_app. lia.
  - rewrite EB. rewrite <- !app_assoc. reflexivity.
  - exact Hstep.
  - pose proof (blen_flat_map_ge f l Hsz) as H1.
    assert (blen (flat_map f l) <= blen B) as H2 by (rewrite EB, !blen_app; lia).
    unfold blen in *. lia.
  - exact Hl.
Qed.

Section WithJson.
  Variable jp : list N -> option (list N).

  (* the statement proved by induction on the type: an encoded value is read back from any
     position of any archive that contains it *)
  Definition reads_back (t : ty) : Prop :=
    forall v pre post,
      wt jp t v = true -> elems_ok t = true ->
      blen (pre ++ enc t v ++ post) < M64 ->
      load jp t (pre ++ enc t v ++ post) (blen pre) = Ok (v, blen pre + blen (enc t v)).

  Lemma pair_reads_back a b x y pre post :
    reads_back a -> reads_back b ->
    wt jp a x = true -> wt jp b y = true -> elems_ok a = true -> elems_ok b = true ->
    blen (pre ++ (enc a x ++ enc b y) ++ post) < M64 ->
    pair_step (load jp a (pre ++ (enc a x ++ enc b y) ++ post)) (load jp b (pre ++ (enc a x ++ enc b y) ++ post)) (blen pre)
    = Ok (VPair x y, blen pre + blen (enc a x ++ enc b y)).
  Proof.
    intros Ra Rb Wa Wb Ea Eb Hl. unfold pair_step.
    rewrite <- app_assoc in *.
    rewrite (Ra x pre (enc b y ++ post) Wa Ea Hl).
    replace (blen pre + blen (enc a x)) with (blen (pre ++ enc a x)) by (rewrite blen_app; reflexivity).
    replace (pre ++ enc a x ++ enc b y ++ post) with ((pre ++ enc a x) ++ enc b y ++ post) in * by (rewrite <- app_assoc; reflexivity).
    rewrite (Rb y (pre ++ enc a x) post Wb Eb Hl).
    f_equal. f_equal. rewrite !blen_app. lia.
  Qed.

  (* a successful element load consumed at least min_size bytes *)
  Lemma reads_back_size t v : reads_back t -> wt jp t v = true -> elems_ok t = true ->
    blen (enc t v) < M64 -> min_size t <= blen (enc t v).
  Proof.
    intros R W E Hl.
    pose proof (R v [] [] W E) as H. cbn [app] in H. rewrite app_nil_r in H. specialize (H Hl).
    destruct (load_good jp t (enc t v) Hl 0 ltac:(lia)) as (_ & _ & G).
    change (blen (@nil N)) with 0 in H. destruct (G _ _ H) as (A & _). lia.
  Qed.

  Lemma blen_sub_app (pre mid post : list N) : blen (pre ++ mid ++ post) < M64 -> blen mid < M64.
  Proof. rewrite !blen_app. lia. Qed.

  Theorem load_enc t : reads_back t.
  Proof.
    induction t as [|n| |n|e IH|e IH|k IHk x IHx|a IHa b IHb|e IH| ]; intros v pre post W E Hl.
    - (* TUnit *)
      destruct v; try discriminate. cbn [load enc]. rewrite blen_nil, N.add_0_r. reflexivity.
    - (* TPod *)
      destruct v as [|bs| | | |]; try discriminate. cbn [wt] in W. cbn [load enc] in *.
      apply andb_true_iff in W. destruct W as [W W3]. apply andb_true_iff in W. destruct W as [W1 W2].
      apply N.eqb_eq in W1. apply N.ltb_lt in W3. subst n.
      rewrite read_chunk_chunk by assumption. rewrite blen_chunk. f_equal. f_equal. lia.
    - (* TStr *)
      destruct v as [|bs| | | |]; try discriminate. cbn [wt] in W. cbn [load enc] in *.
      apply N.ltb_lt in W.
      rewrite read_string_chunk by assumption. rewrite blen_chunk. f_equal. f_equal. lia.
    - (* TPodVec *)
      destruct v as [|bs| | | |]; try discriminate. cbn [wt] in W. cbn [load enc] in *.
      apply andb_true_iff in W. destruct W as [W W3]. apply andb_true_iff in W. destruct W as [W1 W2].
      apply N.ltb_lt in W1. apply N.ltb_lt in W2. apply N.eqb_eq in W3.
      rewrite ncs_chunk by assumption.
      assert (blen bs / n * n = blen bs) as Hd.
      { pose proof (N.div_mod (blen bs) n ltac:(lia)) as Hdm. rewrite W3 in Hdm. lia. }
      rewrite mul64_small by (rewrite Hd; unfold M32, M64 in *; lia). rewrite Hd.
      rewrite read_chunk_chunk by assumption. rewrite blen_chunk. f_equal. f_equal. lia.
    - (* TSeq *)
      destruct v as [| | |l| |]; try discriminate. cbn [wt] in W. cbn [load enc elems_ok] in *.
      apply andb_true_iff in W. destruct W as [W1 W2]. apply N.ltb_lt in W1.
      apply andb_true_iff in E. destruct E as [E1 E2]. apply N.ltb_lt in E1.
      rewrite forallb_forall in W2.
      rewrite (container_enc (enc e) (load jp e _) ins_seq l pre post Hl W1).
      + rewrite ins_all_seq, app_nil_r, rev_involutive. reflexivity.
      + intros y pre' post' Hy HB. rewrite HB. apply IH; [apply W2; exact Hy|exact E2|rewrite <- HB; exact Hl].
      + intros y Hy.
        assert (blen (enc e y) < M64) as Hy2.
        { apply in_split in Hy. destruct Hy as (l1 & l2 & ->). rewrite flat_map_app in Hl. cbn [flat_map] in Hl.
          rewrite !blen_app in Hl. lia. }
        pose proof (reads_back_size e y IH (W2 y Hy) E2 Hy2). lia.
    - (* TSet *)
      destruct v as [| | |l| |]; try discriminate. cbn [wt] in W. cbn [load enc elems_ok] in *.
      apply andb_true_iff in W. destruct W as [W W3]. apply andb_true_iff in W. destruct W as [W1 W2]. apply N.ltb_lt in W1.
      apply andb_true_iff in E. destruct E as [E1 E2]. apply N.ltb_lt in E1.
      rewrite forallb_forall in W2.
      rewrite (container_enc (enc e) (load jp e _) ins_set l pre post Hl W1).
      + rewrite ins_all_set by (cbn [rev app]; apply nodupb_NoDup; exact W3).
        rewrite app_nil_r, rev_involutive. reflexivity.
      + intros y pre' post' Hy HB. rewrite HB. apply IH; [apply W2; exact Hy|exact E2|rewrite <- HB; exact Hl].
      + intros y Hy.
        assert (blen (enc e y) < M64) as Hy2.
        { apply in_split in Hy. destruct Hy as (l1 & l2 & ->). rewrite flat_map_app in Hl. cbn [flat_map] in Hl.
          rewrite !blen_app in Hl. lia. }
        pose proof (reads_back_size e y IH (W2 y Hy) E2 Hy2). lia.
    - (* TMap *)
      destruct v as [| | |l| |]; try discriminate. cbn [wt] in W. rewrite load_map_unfold. cbn [enc elems_ok] in *.
      apply andb_true_iff in W. destruct W as [W W3]. apply andb_true_iff in W. destruct W as [W1 W2]. apply N.ltb_lt in W1.
      apply andb_true_iff in E. destruct E as [E E3]. apply andb_true_iff in E. destruct E as [E1 E2]. apply N.ltb_lt in E1.
      rewrite forallb_forall in W2.
      set (f := fun p : value => match p with VPair a b => enc k a ++ enc x b | _ => [] end) in *.
      assert (forall y pre' post', In y l ->
                pre ++ (count_chunk (blen l) ++ flat_map f l) ++ post = pre' ++ f y ++ post' ->
                pair_step (load jp k (pre ++ (count_chunk (blen l) ++ flat_map f l) ++ post))
                          (load jp x (pre ++ (count_chunk (blen l) ++ flat_map f l) ++ post)) (blen pre')
                = Ok (y, blen pre' + blen (f y))) as Hstep.
      { intros y pre' post' Hy HB. specialize (W2 y Hy). destruct y as [| | | |ya yb|]; try discriminate.
        apply andb_true_iff in W2. destruct W2 as [Wa Wb]. rewrite HB. unfold f.
        apply pair_reads_back; try assumption. unfold f in HB. rewrite <- HB. exact Hl. }
      rewrite (container_enc f _ ins_map l pre post Hl W1 Hstep).
      + rewrite ins_all_map by (cbn [rev app]; apply nodup_keysb_NoDup; exact W3).
        rewrite app_nil_r, rev_involutive. reflexivity.
      + intros y Hy.
        pose proof Hy as Hy'. apply in_split in Hy'. destruct Hy' as (l1 & l2 & El).
        assert (pre ++ (count_chunk (blen l) ++ flat_map f l) ++ post
                = (pre ++ count_chunk (blen l) ++ flat_map f l1) ++ f y ++ (flat_map f l2 ++ post)) as HB.
        { rewrite El at 2. rewrite flat_map_app. cbn [flat_map]. rewrite <- !app_assoc. reflexivity. }
        pose proof (Hstep y _ _ Hy HB) as Hs.
        assert (blen (pre ++ (count_chunk (blen l) ++ flat_map f l) ++ post) < M64) as Hl' by exact Hl.
        pose proof (pair_good _ _ _ _ _ _ _ (load_good jp k _ Hl') (load_good jp x _ Hl')) as G.
        destruct (G (blen (pre ++ count_chunk (blen l) ++ flat_map f l1))) as (_ & _ & G3).
        { rewrite HB. rewrite !blen_app. lia. }
        destruct (G3 _ _ Hs) as (A & _). lia.
    - (* TPair *)
      destruct v as [| | | |va vb|]; try discriminate. cbn [wt] in W. rewrite load_pair_unfold. cbn [enc elems_ok] in *.
      apply andb_true_iff in W. destruct W as [Wa Wb]. apply andb_true_iff in E. destruct E as [Ea Eb].
      apply pair_reads_back; assumption.
    - (* TPtr *)
      destruct v as [| | | | |[y|]]; try discriminate; cbn [wt] in W; cbn [load enc elems_ok] in *.
      + rewrite <- app_assoc in *.
        pose proof (read_chunk_chunk pre [0] (enc e y ++ post) Hl ltac:(cbn; unfold M32; lia)) as Hr.
        change (blen [0]) with 1 in Hr. rewrite Hr. cbn [le_val]. cbn [N.eqb N.mul N.add negb].
        replace (blen pre + 4 + 1) with (blen (pre ++ chunk [0])) by (rewrite blen_app, blen_chunk; change (blen [0]) with 1; lia).
        replace (pre ++ chunk [0] ++ enc e y ++ post) with ((pre ++ chunk [0]) ++ enc e y ++ post) in * by (rewrite <- app_assoc; reflexivity).
        rewrite (IH y (pre ++ chunk [0]) post W E Hl). f_equal. f_equal. rewrite !blen_app. lia.
      + pose proof (read_chunk_chunk pre [1] post Hl ltac:(cbn; unfold M32; lia)) as Hr.
        change (blen [1]) with 1 in Hr. rewrite Hr. cbn [le_val]. cbn [N.eqb N.mul N.add negb].
        f_equal. f_equal. rewrite blen_chunk. change (blen [1]) with 1. lia.
    - (* TJson *)
      destruct v as [| |bs| | |]; try discriminate. cbn [wt] in W. cbn [load enc] in *.
      apply andb_true_iff in W. destruct W as [W1 W2]. apply N.ltb_lt in W1.
      rewrite read_string_chunk by assumption.
      unfold json_fix in W2. destruct (jp bs) as [c|]; [|discriminate]. apply leqb_eq in W2. subst c.
      rewrite blen_chunk. f_equal. f_equal. lia.
  Qed.

  (* ---------- the property-level statements ---------- *)
  Theorem roundtrip_at_eof t v :
    wt jp t v = true -> elems_ok t = true -> blen (enc t v) < M64 ->
    load jp t (enc t v) 0 = Ok (v, blen (enc t v)).
  Proof.
    intros W E Hl. pose proof (load_enc t v [] [] W E) as H.
    cbn [app] in H. rewrite app_nil_r in H. exact (H Hl).
  Qed.

  Theorem truncation_rejected t v k :
    wt jp t v = true -> elems_ok t = true -> blen (enc t v) < M64 ->
    (k < length (enc t v))%nat ->
    forall r, load jp t (firstn k (enc t v)) 0 <> Ok r.
  Proof.
    intros W E Hl Hk [v' p'] Hload.
    pose proof (roundtrip_at_eof t v W E Hl) as Hrt.
    assert (blen (firstn k (enc t v) ++ skipn k (enc t v)) < M64) as Hl2 by (rewrite firstn_skipn; exact Hl).
    pose proof (load_ext jp t _ (skipn k (enc t v)) _ _ Hl2 Hload) as Hx.
    rewrite firstn_skipn in Hx. rewrite Hrt in Hx. inversion Hx; subst v' p'.
    assert (blen (firstn k (enc t v)) < M64) as Hl3.
    { unfold blen in *. rewrite firstn_length. lia. }
    destruct (load_good jp t _ Hl3 0 ltac:(lia)) as (_ & _ & G).
    destruct (G _ _ Hload) as (_ & B & _).
    unfold blen in B. rewrite firstn_length in B. lia.
  Qed.
End WithJson.
