(* C19: every length field of a valid archive, replaced by a value that over-runs the rest of the
   archive, makes the load of the whole object fail (DESIGN theorem 3 at full strength).
   [hsplit t v a b] says: enc t v = a ++ <4-byte length field> ++ b, for each of the length fields the
   writer emits (chunk headers of PODs, strings, POD vectors, json texts, container counts and
   pointer flags, at any nesting depth). *)
From CppcmsV Require Import Base.Tac C19.Defs C19.Proofs C19.Loader C19.Roundtrip C19.Mutation.
Local Open Scope N_scope.

Definition fmap (k x : ty) : value -> list N :=
  fun p => match p with VPair a b => enc k a ++ enc x b | _ => [] end.

Inductive hsplit : ty -> value -> list N -> list N -> Prop :=
| hs_pod n b : hsplit (TPod n) (VBytes b) [] b
| hs_str b : hsplit TStr (VBytes b) [] b
| hs_podvec n b : hsplit (TPodVec n) (VBytes b) [] b
| hs_json b : hsplit TJson (VJson b) [] b
| hs_seq_count e l : hsplit (TSeq e) (VList l) [] (le_bytes 8 (blen l mod M64) ++ flat_map (enc e) l)
| hs_seq_elem e l1 x l2 a b : hsplit e x a b ->
    hsplit (TSeq e) (VList (l1 ++ x :: l2))
           (count_chunk (blen (l1 ++ x :: l2)) ++ flat_map (enc e) l1 ++ a) (b ++ flat_map (enc e) l2)
| hs_set_count e l : hsplit (TSet e) (VList l) [] (le_bytes 8 (blen l mod M64) ++ flat_map (enc e) l)
| hs_set_elem e l1 x l2 a b : hsplit e x a b ->
    hsplit (TSet e) (VList (l1 ++ x :: l2))
           (count_chunk (blen (l1 ++ x :: l2)) ++ flat_map (enc e) l1 ++ a) (b ++ flat_map (enc e) l2)
| hs_map_count k x l : hsplit (TMap k x) (VList l) [] (le_bytes 8 (blen l mod M64) ++ flat_map (fmap k x) l)
| hs_map_key k x l1 ka xa l2 a b : hsplit k ka a b ->
    hsplit (TMap k x) (VList (l1 ++ VPair ka xa :: l2))
           (count_chunk (blen (l1 ++ VPair ka xa :: l2)) ++ flat_map (fmap k x) l1 ++ a)
           (b ++ enc x xa ++ flat_map (fmap k x) l2)
| hs_map_val k x l1 ka xa l2 a b : hsplit x xa a b ->
    hsplit (TMap k x) (VList (l1 ++ VPair ka xa :: l2))
           (count_chunk (blen (l1 ++ VPair ka xa :: l2)) ++ flat_map (fmap k x) l1 ++ enc k ka ++ a)
           (b ++ flat_map (fmap k x) l2)
| hs_pair_l a b x y p q : hsplit a x p q -> hsplit (TPair a b) (VPair x y) p (q ++ enc b y)
| hs_pair_r a b x y p q : hsplit b y p q -> hsplit (TPair a b) (VPair x y) (enc a x ++ p) q
| hs_ptr_null e : hsplit (TPtr e) (VPtr None) [] [1]
| hs_ptr_flag e x : hsplit (TPtr e) (VPtr (Some x)) [] ([0] ++ enc e x)
| hs_ptr_in e x p q : hsplit e x p q -> hsplit (TPtr e) (VPtr (Some x)) (chunk [0] ++ p) q.

(* the positions described by hsplit are length fields of the encoding *)
Lemma enc_map_eq k x l : enc (TMap k x) (VList l) = count_chunk (blen l) ++ flat_map (fmap k x) l.
Proof. reflexivity. Qed.

Lemma hsplit_enc t v a b : hsplit t v a b -> exists h, blen h = 4 /\ enc t v = a ++ h ++ b.
Proof.
  induction 1 as [n b|b|n b|b|e l|e l1 x l2 a b H IH|e l|e l1 x l2 a b H IH|k x l|k x l1 ka xa l2 a b H IH
                 |k x l1 ka xa l2 a b H IH|a b x y p q H IH|a b x y p q H IH|e|e x|e x p q H IH].
  1-4: (eexists; split; [|cbn [enc app]; unfold chunk; reflexivity]; rewrite blen_le_bytes; reflexivity).
  - eexists. split; [|cbn [enc app]; unfold count_chunk, chunk; rewrite <- app_assoc; reflexivity].
    rewrite blen_le_bytes. reflexivity.
  - destruct IH as (h & Hh & E). exists h. split; [exact Hh|].
    cbn [enc]. rewrite flat_map_app. cbn [flat_map]. rewrite E. rewrite <- !app_assoc. reflexivity.
  - eexists. split; [|cbn [enc app]; unfold count_chunk, chunk; rewrite <- app_assoc; reflexivity].
    rewrite blen_le_bytes. reflexivity.
  - destruct IH as (h & Hh & E). exists h. split; [exact Hh|].
    cbn [enc]. rewrite flat_map_app. cbn [flat_map]. rewrite E. rewrite <- !app_assoc. reflexivity.
  - eexists. split; [|rewrite enc_map_eq; cbn [app]; unfold count_chunk, chunk; rewrite <- app_assoc; reflexivity].
    rewrite blen_le_bytes. reflexivity.
  - destruct IH as (h & Hh & E). exists h. split; [exact Hh|].
    rewrite enc_map_eq, flat_map_app. cbn [flat_map fmap]. rewrite E. rewrite <- !app_assoc. reflexivity.
  - destruct IH as (h & Hh & E). exists h. split; [exact Hh|].
    rewrite enc_map_eq, flat_map_app. cbn [flat_map fmap]. rewrite E. rewrite <- !app_assoc. reflexivity.
  - destruct IH as (h & Hh & E). exists h. split; [exact Hh|]. cbn [enc]. rewrite E, <- !app_assoc. reflexivity.
  - destruct IH as (h & Hh & E). exists h. split; [exact Hh|]. cbn [enc]. rewrite E, <- !app_assoc. reflexivity.
  - eexists. split; [|cbn [enc app]; unfold chunk; reflexivity]. rewrite blen_le_bytes. reflexivity.
  - eexists. split; [|cbn [enc app]; unfold chunk; rewrite <- app_assoc; reflexivity]. rewrite blen_le_bytes. reflexivity.
  - destruct IH as (h & Hh & E). exists h. split; [exact Hh|]. cbn [enc]. rewrite E, <- !app_assoc. reflexivity.
Qed.

(* the element loop: the first elements load, the next step fails *)
Lemma loop_prefix_err (B : list N) (f : value -> list N) step ins e :
  forall l1 pre acc fuel cnt,
    (forall x pre' post', In x l1 -> B = pre' ++ f x ++ post' -> step (blen pre') = Ok (x, blen pre' + blen (f x))) ->
    (exists rest, B = pre ++ flat_map f l1 ++ rest) ->
    step (blen pre + blen (flat_map f l1)) = Err e ->
    (length l1 < fuel)%nat -> blen l1 < cnt ->
    loop step ins fuel cnt (blen pre) acc = Err e.
Proof.
  induction l1 as [|x l IH]; intros pre acc fuel cnt Hstep [rest HB] Herr Hf Hc.
  - destruct fuel as [|fuel]; [lia|]. cbn [loop].
    destruct (N.eqb_spec cnt 0) as [C|C]; [rewrite blen_nil in Hc; lia|].
    cbn [flat_map] in Herr. rewrite blen_nil, N.add_0_r in Herr. rewrite Herr. reflexivity.
  - destruct fuel as [|fuel]; [lia|]. cbn [loop].
    rewrite blen_cons in Hc.
    destruct (N.eqb_spec cnt 0) as [C|C]; [lia|].
    cbn [flat_map] in HB. rewrite <- app_assoc in HB.
    rewrite (Hstep x pre (flat_map f l ++ rest) (or_introl eq_refl) HB).
    replace (blen pre + blen (f x)) with (blen (pre ++ f x)) by (rewrite blen_app; reflexivity).
    apply IH.
    + intros y pre' post' Hy. apply Hstep. right. exact Hy.
    + exists rest. rewrite <- app_assoc. exact HB.
    + cbn [flat_map] in Herr. rewrite !blen_app in *. rewrite <- Herr. f_equal. lia.
    + cbn [length] in Hf. lia.
    + lia.
Qed.

(* load_container on  pre ++ count ++ (elements of l1) ++ rest  where the step after l1 fails *)
Lemma container_prefix_err (f : value -> list N) step ins l1 n pre rest e :
  let B := pre ++ count_chunk n ++ flat_map f l1 ++ rest in
  blen B < M64 -> n < M64 -> blen l1 < n ->
  (forall x pre' post', In x l1 -> B = pre' ++ f x ++ post' -> step (blen pre') = Ok (x, blen pre' + blen (f x))) ->
  (forall x, In x l1 -> 1 <= blen (f x)) ->
  step (blen pre + blen (count_chunk n) + blen (flat_map f l1)) = Err e ->
  load_container step ins B (blen pre) = Err e.
Proof.
  intros B HB Hn Hl Hstep Hsz Herr. unfold load_container.
  assert (B = pre ++ chunk (le_bytes 8 (n mod M64)) ++ (flat_map f l1 ++ rest)) as EB by (unfold B; rewrite count_chunk_eq; reflexivity).
  pose proof (read_chunk_chunk pre (le_bytes 8 (n mod M64)) (flat_map f l1 ++ rest)) as Hr.
  rewrite <- EB in Hr. rewrite blen_le_bytes in Hr. change (N.of_nat 8) with 8 in Hr.
  rewrite Hr by (try exact HB; unfold M32; lia).
  rewrite N.mod_small by exact Hn. rewrite le_val_le_bytes8 by exact Hn.
  replace (blen pre + 4 + 8) with (blen (pre ++ count_chunk n))
    by (rewrite blen_app, count_chunk_eq, blen_chunk, blen_le_bytes; change (N.of_nat 8) with 8; lia).
  rewrite (loop_prefix_err B f step ins e l1 (pre ++ count_chunk n) [] (S (length B)) n); [reflexivity| | | | |].
  - exact Hstep.
  - exists rest. unfold B. rewrite <- !app_assoc. reflexivity.
  - rewrite blen_app. exact Herr.
  - pose proof (blen_flat_map_ge f l1 Hsz) as H1.
    assert (blen (flat_map f l1) <= blen B) as H2 by (unfold B; rewrite !blen_app; lia).
    unfold blen in *. lia.
  - exact Hl.
Qed.

Lemma flat_map_elem_len (f : value -> list N) l y : In y l -> blen (f y) <= blen (flat_map f l).
Proof.
  induction l as [|x r IH]; intros H; [destruct H|].
  cbn [flat_map]. rewrite blen_app. destruct H as [->|H]; [lia|]. specialize (IH H). lia.
Qed.

Section WithJson.
  Variable jp : list N -> option (list N).

  Lemma wt_seq_parts e l1 x l2 :
    forallb (wt jp e) (l1 ++ x :: l2) = true -> (forall y, In y l1 -> wt jp e y = true) /\ wt jp e x = true.
  Proof.
    intros H. rewrite forallb_forall in H. split.
    - intros y Hy. apply H. apply in_or_app. left. exact Hy.
    - apply H. apply in_or_app. right. left. reflexivity.
  Qed.

  Lemma elem_size e y B pre' post' :
    wt jp e y = true -> elems_ok e = true -> 0 < min_size e -> B = pre' ++ enc e y ++ post' -> blen B < M64 -> 1 <= blen (enc e y).
  Proof.
    intros W E M HB Hl.
    assert (blen (enc e y) < M64) as H by (rewrite HB, !blen_app in Hl; lia).
    pose proof (reads_back_size jp e y (load_enc jp e) W E H). lia.
  Qed.

  Theorem mutated_header_rejected t v a b : hsplit t v a b ->
    forall pre post h', wt jp t v = true -> elems_ok t = true -> blen h' = 4 ->
      blen b + blen post < le_val h' -> blen (pre ++ a ++ h' ++ b ++ post) < M64 ->
      load jp t (pre ++ a ++ h' ++ b ++ post) (blen pre) = Err EFmtSize.
  Proof.
    induction 1 as [n b|b|n b|b|e l|e l1 x l2 a b H IH|e l|e l1 x l2 a b H IH|k x l|k x l1 ka xa l2 a b H IH
                   |k x l1 ka xa l2 a b H IH|a b x y p q H IH|a b x y p q H IH|e|e x|e x p q H IH];
      intros pre post h' W E Hh Ho Hl.
    (* the length field is the first thing the loader of this type reads *)
    1-5,7,9,14,15:
      (change ([] ++ h' ++ ?r) with (h' ++ r) in *; apply (load_overrun jp _ _ _ h'); [reflexivity|exact Hl| |];
       [rewrite <- Hh; apply slice_app|rewrite !blen_app in *; rewrite Hh; lia]).
    - (* an element of a vector/list *)
      cbn [wt] in W. apply andb_true_iff in W. destruct W as [W1 W2]. apply N.ltb_lt in W1.
      cbn [elems_ok] in E. apply andb_true_iff in E. destruct E as [E1 E2]. apply N.ltb_lt in E1.
      destruct (wt_seq_parts e l1 x l2 W2) as [Wl Wx].
      set (n := blen (l1 ++ x :: l2)) in *.
      set (rest := a ++ h' ++ b ++ flat_map (enc e) l2 ++ post).
      assert (pre ++ (count_chunk n ++ flat_map (enc e) l1 ++ a) ++ h' ++ (b ++ flat_map (enc e) l2) ++ post
              = pre ++ count_chunk n ++ flat_map (enc e) l1 ++ rest) as EB by (unfold rest; rewrite <- !app_assoc; reflexivity).
      rewrite EB in *. cbn [load].
      apply (container_prefix_err (enc e) _ ins_seq l1 n pre rest EFmtSize).
      + exact Hl.
      + exact W1.
      + unfold n. rewrite blen_app, blen_cons. lia.
      + intros y pre' post' Hy HB. rewrite HB. apply (load_enc jp e); [apply Wl; exact Hy|exact E2|rewrite <- HB; exact Hl].
      + intros y Hy.
        assert (blen (enc e y) < M64) as Hy2
          by (pose proof (flat_map_elem_len (enc e) l1 y Hy); rewrite !blen_app in Hl; lia).
        pose proof (reads_back_size jp e y (load_enc jp e) (Wl y Hy) E2 Hy2). lia.
      + replace (blen pre + blen (count_chunk n) + blen (flat_map (enc e) l1))
          with (blen (pre ++ count_chunk n ++ flat_map (enc e) l1)) by (rewrite !blen_app; lia).
        assert (pre ++ count_chunk n ++ flat_map (enc e) l1 ++ rest
                = (pre ++ count_chunk n ++ flat_map (enc e) l1) ++ a ++ h' ++ b ++ (flat_map (enc e) l2 ++ post)) as EB2
          by (unfold rest; rewrite <- !app_assoc; reflexivity).
        rewrite EB2 in *.
        apply IH; [exact Wx|exact E2|exact Hh| |exact Hl].
        rewrite !blen_app in *. lia.
    - (* an element of a set *)
      cbn [wt] in W. apply andb_true_iff in W. destruct W as [W W3]. apply andb_true_iff in W. destruct W as [W1 W2]. apply N.ltb_lt in W1.
      cbn [elems_ok] in E. apply andb_true_iff in E. destruct E as [E1 E2]. apply N.ltb_lt in E1.
      destruct (wt_seq_parts e l1 x l2 W2) as [Wl Wx].
      set (n := blen (l1 ++ x :: l2)) in *.
      set (rest := a ++ h' ++ b ++ flat_map (enc e) l2 ++ post).
      assert (pre ++ (count_chunk n ++ flat_map (enc e) l1 ++ a) ++ h' ++ (b ++ flat_map (enc e) l2) ++ post
              = pre ++ count_chunk n ++ flat_map (enc e) l1 ++ rest) as EB by (unfold rest; rewrite <- !app_assoc; reflexivity).
      rewrite EB in *. cbn [load].
      apply (container_prefix_err (enc e) _ ins_set l1 n pre rest EFmtSize).
      + exact Hl.
      + exact W1.
      + unfold n. rewrite blen_app, blen_cons. lia.
      + intros y pre' post' Hy HB. rewrite HB. apply (load_enc jp e); [apply Wl; exact Hy|exact E2|rewrite <- HB; exact Hl].
      + intros y Hy.
        assert (blen (enc e y) < M64) as Hy2
          by (pose proof (flat_map_elem_len (enc e) l1 y Hy); rewrite !blen_app in Hl; lia).
        pose proof (reads_back_size jp e y (load_enc jp e) (Wl y Hy) E2 Hy2). lia.
      + replace (blen pre + blen (count_chunk n) + blen (flat_map (enc e) l1))
          with (blen (pre ++ count_chunk n ++ flat_map (enc e) l1)) by (rewrite !blen_app; lia).
        assert (pre ++ count_chunk n ++ flat_map (enc e) l1 ++ rest
                = (pre ++ count_chunk n ++ flat_map (enc e) l1) ++ a ++ h' ++ b ++ (flat_map (enc e) l2 ++ post)) as EB2
          by (unfold rest; rewrite <- !app_assoc; reflexivity).
        rewrite EB2 in *.
        apply IH; [exact Wx|exact E2|exact Hh| |exact Hl].
        rewrite !blen_app in *. lia.
    - (* a key of a map *)
      cbn [wt] in W. apply andb_true_iff in W. destruct W as [W W3]. apply andb_true_iff in W. destruct W as [W1 W2]. apply N.ltb_lt in W1.
      cbn [elems_ok] in E. apply andb_true_iff in E. destruct E as [E E3]. apply andb_true_iff in E. destruct E as [E1 E2]. apply N.ltb_lt in E1.
      rewrite forallb_forall in W2.
      assert (wt jp k ka = true /\ wt jp x xa = true) as [Wk Wx].
      { specialize (W2 (VPair ka xa) ltac:(apply in_or_app; right; left; reflexivity)). apply andb_true_iff in W2. exact W2. }
      assert (forall y, In y l1 -> match y with VPair ya yb => wt jp k ya && wt jp x yb | _ => false end = true) as Wl
        by (intros y Hy; apply W2; apply in_or_app; left; exact Hy).
      set (n := blen (l1 ++ VPair ka xa :: l2)) in *.
      set (f := fmap k x) in *.
      set (rest := a ++ h' ++ b ++ enc x xa ++ flat_map f l2 ++ post).
      assert (pre ++ (count_chunk n ++ flat_map f l1 ++ a) ++ h' ++ (b ++ enc x xa ++ flat_map f l2) ++ post
              = pre ++ count_chunk n ++ flat_map f l1 ++ rest) as EB by (unfold rest; rewrite <- !app_assoc; reflexivity).
      rewrite EB in *. rewrite load_map_unfold.
      apply (container_prefix_err f _ ins_map l1 n pre rest EFmtSize).
      + exact Hl.
      + exact W1.
      + unfold n. rewrite blen_app, blen_cons. lia.
      + intros y pre' post' Hy HB. specialize (Wl y Hy). destruct y as [| | | |ya yb|]; try discriminate.
        apply andb_true_iff in Wl. destruct Wl as [Wa Wb]. rewrite HB. unfold f, fmap.
        apply (pair_reads_back jp); try assumption; try apply load_enc. unfold f, fmap in HB. rewrite <- HB. exact Hl.
      + intros y Hy. pose proof (Wl y Hy) as Wy. destruct y as [| | | |ya yb|]; try discriminate.
        apply andb_true_iff in Wy. destruct Wy as [Wa Wb].
        pose proof (flat_map_elem_len f l1 _ Hy) as Hlen. unfold f at 1, fmap in Hlen. unfold f at 1, fmap.
        rewrite blen_app in *.
        assert (blen (enc k ya) < M64 /\ blen (enc x yb) < M64) as [Ha Hb] by (rewrite !blen_app in Hl; lia).
        pose proof (reads_back_size jp k ya (load_enc jp k) Wa E2 Ha).
        pose proof (reads_back_size jp x yb (load_enc jp x) Wb E3 Hb). lia.
      + replace (blen pre + blen (count_chunk n) + blen (flat_map f l1))
          with (blen (pre ++ count_chunk n ++ flat_map f l1)) by (rewrite !blen_app; lia).
        assert (pre ++ count_chunk n ++ flat_map f l1 ++ rest
                = (pre ++ count_chunk n ++ flat_map f l1) ++ a ++ h' ++ b ++ (enc x xa ++ flat_map f l2 ++ post)) as EB2
          by (unfold rest; rewrite <- !app_assoc; reflexivity).
        rewrite EB2 in *. unfold pair_step.
        rewrite (IH (pre ++ count_chunk n ++ flat_map f l1) (enc x xa ++ flat_map f l2 ++ post) h' Wk E2 Hh); [reflexivity| |exact Hl].
        rewrite !blen_app in *. lia.
    - (* a value of a map *)
      cbn [wt] in W. apply andb_true_iff in W. destruct W as [W W3]. apply andb_true_iff in W. destruct W as [W1 W2]. apply N.ltb_lt in W1.
      cbn [elems_ok] in E. apply andb_true_iff in E. destruct E as [E E3]. apply andb_true_iff in E. destruct E as [E1 E2]. apply N.ltb_lt in E1.
      rewrite forallb_forall in W2.
      assert (wt jp k ka = true /\ wt jp x xa = true) as [Wk Wx].
      { specialize (W2 (VPair ka xa) ltac:(apply in_or_app; right; left; reflexivity)). apply andb_true_iff in W2. exact W2. }
      assert (forall y, In y l1 -> match y with VPair ya yb => wt jp k ya && wt jp x yb | _ => false end = true) as Wl
        by (intros y Hy; apply W2; apply in_or_app; left; exact Hy).
      set (n := blen (l1 ++ VPair ka xa :: l2)) in *.
      set (f := fmap k x) in *.
      set (rest := enc k ka ++ a ++ h' ++ b ++ flat_map f l2 ++ post).
      assert (pre ++ (count_chunk n ++ flat_map f l1 ++ enc k ka ++ a) ++ h' ++ (b ++ flat_map f l2) ++ post
              = pre ++ count_chunk n ++ flat_map f l1 ++ rest) as EB by (unfold rest; rewrite <- !app_assoc; reflexivity).
      rewrite EB in *. rewrite load_map_unfold.
      apply (container_prefix_err f _ ins_map l1 n pre rest EFmtSize).
      + exact Hl.
      + exact W1.
      + unfold n. rewrite blen_app, blen_cons. lia.
      + intros y pre' post' Hy HB. specialize (Wl y Hy). destruct y as [| | | |ya yb|]; try discriminate.
        apply andb_true_iff in Wl. destruct Wl as [Wa Wb]. rewrite HB. unfold f, fmap.
        apply (pair_reads_back jp); try assumption; try apply load_enc. unfold f, fmap in HB. rewrite <- HB. exact Hl.
      + intros y Hy. pose proof (Wl y Hy) as Wy. destruct y as [| | | |ya yb|]; try discriminate.
        apply andb_true_iff in Wy. destruct Wy as [Wa Wb].
        pose proof (flat_map_elem_len f l1 _ Hy) as Hlen. unfold f at 1, fmap in Hlen. unfold f at 1, fmap.
        rewrite blen_app in *.
        assert (blen (enc k ya) < M64 /\ blen (enc x yb) < M64) as [Ha Hb] by (rewrite !blen_app in Hl; lia).
        pose proof (reads_back_size jp k ya (load_enc jp k) Wa E2 Ha).
        pose proof (reads_back_size jp x yb (load_enc jp x) Wb E3 Hb). lia.
      + replace (blen pre + blen (count_chunk n) + blen (flat_map f l1))
          with (blen (pre ++ count_chunk n ++ flat_map f l1)) by (rewrite !blen_app; lia).
        assert (pre ++ count_chunk n ++ flat_map f l1 ++ rest
                = (pre ++ count_chunk n ++ flat_map f l1) ++ enc k ka ++ (a ++ h' ++ b ++ flat_map f l2 ++ post)) as EB2
          by (unfold rest; rewrite <- !app_assoc; reflexivity).
        rewrite EB2 in *. unfold pair_step.
        rewrite (load_enc jp k ka (pre ++ count_chunk n ++ flat_map f l1) (a ++ h' ++ b ++ flat_map f l2 ++ post) Wk E2 Hl).
        replace (blen (pre ++ count_chunk n ++ flat_map f l1) + blen (enc k ka))
          with (blen ((pre ++ count_chunk n ++ flat_map f l1) ++ enc k ka)) by (rewrite (blen_app (pre ++ count_chunk n ++ flat_map f l1)); reflexivity).
        assert ((pre ++ count_chunk n ++ flat_map f l1) ++ enc k ka ++ a ++ h' ++ b ++ flat_map f l2 ++ post
                = ((pre ++ count_chunk n ++ flat_map f l1) ++ enc k ka) ++ a ++ h' ++ b ++ (flat_map f l2 ++ post)) as EB3
          by (rewrite <- !app_assoc; reflexivity).
        rewrite EB3 in *.
        rewrite (IH ((pre ++ count_chunk n ++ flat_map f l1) ++ enc k ka) (flat_map f l2 ++ post) h' Wx E3 Hh); [reflexivity| |exact Hl].
        rewrite !blen_app in *. lia.
    - (* first component of a pair / first fields of a class *)
      cbn [wt] in W. apply andb_true_iff in W. destruct W as [Wa Wb].
      cbn [elems_ok] in E. apply andb_true_iff in E. destruct E as [Ea Eb].
      rewrite load_pair_unfold. unfold pair_step.
      replace (pre ++ p ++ h' ++ (q ++ enc b y) ++ post) with (pre ++ p ++ h' ++ q ++ (enc b y ++ post)) in *
        by (rewrite <- !app_assoc; reflexivity).
      rewrite (IH pre (enc b y ++ post) h' Wa Ea Hh); [reflexivity| |exact Hl].
      rewrite !blen_app in *. lia.
    - (* second component *)
      cbn [wt] in W. apply andb_true_iff in W. destruct W as [Wa Wb].
      cbn [elems_ok] in E. apply andb_true_iff in E. destruct E as [Ea Eb].
      rewrite load_pair_unfold. unfold pair_step.
      replace (pre ++ (enc a x ++ p) ++ h' ++ q ++ post) with (pre ++ enc a x ++ (p ++ h' ++ q ++ post)) in *
        by (rewrite <- !app_assoc; reflexivity).
      rewrite (load_enc jp a x pre (p ++ h' ++ q ++ post) Wa Ea Hl).
      replace (blen pre + blen (enc a x)) with (blen (pre ++ enc a x)) by (rewrite blen_app; reflexivity).
      replace (pre ++ enc a x ++ p ++ h' ++ q ++ post) with ((pre ++ enc a x) ++ p ++ h' ++ q ++ post) in *
        by (rewrite <- !app_assoc; reflexivity).
      rewrite (IH (pre ++ enc a x) post h' Wb Eb Hh Ho Hl). reflexivity.
    - (* inside the pointee *)
      cbn [wt] in W. cbn [elems_ok] in E. cbn [load].
      replace (pre ++ (chunk [0] ++ p) ++ h' ++ q ++ post) with (pre ++ chunk [0] ++ (p ++ h' ++ q ++ post)) in *
        by (rewrite <- !app_assoc; reflexivity).
      pose proof (read_chunk_chunk pre [0] (p ++ h' ++ q ++ post) Hl) as Hr.
      change (blen [0]) with 1 in Hr. rewrite Hr by (unfold M32; lia).
      change (negb (le_val [0] =? 0)) with false. cbv iota.
      replace (blen pre + 4 + 1) with (blen (pre ++ chunk [0])) by (rewrite blen_app, blen_chunk; change (blen [0]) with 1; lia).
      replace (pre ++ chunk [0] ++ p ++ h' ++ q ++ post) with ((pre ++ chunk [0]) ++ p ++ h' ++ q ++ post) in *
        by (rewrite <- !app_assoc; reflexivity).
      rewrite (IH (pre ++ chunk [0]) post h' W E Hh Ho Hl). reflexivity.
  Qed.
End WithJson.

(* the whole archive: any length field of enc t v replaced by 4 bytes whose value exceeds what follows *)
Corollary mutated_archive_rejected jp t v a b h' :
  hsplit t v a b -> wt jp t v = true -> elems_ok t = true ->
  blen h' = 4 -> blen b < le_val h' -> blen (a ++ h' ++ b) < M64 ->
  load jp t (a ++ h' ++ b) 0 = Err EFmtSize.
Proof.
  intros H W E Hh Ho Hl.
  pose proof (mutated_header_rejected jp t v a b H [] [] h' W E Hh) as M.
  cbn [app] in M. rewrite app_nil_r in M. change (blen (@nil N)) with 0 in M.
  apply M; [lia|exact Hl].
Qed.
