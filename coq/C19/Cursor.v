(* C19: the cursor discipline of the archive.  An archive is the concatenation of what the save calls wrote;
   the read position (archive::ptr_) after loading an object stands exactly behind the bytes its save produced,
   whatever the object is - in particular an EMPTY vector of an arithmetic type, an empty string or an empty
   container, which still own a chunk (a zero-length chunk resp. a count chunk) that the loader has to consume.
   Consequence: objects saved one after another are loaded back one after another, each of them unchanged.

   The POD-vector path (macro CPPCMS_TRIVIAL_ARCHIVE of cppcms/archive_traits.h) is written out as its own
   definition load_podvec, shown to be the TPodVec case of load, and contrasted with the loader that returns
   early for n = 0 without calling read_chunk (load_podvec_early): the theorems below are false for that one
   (Example early_return_shifts). *)
From CppcmsV Require Import Base.Tac C19.Defs C19.Proofs C19.Loader C19.Roundtrip.
Local Open Scope N_scope.

(* ---------- the CPPCMS_TRIVIAL_ARCHIVE std::vector<Type> loader, statement by statement ----------
     size_t n = a.next_chunk_size() / sizeof(Type);
     v.clear(); v.resize(n);
     void *p = 0; if(!v.empty()) p = &v.front();
     a.read_chunk(p, n*sizeof(Type));           <- called for n = 0 too (p = 0, len = 0): it consumes the 4-byte header *)
Definition podvec_count (chunk_size sz : N) : N := chunk_size / sz.
Definition podvec_len (n sz : N) : N := mul64 n sz.
Definition load_podvec (sz : N) (buf : list N) (ptr : N) : res (value * N) :=
  match next_chunk_size buf ptr with
  | Err e => Err e
  | Ok c =>
      let n := podvec_count c sz in
      match read_chunk buf ptr (podvec_len n sz) with
      | Err e => Err e
      | Ok (b, p) => Ok (VBytes b, p)
      end
  end.

Lemma load_podvec_is_load jp sz buf ptr : load jp (TPodVec sz) buf ptr = load_podvec sz buf ptr.
Proof. reflexivity. Qed.

(* the same with `if(n==0) return;` after v.clear(): the zero-length chunk stays unread *)
Definition load_podvec_early (sz : N) (buf : list N) (ptr : N) : res (value * N) :=
  match next_chunk_size buf ptr with
  | Err e => Err e
  | Ok c =>
      let n := podvec_count c sz in
      if n =? 0 then Ok (VBytes [], ptr)
      else match read_chunk buf ptr (podvec_len n sz) with
           | Err e => Err e
           | Ok (b, p) => Ok (VBytes b, p)
           end
  end.

Section Cursor.
  Variable jp : list N -> option (list N).

  (* ---------- 1. load consumes exactly the bytes save produced ---------- *)
  Theorem load_consumes_exactly t v pre post :
    wt jp t v = true -> elems_ok t = true -> blen (pre ++ enc t v ++ post) < M64 ->
    exists q, load jp t (pre ++ enc t v ++ post) (blen pre) = Ok (v, q) /\ q - blen pre = blen (enc t v) /\ blen pre <= q.
  Proof.
    intros W E Hl. exists (blen pre + blen (enc t v)). split; [exact (load_enc jp t v pre post W E Hl)|]. lia.
  Qed.

  (* the zero-length chunk of an empty vector<POD> / empty string and the count chunk of an empty container are consumed *)
  Lemma wt_empty_podvec sz : 0 < sz -> wt jp (TPodVec sz) (VBytes []) = true.
  Proof.
    intros H. destruct sz as [|p]; [lia|reflexivity].
  Qed.

  Theorem empty_podvec_consumed sz pre post :
    0 < sz -> blen (pre ++ [0;0;0;0] ++ post) < M64 ->
    load jp (TPodVec sz) (pre ++ [0;0;0;0] ++ post) (blen pre) = Ok (VBytes [], blen pre + 4).
  Proof.
    intros Hs Hl.
    exact (load_enc jp (TPodVec sz) (VBytes []) pre post (wt_empty_podvec sz Hs) eq_refl Hl).
  Qed.

  Theorem empty_string_consumed pre post :
    blen (pre ++ [0;0;0;0] ++ post) < M64 ->
    load jp TStr (pre ++ [0;0;0;0] ++ post) (blen pre) = Ok (VBytes [], blen pre + 4).
  Proof.
    intros Hl. exact (load_enc jp TStr (VBytes []) pre post eq_refl eq_refl Hl).
  Qed.

  Theorem empty_container_consumed e pre post :
    elems_ok (TSeq e) = true -> blen (pre ++ enc (TSeq e) (VList []) ++ post) < M64 ->
    load jp (TSeq e) (pre ++ enc (TSeq e) (VList []) ++ post) (blen pre) = Ok (VList [], blen pre + 12).
  Proof.
    intros E Hl. exact (load_enc jp (TSeq e) (VList []) pre post eq_refl E Hl).
  Qed.

  (* ---------- 2. two objects saved one after another ---------- *)
  Theorem load_two ta a tb b :
    wt jp ta a = true -> elems_ok ta = true -> wt jp tb b = true -> elems_ok tb = true ->
    blen (enc ta a ++ enc tb b) < M64 ->
    load jp ta (enc ta a ++ enc tb b) 0 = Ok (a, blen (enc ta a))
    /\ load jp tb (enc ta a ++ enc tb b) (blen (enc ta a)) = Ok (b, blen (enc ta a ++ enc tb b)).
  Proof.
    intros Wa Ea Wb Eb Hl. split.
    - pose proof (load_enc jp ta a [] (enc tb b) Wa Ea) as H. cbn [app] in H. rewrite blen_nil in H. exact (H Hl).
    - pose proof (load_enc jp tb b (enc ta a) [] Wb Eb) as H. rewrite app_nil_r in H.
      rewrite blen_app. exact (H Hl).
  Qed.

  (* an empty vector<POD> that is NOT the last item: what follows it is loaded unshifted *)
  Corollary empty_podvec_then_more sz tb b :
    0 < sz -> wt jp tb b = true -> elems_ok tb = true -> blen ([0;0;0;0] ++ enc tb b) < M64 ->
    load jp (TPair (TPodVec sz) tb) ([0;0;0;0] ++ enc tb b) 0 = Ok (VPair (VBytes []) b, blen ([0;0;0;0] ++ enc tb b)).
  Proof.
    intros Hs Wb Eb Hl.
    assert (wt jp (TPair (TPodVec sz) tb) (VPair (VBytes []) b) = true) as W.
    { change (wt jp (TPodVec sz) (VBytes []) && wt jp tb b = true). rewrite (wt_empty_podvec sz Hs), Wb. reflexivity. }
    assert (elems_ok (TPair (TPodVec sz) tb) = true) as E.
    { change (true && elems_ok tb = true). rewrite Eb. reflexivity. }
    exact (roundtrip_at_eof jp _ _ W E Hl).
  Qed.

  (* ---------- 3. any number of objects saved one after another ---------- *)
  Definition enc_all (l : list (ty * value)) : list N := flat_map (fun tv => enc (fst tv) (snd tv)) l.

  Fixpoint load_all (ts : list ty) (buf : list N) (ptr : N) : res (list value * N) :=
    match ts with
    | [] => Ok ([], ptr)
    | t :: r =>
        match load jp t buf ptr with
        | Err e => Err e
        | Ok (v, p) =>
            match load_all r buf p with
            | Err e => Err e
            | Ok (vs, q) => Ok (v :: vs, q)
            end
        end
    end.

  Definition all_ok (l : list (ty * value)) : Prop :=
    Forall (fun tv => wt jp (fst tv) (snd tv) = true /\ elems_ok (fst tv) = true) l.

  Theorem load_all_enc_all l : forall pre post,
    all_ok l -> blen (pre ++ enc_all l ++ post) < M64 ->
    load_all (map fst l) (pre ++ enc_all l ++ post) (blen pre) = Ok (map snd l, blen pre + blen (enc_all l)).
  Proof.
    induction l as [|[t v] l IH]; intros pre post Hok Hl.
    - cbn [map load_all enc_all flat_map]. rewrite blen_nil, N.add_0_r. reflexivity.
    - inversion Hok as [|x y [W E] Hr]; subst x y. cbn [fst snd] in W, E.
      cbn [map load_all fst snd].
      change (enc_all ((t, v) :: l)) with (enc t v ++ enc_all l) in *.
      assert (pre ++ (enc t v ++ enc_all l) ++ post = pre ++ enc t v ++ (enc_all l ++ post)) as Eq1
        by (rewrite <- !app_assoc; reflexivity).
      rewrite Eq1 in *.
      rewrite (load_enc jp t v pre (enc_all l ++ post) W E Hl).
      assert (pre ++ enc t v ++ enc_all l ++ post = (pre ++ enc t v) ++ enc_all l ++ post) as Eq2
        by (rewrite <- !app_assoc; reflexivity).
      rewrite Eq2 in *.
      assert (blen pre + blen (enc t v) = blen (pre ++ enc t v)) as -> by (rewrite blen_app; reflexivity).
      rewrite (IH (pre ++ enc t v) post Hr Hl).
      f_equal. f_equal. rewrite !blen_app. lia.
  Qed.

  Corollary archive_is_concatenation l :
    all_ok l -> blen (enc_all l) < M64 ->
    load_all (map fst l) (enc_all l) 0 = Ok (map snd l, blen (enc_all l)).
  Proof.
    intros Hok Hl. pose proof (load_all_enc_all l [] [] Hok) as H.
    cbn [app] in H. rewrite app_nil_r, blen_nil in H. exact (H Hl).
  Qed.
End Cursor.

(* ---------- the early-return loader does not have these properties ---------- *)
Definition pair_early (buf : list N) : res (value * N) :=
  match load_podvec_early 4 buf 0 with
  | Err e => Err e
  | Ok (x, p1) =>
      match load (fun _ => None) TStr buf p1 with
      | Err e => Err e
      | Ok (y, p2) => Ok (VPair x y, p2)
      end
  end.
Definition tail_val : value := VPair (VBytes []) (VBytes [116;97;105;108]).
Example early_return_shifts :
  enc (TPair (TPodVec 4) TStr) tail_val = [0;0;0;0; 4;0;0;0;116;97;105;108]
  /\ load (fun _ => None) (TPair (TPodVec 4) TStr) (enc (TPair (TPodVec 4) TStr) tail_val) 0 = Ok (tail_val, 12)
  /\ pair_early (enc (TPair (TPodVec 4) TStr) tail_val) = Ok (VPair (VBytes []) (VBytes []), 4).
Proof. repeat split; vm_compute; reflexivity. Qed.

Definition seq_items : list (ty * value) :=
  [ (TPodVec 4, VBytes []); (TStr, VBytes [116]); (TSeq (TPodVec 2), VList [VBytes []; VBytes [1;0]; VBytes []]);
    (TPair TStr (TPod 1), VPair (VBytes []) (VBytes [7])); (TMap (TPod 1) (TPodVec 8), VList [VPair (VBytes [1]) (VBytes []); VPair (VBytes [2]) (VBytes [])]);
    (TPtr (TPodVec 1), VPtr (Some (VBytes []))); (TSeq TStr, VList []) ].
Example sequence_nonvacuous :
  all_ok (fun _ => None) seq_items /\ blen (enc_all seq_items) = 95
  /\ load_all (fun _ => None) (map fst seq_items) (enc_all seq_items) 0 = Ok (map snd seq_items, 95).
Proof.
  split; [|split; vm_compute; reflexivity].
  unfold all_ok, seq_items. repeat (constructor; [split; vm_compute; reflexivity|]). constructor.
Qed.
