(* C19: an element count that the archive cannot pay for is never accepted.  The element loop of archive_load_container runs
   exactly `count` times and every element load consumes at least min_size of the element type, so a successful load of a
   container implies  12 + count * min_size(element) <= bytes consumed <= bytes available.  A 12-byte archive that announces
   2^31 strings ends with "At end of archive" after the elements that exist; it cannot make the loader build 2^31 objects.
   (The bound is void exactly for element types with min_size = 0, i.e. classes without serialized fields: elems_ok.) *)
From CppcmsV Require Import Base.Tac C19.Defs C19.Proofs C19.Loader.
Local Open Scope N_scope.

Lemma loop_steps buf m nf step ins :
  good_step buf m nf step ->
  forall fuel cnt ptr acc l q, ptr <= blen buf ->
    loop step ins fuel cnt ptr acc = Ok (l, q) -> ptr + cnt * m <= q.
Proof.
  intros G. induction fuel as [|f IH]; intros cnt ptr acc l q Hp E; cbn [loop] in E.
  - destruct (N.eqb_spec cnt 0) as [H0|H0]; [|discriminate]. inversion E; subst. lia.
  - destruct (N.eqb_spec cnt 0) as [H0|H0]; [inversion E; subst; lia|].
    destruct (G ptr Hp) as (_ & _ & G3).
    destruct (step ptr) as [[v p]|e] eqn:Es; [|discriminate].
    destruct (G3 v p eq_refl) as (A & B & _).
    pose proof (IH (cnt - 1) p (ins v acc) l q B E) as H.
    assert (cnt * m = (cnt - 1) * m + m) as -> by (replace cnt with ((cnt - 1) + 1) at 1 by lia; lia).
    lia.
Qed.

Lemma loop_seq_length step : forall fuel cnt ptr acc l q,
  loop step ins_seq fuel cnt ptr acc = Ok (l, q) -> blen l = blen acc + cnt.
Proof.
  induction fuel as [|f IH]; intros cnt ptr acc l q E; cbn [loop] in E.
  - destruct (N.eqb_spec cnt 0) as [H0|H0]; [|discriminate]. inversion E; subst. rewrite blen_rev. lia.
  - destruct (N.eqb_spec cnt 0) as [H0|H0]; [inversion E; subst; rewrite blen_rev; lia|].
    destruct (step ptr) as [[v p]|e]; [|discriminate].
    rewrite (IH _ _ _ _ _ E). unfold ins_seq. rewrite blen_cons. lia.
Qed.

Section CountBound.
  Variable jp : list N -> option (list N).

  (* vector / list: the number of elements returned times the minimal element size fits into the bytes consumed *)
  Theorem seq_count_bounded e buf ptr l q :
    blen buf < M64 -> ptr <= blen buf ->
    load jp (TSeq e) buf ptr = Ok (VList l, q) ->
    ptr + 12 + blen l * min_size e <= q /\ q <= blen buf.
  Proof.
    intros Hl Hp E. cbn [load] in E. unfold load_container in E.
    destruct (read_chunk buf ptr 8) as [[b p1]|err] eqn:Er; [|discriminate].
    destruct (read_chunk_ok _ _ _ _ _ Hl Er) as (Hp1a & Hp1 & Hb1).
    destruct (loop (load jp e buf) ins_seq (S (length buf)) (le_val b) p1 []) as [[l' q']|err] eqn:El; [|discriminate].
    inversion E; subst l' q'.
    pose proof (loop_steps buf (min_size e) _ _ ins_seq (load_good jp e buf Hl) _ _ _ _ _ _ Hb1 El) as Hs.
    pose proof (loop_seq_length _ _ _ _ _ _ _ El) as Hn. rewrite blen_nil in Hn.
    destruct (loop_good buf (min_size e) _ _ ins_seq (load_good jp e buf Hl) ins_seq_ok (S (length buf)) (le_val b) p1 [] Hb1) as (_ & _ & L3).
    destruct (L3 l q El) as (_ & J2 & _).
    split; [|exact J2]. rewrite Hn. lia.
  Qed.

  (* in terms of the count field itself, for every kind of container (set / map may drop duplicates, the loop still runs count times):
     a successful load means the announced count was affordable *)
  Theorem announced_count_affordable step ins m nf buf ptr b p1 v q :
    blen buf < M64 -> good_step buf m nf step ->
    read_chunk buf ptr 8 = Ok (b, p1) ->
    load_container step ins buf ptr = Ok (v, q) ->
    p1 + le_val b * m <= q.
  Proof.
    intros Hl G Er E. unfold load_container in E. rewrite Er in E.
    destruct (read_chunk_ok _ _ _ _ _ Hl Er) as (_ & _ & Hb1).
    destruct (loop step ins (S (length buf)) (le_val b) p1 []) as [[l' q']|err] eqn:El; [|discriminate].
    inversion E; subst v q'.
    exact (loop_steps buf m nf step ins G _ _ _ _ _ _ Hb1 El).
  Qed.
End CountBound.

(* 2^31 announced strings, one present: rejected after the one that exists; and the bound is tight for an honest archive *)
Example count_bound_nonvacuous :
  load (fun _ => None) (TSeq TStr) [8;0;0;0; 0;0;0;128;0;0;0;0; 1;0;0;0;97] 0 = Err EEof
  /\ load (fun _ => None) (TSeq TStr) [8;0;0;0; 2;0;0;0;0;0;0;0; 0;0;0;0; 0;0;0;0] 0 = Ok (VList [VBytes []; VBytes []], 20).
Proof. split; vm_compute; reflexivity. Qed.
