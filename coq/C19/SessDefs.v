(* C19: executable model of session_interface::save_data / load_data (src/session_interface.cpp), the
   format in which the session map - and with it every object put there by store_data - is handed to
   the session storage (cookie or server side) and read back on the next request.
   A record is a 4-byte header  struct packed { uint32_t key_size:10; uint32_t exposed:1; uint32_t data_size:21; }
   (x86-64 little-endian bit fields: key_size in bits 0..9, exposed in bit 10, data_size in bits 11..31),
   then the key, then the value.  Definitions only, no proofs. *)
From Coq Require Import NArith List Bool.
From CppcmsV Require Import C19.Defs.
Import ListNotations.
Local Open Scope N_scope.

Definition sentry : Type := (list N * bool * list N)%type.   (* key, exposed, value *)

Inductive serr : Type :=
| SPack       (* "session::format violation -> pack" : fewer than 4 bytes left for a header *)
| SData       (* "sessions::format violation data"   : key+value longer than what is left *)
| SKeyLong    (* "session::save key too long" *)
| SValLong    (* "session::save value too long" *)
| SFuel       (* model only *)
| SOob.       (* model only: a read outside the buffer *)

Inductive sres (A : Type) : Type :=
| SOk (a : A)
| SErr (e : serr).
Arguments SOk {A} a.
Arguments SErr {A} e.

Definition pack_hdr (ks : N) (ex : bool) (ds : N) : N := ks + (if ex then 1024 else 0) + 2048 * ds.

(* save_data: for every map entry in key order: packed header(key.size(), exposed, value.size()), key, value *)
Fixpoint save_data (m : list sentry) : sres (list N) :=
  match m with
  | [] => SOk []
  | (k, ex, v) :: r =>
      if 1024 <=? blen k then SErr SKeyLong
      else if 2097152 <=? blen v then SErr SValLong
      else match save_data r with
           | SErr e => SErr e
           | SOk s => SOk (le_bytes 4 (pack_hdr (blen k) ex (blen v)) ++ k ++ v ++ s)
           end
  end.

(* load_data:  while(begin < end) { packed p(begin,end)  [throws unless begin+4 <= end];  begin += 4;
     if(end - begin >= int(p.key_size + p.data_size)) { key, value; data[key] = ... } else throw; } *)
Fixpoint load_data_aux (fuel : nat) (buf : list N) (pos : N) (acc : list sentry) {struct fuel} : sres (list sentry) :=
  if blen buf <=? pos then SOk (rev acc)
  else match fuel with
       | O => SErr SFuel
       | S f =>
           if negb (pos + 4 <=? blen buf) then SErr SPack
           else match slice buf pos 4 with
                | None => SErr SOob
                | Some h =>
                    let w := le_val h in
                    let ks := w mod 1024 in
                    let ex := (w / 1024) mod 2 =? 1 in
                    let ds := w / 2048 in
                    let p1 := pos + 4 in
                    if negb (ks + ds <=? blen buf - p1) then SErr SData
                    else match slice buf p1 ks, slice buf (p1 + ks) ds with
                         | Some k, Some v => load_data_aux f buf (p1 + ks + ds) ((k, ex, v) :: acc)
                         | _, _ => SErr SOob
                         end
                end
       end.

Definition load_data (buf : list N) : sres (list sentry) := load_data_aux (S (length buf)) buf 0 [].

(* data[key] = entry : a later record with the same key replaces the earlier one *)
Fixpoint sess_upsert (e : sentry) (m : list sentry) : list sentry :=
  match m with
  | [] => [e]
  | x :: r => if leqb (fst (fst e)) (fst (fst x)) then e :: r else x :: sess_upsert e r
  end.
Definition sess_map (l : list sentry) : list sentry := fold_left (fun m e => sess_upsert e m) l [].

Fixpoint sess_keys_distinct (l : list sentry) : bool :=
  match l with
  | [] => true
  | x :: r => negb (existsb (fun y => leqb (fst (fst x)) (fst (fst y))) r) && sess_keys_distinct r
  end.

(* bytes of the buffer accounted for by the records *)
Fixpoint sess_size (l : list sentry) : N :=
  match l with
  | [] => 0
  | (k, _, v) :: r => 4 + blen k + blen v + sess_size r
  end.
