(* C19 -- serialized objects round-trip exactly; malformed archives are rejected safely.
   Only the property theorems; proofs are in Proofs.v (chunk reader), Loader.v (arbitrary input),
   Roundtrip.v (load after save), Mutation.v (over-running length fields), Session.v (the session map format),
   MutFull.v (every length field of a valid archive), Cursor.v (read position after a load; objects saved one after another).
   jp is the external JSON parser (parse + compact re-serialisation), a parameter of the model. *)
From CppcmsV Require Import Base.Tac C19.Defs C19.Proofs C19.Loader C19.Roundtrip C19.Mutation C19.MutFull C19.SessDefs C19.Session C19.Cursor C19.StoreFetch C19.Object C19.Unique C19.CountBound.
Local Open Scope N_scope.

(* 1. the repaired bounds test of archive::next_chunk_size, in size_t (mod 2^64) arithmetic:
      an accepted chunk lies inside the buffer, header included *)
Theorem chunk_reader_in_bounds : forall buf ptr sz,
  blen buf < M64 -> next_chunk_size buf ptr = Ok sz -> ptr + 4 + sz <= blen buf.
Proof. exact ncs_sound. Qed.
Print Assumptions chunk_reader_in_bounds.
(* the comparison before the repair does not have this property (replayed witness) *)
Example old_bounds_test_unsound :
  next_chunk_size_old [7;0;0;0;97;98;99;100] 0 = Ok 7 /\ next_chunk_size [7;0;0;0;97;98;99;100] 0 = Err EFmtSize.
Proof. split; vm_compute; reflexivity. Qed.

(* 2. arbitrary bytes: every read of the loader is inside the buffer (EOob is what the model
      returns for a read outside), for every type, buffer and start position *)
Theorem reads_in_bounds : forall jp t buf ptr,
  blen buf < M64 -> ptr <= blen buf -> load jp t buf ptr <> Err EOob.
Proof. exact load_in_bounds. Qed.
Print Assumptions reads_in_bounds.

(* 3. arbitrary bytes: loading ends with a value or with one of the archive exceptions; a value
      was read from inside the buffer, consumed at least the minimal size of the type, and the
      strings/arrays it holds are not longer than the bytes consumed.  elems_ok excludes only
      containers of field-less user classes (for those the C++ loop is bounded by the count
      field alone). *)
Theorem load_total_and_safe : forall jp t buf ptr,
  blen buf < M64 -> ptr <= blen buf -> elems_ok t = true ->
  match load jp t buf ptr with
  | Ok (v, q) => ptr + min_size t <= q /\ q <= blen buf /\ payload v <= q - ptr
  | Err e => cpp_exception e = true
  end.
Proof. exact load_safe. Qed.
Print Assumptions load_total_and_safe.
Example load_nonvacuous :
  load (fun _ => None) (TSeq TStr) [8;0;0;0; 255;255;255;255;255;255;255;255; 1;0;0;0;97] 0 = Err EEof
  /\ load (fun _ => None) (TSeq TStr) [8;0;0;0; 1;0;0;0;0;0;0;0; 1;0;0;0;97] 0 = Ok (VList [VBytes [97]], 17).
Proof. split; vm_compute; reflexivity. Qed.

(* 3b. an element count that the archive cannot pay for is never accepted: the element loop runs exactly `count` times and every
       element consumes at least min_size of its type, so a successful container load implies 12 + count * min_size <= bytes consumed.
       (Void exactly when min_size = 0: containers of classes without serialized fields, see docs/C19.md, observations.) *)
Theorem seq_count_bounded : forall jp e buf ptr l q,
  blen buf < M64 -> ptr <= blen buf ->
  load jp (TSeq e) buf ptr = Ok (VList l, q) ->
  ptr + 12 + blen l * min_size e <= q /\ q <= blen buf.
Proof. exact CountBound.seq_count_bounded. Qed.
Print Assumptions seq_count_bounded.
Theorem announced_count_affordable : forall step ins m (nf : Prop) buf ptr b p1 v q,
  blen buf < M64 -> good_step buf m nf step ->
  read_chunk buf ptr 8 = Ok (b, p1) ->
  load_container step ins buf ptr = Ok (v, q) ->
  p1 + le_val b * m <= q.
Proof. exact CountBound.announced_count_affordable. Qed.
Print Assumptions announced_count_affordable.
Example count_bound_nonvacuous :
  load (fun _ => None) (TSeq TStr) [8;0;0;0; 0;0;0;128;0;0;0;0; 1;0;0;0;97] 0 = Err EEof
  /\ load (fun _ => None) (TSeq TStr) [8;0;0;0; 2;0;0;0;0;0;0;0; 0;0;0;0; 0;0;0;0] 0 = Ok (VList [VBytes []; VBytes []], 20).
Proof. exact CountBound.count_bound_nonvacuous. Qed.

(* 4. round trip: for every type of the universe and every well-formed value (chunks fit the
      uint32 length field, sets/maps hold distinct elements/keys, a json value is one the
      external parser reproduces), loading the saved archive gives the value back and ends
      exactly at the end of the archive *)
Theorem roundtrip : forall jp t v,
  wt jp t v = true -> elems_ok t = true -> blen (enc t v) < M64 ->
  load jp t (enc t v) 0 = Ok (v, blen (enc t v)).
Proof. exact roundtrip_at_eof. Qed.
Print Assumptions roundtrip.
(* ... and also when the object is a member of a larger archive (how user classes, session and
   cache values embed it) *)
Theorem roundtrip_embedded : forall jp t v pre post,
  wt jp t v = true -> elems_ok t = true -> blen (pre ++ enc t v ++ post) < M64 ->
  load jp t (pre ++ enc t v ++ post) (blen pre) = Ok (v, blen pre + blen (enc t v)).
Proof. exact load_enc. Qed.
Print Assumptions roundtrip_embedded.
Definition ex_ty : ty := TMap TStr (TPair (TSeq (TPtr (TPodVec 4))) (TSet (TPod 2))).
Definition ex_val : value :=
  VList [VPair (VBytes [97;0;98]) (VPair (VList [VPtr None; VPtr (Some (VBytes [1;0;0;0;2;0;0;0])); VPtr (Some (VBytes []))])
                                         (VList [VBytes [1;0]; VBytes [0;1]]));
         VPair (VBytes []) (VPair (VList []) (VList []))].
Example roundtrip_nonvacuous :
  wt (fun _ => None) ex_ty ex_val = true /\ elems_ok ex_ty = true /\ blen (enc ex_ty ex_val) = 114
  /\ load (fun _ => None) ex_ty (enc ex_ty ex_val) 0 = Ok (ex_val, 114).
Proof. repeat split; vm_compute; reflexivity. Qed.

(* 4b. the cursor discipline.  The archive is the concatenation of what the save calls wrote; the read position after loading an
       object stands exactly behind the bytes its save produced (q - ptr = blen (enc t v)), for every value of the universe - in
       particular an EMPTY std::vector of an arithmetic type or an empty string (a zero-length chunk, 00 00 00 00, which the loader
       must consume) and an empty container (its count chunk), at any position. *)
Theorem load_consumes_exactly : forall jp t v pre post,
  wt jp t v = true -> elems_ok t = true -> blen (pre ++ enc t v ++ post) < M64 ->
  exists q, load jp t (pre ++ enc t v ++ post) (blen pre) = Ok (v, q) /\ q - blen pre = blen (enc t v) /\ blen pre <= q.
Proof. exact Cursor.load_consumes_exactly. Qed.
Print Assumptions load_consumes_exactly.
Theorem empty_podvec_consumed : forall jp sz pre post,
  0 < sz -> blen (pre ++ [0;0;0;0] ++ post) < M64 ->
  load jp (TPodVec sz) (pre ++ [0;0;0;0] ++ post) (blen pre) = Ok (VBytes [], blen pre + 4).
Proof. exact Cursor.empty_podvec_consumed. Qed.
Print Assumptions empty_podvec_consumed.
Theorem empty_string_consumed : forall jp pre post,
  blen (pre ++ [0;0;0;0] ++ post) < M64 ->
  load jp TStr (pre ++ [0;0;0;0] ++ post) (blen pre) = Ok (VBytes [], blen pre + 4).
Proof. exact Cursor.empty_string_consumed. Qed.
Print Assumptions empty_string_consumed.
Theorem empty_container_consumed : forall jp e pre post,
  elems_ok (TSeq e) = true -> blen (pre ++ enc (TSeq e) (VList []) ++ post) < M64 ->
  load jp (TSeq e) (pre ++ enc (TSeq e) (VList []) ++ post) (blen pre) = Ok (VList [], blen pre + 12).
Proof. exact Cursor.empty_container_consumed. Qed.
Print Assumptions empty_container_consumed.
(* an empty vector<POD> that is not the last item: the member behind it is loaded unshifted *)
Theorem empty_podvec_then_more : forall jp sz tb b,
  0 < sz -> wt jp tb b = true -> elems_ok tb = true -> blen ([0;0;0;0] ++ enc tb b) < M64 ->
  load jp (TPair (TPodVec sz) tb) ([0;0;0;0] ++ enc tb b) 0 = Ok (VPair (VBytes []) b, blen ([0;0;0;0] ++ enc tb b)).
Proof. exact Cursor.empty_podvec_then_more. Qed.
Print Assumptions empty_podvec_then_more.
(* load (save a ++ save b) = a, then b *)
Theorem load_two : forall jp ta a tb b,
  wt jp ta a = true -> elems_ok ta = true -> wt jp tb b = true -> elems_ok tb = true ->
  blen (enc ta a ++ enc tb b) < M64 ->
  load jp ta (enc ta a ++ enc tb b) 0 = Ok (a, blen (enc ta a))
  /\ load jp tb (enc ta a ++ enc tb b) (blen (enc ta a)) = Ok (b, blen (enc ta a ++ enc tb b)).
Proof. exact Cursor.load_two. Qed.
Print Assumptions load_two.
(* ... and for any number of objects of any types saved one after another (enc_all = concatenation of their archives,
   load_all = one load after the other, each starting where the previous one stopped) *)
Theorem archive_is_concatenation : forall jp l,
  all_ok jp l -> blen (enc_all l) < M64 ->
  load_all jp (map fst l) (enc_all l) 0 = Ok (map snd l, blen (enc_all l)).
Proof. exact Cursor.archive_is_concatenation. Qed.
Print Assumptions archive_is_concatenation.
Theorem archive_is_concatenation_embedded : forall jp l pre post,
  all_ok jp l -> blen (pre ++ enc_all l ++ post) < M64 ->
  load_all jp (map fst l) (pre ++ enc_all l ++ post) (blen pre) = Ok (map snd l, blen pre + blen (enc_all l)).
Proof. exact Cursor.load_all_enc_all. Qed.
Print Assumptions archive_is_concatenation_embedded.
(* non-vacuity: seven objects with empty POD vectors / strings / containers in first, middle and last positions; and the loader
   that returns early for n = 0 (load_podvec_early: no read_chunk call for an empty vector) does NOT have the property:
   { {}, "tail" } comes back as { {}, "" } with the read position 4 instead of 12 *)
Example cursor_nonvacuous :
  all_ok (fun _ => None) seq_items /\ blen (enc_all seq_items) = 95
  /\ load_all (fun _ => None) (map fst seq_items) (enc_all seq_items) 0 = Ok (map snd seq_items, 95).
Proof. exact sequence_nonvacuous. Qed.
Example early_return_loader_shifts :
  enc (TPair (TPodVec 4) TStr) tail_val = [0;0;0;0; 4;0;0;0;116;97;105;108]
  /\ load (fun _ => None) (TPair (TPodVec 4) TStr) (enc (TPair (TPodVec 4) TStr) tail_val) 0 = Ok (tail_val, 12)
  /\ pair_early (enc (TPair (TPodVec 4) TStr) tail_val) = Ok (VPair (VBytes []) (VBytes []), 4).
Proof. exact early_return_shifts. Qed.

(* 4c. the archive OBJECT (buffer_, ptr_, mode_) with its operations: operator<< appends; operator>> loads at ptr_ and advances it;
       operator& saves or loads depending on mode(); mode(m) and reset() set ptr_ = 0; str(s) replaces the buffer, selects load mode
       and sets ptr_ = 0.  Any number of objects saved into a fresh archive come back, in order, after mode(load) / reset() /
       str(str()), with eof() at the end; the serialize(a){ a & f1 & f2 ... } idiom round-trips through the same function. *)
Theorem object_roundtrip : forall jp l,
  all_ok jp l -> blen (enc_all l) < M64 ->
  exists a', loadv_all jp (map fst l) (a_mode true (save_all l a_new)) = Ok (map snd l, a')
             /\ a_eof a' = true /\ a_ptr a' = blen (enc_all l) /\ a_buf a' = enc_all l.
Proof. exact Object.object_roundtrip. Qed.
Print Assumptions object_roundtrip.
Theorem serialize_idiom_roundtrip : forall jp l old,
  all_ok jp l -> blen (enc_all l) < M64 -> map fst old = map fst l ->
  exists a1 a2,
    amp_all jp l a_new = Ok (map snd l, a1)
    /\ amp_all jp old (a_mode true a1) = Ok (map snd l, a2)
    /\ a_eof a2 = true.
Proof. exact Object.serialize_idiom_roundtrip. Qed.
Print Assumptions serialize_idiom_roundtrip.
Theorem reset_rereads : forall jp l a',
  all_ok jp l -> blen (enc_all l) < M64 ->
  loadv_all jp (map fst l) (a_mode true (save_all l a_new)) = Ok (map snd l, a') ->
  exists a'', loadv_all jp (map fst l) (a_reset a') = Ok (map snd l, a'') /\ a_eof a'' = true.
Proof. exact Object.reset_rereads. Qed.
Print Assumptions reset_rereads.
Theorem str_roundtrip : forall jp l a0,
  all_ok jp l -> blen (enc_all l) < M64 ->
  exists a', loadv_all jp (map fst l) (a_set_str (a_get_str (save_all l a_new)) a0) = Ok (map snd l, a') /\ a_eof a' = true.
Proof. exact Object.str_roundtrip. Qed.
Print Assumptions str_roundtrip.
Example object_nonvacuous :
  match loadv_all (fun _ => None) (map fst seq_items) (a_mode true (save_all seq_items a_new)) with
  | Ok (vs, a') => vs = map snd seq_items /\ a_eof a' = true /\ a_ptr a' = 95
  | Err _ => False
  end
  /\ a_eof (a_mode true (save_all seq_items a_new)) = false
  /\ a_loadv (fun _ => None) TStr (a_mode true a_new) = Err EEof.
Proof. exact Object.object_nonvacuous. Qed.

(* 4d. the format is unambiguous: the archive of an object is never a proper prefix of the archive of another object of the same
       type, and different objects have different archives (this is why objects are written one after another without separators) *)
Theorem enc_prefix_free : forall jp t v1 v2 rest,
  wt jp t v1 = true -> wt jp t v2 = true -> elems_ok t = true -> blen (enc t v2) < M64 ->
  enc t v2 = enc t v1 ++ rest -> rest = [] /\ v1 = v2.
Proof. exact Unique.enc_prefix_free. Qed.
Print Assumptions enc_prefix_free.
Theorem enc_injective : forall jp t v1 v2,
  wt jp t v1 = true -> wt jp t v2 = true -> elems_ok t = true -> blen (enc t v2) < M64 ->
  enc t v1 = enc t v2 -> v1 = v2.
Proof. exact Unique.enc_injective. Qed.
Print Assumptions enc_injective.
Example unambiguous_nonvacuous :
  enc (TSeq TStr) (VList [VBytes []; VBytes [97]]) <> enc (TSeq TStr) (VList [VBytes [97]; VBytes []])
  /\ blen (enc (TSeq TStr) (VList [VBytes []; VBytes [97]])) = blen (enc (TSeq TStr) (VList [VBytes [97]; VBytes []])).
Proof. split; [vm_compute; discriminate|vm_compute; reflexivity]. Qed.

(* 5. every strict truncation of a valid archive is rejected *)
Theorem truncation_rejected : forall jp t v k,
  wt jp t v = true -> elems_ok t = true -> blen (enc t v) < M64 ->
  (k < length (enc t v))%nat ->
  forall r, load jp t (firstn k (enc t v)) 0 <> Ok r.
Proof. exact Roundtrip.truncation_rejected. Qed.
Print Assumptions truncation_rejected.
Example truncation_nonvacuous :
  load (fun _ => None) ex_ty (firstn 113 (enc ex_ty ex_val)) 0 = Err EFmtSize
  /\ load (fun _ => None) ex_ty (firstn 12 (enc ex_ty ex_val)) 0 = Err EEof.
Proof. split; vm_compute; reflexivity. Qed.

(* 6. a length field that over-runs what is left of the archive is rejected: by the chunk reader
      (a), by every loader that starts at it (b), and in particular when it is the mutated
      header of a chunk inside an otherwise valid archive (c) *)
Theorem overrun_rejected_reader : forall buf ptr h,
  blen buf < M64 -> slice buf ptr 4 = Some h -> blen buf - ptr - 4 < le_val h ->
  next_chunk_size buf ptr = Err EFmtSize.
Proof. exact ncs_overrun. Qed.
Print Assumptions overrun_rejected_reader.
Theorem overrun_rejected_loader : forall jp t buf ptr h,
  first_chunk t = true ->
  blen buf < M64 -> slice buf ptr 4 = Some h -> blen buf - ptr - 4 < le_val h ->
  load jp t buf ptr = Err EFmtSize.
Proof. exact load_overrun. Qed.
Print Assumptions overrun_rejected_loader.
Theorem mutation_rejected : forall pre h body post,
  blen h = 4 -> blen (pre ++ h ++ body ++ post) < M64 ->
  blen body + blen post < le_val h ->
  next_chunk_size (pre ++ h ++ body ++ post) (blen pre) = Err EFmtSize.
Proof. exact mutated_length_rejected. Qed.
Print Assumptions mutation_rejected.
Example mutation_nonvacuous :
  next_chunk_size ([9;9] ++ [4;0;0;0] ++ [1;2;3] ++ []) 2 = Err EFmtSize
  /\ next_chunk_size ([9;9] ++ [3;0;0;0] ++ [1;2;3] ++ []) 2 = Ok 3.
Proof. split; vm_compute; reflexivity. Qed.

(* 6d. every length field of a valid archive: hsplit t v a b says enc t v = a ++ <4-byte length field> ++ b for
       one of the length fields the writer emits (chunk headers of PODs, strings, POD vectors, json texts,
       container counts, pointer flags, at any nesting depth; theorem hsplit_is_length_field).  Replacing
       that field by 4 bytes whose value exceeds the bytes that follow makes the load of the WHOLE object
       fail with "Invalid archive_format", wherever the object is embedded. *)
Theorem hsplit_is_length_field : forall t v a b,
  hsplit t v a b -> exists h, blen h = 4 /\ enc t v = a ++ h ++ b.
Proof. exact hsplit_enc. Qed.
Print Assumptions hsplit_is_length_field.
Theorem mutation_rejected_everywhere : forall jp t v a b, hsplit t v a b ->
  forall pre post h', wt jp t v = true -> elems_ok t = true -> blen h' = 4 ->
    blen b + blen post < le_val h' -> blen (pre ++ a ++ h' ++ b ++ post) < M64 ->
    load jp t (pre ++ a ++ h' ++ b ++ post) (blen pre) = Err EFmtSize.
Proof. exact mutated_header_rejected. Qed.
Print Assumptions mutation_rejected_everywhere.
Theorem mutated_archive_rejected : forall jp t v a b h',
  hsplit t v a b -> wt jp t v = true -> elems_ok t = true ->
  blen h' = 4 -> blen b < le_val h' -> blen (a ++ h' ++ b) < M64 ->
  load jp t (a ++ h' ++ b) 0 = Err EFmtSize.
Proof. exact MutFull.mutated_archive_rejected. Qed.
Print Assumptions mutated_archive_rejected.
Definition mx_t : ty := TSeq (TPtr TStr).
Definition mx_v : value := VList ([VPtr None] ++ VPtr (Some (VBytes [97;98])) :: []).
Definition mx_a : list N := count_chunk (blen ([VPtr None] ++ VPtr (Some (VBytes [97;98])) :: [])) ++ flat_map (enc (TPtr TStr)) [VPtr None] ++ (chunk [0] ++ []).
Definition mx_b : list N := [97;98] ++ flat_map (enc (TPtr TStr)) [].
Example mutation_everywhere_nonvacuous :
  hsplit mx_t mx_v mx_a mx_b
  /\ enc mx_t mx_v = mx_a ++ [2;0;0;0] ++ mx_b
  /\ load (fun _ => None) mx_t (mx_a ++ [2;0;0;0] ++ mx_b) 0 = Ok (mx_v, 28)
  /\ load (fun _ => None) mx_t (mx_a ++ [3;0;0;0] ++ mx_b) 0 = Err EFmtSize
  /\ load (fun _ => None) mx_t (mx_a ++ [1;0;0;0] ++ mx_b) 0 = Ok (VList [VPtr None; VPtr (Some (VBytes [97]))], 27).
Proof.
  split; [|repeat split; vm_compute; reflexivity].
  exact (hs_seq_elem (TPtr TStr) [VPtr None] _ [] _ _ (hs_ptr_in TStr _ _ _ (hs_str [97;98]))).
Qed.

(* 7. a successful load depends only on the bytes the archive had: appending data does not
      change it (the basis of 5, and of reading members one after the other) *)
Theorem load_prefix_stable : forall jp t a b ptr r,
  blen (a ++ b) < M64 -> load jp t a ptr = Ok r -> load jp t (a ++ b) ptr = Ok r.
Proof. exact load_ext. Qed.
Print Assumptions load_prefix_stable.

(* 8. the session map (which holds every object stored with session_interface::store_data) survives
      save_data -> storage -> load_data: the records come back in order, and the map rebuilt from
      them (data[key] = entry) is the saved one when its keys are distinct, as in a std::map.
      save_data = SOk means: every key shorter than 1024 and every value shorter than 2 MiB bytes
      (otherwise the C++ throws, theorem session_save_errors) *)
Theorem session_data_roundtrip : forall m s, save_data m = SOk s -> load_data s = SOk m.
Proof. exact sess_roundtrip. Qed.
Print Assumptions session_data_roundtrip.
Theorem session_map_roundtrip : forall m s,
  save_data m = SOk s -> sess_keys_distinct m = true ->
  match load_data s with SOk l => sess_map l = m | SErr _ => False end.
Proof. exact sess_map_roundtrip. Qed.
Print Assumptions session_map_roundtrip.
Theorem session_save_errors : forall m e, save_data m = SErr e -> e = SKeyLong \/ e = SValLong.
Proof. exact save_data_errors. Qed.
Print Assumptions session_save_errors.
Definition ex_sess : list sentry := [([97], true, [1;0;2]); ([], false, []); ([98;0;99], false, [255])].
Example session_roundtrip_nonvacuous :
  save_data ex_sess = SOk [1;28;0;0;97;1;0;2; 0;0;0;0; 3;8;0;0;98;0;99;255]
  /\ sess_keys_distinct ex_sess = true /\ load_data [1;28;0;0;97;1;0;2; 0;0;0;0; 3;8;0;0;98;0;99;255] = SOk ex_sess.
Proof. repeat split; vm_compute; reflexivity. Qed.

(* 8b. the convenience calls: session_interface::store_data(key, obj) = set(key, archive bytes of obj), fetch_data(key, obj) = load from
       get(key) (None = the "Undefined session key" exception).  fetch_data after store_data returns the object, at once and in the next
       request (after the whole map went through save_data -> storage -> load_data -> data[key] = entry); other keys are untouched.
       cache_interface::store_data / fetch_data are the same two steps around the cache's store / fetch of the byte string. *)
Theorem fetch_after_store : forall jp t v k m,
  wt jp t v = true -> elems_ok t = true -> blen (enc t v) < M64 ->
  fetch_data jp t k (store_data t k v m) = Some (Ok (v, blen (enc t v))).
Proof. exact StoreFetch.fetch_after_store. Qed.
Print Assumptions fetch_after_store.
Theorem store_keeps_other_keys : forall jp t v k k2 m,
  leqb k k2 = false -> fetch_data jp t k (store_data t k2 v m) = fetch_data jp t k m.
Proof. exact StoreFetch.store_keeps_other_keys. Qed.
Print Assumptions store_keeps_other_keys.
Theorem fetch_in_next_request : forall jp t v k m s,
  wt jp t v = true -> elems_ok t = true -> blen (enc t v) < M64 ->
  sess_keys_distinct m = true -> save_data (store_data t k v m) = SOk s ->
  match load_data s with
  | SOk l => fetch_data jp t k (sess_map l) = Some (Ok (v, blen (enc t v)))
  | SErr _ => False
  end.
Proof. exact StoreFetch.fetch_in_next_request. Qed.
Print Assumptions fetch_in_next_request.
Example store_fetch_nonvacuous :
  fetch_data (fun _ => None) sf_t [111;98;106] (store_data sf_t [111;98;106] sf_v sf_m) = Some (Ok (sf_v, 20))
  /\ fetch_data (fun _ => None) sf_t [113] sf_m = None
  /\ match save_data (store_data sf_t [111;98;106] sf_v sf_m) with
     | SOk s => match load_data s with SOk l => fetch_data (fun _ => None) sf_t [111;98;106] (sess_map l) = Some (Ok (sf_v, 20)) | SErr _ => False end
     | SErr _ => False
     end.
Proof. split; [|split]; vm_compute; reflexivity. Qed.

(* 9. load_data on arbitrary bytes: it returns records that tile the buffer exactly (4 + key + value
      bytes each, summing to the buffer length: nothing outside the buffer is returned) or throws one of
      its two format exceptions; it never reads outside the buffer (SOob) and always terminates (SFuel) *)
Theorem session_load_total_and_safe : forall buf,
  match load_data buf with
  | SOk l => sess_size l = blen buf
  | SErr e => e = SPack \/ e = SData
  end.
Proof. exact sess_load_safe. Qed.
Print Assumptions session_load_total_and_safe.
Example session_load_nonvacuous :
  load_data [2;8;0;0;97;98;99] = SOk [([97;98], false, [99])]
  /\ load_data [2;8;0;0;97;98] = SErr SData /\ load_data [2;8;0;0;97;98;99;0;0] = SErr SPack
  /\ sess_map [([97], false, [1]); ([98], true, []); ([97], true, [2])] = [([97], true, [2]); ([98], true, [])].
Proof. repeat split; vm_compute; reflexivity. Qed.
