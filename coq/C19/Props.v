(* C19 -- serialized objects round-trip exactly; malformed archives are rejected safely.
   Only the property theorems; proofs are in Proofs.v (chunk reader), Loader.v (arbitrary input),
   Roundtrip.v (load after save), Mutation.v (over-running length fields), Session.v (the session map format),
   MutFull.v (every length field of a valid archive).
   jp is the external JSON parser (parse + compact re-serialisation), a parameter of the model. *)
From CppcmsV Require Import Base.Tac C19.Defs C19.Proofs C19.Loader C19.Roundtrip C19.Mutation C19.MutFull C19.SessDefs C19.Session.
Local Open Scope N_scope.

(* 1. the repaired bounds test of archive::next_chunk_size, in size_t (mod 2^64) arithmetic:
      an accepted chunk lies inside the buffer, header included *)
Theorem chunk_reader_in_bounds : forall buf ptr sz,
  blen buf < M64 -> next_chunk_size buf ptr = Ok sz -> ptr + 4 + sz <= blen buf.
Proof. exact ncs_sound. Qed.
Print Assumptions chunk_reader_in_bounds.
(* the comparison before the repair does not have this property (replayed witness) *)
Example old_bounds_test_unsound :
  next_chunk_size_old [7;0;0;0;97;98;99;100] 0 = Ok 7 /\ next_chunk_size [7;0;0;0;97;98;99;100] 0 = Err EFmtSize.
Proof. split; vm_compute; reflexivity. Qed.

(* 2. arbitrary bytes: every read of the loader is inside the buffer (EOob is what the model
      returns for a read outside), for every type, buffer and start position *)
Theorem reads_in_bounds : forall jp t buf ptr,
  blen buf < M64 -> ptr <= blen buf -> load jp t buf ptr <> Err EOob.
Proof. exact load_in_bounds. Qed.
Print Assumptions reads_in_bounds.

(* 3. arbitrary bytes: loading ends with a value or with one of the archive exceptions; a value
      was read from inside the buffer, consumed at least the minimal size of the type, and the
      strings/arrays it holds are not longer than the bytes consumed.  elems_ok excludes only
      containers of field-less user classes (for those the C++ loop is bounded by the count
      field alone). *)
Theorem load_total_and_safe : forall jp t buf ptr,
  blen buf < M64 -> ptr <= blen buf -> elems_ok t = true ->
  match load jp t buf ptr with
  | Ok (v, q) => ptr + min_size t <= q /\ q <= blen buf /\ payload v <= q - ptr
  | Err e => cpp_exception e = true
  end.
Proof. exact load_safe. Qed.
Print Assumptions load_total_and_safe.
Example load_nonvacuous :
  load (fun _ => None) (TSeq TStr) [8;0;0;0; 255;255;255;255;255;255;255;255; 1;0;0;0;97] 0 = Err EEof
  /\ load (fun _ => None) (TSeq TStr) [8;0;0;0; 1;0;0;0;0;0;0;0; 1;0;0;0;97] 0 = Ok (VList [VBytes [97]], 17).
Proof. split; vm_compute; reflexivity. Qed.

(* 4. round trip: for every type of the universe and every well-formed value (chunks fit the
      uint32 length field, sets/maps hold distinct elements/keys, a json value is one the
      external parser reproduces), loading the saved archive gives the value back and ends
      exactly at the end of the archive *)
Theorem roundtrip : forall jp t v,
  wt jp t v = true -> elems_ok t = true -> blen (enc t v) < M64 ->
  load jp t (enc t v) 0 = Ok (v, blen (enc t v)).
Proof. exact roundtrip_at_eof. Qed.
Print Assumptions roundtrip.
(* ... and also when the object is a member of a larger archive (how user classes, session and
   cache values embed it) *)
Theorem roundtrip_embedded : forall jp t v pre post,
  wt jp t v = true -> elems_ok t = true -> blen (pre ++ enc t v ++ post) < M64 ->
  load jp t (pre ++ enc t v ++ post) (blen pre) = Ok (v, blen pre + blen (enc t v)).
Proof. exact load_enc. Qed.
Print Assumptions roundtrip_embedded.
Definition ex_ty : ty := TMap TStr (TPair (TSeq (TPtr (TPodVec 4))) (TSet (TPod 2))).
Definition ex_val : value :=
  VList [VPair (VBytes [97;0;98]) (VPair (VList [VPtr None; VPtr (Some (VBytes [1;0;0;0;2;0;0;0])); VPtr (Some (VBytes []))])
                                         (VList [VBytes [1;0]; VBytes [0;1]]));
         VPair (VBytes []) (VPair (VList []) (VList []))].
Example roundtrip_nonvacuous :
  wt (fun _ => None) ex_ty ex_val = true /\ elems_ok ex_ty = true /\ blen (enc ex_ty ex_val) = 114
  /\ load (fun _ => None) ex_ty (enc ex_ty ex_val) 0 = Ok (ex_val, 114).
Proof. repeat split; vm_compute; reflexivity. Qed.

(* 5. every strict truncation of a valid archive is rejected *)
Theorem truncation_rejected : forall jp t v k,
  wt jp t v = true -> elems_ok t = true -> blen (enc t v) < M64 ->
  (k < length (enc t v))%nat ->
  forall r, load jp t (firstn k (enc t v)) 0 <> Ok r.
Proof. exact Roundtrip.truncation_rejected. Qed.
Print Assumptions truncation_rejected.
Example truncation_nonvacuous :
  load (fun _ => None) ex_ty (firstn 113 (enc ex_ty ex_val)) 0 = Err EFmtSize
  /\ load (fun _ => None) ex_ty (firstn 12 (enc ex_ty ex_val)) 0 = Err EEof.
Proof. split; vm_compute; reflexivity. Qed.

(* 6. a length field that over-runs what is left of the archive is rejected: by the chunk reader
      (a), by every loader that starts at it (b), and in particular when it is the mutated
      header of a chunk inside an otherwise valid archive (c) *)
Theorem overrun_rejected_reader : forall buf ptr h,
  blen buf < M64 -> slice buf ptr 4 = Some h -> blen buf - ptr - 4 < le_val h ->
  next_chunk_size buf ptr = Err EFmtSize.
Proof. exact ncs_overrun. Qed.
Print Assumptions overrun_rejected_reader.
Theorem overrun_rejected_loader : forall jp t buf ptr h,
  first_chunk t = true ->
  blen buf < M64 -> slice buf ptr 4 = Some h -> blen buf - ptr - 4 < le_val h ->
  load jp t buf ptr = Err EFmtSize.
Proof. exact load_overrun. Qed.
Print Assumptions overrun_rejected_loader.
Theorem mutation_rejected : forall pre h body post,
  blen h = 4 -> blen (pre ++ h ++ body ++ post) < M64 ->
  blen body + blen post < le_val h ->
  next_chunk_size (pre ++ h ++ body ++ post) (blen pre) = Err EFmtSize.
Proof. exact mutated_length_rejected. Qed.
Print Assumptions mutation_rejected.
Example mutation_nonvacuous :
  next_chunk_size ([9;9] ++ [4;0;0;0] ++ [1;2;3] ++ []) 2 = Err EFmtSize
  /\ next_chunk_size ([9;9] ++ [3;0;0;0] ++ [1;2;3] ++ []) 2 = Ok 3.
Proof. split; vm_compute; reflexivity. Qed.

(* 6d. every length field of a valid archive: hsplit t v a b says enc t v = a ++ <4-byte length field> ++ b for
       one of the length fields the writer emits (chunk headers of PODs, strings, POD vectors, json texts,
       container counts, pointer flags, at any nesting depth; theorem hsplit_is_length_field).  Replacing
       that field by 4 bytes whose value exceeds the bytes that follow makes the load of the WHOLE object
       fail with "Invalid archive_format", wherever the object is embedded. *)
Theorem hsplit_is_length_field : forall t v a b,
  hsplit t v a b -> exists h, blen h = 4 /\ enc t v = a ++ h ++ b.
Proof. exact hsplit_enc. Qed.
Print Assumptions hsplit_is_length_field.
Theorem mutation_rejected_everywhere : forall jp t v a b, hsplit t v a b ->
  forall pre post h', wt jp t v = true -> elems_ok t = true -> blen h' = 4 ->
    blen b + blen post < le_val h' -> blen (pre ++ a ++ h' ++ b ++ post) < M64 ->
    load jp t (pre ++ a ++ h' ++ b ++ post) (blen pre) = Err EFmtSize.
Proof. exact mutated_header_rejected. Qed.
Print Assumptions mutation_rejected_everywhere.
Theorem mutated_archive_rejected : forall jp t v a b h',
  hsplit t v a b -> wt jp t v = true -> elems_ok t = true ->
  blen h' = 4 -> blen b < le_val h' -> blen (a ++ h' ++ b) < M64 ->
  load jp t (a ++ h' ++ b) 0 = Err EFmtSize.
Proof. exact MutFull.mutated_archive_rejected. Qed.
Print Assumptions mutated_archive_rejected.
Definition mx_t : ty := TSeq (TPtr TStr).
Definition mx_v : value := VList ([VPtr None] ++ VPtr (Some (VBytes [97;98])) :: []).
Definition mx_a : list N := count_chunk (blen ([VPtr None] ++ VPtr (Some (VBytes [97;98])) :: [])) ++ flat_map (enc (TPtr TStr)) [VPtr None] ++ (chunk [0] ++ []).
Definition mx_b : list N := [97;98] ++ flat_map (enc (TPtr TStr)) [].
Example mutation_everywhere_nonvacuous :
  hsplit mx_t mx_v mx_a mx_b
  /\ enc mx_t mx_v = mx_a ++ [2;0;0;0] ++ mx_b
  /\ load (fun _ => None) mx_t (mx_a ++ [2;0;0;0] ++ mx_b) 0 = Ok (mx_v, 28)
  /\ load (fun _ => None) mx_t (mx_a ++ [3;0;0;0] ++ mx_b) 0 = Err EFmtSize
  /\ load (fun _ => None) mx_t (mx_a ++ [1;0;0;0] ++ mx_b) 0 = Ok (VList [VPtr None; VPtr (Some (VBytes [97]))], 27).
Proof.
  split; [|repeat split; vm_compute; reflexivity].
  exact (hs_seq_elem (TPtr TStr) [VPtr None] _ [] _ _ (hs_ptr_in TStr _ _ _ (hs_str [97;98]))).
Qed.

(* 7. a successful load depends only on the bytes the archive had: appending data does not
      change it (the basis of 5, and of reading members one after the other) *)
Theorem load_prefix_stable : forall jp t a b ptr r,
  blen (a ++ b) < M64 -> load jp t a ptr = Ok r -> load jp t (a ++ b) ptr = Ok r.
Proof. exact load_ext. Qed.
Print Assumptions load_prefix_stable.

(* 8. the session map (which holds every object stored with session_interface::store_data) survives
      save_data -> storage -> load_data: the records come back in order, and the map rebuilt from
      them (data[key] = entry) is the saved one when its keys are distinct, as in a std::map.
      save_data = SOk means: every key shorter than 1024 and every value shorter than 2 MiB bytes
      (otherwise the C++ throws, theorem session_save_errors) *)
Theorem session_data_roundtrip : forall m s, save_data m = SOk s -> load_data s = SOk m.
Proof. exact sess_roundtrip. Qed.
Print Assumptions session_data_roundtrip.
Theorem session_map_roundtrip : forall m s,
  save_data m = SOk s -> sess_keys_distinct m = true ->
  match load_data s with SOk l => sess_map l = m | SErr _ => False end.
Proof. exact sess_map_roundtrip. Qed.
Print Assumptions session_map_roundtrip.
Theorem session_save_errors : forall m e, save_data m = SErr e -> e = SKeyLong \/ e = SValLong.
Proof. exact save_data_errors. Qed.
Print Assumptions session_save_errors.
Definition ex_sess : list sentry := [([97], true, [1;0;2]); ([], false, []); ([98;0;99], false, [255])].
Example session_roundtrip_nonvacuous :
  save_data ex_sess = SOk [1;28;0;0;97;1;0;2; 0;0;0;0; 3;8;0;0;98;0;99;255]
  /\ sess_keys_distinct ex_sess = true /\ load_data [1;28;0;0;97;1;0;2; 0;0;0;0; 3;8;0;0;98;0;99;255] = SOk ex_sess.
Proof. repeat split; vm_compute; reflexivity. Qed.

(* 9. load_data on arbitrary bytes: it returns records that tile the buffer exactly (4 + key + value
      bytes each, summing to the buffer length: nothing outside the buffer is returned) or throws one of
      its two format exceptions; it never reads outside the buffer (SOob) and always terminates (SFuel) *)
Theorem session_load_total_and_safe : forall buf,
  match load_data buf with
  | SOk l => sess_size l = blen buf
  | SErr e => e = SPack \/ e = SData
  end.
Proof. exact sess_load_safe. Qed.
Print Assumptions session_load_total_and_safe.
Example session_load_nonvacuous :
  load_data [2;8;0;0;97;98;99] = SOk [([97;98], false, [99])]
  /\ load_data [2;8;0;0;97;98] = SErr SData /\ load_data [2;8;0;0;97;98;99;0;0] = SErr SPack
  /\ sess_map [([97], false, [1]); ([98], true, []); ([97], true, [2])] = [([97], true, [2]); ([98], true, [])].
Proof. repeat split; vm_compute; reflexivity. Qed.
