(* C19: the archive OBJECT (src/archive.cpp, cppcms/serialization_classes.h) as a state machine over the chunk codec:
   buffer_, the read position ptr_ and mode_.
     archive()            ptr_(0), mode_(save_to_archive)
     operator<<           archive_traits<T>::save : write_chunk appends to buffer_ (does not look at ptr_ or mode_)
     operator>>           archive_traits<T>::load : reads at ptr_, advances ptr_
     operator&            save when mode() == save_to_archive, else load  (the serialize(a){ a & f1 & f2 ... } idiom)
     mode(m)              mode_ = m; ptr_ = 0            reset()   ptr_ = 0
     str(s)               buffer_ = s; mode_ = load_from_archive; ptr_ = 0         str()  returns buffer_
     copy / assignment    carry buffer_, ptr_ and mode_
     eof()                ptr_ >= buffer_.size()
   Proved: whatever was saved with << / & (any number of objects of any types, empty ones included) is returned by the same
   sequence of >> / & after mode(load), reset() or str(str()), each load leaving ptr_ exactly behind its object, eof() at the end;
   a second pass after reset() gives the same again. *)
From CppcmsV Require Import Base.Tac C19.Defs C19.Proofs C19.Loader C19.Roundtrip C19.Cursor.
Local Open Scope N_scope.

Record arch : Type := mk_arch { a_buf : list N; a_ptr : N; a_load : bool }.

Definition a_new : arch := mk_arch [] 0 false.
Definition a_set_str (s : list N) (a : arch) : arch := mk_arch s 0 true.
Definition a_get_str (a : arch) : list N := a_buf a.
Definition a_mode (m : bool) (a : arch) : arch := mk_arch (a_buf a) 0 m.
Definition a_reset (a : arch) : arch := mk_arch (a_buf a) 0 (a_load a).
Definition a_eof (a : arch) : bool := blen (a_buf a) <=? a_ptr a.
Definition a_save (t : ty) (v : value) (a : arch) : arch := mk_arch (a_buf a ++ enc t v) (a_ptr a) (a_load a).

Section Object.
  Variable jp : list N -> option (list N).

  Definition a_loadv (t : ty) (a : arch) : res (value * arch) :=
    match load jp t (a_buf a) (a_ptr a) with
    | Err e => Err e
    | Ok (v, p) => Ok (v, mk_arch (a_buf a) p (a_load a))
    end.

  (* operator& : the object is an in/out parameter; in save mode it is returned unchanged *)
  Definition a_amp (t : ty) (v : value) (a : arch) : res (value * arch) :=
    if a_load a then a_loadv t a else Ok (v, a_save t v a).

  (* a << x1 << x2 ... *)
  Definition save_all (l : list (ty * value)) (a : arch) : arch :=
    fold_left (fun a tv => a_save (fst tv) (snd tv) a) l a.

  (* a >> y1 >> y2 ... *)
  Fixpoint loadv_all (ts : list ty) (a : arch) : res (list value * arch) :=
    match ts with
    | [] => Ok ([], a)
    | t :: r =>
        match a_loadv t a with
        | Err e => Err e
        | Ok (v, a1) =>
            match loadv_all r a1 with
            | Err e => Err e
            | Ok (vs, a2) => Ok (v :: vs, a2)
            end
        end
    end.

  (* a & f1 & f2 ... (l holds the current values of the fields) *)
  Fixpoint amp_all (l : list (ty * value)) (a : arch) : res (list value * arch) :=
    match l with
    | [] => Ok ([], a)
    | (t, v) :: r =>
        match a_amp t v a with
        | Err e => Err e
        | Ok (v', a1) =>
            match amp_all r a1 with
            | Err e => Err e
            | Ok (vs, a2) => Ok (v' :: vs, a2)
            end
        end
    end.

  Lemma save_all_buf l : forall a,
    save_all l a = mk_arch (a_buf a ++ enc_all l) (a_ptr a) (a_load a).
  Proof.
    induction l as [|[t v] l IH]; intros a; cbn [save_all fold_left].
    - unfold enc_all. cbn [flat_map]. rewrite app_nil_r. destruct a; reflexivity.
    - change (fold_left (fun a tv => a_save (fst tv) (snd tv) a) l (a_save t v a)) with (save_all l (a_save t v a)).
      rewrite IH. unfold a_save. cbn [a_buf a_ptr a_load fst snd].
      change (enc_all ((t, v) :: l)) with (enc t v ++ enc_all l). rewrite <- app_assoc. reflexivity.
  Qed.

  Lemma loadv_all_is_load_all ts : forall a,
    loadv_all ts a =
    match load_all jp ts (a_buf a) (a_ptr a) with
    | Err e => Err e
    | Ok (vs, p) => Ok (vs, mk_arch (a_buf a) p (a_load a))
    end.
  Proof.
    induction ts as [|t r IH]; intros a; cbn [loadv_all load_all].
    - destruct a; reflexivity.
    - unfold a_loadv. destruct (load jp t (a_buf a) (a_ptr a)) as [[v p]|e]; [|reflexivity].
      rewrite IH. cbn [a_buf a_ptr a_load].
      destruct (load_all jp r (a_buf a) p) as [[vs q]|e]; reflexivity.
  Qed.

  Lemma amp_all_save l : forall a, a_load a = false ->
    amp_all l a = Ok (map snd l, save_all l a).
  Proof.
    induction l as [|[t v] l IH]; intros a Hm; cbn [amp_all map snd].
    - reflexivity.
    - unfold a_amp. rewrite Hm. rewrite (IH (a_save t v a) Hm). reflexivity.
  Qed.

  Lemma amp_all_load l : forall a, a_load a = true ->
    amp_all l a = loadv_all (map fst l) a.
  Proof.
    induction l as [|[t v] l IH]; intros a Hm; cbn [amp_all loadv_all map fst].
    - reflexivity.
    - unfold a_amp. rewrite Hm. unfold a_loadv.
      destruct (load jp t (a_buf a) (a_ptr a)) as [[v' p]|e]; [|reflexivity].
      rewrite IH by (cbn [a_load]; exact Hm). reflexivity.
  Qed.

  (* ---------- save any number of objects, switch to load mode, load them back ---------- *)
  Theorem object_roundtrip l :
    all_ok jp l -> blen (enc_all l) < M64 ->
    exists a', loadv_all (map fst l) (a_mode true (save_all l a_new)) = Ok (map snd l, a')
               /\ a_eof a' = true /\ a_ptr a' = blen (enc_all l) /\ a_buf a' = enc_all l.
  Proof.
    intros Hok Hl. rewrite save_all_buf. unfold a_new, a_mode. cbn [a_buf a_ptr a_load app].
    rewrite loadv_all_is_load_all. cbn [a_buf a_ptr a_load].
    rewrite (archive_is_concatenation jp l Hok Hl).
    eexists. split; [reflexivity|]. unfold a_eof. cbn [a_buf a_ptr]. repeat split. apply N.leb_le. lia.
  Qed.

  (* the same through operator& in both directions (serialize(a){ a & f1 & f2 ... }) *)
  Theorem serialize_idiom_roundtrip l old :
    all_ok jp l -> blen (enc_all l) < M64 -> map fst old = map fst l ->
    exists a1 a2,
      amp_all l a_new = Ok (map snd l, a1)
      /\ amp_all old (a_mode true a1) = Ok (map snd l, a2)
      /\ a_eof a2 = true.
  Proof.
    intros Hok Hl Hty.
    exists (save_all l a_new).
    destruct (object_roundtrip l Hok Hl) as (a' & H1 & H2 & _).
    exists a'. split; [apply amp_all_save; reflexivity|].
    split; [|exact H2].
    rewrite amp_all_load by reflexivity. rewrite Hty. exact H1.
  Qed.

  (* reset() / str(str()) / a second pass: the read position goes back to 0 and the same objects come again *)
  Theorem reset_rereads l a' :
    all_ok jp l -> blen (enc_all l) < M64 ->
    loadv_all (map fst l) (a_mode true (save_all l a_new)) = Ok (map snd l, a') ->
    exists a'', loadv_all (map fst l) (a_reset a') = Ok (map snd l, a'') /\ a_eof a'' = true.
  Proof.
    intros Hok Hl H.
    destruct (object_roundtrip l Hok Hl) as (b & H1 & H2 & H3 & H4).
    rewrite H in H1. inversion H1; subst b.
    unfold a_reset. rewrite loadv_all_is_load_all. cbn [a_buf a_ptr a_load]. rewrite H4.
    rewrite (archive_is_concatenation jp l Hok Hl).
    eexists. split; [reflexivity|]. unfold a_eof. cbn [a_buf a_ptr]. apply N.leb_le. lia.
  Qed.

  Theorem str_roundtrip l a0 :
    all_ok jp l -> blen (enc_all l) < M64 ->
    exists a', loadv_all (map fst l) (a_set_str (a_get_str (save_all l a_new)) a0) = Ok (map snd l, a') /\ a_eof a' = true.
  Proof.
    intros Hok Hl. rewrite save_all_buf. unfold a_get_str, a_set_str, a_new. cbn [a_buf app].
    rewrite loadv_all_is_load_all. cbn [a_buf a_ptr a_load].
    rewrite (archive_is_concatenation jp l Hok Hl).
    eexists. split; [reflexivity|]. unfold a_eof. cbn [a_buf a_ptr]. apply N.leb_le. lia.
  Qed.
End Object.

Example object_nonvacuous :
  match loadv_all (fun _ => None) (map fst seq_items) (a_mode true (save_all seq_items a_new)) with
  | Ok (vs, a') => vs = map snd seq_items /\ a_eof a' = true /\ a_ptr a' = 95
  | Err _ => False
  end
  /\ a_eof (a_mode true (save_all seq_items a_new)) = false
  /\ a_loadv (fun _ => None) TStr (a_mode true a_new) = Err EEof.
Proof. repeat split; vm_compute; reflexivity. Qed.
