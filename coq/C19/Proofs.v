(* C19: lemmas about the chunk reader (bounds, size_t arithmetic) and basic list facts *)
From CppcmsV Require Import Base.Tac C19.Defs.
Local Open Scope N_scope.

(* ---------- lists / lengths ---------- *)
Lemma blen_nil {A} : blen (@nil A) = 0.
Proof. reflexivity. Qed.
Lemma blen_cons {A} (x : A) l : blen (x :: l) = 1 + blen l.
Proof. unfold blen. cbn [length]. lia. Qed.
Lemma blen_app {A} (a b : list A) : blen (a ++ b) = blen a + blen b.
Proof. unfold blen. rewrite app_length. lia. Qed.
Lemma blen_rev {A} (a : list A) : blen (rev a) = blen a.
Proof. unfold blen. rewrite rev_length. reflexivity. Qed.

Lemma le_bytes_length k n : length (le_bytes k n) = k.
Proof. revert n. induction k as [|k IH]; intros n; cbn [le_bytes length]; [reflexivity|]. rewrite IH. reflexivity. Qed.
Lemma blen_le_bytes k n : blen (le_bytes k n) = N.of_nat k.
Proof. unfold blen. rewrite le_bytes_length. reflexivity. Qed.

Lemma le_val_le_bytes k n : le_val (le_bytes k n) = n mod 256 ^ N.of_nat k.
Proof.
  revert n. induction k as [|k IH]; intros n.
  - cbn [le_bytes le_val]. change (N.of_nat 0) with 0. rewrite N.pow_0_r, N.mod_1_r. reflexivity.
  - cbn [le_bytes le_val]. rewrite IH.
    replace (N.of_nat (S k)) with (N.succ (N.of_nat k)) by lia.
    rewrite N.pow_succ_r by lia.
    assert (256 ^ N.of_nat k <> 0) as Hnz by (apply N.pow_nonzero; lia).
    rewrite (N.mod_mul_r n 256 (256 ^ N.of_nat k)) by lia. reflexivity.
Qed.

Lemma le_val_le_bytes4 n : n < M32 -> le_val (le_bytes 4 n) = n.
Proof. intros H. rewrite le_val_le_bytes. apply N.mod_small. exact H. Qed.
Lemma le_val_le_bytes8 n : n < M64 -> le_val (le_bytes 8 n) = n.
Proof. intros H. rewrite le_val_le_bytes. apply N.mod_small. exact H. Qed.

(* ---------- slice ---------- *)
Lemma slice_some buf off len b :
  slice buf off len = Some b -> off + len <= blen buf /\ blen b = len.
Proof.
  unfold slice. destruct (N.leb_spec (off + len) (blen buf)) as [H|H]; [|discriminate].
  intros E. inversion E; subst b. split; [exact H|].
  unfold blen in *. rewrite firstn_length, skipn_length. lia.
Qed.
Lemma slice_in_bounds buf off len : off + len <= blen buf -> exists b, slice buf off len = Some b.
Proof.
  intros H. unfold slice. destruct (N.leb_spec (off + len) (blen buf)) as [H1|H1]; [eexists; reflexivity|lia].
Qed.

Lemma slice_app pre b post : slice (pre ++ b ++ post) (blen pre) (blen b) = Some b.
Proof.
  unfold slice. rewrite !blen_app.
  destruct (N.leb_spec (blen pre + blen b) (blen pre + (blen b + blen post))) as [H|H]; [|lia].
  f_equal. unfold blen. rewrite !Nat2N.id.
  rewrite skipn_app, skipn_all, Nat.sub_diag. cbn [app skipn].
  rewrite firstn_app, firstn_all, Nat.sub_diag. cbn [firstn]. apply app_nil_r.
Qed.

(* a slice that exists in a buffer is the same slice of any extension of the buffer *)
Lemma slice_ext a b off len s : slice a off len = Some s -> slice (a ++ b) off len = Some s.
Proof.
  intros H. pose proof (slice_some _ _ _ _ H) as [Hb _].
  unfold slice in *. rewrite blen_app.
  destruct (N.leb_spec (off + len) (blen a)) as [H1|H1]; [|lia].
  destruct (N.leb_spec (off + len) (blen a + blen b)) as [H2|H2]; [|lia].
  inversion H; subst s. f_equal.
  unfold blen in H1.
  rewrite skipn_app, firstn_app.
  replace (N.to_nat len - length (skipn (N.to_nat off) a))%nat with 0%nat by (rewrite skipn_length; lia).
  cbn [firstn]. rewrite app_nil_r. reflexivity.
Qed.

(* ---------- size_t arithmetic ---------- *)
Lemma sub64_small a b : b <= a -> a < M64 -> sub64 a b = a - b.
Proof. intros H1 H2. unfold sub64, M64 in *. lia. Qed.
Lemma add64_small a b : a + b < M64 -> add64 a b = a + b.
Proof. intros H. unfold add64. apply N.mod_small. exact H. Qed.
Lemma mul64_small a b : a * b < M64 -> mul64 a b = a * b.
Proof. intros H. unfold mul64. apply N.mod_small. exact H. Qed.

(* ---------- next_chunk_size: the bounds check is sound in 64-bit arithmetic ---------- *)
Lemma ncs_sound buf ptr sz :
  blen buf < M64 -> next_chunk_size buf ptr = Ok sz -> ptr + 4 + sz <= blen buf.
Proof.
  intros Hl. unfold next_chunk_size.
  destruct (N.leb_spec (blen buf) ptr) as [H1|H1]; [discriminate|].
  rewrite (sub64_small (blen buf) ptr) by lia.
  destruct (N.ltb_spec (blen buf - ptr) 4) as [H2|H2]; [discriminate|].
  destruct (slice buf ptr 4) as [h|]; [|discriminate].
  rewrite (sub64_small (blen buf - ptr) 4) by lia.
  destruct (N.ltb_spec (blen buf - ptr - 4) (le_val h)) as [H3|H3]; [discriminate|].
  intros E. inversion E; subst sz. lia.
Qed.

Lemma ncs_no_oob buf ptr : blen buf < M64 -> next_chunk_size buf ptr <> Err EOob.
Proof.
  intros Hl. unfold next_chunk_size.
  destruct (N.leb_spec (blen buf) ptr) as [H1|H1]; [discriminate|].
  rewrite (sub64_small (blen buf) ptr) by lia.
  destruct (N.ltb_spec (blen buf - ptr) 4) as [H2|H2]; [discriminate|].
  destruct (slice_in_bounds buf ptr 4 ltac:(lia)) as [h Hh]. rewrite Hh.
  destruct (_ <? _); discriminate.
Qed.

Lemma ncs_not_fuel buf ptr : next_chunk_size buf ptr <> Err EFuel.
Proof.
  unfold next_chunk_size.
  destruct (_ <=? _); [discriminate|]. destruct (_ <? _); [discriminate|].
  destruct (slice buf ptr 4); [|discriminate]. destruct (_ <? _); discriminate.
Qed.

(* a header whose size over-runs what is left is rejected, whatever follows *)
Lemma ncs_overrun buf ptr h :
  blen buf < M64 -> slice buf ptr 4 = Some h -> blen buf - ptr - 4 < le_val h ->
  next_chunk_size buf ptr = Err EFmtSize.
Proof.
  intros Hl Hs Hov. pose proof (slice_some _ _ _ _ Hs) as [Hb _].
  unfold next_chunk_size.
  destruct (N.leb_spec (blen buf) ptr) as [H1|H1]; [lia|].
  rewrite (sub64_small (blen buf) ptr) by lia.
  destruct (N.ltb_spec (blen buf - ptr) 4) as [H2|H2]; [lia|].
  rewrite Hs. rewrite (sub64_small (blen buf - ptr) 4) by lia.
  destruct (N.ltb_spec (blen buf - ptr - 4) (le_val h)) as [H3|H3]; [reflexivity|lia].
Qed.

(* the chunk at position |pre| of pre ++ chunk b ++ post *)
Lemma slice_hdr pre b post :
  slice (pre ++ chunk b ++ post) (blen pre) 4 = Some (le_bytes 4 (blen b mod M32)).
Proof.
  unfold chunk. rewrite <- app_assoc.
  pose proof (slice_app pre (le_bytes 4 (blen b mod M32)) (b ++ post)) as H.
  rewrite blen_le_bytes in H. exact H.
Qed.

Lemma blen_chunk b : blen (chunk b) = 4 + blen b.
Proof. unfold chunk. rewrite blen_app, blen_le_bytes. reflexivity. Qed.

Lemma ncs_chunk pre b post :
  blen (pre ++ chunk b ++ post) < M64 -> blen b < M32 ->
  next_chunk_size (pre ++ chunk b ++ post) (blen pre) = Ok (blen b).
Proof.
  intros Hl Hb. unfold next_chunk_size.
  rewrite slice_hdr.
  rewrite !blen_app, blen_chunk in *.
  destruct (N.leb_spec (blen pre + (4 + blen b + blen post)) (blen pre)) as [H1|H1]; [lia|].
  rewrite sub64_small by lia.
  destruct (N.ltb_spec (blen pre + (4 + blen b + blen post) - blen pre) 4) as [H2|H2]; [lia|].
  rewrite sub64_small by lia.
  rewrite N.mod_small by exact Hb. rewrite le_val_le_bytes4 by exact Hb.
  destruct (N.ltb_spec (blen pre + (4 + blen b + blen post) - blen pre - 4) (blen b)) as [H3|H3]; [lia|reflexivity].
Qed.

Lemma slice_body pre b post :
  slice (pre ++ chunk b ++ post) (blen pre + 4) (blen b) = Some b.
Proof.
  unfold chunk. rewrite <- app_assoc.
  replace (pre ++ le_bytes 4 (blen b mod M32) ++ b ++ post)
    with ((pre ++ le_bytes 4 (blen b mod M32)) ++ b ++ post) by (rewrite <- app_assoc; reflexivity).
  replace (blen pre + 4) with (blen (pre ++ le_bytes 4 (blen b mod M32))) by (rewrite blen_app, blen_le_bytes; lia).
  apply slice_app.
Qed.

(* ---------- read_chunk / read_string ---------- *)
Lemma read_chunk_ok buf ptr n b p :
  blen buf < M64 -> read_chunk buf ptr n = Ok (b, p) ->
  blen b = n /\ p = ptr + 4 + n /\ p <= blen buf.
Proof.
  intros Hl. unfold read_chunk.
  destruct (next_chunk_size buf ptr) as [next|e] eqn:En; [|discriminate].
  pose proof (ncs_sound _ _ _ Hl En) as Hb.
  destruct (N.eqb_spec next n) as [->|Hne]; cbn [negb]; [|discriminate].
  rewrite (add64_small ptr 4) by lia.
  destruct (slice buf (ptr + 4) n) as [s|] eqn:Es; [|discriminate].
  intros E. inversion E; subst. pose proof (slice_some _ _ _ _ Es) as [_ Hlen].
  rewrite add64_small by lia. repeat split; [exact Hlen|lia].
Qed.

Lemma read_chunk_no_oob buf ptr n : blen buf < M64 -> read_chunk buf ptr n <> Err EOob.
Proof.
  intros Hl. unfold read_chunk.
  destruct (next_chunk_size buf ptr) as [next|e] eqn:En.
  - pose proof (ncs_sound _ _ _ Hl En) as Hb.
    destruct (N.eqb_spec next n) as [->|Hne]; cbn [negb]; [|discriminate].
    rewrite (add64_small ptr 4) by lia.
    destruct (slice_in_bounds buf (ptr + 4) n ltac:(lia)) as [s Hs]. rewrite Hs. discriminate.
  - intros E. inversion E; subst. exact (ncs_no_oob _ _ Hl En).
Qed.

Lemma read_chunk_not_fuel buf ptr n : read_chunk buf ptr n <> Err EFuel.
Proof.
  unfold read_chunk. destruct (next_chunk_size buf ptr) as [next|e] eqn:En.
  - destruct (negb _); [discriminate|]. destruct (slice _ _ _); discriminate.
  - intros E. inversion E; subst. exact (ncs_not_fuel _ _ En).
Qed.

Lemma read_string_ok buf ptr b p :
  blen buf < M64 -> read_string buf ptr = Ok (b, p) ->
  p = ptr + 4 + blen b /\ p <= blen buf.
Proof.
  intros Hl. unfold read_string.
  destruct (next_chunk_size buf ptr) as [sz|e] eqn:En; [|discriminate].
  pose proof (ncs_sound _ _ _ Hl En) as Hb.
  rewrite (add64_small ptr 4) by lia.
  destruct (slice buf (ptr + 4) sz) as [s|] eqn:Es; [|discriminate].
  intros E. inversion E; subst. pose proof (slice_some _ _ _ _ Es) as [_ Hlen].
  rewrite (add64_small 4 sz) by lia. rewrite add64_small by lia. lia.
Qed.

Lemma read_string_no_oob buf ptr : blen buf < M64 -> read_string buf ptr <> Err EOob.
Proof.
  intros Hl. unfold read_string.
  destruct (next_chunk_size buf ptr) as [sz|e] eqn:En.
  - pose proof (ncs_sound _ _ _ Hl En) as Hb.
    rewrite (add64_small ptr 4) by lia.
    destruct (slice_in_bounds buf (ptr + 4) sz ltac:(lia)) as [s Hs]. rewrite Hs. discriminate.
  - intros E. inversion E; subst. exact (ncs_no_oob _ _ Hl En).
Qed.

Lemma read_string_not_fuel buf ptr : read_string buf ptr <> Err EFuel.
Proof.
  unfold read_string. destruct (next_chunk_size buf ptr) as [sz|e] eqn:En.
  - destruct (slice _ _ _); discriminate.
  - intros E. inversion E; subst. exact (ncs_not_fuel _ _ En).
Qed.

(* reading back what write_chunk wrote *)
Lemma read_chunk_chunk pre b post :
  blen (pre ++ chunk b ++ post) < M64 -> blen b < M32 ->
  read_chunk (pre ++ chunk b ++ post) (blen pre) (blen b) = Ok (b, blen pre + 4 + blen b).
Proof.
  intros Hl Hb. unfold read_chunk. rewrite ncs_chunk by assumption.
  rewrite N.eqb_refl. cbn [negb].
  rewrite !blen_app, blen_chunk in Hl.
  rewrite (add64_small (blen pre) 4) by lia.
  rewrite slice_body. rewrite add64_small by lia. reflexivity.
Qed.

Lemma read_string_chunk pre b post :
  blen (pre ++ chunk b ++ post) < M64 -> blen b < M32 ->
  read_string (pre ++ chunk b ++ post) (blen pre) = Ok (b, blen pre + 4 + blen b).
Proof.
  intros Hl Hb. unfold read_string. rewrite ncs_chunk by assumption.
  rewrite !blen_app, blen_chunk in Hl.
  rewrite (add64_small (blen pre) 4) by lia.
  rewrite slice_body. rewrite (add64_small 4) by lia. rewrite add64_small by lia.
  f_equal. f_equal. lia.
Qed.

(* ---------- extension of the buffer keeps successful reads ---------- *)
Lemma ncs_ext a b ptr sz :
  blen (a ++ b) < M64 -> next_chunk_size a ptr = Ok sz -> next_chunk_size (a ++ b) ptr = Ok sz.
Proof.
  intros Hl. assert (blen a < M64) as Hla by (rewrite blen_app in Hl; lia).
  intros H. pose proof (ncs_sound _ _ _ Hla H) as Hb. revert H.
  unfold next_chunk_size. rewrite blen_app in *.
  destruct (N.leb_spec (blen a) ptr) as [H1|H1]; [discriminate|].
  destruct (N.leb_spec (blen a + blen b) ptr) as [H1'|H1']; [lia|].
  rewrite (sub64_small (blen a) ptr) by lia. rewrite (sub64_small (blen a + blen b) ptr) by lia.
  destruct (N.ltb_spec (blen a - ptr) 4) as [H2|H2]; [discriminate|].
  destruct (N.ltb_spec (blen a + blen b - ptr) 4) as [H2'|H2']; [lia|].
  destruct (slice a ptr 4) as [h|] eqn:Es; [|discriminate].
  rewrite (slice_ext _ b _ _ _ Es).
  rewrite (sub64_small (blen a - ptr) 4) by lia. rewrite (sub64_small (blen a + blen b - ptr) 4) by lia.
  destruct (N.ltb_spec (blen a - ptr - 4) (le_val h)) as [H3|H3]; [discriminate|].
  intros E. inversion E; subst sz.
  destruct (N.ltb_spec (blen a + blen b - ptr - 4) (le_val h)) as [H3'|H3']; [lia|reflexivity].
Qed.

Lemma read_chunk_ext a b ptr n r :
  blen (a ++ b) < M64 -> read_chunk a ptr n = Ok r -> read_chunk (a ++ b) ptr n = Ok r.
Proof.
  intros Hl. unfold read_chunk.
  destruct (next_chunk_size a ptr) as [next|e] eqn:En; [|discriminate].
  rewrite (ncs_ext _ _ _ _ Hl En).
  destruct (negb (next =? n)); [discriminate|].
  destruct (slice a (add64 ptr 4) n) as [s|] eqn:Es; [|discriminate].
  rewrite (slice_ext _ b _ _ _ Es). trivial.
Qed.

Lemma read_string_ext a b ptr r :
  blen (a ++ b) < M64 -> read_string a ptr = Ok r -> read_string (a ++ b) ptr = Ok r.
Proof.
  intros Hl. unfold read_string.
  destruct (next_chunk_size a ptr) as [sz|e] eqn:En; [|discriminate].
  rewrite (ncs_ext _ _ _ _ Hl En).
  destruct (slice a (add64 ptr 4) sz) as [s|] eqn:Es; [|discriminate].
  rewrite (slice_ext _ b _ _ _ Es). trivial.
Qed.
