(* C19: invariants of the loader for arbitrary input (in bounds, fuel, progress, payload) and
   stability of successful loads under extension of the buffer *)
From CppcmsV Require Import Base.Tac C19.Defs C19.Proofs.
Local Open Scope N_scope.

(* ---------- payload of lists ---------- *)
Lemma payload_cons x r : payload (VList (x :: r)) = payload x + payload (VList r).
Proof. reflexivity. Qed.
Lemma payload_nil : payload (VList []) = 0.
Proof. reflexivity. Qed.
Lemma payload_app a b : payload (VList (a ++ b)) = payload (VList a) + payload (VList b).
Proof.
  induction a as [|x a IH]; [reflexivity|].
  change ((x :: a) ++ b) with (x :: (a ++ b)). rewrite !payload_cons, IH. lia.
Qed.
Lemma payload_rev a : payload (VList (rev a)) = payload (VList a).
Proof.
  induction a as [|x a IH]; [reflexivity|].
  cbn [rev]. rewrite payload_app, IH, !payload_cons, payload_nil. lia.
Qed.

Definition ins_ok (ins : value -> list value -> list value) : Prop :=
  forall v acc, payload (VList (ins v acc)) <= payload v + payload (VList acc).

Lemma ins_seq_ok : ins_ok ins_seq.
Proof. intros v acc. unfold ins_seq. rewrite payload_cons. lia. Qed.
Lemma ins_set_ok : ins_ok ins_set.
Proof. intros v acc. unfold ins_set. destruct (mem v acc); [|rewrite payload_cons]; lia. Qed.
Lemma ins_map_ok : ins_ok ins_map.
Proof. intros v acc. unfold ins_map. destruct (mem_key _ acc); [|rewrite payload_cons]; lia. Qed.

(* ---------- what every step of the loader guarantees, for arbitrary buffers ---------- *)
Definition good_step (buf : list N) (m : N) (nofuel : Prop) (step : N -> res (value * N)) : Prop :=
  forall p, p <= blen buf ->
    step p <> Err EOob /\
    (nofuel -> step p <> Err EFuel) /\
    (forall v q, step p = Ok (v, q) -> p + m <= q /\ q <= blen buf /\ payload v <= q - p).

Lemma good_step_weaken buf m m' (nf nf' : Prop) step :
  good_step buf m nf step -> m' <= m -> (nf' -> nf) -> good_step buf m' nf' step.
Proof.
  intros G Hm Hn p Hp. destruct (G p Hp) as (G1 & G2 & G3). split; [exact G1|]. split.
  - intros H. apply G2. apply Hn. exact H.
  - intros v q E. destruct (G3 v q E) as (A & B & C). repeat split; [lia|exact B|exact C].
Qed.

Lemma loop_good buf m nf step ins :
  good_step buf m nf step -> ins_ok ins ->
  forall fuel cnt ptr acc, ptr <= blen buf ->
    loop step ins fuel cnt ptr acc <> Err EOob /\
    (nf -> 0 < m -> blen buf < N.of_nat fuel + ptr -> loop step ins fuel cnt ptr acc <> Err EFuel) /\
    (forall l q, loop step ins fuel cnt ptr acc = Ok (l, q) ->
       ptr <= q /\ q <= blen buf /\ payload (VList l) + ptr <= payload (VList acc) + q).
Proof.
  intros G Hins. induction fuel as [|f IH]; intros cnt ptr acc Hp.
  - cbn [loop]. destruct (cnt =? 0).
    + split; [discriminate|]. split; [discriminate|].
      intros l q E. inversion E; subst. rewrite payload_rev. lia.
    + split; [discriminate|]. split; [intros _ _ H; cbn in H; lia|]. discriminate.
  - cbn [loop]. destruct (cnt =? 0).
    + split; [discriminate|]. split; [discriminate|].
      intros l q E. inversion E; subst. rewrite payload_rev. lia.
    + destruct (G ptr Hp) as (G1 & G2 & G3).
      destruct (step ptr) as [[v p]|e] eqn:Es.
      * destruct (G3 v p eq_refl) as (A & B & C).
        destruct (IH (cnt - 1) p (ins v acc) B) as (I1 & I2 & I3).
        split; [exact I1|]. split.
        -- intros Hnf Hm Hf. apply I2; [exact Hnf|exact Hm|lia].
        -- intros l q E. destruct (I3 l q E) as (J1 & J2 & J3).
           pose proof (Hins v acc) as Hi. repeat split; [lia|exact J2|lia].
      * split; [intros E; inversion E; subst; apply G1; reflexivity|].
        split; [intros Hnf _ _ E; inversion E; subst; apply (G2 Hnf); reflexivity|discriminate].
Qed.

Lemma container_good buf m nf step ins :
  blen buf < M64 -> good_step buf m nf step -> ins_ok ins ->
  good_step buf 4 (nf /\ 0 < m) (load_container step ins buf).
Proof.
  intros Hl G Hins p Hp. unfold load_container.
  destruct (read_chunk buf p 8) as [[b p1]|e] eqn:Er.
  - destruct (read_chunk_ok _ _ _ _ _ Hl Er) as (_ & Hp1 & Hb1).
    destruct (loop_good buf m nf step ins G Hins (S (length buf)) (le_val b) p1 [] Hb1) as (L1 & L2 & L3).
    destruct (loop step ins (S (length buf)) (le_val b) p1 []) as [[l q]|e] eqn:El.
    + split; [discriminate|]. split; [discriminate|].
      intros v q' E. inversion E; subst v q'.
      destruct (L3 l q eq_refl) as (J1 & J2 & J3). rewrite payload_nil in J3.
      repeat split; [lia|exact J2|lia].
    + split; [intros E; inversion E; subst; apply L1; reflexivity|].
      split; [|discriminate].
      intros [Hnf Hm] E. inversion E; subst. apply (L2 Hnf Hm); [|reflexivity].
      unfold blen. lia.
  - split; [intros E; inversion E; subst; exact (read_chunk_no_oob _ _ _ Hl Er)|].
    split; [|discriminate].
    intros _ E. inversion E; subst. exact (read_chunk_not_fuel _ _ _ Er).
Qed.

Definition pair_step (s1 s2 : N -> res (value * N)) (p0 : N) : res (value * N) :=
  match s1 p0 with
  | Err e => Err e
  | Ok (a, p1) =>
      match s2 p1 with
      | Err e => Err e
      | Ok (b, p2) => Ok (VPair a b, p2)
      end
  end.

Lemma pair_good buf m1 m2 (nf1 nf2 : Prop) s1 s2 :
  good_step buf m1 nf1 s1 -> good_step buf m2 nf2 s2 ->
  good_step buf (m1 + m2) (nf1 /\ nf2) (pair_step s1 s2).
Proof.
  intros G1 G2 p Hp. unfold pair_step.
  destruct (G1 p Hp) as (A1 & A2 & A3).
  destruct (s1 p) as [[a p1]|e] eqn:E1.
  - destruct (A3 a p1 eq_refl) as (B1 & B2 & B3).
    destruct (G2 p1 B2) as (C1 & C2 & C3).
    destruct (s2 p1) as [[b p2]|e] eqn:E2.
    + split; [discriminate|]. split; [discriminate|].
      intros v q E. inversion E; subst v q.
      destruct (C3 b p2 eq_refl) as (D1 & D2 & D3).
      cbn [payload]. repeat split; [lia|exact D2|lia].
    + split; [intros E; inversion E; subst; apply C1; reflexivity|].
      split; [|discriminate]. intros [_ H] E. inversion E; subst. apply (C2 H). reflexivity.
  - split; [intros E; inversion E; subst; apply A1; reflexivity|].
    split; [|discriminate]. intros [H _] E. inversion E; subst. apply (A2 H). reflexivity.
Qed.

Section WithJson.
  Variable jp : list N -> option (list N).

  Lemma load_map_unfold k x buf ptr :
    load jp (TMap k x) buf ptr = load_container (pair_step (load jp k buf) (load jp x buf)) ins_map buf ptr.
  Proof. reflexivity. Qed.
  Lemma load_pair_unfold a b buf ptr :
    load jp (TPair a b) buf ptr = pair_step (load jp a buf) (load jp b buf) ptr.
  Proof. reflexivity. Qed.

  Theorem load_good t : forall buf, blen buf < M64 ->
    good_step buf (min_size t) (elems_ok t = true) (load jp t buf).
  Proof.
    induction t as [|n| |n|e IH|e IH|k IHk x IHx|a IHa b IHb|e IH| ]; intros buf Hl.
    - (* TUnit *)
      intros p Hp. cbn [load min_size]. split; [discriminate|]. split; [discriminate|].
      intros v q E. inversion E; subst. cbn [payload]. lia.
    - (* TPod *)
      intros p Hp. cbn [load min_size].
      destruct (read_chunk buf p n) as [[b p1]|e] eqn:Er.
      + destruct (read_chunk_ok _ _ _ _ _ Hl Er) as (Hb & Hp1 & Hb1).
        split; [discriminate|]. split; [discriminate|].
        intros v q E. inversion E; subst v q. cbn [payload]. lia.
      + split; [intros E; inversion E; subst; exact (read_chunk_no_oob _ _ _ Hl Er)|].
        split; [|discriminate]. intros _ E. inversion E; subst. exact (read_chunk_not_fuel _ _ _ Er).
    - (* TStr *)
      intros p Hp. cbn [load min_size].
      destruct (read_string buf p) as [[b p1]|e] eqn:Er.
      + destruct (read_string_ok _ _ _ _ Hl Er) as (Hp1 & Hb1).
        split; [discriminate|]. split; [discriminate|].
        intros v q E. inversion E; subst v q. cbn [payload]. lia.
      + split; [intros E; inversion E; subst; exact (read_string_no_oob _ _ Hl Er)|].
        split; [|discriminate]. intros _ E. inversion E; subst. exact (read_string_not_fuel _ _ Er).
    - (* TPodVec *)
      intros p Hp. cbn [load min_size].
      destruct (next_chunk_size buf p) as [sz|e] eqn:En.
      + destruct (read_chunk buf p (mul64 (sz / n) n)) as [[b p1]|e] eqn:Er.
        * destruct (read_chunk_ok _ _ _ _ _ Hl Er) as (Hb & Hp1 & Hb1).
          split; [discriminate|]. split; [discriminate|].
          intros v q E. inversion E; subst v q. cbn [payload]. lia.
        * split; [intros E; inversion E; subst; exact (read_chunk_no_oob _ _ _ Hl Er)|].
          split; [|discriminate]. intros _ E. inversion E; subst. exact (read_chunk_not_fuel _ _ _ Er).
      + split; [intros E; inversion E; subst; exact (ncs_no_oob _ _ Hl En)|].
        split; [|discriminate]. intros _ E. inversion E; subst. exact (ncs_not_fuel _ _ En).
    - (* TSeq *)
      cbn [load min_size elems_ok].
      apply (good_step_weaken buf 4 4 (elems_ok e = true /\ 0 < min_size e)); [|lia|].
      + exact (container_good buf _ _ _ _ Hl (IH buf Hl) ins_seq_ok).
      + intros H. apply andb_true_iff in H. destruct H as [H1 H2]. apply N.ltb_lt in H1. split; assumption.
    - (* TSet *)
      cbn [load min_size elems_ok].
      apply (good_step_weaken buf 4 4 (elems_ok e = true /\ 0 < min_size e)); [|lia|].
      + exact (container_good buf _ _ _ _ Hl (IH buf Hl) ins_set_ok).
      + intros H. apply andb_true_iff in H. destruct H as [H1 H2]. apply N.ltb_lt in H1. split; assumption.
    - (* TMap *)
      intros p. rewrite load_map_unfold. revert p. cbn [min_size elems_ok].
      apply (good_step_weaken buf 4 4 ((elems_ok k = true /\ elems_ok x = true) /\ 0 < min_size k + min_size x)); [|lia|].
      + exact (container_good buf _ _ _ _ Hl (pair_good _ _ _ _ _ _ _ (IHk buf Hl) (IHx buf Hl)) ins_map_ok).
      + intros H. apply andb_true_iff in H. destruct H as [H H3]. apply andb_true_iff in H. destruct H as [H1 H2].
        apply N.ltb_lt in H1. repeat split; assumption.
    - (* TPair *)
      intros p. rewrite load_pair_unfold. revert p. cbn [min_size elems_ok].
      apply (good_step_weaken buf (min_size a + min_size b) _ (elems_ok a = true /\ elems_ok b = true)); [|lia|].
      + exact (pair_good _ _ _ _ _ _ _ (IHa buf Hl) (IHb buf Hl)).
      + intros H. apply andb_true_iff in H. exact H.
    - (* TPtr *)
      intros p Hp. cbn [load min_size elems_ok].
      destruct (read_chunk buf p 1) as [[b p1]|e'] eqn:Er.
      + destruct (read_chunk_ok _ _ _ _ _ Hl Er) as (Hb & Hp1 & Hb1).
        destruct (negb (le_val b =? 0)).
        * split; [discriminate|]. split; [discriminate|].
          intros v q E. inversion E; subst v q. cbn [payload]. lia.
        * destruct (IH buf Hl p1 Hb1) as (A1 & A2 & A3).
          destruct (load jp e buf p1) as [[x p2]|e'] eqn:El.
          -- split; [discriminate|]. split; [discriminate|].
             intros v q E. inversion E; subst v q. destruct (A3 x p2 eq_refl) as (B1 & B2 & B3).
             cbn [payload]. repeat split; [lia|exact B2|lia].
          -- split; [intros E; inversion E; subst; apply A1; reflexivity|].
             split; [|discriminate]. intros H E. inversion E; subst. apply (A2 H). reflexivity.
      + split; [intros E; inversion E; subst; exact (read_chunk_no_oob _ _ _ Hl Er)|].
        split; [|discriminate]. intros _ E. inversion E; subst. exact (read_chunk_not_fuel _ _ _ Er).
    - (* TJson *)
      intros p Hp. cbn [load min_size].
      destruct (read_string buf p) as [[b p1]|e] eqn:Er.
      + destruct (read_string_ok _ _ _ _ Hl Er) as (Hp1 & Hb1).
        destruct (jp b) as [c|].
        * split; [discriminate|]. split; [discriminate|].
          intros v q E. inversion E; subst v q. cbn [payload]. lia.
        * split; [discriminate|]. split; discriminate.
      + split; [intros E; inversion E; subst; exact (read_string_no_oob _ _ Hl Er)|].
        split; [|discriminate]. intros _ E. inversion E; subst. exact (read_string_not_fuel _ _ Er).
  Qed.

  (* ---------- extension of the buffer ---------- *)
  Lemma loop_ext s1 s2 ins :
    (forall p r, s1 p = Ok r -> s2 p = Ok r) ->
    forall f1 f2 cnt p acc r, (f1 <= f2)%nat ->
      loop s1 ins f1 cnt p acc = Ok r -> loop s2 ins f2 cnt p acc = Ok r.
  Proof.
    intros Hs. induction f1 as [|f1 IH]; intros f2 cnt p acc r Hf.
    - cbn [loop]. destruct (cnt =? 0) eqn:Ec; [|discriminate].
      intros E. destruct f2; cbn [loop]; rewrite Ec; exact E.
    - destruct f2 as [|f2]; [lia|]. cbn [loop]. destruct (cnt =? 0); [trivial|].
      destruct (s1 p) as [[v q]|e] eqn:E1; [|discriminate].
      rewrite (Hs _ _ E1). apply IH. lia.
  Qed.

  Lemma container_ext s1 s2 ins a b ptr r :
    blen (a ++ b) < M64 ->
    (forall p r, s1 p = Ok r -> s2 p = Ok r) ->
    load_container s1 ins a ptr = Ok r -> load_container s2 ins (a ++ b) ptr = Ok r.
  Proof.
    intros Hl Hs. unfold load_container.
    destruct (read_chunk a ptr 8) as [[c p]|e] eqn:Er; [|discriminate].
    rewrite (read_chunk_ext _ _ _ _ _ Hl Er).
    destruct (loop s1 ins (S (length a)) (le_val c) p []) as [[l q]|e] eqn:El; [|discriminate].
    rewrite (loop_ext s1 s2 ins Hs (S (length a)) (S (length (a ++ b))) _ _ _ _ ltac:(rewrite app_length; lia) El).
    trivial.
  Qed.

  Lemma pair_ext s1 s2 s1' s2' :
    (forall p r, s1 p = Ok r -> s1' p = Ok r) -> (forall p r, s2 p = Ok r -> s2' p = Ok r) ->
    forall p r, pair_step s1 s2 p = Ok r -> pair_step s1' s2' p = Ok r.
  Proof.
    intros H1 H2 p r. unfold pair_step.
    destruct (s1 p) as [[x p1]|e] eqn:E1; [|discriminate]. rewrite (H1 _ _ E1).
    destruct (s2 p1) as [[y p2]|e] eqn:E2; [|discriminate]. rewrite (H2 _ _ E2). trivial.
  Qed.

  Theorem load_ext t : forall a b ptr r,
    blen (a ++ b) < M64 -> load jp t a ptr = Ok r -> load jp t (a ++ b) ptr = Ok r.
  Proof.
    induction t as [|n| |n|e IH|e IH|k IHk x IHx|a0 IHa b0 IHb|e IH| ]; intros a b ptr r Hl.
    - cbn [load]. trivial.
    - cbn [load]. destruct (read_chunk a ptr n) as [[c p]|e] eqn:Er; [|discriminate].
      rewrite (read_chunk_ext _ _ _ _ _ Hl Er). trivial.
    - cbn [load]. destruct (read_string a ptr) as [[c p]|e] eqn:Er; [|discriminate].
      rewrite (read_string_ext _ _ _ _ Hl Er). trivial.
    - cbn [load]. destruct (next_chunk_size a ptr) as [sz|e] eqn:En; [|discriminate].
      rewrite (ncs_ext _ _ _ _ Hl En).
      destruct (read_chunk a ptr (mul64 (sz / n) n)) as [[c p]|e] eqn:Er; [|discriminate].
      rewrite (read_chunk_ext _ _ _ _ _ Hl Er). trivial.
    - cbn [load]. apply container_ext; [exact Hl|]. intros p r0. apply IH. exact Hl.
    - cbn [load]. apply container_ext; [exact Hl|]. intros p r0. apply IH. exact Hl.
    - rewrite !load_map_unfold. apply container_ext; [exact Hl|].
      apply pair_ext; intros p r0; [apply IHk|apply IHx]; exact Hl.
    - rewrite !load_pair_unfold. apply pair_ext; intros p r0; [apply IHa|apply IHb]; exact Hl.
    - cbn [load]. destruct (read_chunk a ptr 1) as [[c p]|e'] eqn:Er; [|discriminate].
      rewrite (read_chunk_ext _ _ _ _ _ Hl Er).
      destruct (negb (le_val c =? 0)); [trivial|].
      destruct (load jp e a p) as [[x q]|e'] eqn:El; [|discriminate].
      rewrite (IH _ _ _ _ Hl El). trivial.
    - cbn [load]. destruct (read_string a ptr) as [[c p]|e] eqn:Er; [|discriminate].
      rewrite (read_string_ext _ _ _ _ Hl Er). trivial.
  Qed.
End WithJson.
