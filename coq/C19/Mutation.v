(* C19: a length field that over-runs the archive is rejected by every reader that meets it *)
From CppcmsV Require Import Base.Tac C19.Defs C19.Proofs C19.Loader.
Local Open Scope N_scope.

(* the type begins with a chunk (everything except a field-less class, or a class/pair whose
   first field is one) *)
Fixpoint first_chunk (t : ty) : bool :=
  match t with
  | TUnit => false
  | TPair a _ => first_chunk a
  | _ => true
  end.

Lemma read_chunk_overrun buf ptr n h :
  blen buf < M64 -> slice buf ptr 4 = Some h -> blen buf - ptr - 4 < le_val h ->
  read_chunk buf ptr n = Err EFmtSize.
Proof. intros Hl Hs Ho. unfold read_chunk. rewrite (ncs_overrun _ _ _ Hl Hs Ho). reflexivity. Qed.

Lemma read_string_overrun buf ptr h :
  blen buf < M64 -> slice buf ptr 4 = Some h -> blen buf - ptr - 4 < le_val h ->
  read_string buf ptr = Err EFmtSize.
Proof. intros Hl Hs Ho. unfold read_string. rewrite (ncs_overrun _ _ _ Hl Hs Ho). reflexivity. Qed.

Section WithJson.
  Variable jp : list N -> option (list N).

  Theorem load_overrun t : forall buf ptr h,
    first_chunk t = true ->
    blen buf < M64 -> slice buf ptr 4 = Some h -> blen buf - ptr - 4 < le_val h ->
    load jp t buf ptr = Err EFmtSize.
  Proof.
    induction t as [|n| |n|e IH|e IH|k IHk x IHx|a IHa b IHb|e IH| ]; intros buf ptr h F Hl Hs Ho;
      cbn [first_chunk] in F; try discriminate.
    - cbn [load]. rewrite (read_chunk_overrun _ _ _ _ Hl Hs Ho). reflexivity.
    - cbn [load]. rewrite (read_string_overrun _ _ _ Hl Hs Ho). reflexivity.
    - cbn [load]. rewrite (ncs_overrun _ _ _ Hl Hs Ho). reflexivity.
    - cbn [load]. unfold load_container. rewrite (read_chunk_overrun _ _ _ _ Hl Hs Ho). reflexivity.
    - cbn [load]. unfold load_container. rewrite (read_chunk_overrun _ _ _ _ Hl Hs Ho). reflexivity.
    - rewrite load_map_unfold. unfold load_container. rewrite (read_chunk_overrun _ _ _ _ Hl Hs Ho). reflexivity.
    - rewrite load_pair_unfold. unfold pair_step. rewrite (IHa _ _ _ F Hl Hs Ho). reflexivity.
    - cbn [load]. rewrite (read_chunk_overrun _ _ _ _ Hl Hs Ho). reflexivity.
    - cbn [load]. rewrite (read_string_overrun _ _ _ Hl Hs Ho). reflexivity.
  Qed.
End WithJson.

(* mutation of the length field of a chunk inside an archive: pre ++ [4 bytes] ++ body ++ post *)
Lemma slice_mid pre h rest : slice (pre ++ h ++ rest) (blen pre) (blen h) = Some h.
Proof. apply slice_app. Qed.

Lemma mutated_length_rejected pre h body post :
  blen h = 4 -> blen (pre ++ h ++ body ++ post) < M64 ->
  blen body + blen post < le_val h ->
  next_chunk_size (pre ++ h ++ body ++ post) (blen pre) = Err EFmtSize.
Proof.
  intros H4 Hl Ho. apply (ncs_overrun _ _ h Hl).
  - rewrite <- H4. apply slice_mid.
  - rewrite !blen_app. rewrite H4. lia.
Qed.

(* summary statement for arbitrary input: the loader either returns a value, having consumed
   bytes inside the buffer that cover everything it returns, or fails with one of the archive
   exceptions; it never reads outside the buffer and never spins *)
Definition cpp_exception (e : err) : bool :=
  match e with EOob | EFuel => false | _ => true end.

Theorem load_safe jp t buf ptr :
  blen buf < M64 -> ptr <= blen buf -> elems_ok t = true ->
  match load jp t buf ptr with
  | Ok (v, q) => ptr + min_size t <= q /\ q <= blen buf /\ payload v <= q - ptr
  | Err e => cpp_exception e = true
  end.
Proof.
  intros Hl Hp He. destruct (load_good jp t buf Hl ptr Hp) as (G1 & G2 & G3).
  destruct (load jp t buf ptr) as [[v q]|e] eqn:E.
  - exact (G3 v q eq_refl).
  - destruct e; try reflexivity.
    + exfalso. apply (G2 He). reflexivity.
    + exfalso. apply G1. reflexivity.
Qed.

Theorem load_in_bounds jp t buf ptr :
  blen buf < M64 -> ptr <= blen buf -> load jp t buf ptr <> Err EOob.
Proof. intros Hl Hp. destruct (load_good jp t buf Hl ptr Hp) as (G1 & _). exact G1. Qed.
