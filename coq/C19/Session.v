(* C19: session_interface::save_data / load_data - round trip and safety on arbitrary bytes *)
From CppcmsV Require Import Base.Tac C19.Defs C19.Proofs C19.Roundtrip C19.SessDefs.
Local Open Scope N_scope.

(* ---------- the packed header ---------- *)
Lemma pack_hdr_lt ks ex ds : ks < 1024 -> ds < 2097152 -> pack_hdr ks ex ds < M32.
Proof. unfold pack_hdr, M32. destruct ex; lia. Qed.
Lemma pack_hdr_ks ks ex ds : ks < 1024 -> pack_hdr ks ex ds mod 1024 = ks.
Proof. unfold pack_hdr. destruct ex; lia. Qed.
Lemma pack_hdr_ex ks ex ds : ks < 1024 -> ((pack_hdr ks ex ds / 1024) mod 2 =? 1) = ex.
Proof. unfold pack_hdr. destruct ex; lia. Qed.
Lemma pack_hdr_ds ks ex ds : ks < 1024 -> pack_hdr ks ex ds / 2048 = ds.
Proof. unfold pack_hdr. destruct ex; lia. Qed.

(* ---------- save then load ---------- *)
Lemma save_data_cons k ex v r s :
  save_data ((k, ex, v) :: r) = SOk s ->
  blen k < 1024 /\ blen v < 2097152 /\
  exists s', save_data r = SOk s' /\ s = le_bytes 4 (pack_hdr (blen k) ex (blen v)) ++ k ++ v ++ s'.
Proof.
  cbn [save_data].
  destruct (N.leb_spec 1024 (blen k)) as [H1|H1]; [discriminate|].
  destruct (N.leb_spec 2097152 (blen v)) as [H2|H2]; [discriminate|].
  destruct (save_data r) as [s'|e]; [|discriminate].
  intros E. inversion E; subst s. repeat split; try assumption. exists s'. split; reflexivity.
Qed.

Lemma load_after_save m : forall pre acc s fuel,
  save_data m = SOk s -> (length m < fuel)%nat ->
  load_data_aux fuel (pre ++ s) (blen pre) acc = SOk (rev acc ++ m).
Proof.
  induction m as [|[[k ex] v] r IH]; intros pre acc s fuel Hs Hf.
  - cbn [save_data] in Hs. inversion Hs; subst s. rewrite !app_nil_r.
    destruct fuel as [|f]; cbn [load_data_aux]; rewrite N.leb_refl; reflexivity.
  - apply save_data_cons in Hs. destruct Hs as (Hk & Hv & s' & Hs' & ->).
    destruct fuel as [|f]; [cbn [length] in Hf; lia|].
    set (hdr := le_bytes 4 (pack_hdr (blen k) ex (blen v))).
    assert (blen hdr = 4) as Hh by (unfold hdr; rewrite blen_le_bytes; reflexivity).
    cbn [load_data_aux].
    assert (blen (pre ++ hdr ++ k ++ v ++ s') = blen pre + 4 + blen k + blen v + blen s') as Hlen
      by (rewrite !blen_app, Hh; lia).
    rewrite Hlen.
    destruct (N.leb_spec (blen pre + 4 + blen k + blen v + blen s') (blen pre)) as [C|C]; [lia|].
    destruct (N.leb_spec (blen pre + 4) (blen pre + 4 + blen k + blen v + blen s')) as [C2|C2]; [|lia].
    cbn [negb].
    assert (slice (pre ++ hdr ++ k ++ v ++ s') (blen pre) 4 = Some hdr) as S1
      by (rewrite <- Hh; apply slice_app).
    rewrite S1.
    assert (le_val hdr = pack_hdr (blen k) ex (blen v)) as Hw
      by (unfold hdr; apply le_val_le_bytes4; apply pack_hdr_lt; assumption).
    cbv zeta. rewrite Hw, (pack_hdr_ks _ _ _ Hk), (pack_hdr_ex _ _ _ Hk), (pack_hdr_ds _ _ _ Hk).
    destruct (N.leb_spec (blen k + blen v) (blen pre + 4 + blen k + blen v + blen s' - (blen pre + 4))) as [C3|C3]; [|lia].
    cbn [negb].
    assert (slice (pre ++ hdr ++ k ++ v ++ s') (blen pre + 4) (blen k) = Some k) as S2.
    { replace (pre ++ hdr ++ k ++ v ++ s') with ((pre ++ hdr) ++ k ++ (v ++ s')) by (rewrite <- !app_assoc; reflexivity).
      replace (blen pre + 4) with (blen (pre ++ hdr)) by (rewrite blen_app, Hh; reflexivity).
      apply slice_app. }
    assert (slice (pre ++ hdr ++ k ++ v ++ s') (blen pre + 4 + blen k) (blen v) = Some v) as S3.
    { replace (pre ++ hdr ++ k ++ v ++ s') with ((pre ++ hdr ++ k) ++ v ++ s') by (rewrite <- !app_assoc; reflexivity).
      replace (blen pre + 4 + blen k) with (blen (pre ++ hdr ++ k)) by (rewrite !blen_app, Hh; lia).
      apply slice_app. }
    rewrite S2, S3.
    replace (pre ++ hdr ++ k ++ v ++ s') with ((pre ++ hdr ++ k ++ v) ++ s') by (rewrite <- !app_assoc; reflexivity).
    replace (blen pre + 4 + blen k + blen v) with (blen (pre ++ hdr ++ k ++ v)) by (rewrite !blen_app, Hh; lia).
    rewrite (IH (pre ++ hdr ++ k ++ v) ((k, ex, v) :: acc) s' f Hs') by (cbn [length] in Hf; lia).
    cbn [rev]. rewrite <- app_assoc. reflexivity.
Qed.

Lemma save_data_length m s : save_data m = SOk s -> (length m <= length s)%nat.
Proof.
  revert s. induction m as [|[[k ex] v] r IH]; intros s Hs.
  - cbn [length]. lia.
  - apply save_data_cons in Hs. destruct Hs as (_ & _ & s' & Hs' & ->).
    specialize (IH s' Hs'). rewrite !app_length, le_bytes_length. cbn [length]. lia.
Qed.

Theorem sess_roundtrip m s : save_data m = SOk s -> load_data s = SOk m.
Proof.
  intros Hs. unfold load_data.
  pose proof (load_after_save m [] [] s (S (length s)) Hs) as H.
  cbn [app rev] in H. apply H. pose proof (save_data_length m s Hs). lia.
Qed.

(* the map built from the records is the saved map when its keys are distinct (a std::map) *)
Lemma sess_upsert_new e m :
  existsb (fun y => leqb (fst (fst e)) (fst (fst y))) m = false -> sess_upsert e m = m ++ [e].
Proof.
  induction m as [|x r IH]; intros H; [reflexivity|].
  cbn [existsb] in H. apply orb_false_iff in H. destruct H as [H1 H2].
  cbn [sess_upsert]. rewrite H1, (IH H2). reflexivity.
Qed.

Lemma leqb_sym a b : leqb a b = leqb b a.
Proof.
  destruct (leqb a b) eqn:E.
  - apply leqb_eq in E. subst b. symmetry. apply leqb_eq. reflexivity.
  - destruct (leqb b a) eqn:E2; [|reflexivity]. apply leqb_eq in E2. subst b.
    assert (leqb a a = true) as T by (apply leqb_eq; reflexivity). congruence.
Qed.

Lemma sess_map_distinct l : forall acc,
  sess_keys_distinct (acc ++ l) = true ->
  fold_left (fun m e => sess_upsert e m) l acc = acc ++ l.
Proof.
  induction l as [|e r IH]; intros acc H; [rewrite app_nil_r; reflexivity|].
  cbn [fold_left].
  assert (existsb (fun y => leqb (fst (fst e)) (fst (fst y))) acc = false) as Hn.
  { clear IH. induction acc as [|a acc IHa]; [reflexivity|].
    cbn [app sess_keys_distinct] in H. apply andb_true_iff in H. destruct H as [H1 H2].
    cbn [existsb]. rewrite (IHa H2), orb_false_r.
    apply negb_true_iff in H1. rewrite existsb_app in H1. apply orb_false_iff in H1. destruct H1 as [_ H1].
    cbn [existsb] in H1. apply orb_false_iff in H1. destruct H1 as [H1 _]. rewrite leqb_sym. exact H1. }
  rewrite (sess_upsert_new e acc Hn).
  rewrite IH by (rewrite <- app_assoc; exact H). rewrite <- app_assoc. reflexivity.
Qed.

Theorem sess_map_roundtrip m s :
  save_data m = SOk s -> sess_keys_distinct m = true ->
  match load_data s with SOk l => sess_map l = m | SErr _ => False end.
Proof.
  intros Hs Hd. rewrite (sess_roundtrip m s Hs). unfold sess_map.
  apply (sess_map_distinct m []). exact Hd.
Qed.

(* ---------- arbitrary bytes: total, inside the buffer, and the records returned tile the buffer ---------- *)
Lemma sess_size_app a b : sess_size (a ++ b) = sess_size a + sess_size b.
Proof. induction a as [|[[k ex] v] r IH]; cbn [app sess_size]; [reflexivity|]. rewrite IH. lia. Qed.
Lemma sess_size_rev a : sess_size (rev a) = sess_size a.
Proof.
  induction a as [|[[k ex] v] r IH]; [reflexivity|].
  cbn [rev]. rewrite sess_size_app, IH. cbn [sess_size]. lia.
Qed.

Lemma load_data_aux_safe : forall fuel buf pos acc,
  pos <= blen buf -> (N.to_nat (blen buf - pos) < fuel)%nat -> sess_size acc = pos ->
  match load_data_aux fuel buf pos acc with
  | SOk l => sess_size l = blen buf
  | SErr e => e = SPack \/ e = SData
  end.
Proof.
  induction fuel as [|f IH]; intros buf pos acc Hp Hf Hacc; [lia|].
  cbn [load_data_aux].
  destruct (N.leb_spec (blen buf) pos) as [C|C].
  - rewrite sess_size_rev. lia.
  - destruct (N.leb_spec (pos + 4) (blen buf)) as [C2|C2]; cbn [negb]; [|left; reflexivity].
    destruct (slice_in_bounds buf pos 4 C2) as [h Sh]. rewrite Sh. cbv zeta.
    set (w := le_val h).
    destruct (N.leb_spec (w mod 1024 + w / 2048) (blen buf - (pos + 4))) as [C3|C3]; cbn [negb]; [|right; reflexivity].
    destruct (slice_in_bounds buf (pos + 4) (w mod 1024) ltac:(lia)) as [k Sk].
    destruct (slice_in_bounds buf (pos + 4 + w mod 1024) (w / 2048) ltac:(lia)) as [v Sv].
    rewrite Sk, Sv.
    apply slice_some in Sk. apply slice_some in Sv. destruct Sk as [_ Lk]. destruct Sv as [_ Lv].
    apply IH; [lia|lia|].
    cbn [sess_size]. rewrite Lk, Lv, Hacc. lia.
Qed.

Theorem sess_load_safe buf :
  match load_data buf with
  | SOk l => sess_size l = blen buf
  | SErr e => e = SPack \/ e = SData
  end.
Proof.
  unfold load_data. apply load_data_aux_safe; [lia| |reflexivity].
  unfold blen. lia.
Qed.

(* saving never produces something the loader refuses, and reports over-long keys/values *)
Lemma save_data_errors m e : save_data m = SErr e -> e = SKeyLong \/ e = SValLong.
Proof.
  induction m as [|[[k ex] v] r IH]; cbn [save_data]; [discriminate|].
  destruct (1024 <=? blen k); [intros E; inversion E; left; reflexivity|].
  destruct (2097152 <=? blen v); [intros E; inversion E; right; reflexivity|].
  destruct (save_data r) as [s|e']; [discriminate|].
  intros E. inversion E; subst e'. apply IH. reflexivity.
Qed.
