(* C19: the convenience calls that store objects.
     session_interface::store_data(key, obj) = serialization_traits<T>::save(obj, buffer) [archive a; obj.save(a); buffer = a.str()]; set(key, buffer)
     session_interface::fetch_data(key, obj) = buffer = get(key) [throws when the key is not set]; archive a; a.str(buffer); obj.load(a)
   (cppcms/session_interface.h, cppcms/serialization_classes.h; cache_interface::store_data / fetch_data are the same two steps around
   store(key, buffer) / fetch(key, buffer)).  The session map is the association list of SessDefs.v (std::map: distinct keys);
   set keeps the exposed flag of an existing entry (data_[key].value = v).
   Proved: fetch_data after store_data gives the object back, at once and after the map went through save_data -> storage -> load_data of
   the next request; other keys are not disturbed. *)
From CppcmsV Require Import Base.Tac C19.Defs C19.Proofs C19.Loader C19.Roundtrip C19.SessDefs C19.Session.
Local Open Scope N_scope.

Fixpoint sess_get (k : list N) (m : list sentry) : option (list N) :=
  match m with
  | [] => None
  | (k', _, v) :: r => if leqb k k' then Some v else sess_get k r
  end.

Fixpoint sess_set (k d : list N) (m : list sentry) : list sentry :=
  match m with
  | [] => [(k, false, d)]
  | (k', ex, v) :: r => if leqb k k' then (k', ex, d) :: r else (k', ex, v) :: sess_set k d r
  end.

Definition store_data (t : ty) (k : list N) (v : value) (m : list sentry) : list sentry := sess_set k (enc t v) m.

(* None = "Undefined session key" (cppcms_error) *)
Definition fetch_data (jp : list N -> option (list N)) (t : ty) (k : list N) (m : list sentry) : option (res (value * N)) :=
  match sess_get k m with
  | None => None
  | Some d => Some (load jp t d 0)
  end.

Lemma leqb_refl a : leqb a a = true.
Proof. apply leqb_eq. reflexivity. Qed.

Lemma sess_get_set k d m : sess_get k (sess_set k d m) = Some d.
Proof.
  induction m as [|[[k' ex] v] r IH]; cbn [sess_set sess_get].
  - rewrite leqb_refl. reflexivity.
  - destruct (leqb k k') eqn:E; cbn [sess_get]; rewrite E; [reflexivity|exact IH].
Qed.

Lemma sess_get_set_other k k2 d m : leqb k k2 = false -> sess_get k (sess_set k2 d m) = sess_get k m.
Proof.
  intros Hne. induction m as [|[[k' ex] v] r IH]; cbn [sess_set sess_get].
  - rewrite Hne. reflexivity.
  - destruct (leqb k2 k') eqn:E; cbn [sess_get].
    + apply leqb_eq in E. subst k'. rewrite Hne. reflexivity.
    + destruct (leqb k k'); [reflexivity|exact IH].
Qed.

(* the keys of the map: set adds the key at most once *)
Lemma existsb_key_set x k d r :
  existsb (fun y : list N * bool * list N => leqb x (fst (fst y))) (sess_set k d r)
  = existsb (fun y : list N * bool * list N => leqb x (fst (fst y))) r || (leqb x k && negb (existsb (fun y : list N * bool * list N => leqb k (fst (fst y))) r)).
Proof.
  induction r as [|[[k' ex] v] r IH]; cbn [sess_set existsb fst].
  - cbn [negb]. rewrite andb_true_r, orb_false_r. reflexivity.
  - destruct (leqb k k') eqn:E; cbn [existsb fst negb orb].
    + rewrite andb_false_r, orb_false_r. reflexivity.
    + rewrite IH. rewrite orb_assoc. reflexivity.
Qed.

Lemma set_keeps_distinct k d m : sess_keys_distinct m = true -> sess_keys_distinct (sess_set k d m) = true.
Proof.
  induction m as [|[[k' ex] v] r IH]; intros H; cbn [sess_set sess_keys_distinct existsb] in *.
  - reflexivity.
  - apply andb_true_iff in H. destruct H as [H1 H2]. cbn [fst] in H1.
    destruct (leqb k k') eqn:E; cbn [sess_keys_distinct fst].
    + rewrite H1, H2. reflexivity.
    + rewrite (IH H2), andb_true_r.
      rewrite existsb_key_set. apply negb_true_iff in H1. rewrite H1. cbn [orb].
      rewrite (leqb_sym k' k), E. reflexivity.
Qed.

Section StoreFetch.
  Variable jp : list N -> option (list N).

  Theorem fetch_after_store t v k m :
    wt jp t v = true -> elems_ok t = true -> blen (enc t v) < M64 ->
    fetch_data jp t k (store_data t k v m) = Some (Ok (v, blen (enc t v))).
  Proof.
    intros W E Hl. unfold fetch_data, store_data. rewrite sess_get_set.
    rewrite (roundtrip_at_eof jp t v W E Hl). reflexivity.
  Qed.

  Theorem store_keeps_other_keys t v k k2 m :
    leqb k k2 = false -> fetch_data jp t k (store_data t k2 v m) = fetch_data jp t k m.
  Proof.
    intros Hne. unfold fetch_data, store_data. rewrite (sess_get_set_other _ _ _ _ Hne). reflexivity.
  Qed.

  (* the next request: the whole map goes through save_data -> session storage -> load_data -> data[key] = entry *)
  Theorem fetch_in_next_request t v k m s :
    wt jp t v = true -> elems_ok t = true -> blen (enc t v) < M64 ->
    sess_keys_distinct m = true -> save_data (store_data t k v m) = SOk s ->
    match load_data s with
    | SOk l => fetch_data jp t k (sess_map l) = Some (Ok (v, blen (enc t v)))
    | SErr _ => False
    end.
  Proof.
    intros W E Hl Hd Hs.
    pose proof (sess_map_roundtrip _ _ Hs (set_keeps_distinct k (enc t v) m Hd)) as H.
    destruct (load_data s) as [l|e]; [|exact H].
    rewrite H. apply fetch_after_store; assumption.
  Qed.
End StoreFetch.

Definition sf_t : ty := TPair (TPodVec 1) (TPair TStr (TPair (TPodVec 4) (TPod 4))).
Definition sf_v : value := VPair (VBytes []) (VPair (VBytes []) (VPair (VBytes []) (VBytes [42;0;0;0]))).
Definition sf_m : list sentry := [([97], true, [1]); ([111;98;106], true, [9;9]); ([122], false, [])].
Example store_fetch_nonvacuous :
  store_data sf_t [111;98;106] sf_v sf_m = [([97], true, [1]); ([111;98;106], true, [0;0;0;0;0;0;0;0;0;0;0;0;4;0;0;0;42;0;0;0]); ([122], false, [])]
  /\ fetch_data (fun _ => None) sf_t [111;98;106] (store_data sf_t [111;98;106] sf_v sf_m) = Some (Ok (sf_v, 20))
  /\ fetch_data (fun _ => None) sf_t [113] sf_m = None
  /\ match save_data (store_data sf_t [111;98;106] sf_v sf_m) with
     | SOk s => match load_data s with SOk l => fetch_data (fun _ => None) sf_t [111;98;106] (sess_map l) = Some (Ok (sf_v, 20)) | SErr _ => False end
     | SErr _ => False
     end.
Proof. split; [|split; [|split]]; vm_compute; reflexivity. Qed.
