(* C19: the wire format is unambiguous.  Different objects of a type have different archives, and the archive of one object is
   never a proper prefix of the archive of another object of the same type - which is why objects can be written one after
   another without separators and why a loader always knows where its object ends. *)
From CppcmsV Require Import Base.Tac C19.Defs C19.Proofs C19.Loader C19.Roundtrip.
Local Open Scope N_scope.

Section Unique.
  Variable jp : list N -> option (list N).

  Theorem enc_prefix_free t v1 v2 rest :
    wt jp t v1 = true -> wt jp t v2 = true -> elems_ok t = true -> blen (enc t v2) < M64 ->
    enc t v2 = enc t v1 ++ rest -> rest = [] /\ v1 = v2.
  Proof.
    intros W1 W2 E Hl Heq.
    assert (blen (enc t v1) < M64) as Hl1 by (rewrite Heq, blen_app in Hl; lia).
    pose proof (roundtrip_at_eof jp t v1 W1 E Hl1) as R1.
    pose proof (roundtrip_at_eof jp t v2 W2 E Hl) as R2.
    assert (blen (enc t v1 ++ rest) < M64) as Hl2 by (rewrite <- Heq; exact Hl).
    pose proof (load_ext jp t _ rest _ _ Hl2 R1) as R1'.
    rewrite <- Heq, R2 in R1'. injection R1' as Hv Hp.
    assert (blen (enc t v2) = blen (enc t v1) + blen rest) as Hsum by (rewrite Heq, blen_app; reflexivity).
    assert (blen rest = 0) as Hr by lia.
    split; [|symmetry; exact Hv].
    destruct rest as [|x r]; [reflexivity|]. rewrite blen_cons in Hr. lia.
  Qed.

  Corollary enc_injective t v1 v2 :
    wt jp t v1 = true -> wt jp t v2 = true -> elems_ok t = true -> blen (enc t v2) < M64 ->
    enc t v1 = enc t v2 -> v1 = v2.
  Proof.
    intros W1 W2 E Hl Heq.
    apply (enc_prefix_free t v1 v2 [] W1 W2 E Hl). rewrite app_nil_r. symmetry. exact Heq.
  Qed.
End Unique.
