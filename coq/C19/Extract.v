Require Extraction.
Require Import ExtrOcamlBasic.
From Coq Require Import NArith ZArith List.
From CppcmsV Require Import C19.Defs C19.SessDefs.
Definition keep_types : (N * Z * nat) := (0%N, 0%Z, 0%nat).
Extraction "c19m.ml" keep_types enc load wt elems_ok payload value_eqb blen le_bytes le_val next_chunk_size next_chunk_size_old
  save_data load_data sess_map sess_keys_distinct sess_size pack_hdr.
