(* C19 tie of the archive_traits model to cppcms/archive_traits.h.
   checks/C19.py (traits_leafs) verifies that the statement sequence of archive_traits<std::vector<Type>>::save/load
   in the macro CPPCMS_TRIVIAL_ARCHIVE, of archive_traits<Type>, of archive_traits<std::string>::load, of
   details::archive_load_container and of the map loader (CPPCMS_CONTAINER_ARCHIVE2) is the one the model was written
   for, and cuts out their size expressions and the loop condition / step for tools/cxx2v.py (coq/gen/Gen_C19.v,
   regenerated from the CURRENT header on every run).  Here: the generated expressions are the model's, the
   POD-vector loader assembled from them (and from the generated chunk reader of Link.v) is the TPodVec case of load,
   and the counting-up element loop is the model's counting-down loop. *)
From CppcmsV Require Import Base.Tac Base.CSem Base.CSemFacts Base.Sweep C19.Defs C19.Proofs C19.Link C19.Cursor gen.Gen_C19.
Local Open Scope N_scope.

(* size_t n = a.next_chunk_size() / sizeof(Type) *)
Lemma link_pv_count c sz : c < M64 -> 0 < sz ->
  g_c19_pv_count (Z.of_N c) (Z.of_N sz) = Z.of_N (podvec_count c sz).
Proof.
  intros Hc Hs. unfold g_c19_pv_count, podvec_count, wrapu.
  rewrite Z.quot_div_nonneg by lia. rewrite <- N2Z.inj_div.
  assert (c / sz <= c) as Hle.
  { apply N.div_le_upper_bound; [lia|]. rewrite <- (N.mul_1_l c) at 1. apply N.mul_le_mono_r. lia. }
  unfold M64 in Hc. change (2 ^ 64)%Z with 18446744073709551616%Z.
  set (q := c / sz) in *. clearbody q.
  rewrite Z.mod_small; [reflexivity|lia].
Qed.

(* a.read_chunk(p, n*sizeof(Type)) *)
Lemma link_pv_len n sz : g_c19_pv_len (Z.of_N n) (Z.of_N sz) = Z.of_N (podvec_len n sz).
Proof.
  unfold g_c19_pv_len, podvec_len, mul64, wrapu, M64. change (2 ^ 64)%Z with 18446744073709551616%Z.
  rewrite <- N2Z.inj_mul. rewrite N2Z.inj_mod. reflexivity.
Qed.

(* save: size_t len = v.size()*sizeof(Type): for a vector holding blen b / sz elements this is the payload written *)
Lemma link_pv_savelen (b : list N) sz : 0 < sz -> blen b mod sz = 0 -> blen b < M64 ->
  Z.to_N (g_c19_pv_savelen (Z.of_N (blen b / sz)) (Z.of_N sz)) = blen b.
Proof.
  intros Hs Hm Hl. unfold g_c19_pv_savelen, wrapu, M64 in *. change (2 ^ 64)%Z with 18446744073709551616%Z.
  rewrite <- N2Z.inj_mul.
  assert (blen b / sz * sz = blen b) as ->.
  { pose proof (N.div_mod (blen b) sz ltac:(lia)) as H. rewrite Hm in H. lia. }
  rewrite Z.mod_small by lia. apply N2Z.id.
Qed.

(* the loader of std::vector<arithmetic type> assembled from the generated pieces ... *)
Definition gen_load_podvec (sz : N) (buf : list N) (ptr : N) : res (value * N) :=
  match gen_next_chunk_size buf ptr with
  | Err e => Err e
  | Ok c =>
      let n := Z.to_N (g_c19_pv_count (Z.of_N c) (Z.of_N sz)) in
      match gen_read_chunk buf ptr (Z.to_N (g_c19_pv_len (Z.of_N n) (Z.of_N sz))) with
      | Err e => Err e
      | Ok (b, p) => Ok (VBytes b, p)
      end
  end.

Lemma ncs_lt_M64 buf ptr c : blen buf < M64 -> next_chunk_size buf ptr = Ok c -> c < M64.
Proof.
  intros Hb H. pose proof (ncs_sound buf ptr c Hb H). lia.
Qed.

(* ... is the TPodVec case of the model's load *)
Theorem link_load_podvec jp sz buf ptr : blen buf < M64 -> ptr < M64 -> 0 < sz ->
  gen_load_podvec sz buf ptr = load jp (TPodVec sz) buf ptr.
Proof.
  intros Hb Hp Hs. rewrite load_podvec_is_load. unfold gen_load_podvec, load_podvec.
  rewrite (link_next_chunk_size _ _ Hb Hp).
  destruct (next_chunk_size buf ptr) as [c|e] eqn:Hn; [|reflexivity].
  cbv zeta. rewrite (link_pv_count c sz (ncs_lt_M64 _ _ _ Hb Hn) Hs), N2Z.id, link_pv_len, N2Z.id.
  rewrite (link_read_chunk _ _ _ Hb Hp). reflexivity.
Qed.

(* the early-return variant is NOT what the generated pieces assemble to (they call read_chunk for n = 0 too) *)
Example link_podvec_distinguishes_early_return :
  gen_load_podvec 4 [0;0;0;0;4;0;0;0;116;97;105;108] 0 = Ok (VBytes [], 4)
  /\ load_podvec_early 4 [0;0;0;0;4;0;0;0;116;97;105;108] 0 = Ok (VBytes [], 0).
Proof. split; vm_compute; reflexivity. Qed.

(* ---------- the element loop: for(size_t i=0; i<n; i++) ---------- *)
Lemma link_ct_more i n : g_c19_ct_more (Z.of_N i) (Z.of_N n) = (i <? n).
Proof. unfold g_c19_ct_more. lia. Qed.
Lemma link_ct_next i : i + 1 < M64 -> Z.to_N (g_c19_ct_next (Z.of_N i)) = i + 1.
Proof.
  intros H. unfold g_c19_ct_next, wrapu, M64 in *. cbv zeta. change (2 ^ 64)%Z with 18446744073709551616%Z.
  rewrite Z.mod_small by lia. lia.
Qed.

Fixpoint gen_loop (step : N -> res (value * N)) (ins : value -> list value -> list value)
         (fuel : nat) (i n ptr : N) (acc : list value) {struct fuel} : res (list value * N) :=
  if negb (g_c19_ct_more (Z.of_N i) (Z.of_N n)) then Ok (rev acc, ptr)
  else match fuel with
       | O => Err EFuel
       | S f =>
           match step ptr with
           | Err e => Err e
           | Ok (v, p) => gen_loop step ins f (Z.to_N (g_c19_ct_next (Z.of_N i))) n p (ins v acc)
           end
       end.

Theorem link_loop step ins : forall fuel i n ptr acc, i <= n -> n < M64 ->
  gen_loop step ins fuel i n ptr acc = loop step ins fuel (n - i) ptr acc.
Proof.
  induction fuel as [|f IH]; intros i n ptr acc Hi Hn; cbn [gen_loop loop]; rewrite link_ct_more.
  - destruct (N.ltb_spec i n) as [Hlt|Hge]; cbn [negb].
    + assert (n - i =? 0 = false) as -> by (apply N.eqb_neq; lia). reflexivity.
    + assert (n - i =? 0 = true) as -> by (apply N.eqb_eq; lia). reflexivity.
  - destruct (N.ltb_spec i n) as [Hlt|Hge]; cbn [negb].
    + assert (n - i =? 0 = false) as -> by (apply N.eqb_neq; lia).
      destruct (step ptr) as [[v p]|e]; [|reflexivity].
      rewrite link_ct_next by lia. rewrite IH by lia.
      replace (n - (i + 1)) with (n - i - 1) by lia. reflexivity.
    + assert (n - i =? 0 = true) as -> by (apply N.eqb_eq; lia). reflexivity.
Qed.

(* the container loader with the generated loop (count read as one 8-byte chunk: archive_traits<size_t>::load) *)
Definition gen_load_container (step : N -> res (value * N)) (ins : value -> list value -> list value)
           (buf : list N) (ptr : N) : res (value * N) :=
  match read_chunk buf ptr 8 with
  | Err e => Err e
  | Ok (b, p) =>
      match gen_loop step ins (S (length buf)) 0 (le_val b) p [] with
      | Err e => Err e
      | Ok (l, p') => Ok (VList l, p')
      end
  end.

Theorem link_load_container step ins buf ptr :
  (forall b p, read_chunk buf ptr 8 = Ok (b, p) -> le_val b < M64) ->
  gen_load_container step ins buf ptr = load_container step ins buf ptr.
Proof.
  intros Hc. unfold gen_load_container, load_container.
  destruct (read_chunk buf ptr 8) as [[b p]|e] eqn:Hr; [|reflexivity].
  rewrite link_loop by (try lia; exact (Hc b p eq_refl)).
  rewrite N.sub_0_r. reflexivity.
Qed.

(* ---------- smart pointers: char empty = d.get()==0; write_chunk(&empty,1); if(!empty) save the pointee
              char empty; read_chunk(&empty,1); if(empty) reset() else { reset(new V()); load the pointee } ---------- *)
Lemma link_ptr_flag (isnull : bool) : Z.to_N (g_c19_ptr_flag isnull) = if isnull then 1 else 0.
Proof. destruct isnull; reflexivity. Qed.
Lemma link_ptr_isnull b : b < 256 -> g_c19_ptr_isnull (wraps 8 (Z.of_N b)) = negb (b =? 0).
Proof.
  intros H. apply Bool.eqb_prop.
  apply (sweep256 (fun b => Bool.eqb (g_c19_ptr_isnull (wraps 8 (Z.of_N b))) (negb (b =? 0)))); [vm_compute; reflexivity|exact H].
Qed.
Lemma link_ptr_saves (isnull : bool) : g_c19_ptr_saves (g_c19_ptr_flag isnull) = negb isnull.
Proof. destruct isnull; reflexivity. Qed.

(* the writer with the generated flag / test is the model's *)
Definition gen_enc_ptr (f : value -> list N) (o : option value) : list N :=
  let isnull := match o with None => true | Some _ => false end in
  let flag := g_c19_ptr_flag isnull in
  chunk [Z.to_N flag] ++ (if g_c19_ptr_saves flag then match o with Some x => f x | None => [] end else []).
Theorem link_enc_ptr e o : gen_enc_ptr (enc e) o = enc (TPtr e) (VPtr o).
Proof. destruct o as [x|]; cbn [enc]; unfold gen_enc_ptr; cbv zeta; rewrite link_ptr_saves, link_ptr_flag; cbn [negb]; [reflexivity|rewrite app_nil_r; reflexivity]. Qed.

(* the loader with the generated null test is the model's (bytes of the buffer < 256: the flag is one char) *)
Definition gen_load_ptr (step : N -> res (value * N)) (buf : list N) (ptr : N) : res (value * N) :=
  match read_chunk buf ptr 1 with
  | Err e => Err e
  | Ok (b, p) =>
      if g_c19_ptr_isnull (wraps 8 (Z.of_N (le_val b))) then Ok (VPtr None, p)
      else match step p with
           | Err e => Err e
           | Ok (x, p') => Ok (VPtr (Some x), p')
           end
  end.
Lemma read_chunk_bytes_ok buf ptr n b p : bytes_ok buf -> read_chunk buf ptr n = Ok (b, p) -> bytes_ok b /\ blen b = n.
Proof.
  intros Hb H. unfold read_chunk in H.
  destruct (next_chunk_size buf ptr) as [next|e]; [|discriminate].
  destruct (negb (next =? n)); [discriminate|].
  destruct (slice buf (add64 ptr 4) n) as [s|] eqn:Hs; [|discriminate].
  inversion H; subst s p. split; [exact (slice_bytes_ok _ _ _ _ Hb Hs)|exact (proj2 (slice_some _ _ _ _ Hs))].
Qed.
Theorem link_load_ptr jp e buf ptr : bytes_ok buf ->
  gen_load_ptr (load jp e buf) buf ptr = load jp (TPtr e) buf ptr.
Proof.
  intros Hb. unfold gen_load_ptr. cbn [load].
  destruct (read_chunk buf ptr 1) as [[b p]|err] eqn:Hr; [|reflexivity].
  destruct (read_chunk_bytes_ok _ _ _ _ _ Hb Hr) as [Hok Hlen].
  pose proof (le_val_bound b Hok) as Hlt. rewrite Hlen in Hlt. change (256 ^ 1) with 256 in Hlt.
  rewrite (link_ptr_isnull _ Hlt). reflexivity.
Qed.
